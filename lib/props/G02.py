"""G02  (growth check, not one of C01-C20)  The koordlet CPU-burst control loop: per-container CFS quota scaled between base
and ceiling by throttling / node state / token-bucket limiter, pod-level quota and write order, static cpu.cfs_burst_us,
policy switch, limiter recycling  (family CpuBurst; /repo/pkg/koordlet/qosmanager/plugins/cpuburst/cpu_burst.go)."""

CLAUSES = {
    "B": "quota-outside-base-ceiling",
    "U": "raised-without-throttled-idle-allowed",
    "O": "not-lowered-under-overload-or-exhausted-limiter",
    "F": "not-at-base-with-quota-scaling-off",
    "X": "ungoverned-file-changed",
    "H": "pod-quota-below-its-containers-or-drifted",
    "W": "file-changed-without-logged-write",
    "S": "static-cfs-burst-value",
    "T": "limiter-tokens",
    "R": "limiter-recycling",
    "K": "transition",
}
ORDER = ["W", "X", "B", "U", "O", "F", "H", "S", "T", "R", "K"]


def sig(fl):
    """label of a rejected event (diagnostic + known-finding key only; the verdict was TLC's).  In explain mode the trace
    spec prints which clauses of CpuBurst.tla section 3 hold for the rejected round."""
    e = fl["event"]
    op = e.get("op")
    if op != "round":
        return "op=%s clause=env" % op
    if e.get("panic"):
        return "op=round clause=panic"
    exp = fl.get("expected")
    if isinstance(exp, dict) and isinstance(exp.get("clauses"), dict):
        bad = [c for c in ORDER if exp["clauses"].get(c) is False]
        if bad:
            how = ""
            if bad[0] == "H":
                # a quota write (pod or container level) that the executor's write cache suppressed although the file holds
                # another value (someone else - kubelet's in-place resize - wrote the file since the cached write)
                fq = (e.get("obs") or {}).get("fq", {})
                for w in e.get("ws", []):
                    if w.get("kind") == "q" and not w.get("eff") and fq.get(w.get("p"), {}).get(w.get("k")) != w.get("v"):
                        how = " how=write-suppressed-by-stale-executor-cache"
                        break
            return "op=round clause=%s kind=%s%s" % (bad[0], CLAUSES[bad[0]], how)
        return "op=round clause=state kind=burst-budget-or-token-bounds"
    if fl.get("violated"):
        return "op=round clause=%s" % fl["violated"]
    return "op=round clause=not-explained"      # beyond the explain budget of one run


CONF = {
    "id": "G02", "family": "CpuBurst",
    "mc": [
        {"module": "MC_CpuBurst", "cfg": {"quick": "MC_quick.cfg", "thorough": "MC_quick.cfg"}, "timeout": 600},
        {"module": "MC_CpuBurst", "cfg": {"quick": "MC_two.cfg", "thorough": "MC_two.cfg"}, "timeout": 600},
    ],
    "go": [{"pkg": "pkg/koordlet/qosmanager/plugins/cpuburst", "test": "TestVerifG02", "pfm": True, "timeout": 1200}],
    "trace": {"module": "CpuBurstTrace", "cfg": "Trace.cfg", "timeout": 1500},
    "signature": sig,
    "selftest_keys": ("obs",),
    "assumptions": [
        "cgroup files are plain files under a temp cgroup root (cgroup v1 names): a write the kernel would refuse succeeds here",
        "the states informer and the metric cache are fakes that hand out exactly the round's inputs; metric windows and "
        "the TSDB are not exercised",
        "the plugin reads the wall clock; a tick of d seconds is executed by moving every limiter's lastUpdateTime back by "
        "d seconds; a limiter idle for exactly its expire duration may or may not be recycled",
        "the executor's cache never expires by itself within a segment (forced rewrite 60 s / expiry 2 min are `expire` events)",
        "NodeSLO always carries a complete cpuBurstStrategy (as koord-manager renders it); values stay below 2^31 and "
        "cpu.cfs_burst_us below the validator's 10^8",
        "a limited container's quota file is never -1; in-place resize goes from one limit to another (never to/from unlimited)",
    ],
}
