import os


def sig(fl):
    e = fl["event"]
    if e.get("op") == "restart" and "podFirst" in e:      # reservation part
        return "op=restart part=reservation podBeforeReservation=%s" % ("yes" if e["podFirst"] > 0 else "no")
    if e.get("op") == "restart":                          # device part
        return "op=restart part=device order=%s" % e.get("order")
    return "op=%s kind=%s" % (e.get("op"), e.get("kind"))


_GO = {
    "device": {"pkg": "pkg/scheduler/plugins/deviceshare", "test": "TestVerifC19Device", "family": "Device", "uses_script": False,
               "trace": {"module": "DeviceTrace", "cfg": "Trace.cfg"}},
    "reservation": {"pkg": "pkg/scheduler/plugins/reservation", "test": "TestVerifC19Reservation", "family": "Reservation",
                    "uses_script": False, "trace": {"module": "ReservationTrace", "cfg": "Trace.cfg"}},
}

CONF = {
    "id": "C19", "family": "Restart",
    "mc": [],
    "gen": [],
    "go": [_GO[k] for k in os.environ.get("C19X_PARTS", "device,reservation").split(",")],
    "trace": {"module": "DeviceTrace", "cfg": "Trace.cfg"},
    "signature": sig,
    "assumptions": [],
}
