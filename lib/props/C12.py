"""C12 - hierarchical cgroup rewrites never pass through an invalid hierarchy (family CgroupTree)."""


def _leq(kind, a, b):
    return set(a) <= set(b) if kind == "cpuset" else a <= b


RECOVER_HOWS = ("disabled", "cfsquota", "becpumgr", "static")


def _snapshot_before(seg, b):
    for k in range(b - 1, -1, -1):
        if "files" in seg[k] or "old" in seg[k]:
            return seg[k].get("files", seg[k].get("old"))
    return None


def _shifted_single_pass(seg, b, i, par):
    """rewrite begun at seg[b]: the target does not cover the old values, and every write up to event i put a cgroup's target
    into a cgroup whose parent already held its target (one top-down pass of the target values)"""
    tgt = [set(x) for x in seg[b].get("target", [])]
    old = _snapshot_before(seg, b)
    if old is None or len(old) != len(tgt) or len(par) != len(tgt):
        return False
    val = [set(x) for x in old]
    if all(val[n] <= tgt[n] for n in range(len(tgt))):
        return False                      # the pool covers what is held: a plain widening, V is demanded
    for k in range(b + 1, i + 1):
        ev = seg[k]
        if ev.get("op") != "call":
            return False
        f = [set(x) for x in ev.get("files", [])]
        for n in ev.get("written", []):
            if f[n - 1] != tgt[n - 1] or (par[n - 1] and val[par[n - 1] - 1] != tgt[par[n - 1] - 1]):
                return False
        val = f
    return True


def sig(fl):
    """label of a rejected event (diagnostic + known-finding key only; the verdict was TLC's)"""
    seg = fl["segment"]
    i = fl["fail_index"]
    e = fl["event"]
    r = seg[0]
    kind, par = r.get("kind"), r.get("par", [])
    head = "driver=%s file=%s ver=%s" % (r.get("driver"), r.get("file"), r.get("ver"))
    if any(x.get("nested") for x in seg[:i + 1]):
        head += " overlapping-batches"       # a second caller's batch got in while one was in progress (leveled driver, par step)
    # the rewrite this event belongs to
    b = None
    for k in range(i, -1, -1):
        if seg[k].get("op") == "begin":
            b = k
            break
    if e.get("op") == "call":
        f = e.get("files", [])
        bad = [n + 1 for n in range(len(par)) if par[n] and n < len(f) and not _leq(kind, f[n], f[par[n] - 1])]
        if not bad:
            return "%s clause=call-inconsistent" % head
        how = seg[b].get("how", "cpuset") if b is not None else "cpuset"
        if r.get("driver") == "suppress" and how in RECOVER_HOWS:
            # the rounds that recover BE cgroups to the BE pool: is this the recorded single top-down pass towards a pool that
            # does not cover what the cgroups held (mirror of `excused` in CgroupTreeTrace.tla)?
            return "%s clause=V how=%s%s" % (head, how, " kind=recover-writes-shifted-pool-top-down" if _shifted_single_pass(seg, b, i, par) else "")
        return "%s clause=V" % head
    if e.get("op") == "done" and b is not None:
        tgt = seg[b].get("target", [])
        old = seg[b - 1].get("files", seg[b - 1].get("old")) if b >= 1 else None
        if old is None:  # expire / begin before: walk back to the last snapshot
            for k in range(b - 1, -1, -1):
                if "files" in seg[k] or "old" in seg[k]:
                    old = seg[k].get("files", seg[k].get("old"))
                    break
        f = e.get("files", [])
        if f != tgt:
            why = "other"
            if kind == "cpuset" and old is not None:
                shifted = [n for n in range(len(tgt)) if not set(old[n]) <= set(tgt[n]) and not set(tgt[n]) <= set(old[n])]
                if shifted and all(set(f[n]) == set(old[n]) | set(tgt[n]) for n in shifted):
                    why = "union-left-after-shift"
            return "%s clause=T why=%s" % (head, why)
        written = set()
        for k in range(b + 1, i):
            written |= set(seg[k].get("written", []))
        same = [n + 1 for n in range(len(tgt))] if old is None else [n + 1 for n in range(len(tgt)) if old[n] == tgt[n]]
        if written & set(same):
            return "%s clause=N" % head
        return "%s clause=done-other" % head
    return "%s op=%s" % (head, e.get("op"))


CONF = {
    "id": "C12", "family": "CgroupTree",
    "mc": [
        {"module": "MC_CgroupTree", "cfg": {"quick": "MC_quick.cfg", "thorough": "MC_quick.cfg"}, "timeout": 900},
        # coverage on the small chain model: every design action (IMerge IExact SWiden SNarrow SCover IExternal IDone) must have been taken
        {"module": "MC_CgroupTree", "cfg": {"quick": "MC_chain.cfg", "thorough": "MC_chain.cfg"}, "timeout": 900, "coverage": True},
        # the BE cgroups over three rounds: suppress / recover alternating on one executor, expiry and environment steps in between
        {"module": "MC_CgroupTree", "cfg": {"quick": "MC_be.cfg", "thorough": "MC_be_cpu3.cfg"}, "timeout": 900},
        {"module": "MC_CgroupTree", "cfg": {"quick": None, "thorough": "MC_be_n3.cfg"}, "timeout": 900},
        {"module": "MC_CgroupTree", "cfg": {"quick": None, "thorough": "MC_n4.cfg"}, "timeout": 1800, "workers": 8},
        {"module": "MC_CgroupTree", "cfg": {"quick": None, "thorough": "MC_cpu4.cfg"}, "timeout": 1800, "workers": 8},
    ],
    "gen": [
        {"module": "Gen_CgroupTree", "cfg": {"quick": "Gen_quick_a.cfg", "thorough": "Gen_thorough_a.cfg"}, "timeout": 900, "workers": 4},
        {"module": "Gen_CgroupTree", "cfg": {"quick": "Gen_quick_b.cfg", "thorough": "Gen_thorough_b.cfg"}, "timeout": 900, "workers": 4},
    ],
    "go": [
        {"pkg": "pkg/koordlet/resourceexecutor", "test": "TestVerifC12"},
        {"pkg": "pkg/koordlet/qosmanager/plugins/cpusuppress", "test": "TestVerifC12Suppress", "pfm": True},
    ],
    "trace": {"module": "CgroupTreeTrace", "cfg": "Trace.cfg"},
    "signature": sig,
    "assumptions": [
        "memory files: every third leveled segment uses 1000 bytes per abstract unit instead of 1 MiB (neighbouring values closer than a page; the files of the harness are plain files, the kernel's page rounding is not modelled)",
        "cgroup files are plain files under a temp cgroup root (system.NewFileTestUtil): a write the kernel would refuse "
        "(EINVAL/EBUSY) succeeds here, so kernel-side rejection is not modelled",
        "the harness presents a written value the way a kernel shows it (cpu.max '<q> 100000', cpuset ranges, "
        "memory 'max'); it never changes a value",
        "forced periodic rewrite (ResourceForceUpdateSeconds) and cache expiry are pushed out of reach; cache entries "
        "disappear only through explicit `expire` events",
        "at the start of a rewrite a cache entry is absent or agrees with the file: it was left by the previous rewrite of the "
        "same executor, and where something else changed a file between two rewrites (`external` steps: kubelet, an operator, "
        "an interrupted earlier run) the entries of the changed files have expired or the agent has restarted (fresh plugin "
        "object, cold cache) before the next rewrite; a file changed behind a live cache entry is out of scope (the code "
        "relies on the forced periodic rewrite for it)",
        "validity is the statement's: child cpuset within parent's, child limit/protection <= parent's (Unlimited = top), "
        "also for memory.min/low where the kernel merely clamps",
        "two callers of one executor (leveled driver, par steps; concurrency is outside the property's quantifier - an extra): "
        "the second caller arrives after a chosen updater call of the first batch and gets in iff the executor's own "
        "LeveledUpdateLock is free at that moment (TryLock, released at once); otherwise its batch runs when the first has "
        "returned. One legal schedule per arrival point is produced deterministically; other schedules are not explored. Of "
        "overlapping batches (V) after every write, (T) of the nested batch and 'the files end at the target of one of the "
        "two' are demanded, (N) is not",
        "the BE driver enters every round through the real CPUSuppress.suppressBECPU on one plugin object per agent life "
        "(cpuset policy: adjustByCPUSet -> applyBESuppressCPUSet -> applyCPUSetWithNonePolicy; feature disabled / cfsQuota "
        "policy / BECPUManager: recoverCFSQuotaIfNeed, adjustByCfsQuota, recoverCPUSetIfNeed, recoverCPUSetForBECPUManager) "
        "with mocked statesinformer and metric cache; only one-CPU targets (a round never asks for fewer than two CPUs) call "
        "applyCPUSetWithNonePolicy directly, as adjustByCPUSet calls it: oldCPUSet = the BE qos cgroup's cpuset",
        "a cpuset round is aimed at the script's target by its inputs: the mock node has 10x the BE pool in processors (the rest "
        "reserved by the node annotation, so the 10%-of-the-node growth limit per round never cuts a step), an LSE pod holds the "
        "pool CPUs outside the target and the node usage leaves |target| CPUs to BE - every selection of |target| out of "
        "|target| eligible CPUs is the target; WHICH cpuset a round should pick is property C10's subject, not C12's",
        "the rounds that leave the cpuset policy (disabled / cfsquota / becpumgr) aim at the BE pool 0..ncpu-1, in two of five "
        "cases minus the CPUs an LSE pod holds meanwhile (`lse`): the pool may then no longer cover what the BE cgroups hold "
        "(shifted pool); one cpuset round in six runs under kubelet's static cpu manager policy (`how=static`: "
        "recoverCPUSetIfNeed for root and pods, applyCPUSetWithStaticPolicy for the containers), where the steering makes the "
        "pool equal to the round's target. The single top-down pass of these paths towards a shifted pool breaks (V) on the "
        "unchanged tree: recorded finding C12-recover-writes-shifted-pool-top-down (switch VERIF_TOLERATE_C12_RECOVER)",
        "pods whose containers recoverCPUSetForBECPUManager leaves out (own cpuset / NUMA resources) are not generated",
    ],
}
