"""Generic per-property pipeline:  MC -> Gen -> Go (real code) -> Trace validation -> verdict/evidence."""
import json, os, re, sys, time, zlib
import vlib
from vlib import log, MachineryError


def pick(v, tier):
    if isinstance(v, dict) and ("quick" in v or "thorough" in v):
        return v.get(tier, v.get("quick"))
    return v


def run(conf, tier, seed, replay=None):
    pid = conf["id"]
    fam = conf["family"]
    t0 = time.time()
    cov = {"states": 0, "transitions": 0, "traces_validated_against_impl": 0, "samples": [],
           "mc_runs": [], "gen_scripts": 0, "trace_events": 0, "trace_states": 0,
           "evaluations": 0, "distinct_nontrivial": 0,
           "rule": conf.get("rule", "segments of recorded real-code executions; distinct by content hash, "
                                    "non-trivial = at least one checked event after the reset"),
           "trusted_base": conf.get("trusted_base", ["TLC 1.8.0", "Go fakes used by the harness",
                                                     "projection functions in /verif/harness (field reads and sums)"])}
    violations = []
    known_hits = []
    with vlib.Scratch(pid) as sc:
        # ---------------- MC: decide on the model
        if not replay:
            for mc in conf.get("mc", []):
                cfg = pick(mc["cfg"], tier)
                if not cfg:
                    continue
                r = vlib.run_tlc(sc, fam, mc["module"], cfg, timeout=pick(mc.get("timeout", 900), tier),
                                 workers=mc.get("workers"), coverage=mc.get("coverage", False),
                                 heap=mc.get("heap"))
                vlib.tlc_must_pass(r, "MC %s/%s" % (mc["module"], cfg))
                log("MC %s %s: %d generated, %d distinct, depth %d, %.1fs" % (mc["module"], cfg, r.generated, r.distinct, r.depth, r.wall))
                cov["states"] += r.distinct
                cov["transitions"] += r.generated
                cov["mc_runs"].append({"module": mc["module"], "cfg": cfg, "generated": r.generated,
                                       "distinct": r.distinct, "depth": r.depth, "wall_s": round(r.wall, 1)})
                if mc.get("coverage"):
                    zero = [a for a, (d, t) in r.coverage.items() if t == 0 and a not in mc.get("may_be_unused", [])]
                    if zero:
                        raise MachineryError("vacuity: actions never taken in MC %s: %s" % (cfg, zero))
        # ---------------- Gen: behaviours out of TLC
        script_path = None
        if replay:
            rp = json.load(open(replay))
            script_path = os.path.join(sc, "replay-scripts.ndjson")
            with open(script_path, "w") as f:
                # VERIF_REPLAY_TIMES=N: the segment is executed N times (schedule-dependent outcomes: how often does it differ?)
                for _ in range(max(1, int(os.environ.get("VERIF_REPLAY_TIMES", "1")))):
                    f.write(json.dumps(rp["segment"]) + "\n")
        elif conf.get("gen"):
            script_path = os.path.join(sc, "scripts.ndjson")
            n = 0
            with open(script_path, "w") as f:
                for g in conf["gen"]:
                    cfg = pick(g["cfg"], tier)
                    if not cfg:
                        continue
                    sim = pick(g.get("simulate"), tier)
                    if sim:
                        sim = sim.replace("{seed}", str(seed))
                    r = vlib.run_tlc(sc, fam, g["module"], cfg, timeout=pick(g.get("timeout", 900), tier),
                                     simulate=sim, depth=pick(g.get("depth"), tier),
                                     seed=(seed if sim else None), workers=(1 if sim else None),
                                     env=g.get("env"))
                    if r.error or (not r.ok and not sim):
                        raise MachineryError("Gen %s failed\n%s" % (cfg, vlib.tail(r.out)))
                    scripts = vlib.printed_json(r)
                    seen = set()
                    nth = pick(g.get("sample", 1), tier) or 1
                    for s in scripts:
                        k = json.dumps(s, sort_keys=True)
                        if k in seen:
                            continue
                        if nth > 1 and (zlib.crc32(k.encode()) + int(seed)) % nth != 0:
                            continue     # seed-dependent 1/nth sample of an exhaustive enumeration
                        seen.add(k)
                        f.write(json.dumps(s) + "\n")
                        n += 1
                    log("Gen %s %s: %d scripts (%d states, %.1fs)" % (g["module"], cfg, len(seen), r.generated, r.wall))
                    cov.setdefault("gen_runs", []).append({"module": g["module"], "cfg": cfg, "generated": r.generated,
                                                           "distinct": r.distinct, "scripts": len(seen)})
                    if not conf.get("mc"):
                        # no separate MC step: the behaviour-generation model IS the explored model
                        cov["states"] += r.distinct
                        cov["transitions"] += r.generated
            if n == 0:
                raise MachineryError("Gen produced no scripts")
            cov["gen_scripts"] = n
        # ---------------- Go: run the real code
        traces = []
        for gi, g in enumerate(conf["go"]):
            if replay and g.get("skip_on_replay"):
                continue
            if replay and rp.get("go_index", 0) != gi:
                continue
            out = os.path.join(sc, "trace%d.ndjson" % gi)
            env = {"VERIF_OUT": out, "VERIF_SEED": seed, "VERIF_TIER": tier}
            if script_path and (g.get("uses_script", True)):
                env["VERIF_SCRIPT"] = script_path
            if replay:
                env["VERIF_REPLAY"] = script_path
            env.update(g.get("env", {}))
            rc, o = vlib.go_test(sc, g["pkg"], g["test"], env, needs_pfm=g.get("pfm", False),
                                 race=pick(g.get("race", False), tier), timeout=pick(g.get("timeout", 1500), tier),
                                 extra_pkgs=g.get("extra_pkgs", ()))
            vlib.go_must_pass(rc, o, "Go %s" % g["test"])
            if not os.path.exists(out) or os.path.getsize(out) == 0:
                raise MachineryError("harness %s wrote no trace\n%s" % (g["test"], vlib.tail(o)))
            traces.append((gi, g, out))
        # ---------------- Trace: validate against the specification
        nfail = 0
        for gi, g, out in traces:
            tr = g.get("trace") or conf["trace"]
            v = vlib.validate_trace(sc, g.get("family", fam), tr["module"], tr["cfg"], out,
                                    timeout=pick(tr.get("timeout", 1500), tier),
                                    chunk_events=tr.get("chunk_events", 150000))
            log("Trace %s: %d segments, %d events, %d TLC states, %d rejected, %.1fs" %
                (g["test"], v.nsegs, v.nevents, v.states, len(v.failed), v.wall))
            cov["traces_validated_against_impl"] += v.nsegs
            cov["trace_events"] += v.nevents
            cov["trace_states"] += v.states
            cov["evaluations"] += v.nsegs
            cov["distinct_nontrivial"] += v.nontrivial
            cov["samples"] += vlib.sample_segments(out, k=2, maxlen=8)
            if v.nontrivial < 1:
                raise MachineryError("vacuous: no non-trivial segment recorded by %s" % g["test"])
            sighist = {}
            # a segment whose FIRST unexplained event is a recorded finding is not examined beyond it; where the spec can
            # switch the finding's clause off (tolerate_env), such segments are validated a second time with the clause
            # off, and whatever is rejected then is a different violation (or another recorded finding)
            failed = list(v.failed)
            beyond = {}
            for fl in v.failed:
                sig0 = conf["signature"](fl) if conf.get("signature") else "op=%s" % fl["event"].get("op")
                for kf in vlib.findings_for(pid):
                    if kf.get("tolerate_env") and re.fullmatch(kf["signature"], sig0):
                        beyond.setdefault(kf["tolerate_env"], []).append(fl)
                        break
            if beyond and not replay:
                tol_env = {k: "1" for k in beyond}
                p2 = os.path.join(sc, "trace%d-beyond.ndjson" % gi)
                nsg = 0
                with open(p2, "w") as f:
                    for fls in beyond.values():
                        for fl in fls:
                            nsg += 1
                            for e in fl["segment"]:
                                f.write(json.dumps(e) + "\n")
                v2 = vlib.validate_trace(sc, g.get("family", fam), tr["module"], tr["cfg"], p2,
                                         timeout=pick(tr.get("timeout", 1500), tier),
                                         chunk_events=tr.get("chunk_events", 150000), extra_env=tol_env)
                log("  second pass with the recorded finding's clause off (%s): %d segments, %d rejected beyond it" %
                    (",".join(sorted(tol_env)), nsg, len(v2.failed)))
                cov["trace_states"] += v2.states
                for fl in v2.failed:
                    fl["beyond"] = True
                    failed.append(fl)
            for fl in failed:
                sig = conf["signature"](fl) if conf.get("signature") else "op=%s" % fl["event"].get("op")
                if fl.get("beyond"):
                    sig = "beyond-recorded-finding " + sig
                sighist[sig] = sighist.get(sig, 0) + 1
                hit = None
                for kf in vlib.findings_for(pid):
                    if re.fullmatch(kf["signature"], sig):
                        hit = kf
                        break
                if hit:
                    known_hits.append((hit, sig))
                    continue
                nfail += 1
                # at least one replay per signature class, at most 3 per class / 12 in all beyond that
                if sighist[sig] == 1 or (sighist[sig] <= 3 and len(violations) < 12):
                    path = vlib.write_replay(pid, ("replayed-" if replay else "") + tier, seed, nfail, {
                        "property": pid, "tier": tier, "seed": int(seed), "go_index": gi,
                        "harness": g["pkg"] + ":" + g["test"], "trace_spec": tr["module"],
                        "signature": sig, "first_rejected_event_index": fl["fail_index"],
                        "first_rejected_event": fl["event"], "violated_invariant": fl.get("violated"),
                        "spec_expected_for_that_event": fl.get("expected"),
                        "segment": fl["segment"]})
                    violations.append((sig, path))
            for sg, c in sorted(sighist.items()):
                log("  rejected x%d: %s" % (c, sg))
            # ---- binding self-test (DESIGN.md 8): an accepted segment with ONE observed value corrupted must be rejected
            if not replay and not os.environ.get("VERIF_NO_SELFTEST"):
                st = vlib.binding_selftest(sc, g.get("family", fam), tr["module"], tr["cfg"], out, v,
                                           keys=g.get("selftest_keys") or conf.get("selftest_keys"), seed=int(seed))
                cov.setdefault("binding_selftest", []).append(st)
                if st.get("status") == "not-rejected":
                    raise MachineryError("binding self-test: corrupted observation %s was ACCEPTED by %s - the trace spec does not bind it"
                                         % (st.get("corrupted"), tr["module"]))
                log("  binding self-test: %s" % st)
    # ---------------- verdict
    wall = time.time() - t0
    seen = set()
    for kf, sig in known_hits:
        if kf["id"] in seen:
            continue
        seen.add(kf["id"])
        print("KNOWN-FINDING: property=%s %s" % (pid, kf["what"]), flush=True)
    cov["known_finding_hits"] = len(known_hits)
    cov["checker_cmd"] = "bin/check %s --tier %s" % (pid, tier)
    if not replay:
        vlib.write_evidence(pid, tier, seed, "model_checking", cov, conf.get("assumptions", []), wall, len(violations))
    for sig, path in violations:
        print("VIOLATION property=%s replay=%s" % (pid, path), flush=True)
        log("  signature:", sig)
    if violations:
        return 1
    log("%s %s seed=%s OK: %d MC states, %d segments / %d events validated, %.0fs" %
        (pid, tier, seed, cov["states"], cov["traces_validated_against_impl"], cov["trace_events"], wall))
    return 0
