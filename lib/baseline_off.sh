#!/bin/sh
# repository test-suite with the verification guard OFF (no -tags verif, no overlay, nothing from /verif): the same command
# as BASELINE.json's (go test -json on stdout). Packages under pkg/koordlet that need libpfm do not build in this sandbox -
# as in the recorded baseline, whose 5268 stable tests do not include them - so the exit status is non-zero by construction;
# compare the per-test results (all 5268 stable tests pass with every fix: commit applied, checked 2026-09-26).
cd /repo && GOFLAGS=-mod=mod GOPROXY=off go test -json -vet=off -count=1 -timeout 25m ./...
