#!/bin/sh
# MANIFEST.setup_cmd : build the framework from files on disk only (offline)
set -e
cd "$(dirname "$0")/.."
sh stubs/pfm/build.sh
python3 -m py_compile lib/vlib.py lib/pipeline.py bin/check lib/props/*.py
mkdir -p evidence replays
# parse every specification once (SANY) so that a broken spec is reported at setup time
tmp=$(mktemp -d /var/tmp/verif-setup-XXXXXX)
rc=0
for d in specs/*/; do
  fam=$(basename "$d")
  [ "$fam" = common ] && continue
  mkdir -p "$tmp/$fam"; cp specs/common/*.tla "$d"/*.tla "$tmp/$fam/" 2>/dev/null || true
  for f in "$tmp/$fam"/*.tla; do
    case "$(basename "$f")" in TraceCommon.tla) continue;; esac
    if ! (cd "$tmp/$fam" && java -cp /opt/veriftools/tla/tla2tools.jar:/opt/veriftools/tla/CommunityModules-deps.jar tla2sany.SANY "$(basename "$f")" >"$f.log" 2>&1); then
      echo "SANY failed: $f"; tail -20 "$f.log"; rc=1
    fi
  done
done
rm -rf "$tmp"
exit $rc
