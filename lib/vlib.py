"""Shared machinery for /verif/bin/check.

Roles (DESIGN.md section 2.2):
  MC     tlc on <Family>/MC_*.cfg              decide the property on the model
  Gen    tlc printing ToJson(hist) lines       enumerate behaviours (scripts)
  Go     go test -overlay (harness in /verif)  execute scripts on the real code, record ndjson traces
  Trace  tlc on <Family>Trace                  validate every recorded segment against the spec

Exit codes of bin/check: 0 held, 1 violation (VIOLATION line printed), 2 machinery trouble.
"""
import json, os, re, shutil, subprocess, sys, time, hashlib, glob

VERIF = os.path.dirname(os.path.dirname(os.path.abspath(__file__)))
REPO = os.environ.get("VERIF_REPO", "/repo")
SPECS = os.path.join(VERIF, "specs")
HARNESS = os.path.join(VERIF, "harness")
PFM = os.path.join(VERIF, "stubs", "pfm")
NCPU = os.cpu_count() or 4


class MachineryError(Exception):
    pass


def log(*a):
    print("[check]", *a, flush=True)


# --------------------------------------------------------------------------- scratch
class Scratch:
    def __init__(self, tag):
        base = os.environ.get("VERIF_SCRATCH", "/var/tmp")
        self.path = os.path.join(base, "verif-%s-%d" % (tag, os.getpid()))

    def __enter__(self):
        shutil.rmtree(self.path, ignore_errors=True)
        os.makedirs(self.path)
        return self.path

    def __exit__(self, *a):
        if not os.environ.get("VERIF_KEEP"):
            shutil.rmtree(self.path, ignore_errors=True)


# --------------------------------------------------------------------------- TLC
class TlcResult:
    def __init__(self):
        self.out = ""
        self.rc = None
        self.generated = 0
        self.distinct = 0
        self.depth = 0
        self.ok = False
        self.violated = None      # name of violated invariant/property
        self.error = None         # evaluation error text
        self.printed = []         # PrintT lines (raw)
        self.wall = 0.0
        self.coverage = {}        # action -> (distinct, total) when -coverage


def stage_specs(scratch, family):
    """copy specs/common + specs/<family> into scratch/<family> (TLC litters its cwd)"""
    d = os.path.join(scratch, "spec-" + family)
    if not os.path.isdir(d):
        os.makedirs(d)
        for src in (os.path.join(SPECS, "common"), os.path.join(SPECS, family)):
            for f in os.listdir(src):
                p = os.path.join(src, f)
                if os.path.isfile(p):
                    shutil.copy(p, d)
    return d


_md_counter = [0]


def run_tlc(scratch, family, module, cfg, env=None, workers=None, timeout=900, extra=None,
            simulate=None, depth=None, seed=None, coverage=False, heap=None):
    d = stage_specs(scratch, family)
    _md_counter[0] += 1
    md = os.path.join(scratch, "md%d" % _md_counter[0])
    cmd = ["java", "-XX:+UseParallelGC", "-Xss256m"]
    if heap:
        cmd.append("-Xmx%s" % heap)
    cmd += ["-cp", "/opt/veriftools/tla/tla2tools.jar:/opt/veriftools/tla/CommunityModules-deps.jar",
            "tlc2.TLC", "-metadir", md, "-config", cfg, "-workers", str(workers or min(NCPU, 16)),
            "-noGenerateSpecTE"]
    if simulate:
        cmd += ["-simulate", simulate]
    if depth:
        cmd += ["-depth", str(depth)]
    if seed is not None:
        cmd += ["-seed", str(seed)]
    if coverage:
        cmd += ["-coverage", "1"]
    if extra:
        cmd += extra
    cmd.append(module)
    e = dict(os.environ)
    e.pop("JAVA_TOOL_OPTIONS", None)
    if env:
        e.update({k: str(v) for k, v in env.items()})
    t0 = time.time()
    r = TlcResult()
    try:
        p = subprocess.run(["timeout", str(int(timeout))] + cmd, cwd=d, env=e, stdout=subprocess.PIPE,
                           stderr=subprocess.STDOUT, text=True, errors="replace")
    except Exception as ex:  # pragma: no cover
        raise MachineryError("cannot run tlc: %s" % ex)
    r.wall = time.time() - t0
    r.out = p.stdout
    r.rc = p.returncode
    shutil.rmtree(md, ignore_errors=True)
    if p.returncode == 124:
        raise MachineryError("tlc timeout after %ss on %s/%s %s" % (timeout, family, module, cfg))
    for line in r.out.splitlines():
        m = re.match(r"^(\d+) states generated, (\d+) distinct states found", line)
        if m:
            r.generated, r.distinct = int(m.group(1)), int(m.group(2))
        m = re.match(r"^The depth of the complete state graph search is (\d+)", line)
        if m:
            r.depth = int(m.group(1))
        m = re.match(r"^Error: Invariant (\S+) is violated", line)
        if m:
            r.violated = m.group(1)
        m = re.match(r"^Error: Action property (\S+) is violated", line)
        if m:
            r.violated = m.group(1)
        m = re.match(r"^Error: Temporal properties were violated", line)
        if m:
            r.violated = "temporal"
        if line.startswith("<<") or line.startswith('"'):
            r.printed.append(line)
    if simulate:
        m = re.search(r"(\d+) states checked", r.out)
        if m:
            r.generated = r.distinct = int(m.group(1))
    errs = [ln for ln in r.out.splitlines() if ln.startswith("Error:")]
    if errs and not r.violated:
        r.error = "\n".join(errs[:5])
    r.ok = (p.returncode == 0 and not errs)
    if coverage:
        for m in re.finditer(r"^<(\w+) line \d+, col \d+ to line \d+, col \d+ of module (\w+)>: (\d+):(\d+)", r.out, re.M):
            r.coverage[m.group(1)] = (int(m.group(3)), int(m.group(4)))
    return r


def tlc_must_pass(r, what):
    if r.violated:
        raise MachineryError("%s: model violates %s (the model is checked before any code is run; "
                             "a model-only counterexample is never a verdict)\n%s" % (what, r.violated, tail(r.out)))
    if not r.ok:
        raise MachineryError("%s: tlc failed rc=%s\n%s" % (what, r.rc, tail(r.out)))
    if r.generated == 0:
        raise MachineryError("%s: no states generated" % what)


def tail(s, n=40):
    lines = s.splitlines()
    # for TLC output: show the first error block (message + a few lines) before the tail
    head = []
    for i, ln in enumerate(lines):
        if ln.startswith("Error:") and "The behavior up to this point" not in ln and "nested" not in ln:
            head = lines[i:i + 12] + ["..."]
            break
    return "\n".join(head + lines[-n:])


def printed_json(r, marker=None):
    """PrintT(ToJson(x)) prints a TLA string literal; recover the JSON values"""
    out = []
    for ln in r.printed:
        if ln.startswith('"'):
            try:
                s = json.loads(ln)
                out.append(json.loads(s))
            except Exception:
                pass
    return out


# --------------------------------------------------------------------------- Go
def go_env(needs_pfm=False):
    e = dict(os.environ)
    e["GOFLAGS"] = "-mod=mod"
    e["GOPROXY"] = "off"
    e.pop("GOSUMDB", None)
    e.pop("GOTOOLCHAIN", None)   # auto: /repo needs the cached go1.25 toolchain
    if needs_pfm:
        lib = os.path.join(PFM, "lib", "libpfm.a")
        if not os.path.exists(lib):
            subprocess.run([os.path.join(PFM, "build.sh")], check=True)
        e["CGO_CFLAGS"] = "-I" + os.path.join(PFM, "include")
        e["CGO_LDFLAGS"] = "-L" + os.path.join(PFM, "lib")
    return e


def build_overlay(scratch, pkgs):
    """pkgs: list of repo-relative package dirs whose harness files (under /verif/harness/<pkg>/) are injected.
    pkg/verifutil is always injected."""
    repl = {}
    for pkg in list(pkgs) + ["pkg/verifutil"]:
        src = os.path.join(HARNESS, pkg if pkg != "pkg/verifutil" else "verifutil")
        if not os.path.isdir(src):
            raise MachineryError("no harness dir " + src)
        for f in sorted(os.listdir(src)):
            if f.endswith(".go"):
                repl[os.path.join(REPO, pkg, f)] = os.path.join(src, f)
    extra = os.environ.get("VERIF_OVERLAY_EXTRA")   # self-validation only: mutant source replacement
    if extra:
        repl.update(json.load(open(extra))["Replace"])
    p = os.path.join(scratch, "overlay.json")
    json.dump({"Replace": repl}, open(p, "w"))
    return p


def go_test(scratch, pkg, test, env, needs_pfm=False, timeout=1500, race=False, extra_pkgs=()):
    """run one in-package harness test; returns (rc, output)"""
    ov = build_overlay(scratch, [pkg] + list(extra_pkgs))
    cmd = ["go", "test", "-overlay", ov, "-vet=off", "-count=1", "-tags", "verif",
           "-run", "^%s$" % test, "-timeout", "%ds" % timeout]
    if race:
        cmd.append("-race")
    cmd.append("./" + pkg + "/")
    e = go_env(needs_pfm)
    e.update({k: str(v) for k, v in env.items()})
    t0 = time.time()
    p = subprocess.run(["timeout", str(timeout + 60)] + cmd, cwd=REPO, env=e, stdout=subprocess.PIPE,
                       stderr=subprocess.STDOUT, text=True, errors="replace")
    log("go test %s %s rc=%d %.1fs" % (pkg, test, p.returncode, time.time() - t0))
    return p.returncode, p.stdout


def go_must_pass(rc, out, what):
    if rc != 0:
        raise MachineryError("%s: harness failed (rc=%d); a dead driver is never a verdict\n%s" % (what, rc, tail(out, 60)))
    if "no tests to run" in out:
        raise MachineryError("%s: harness test not found\n%s" % (what, tail(out)))


# --------------------------------------------------------------------------- traces
def load_trace(path):
    ev = []
    with open(path) as f:
        for ln in f:
            ln = ln.strip()
            if ln:
                ev.append(json.loads(ln))
    return ev


def segments(events):
    """returns list of (start_index_1based, [events])"""
    segs = []
    cur = None
    for i, e in enumerate(events, 1):
        if e.get("op") == "reset":
            cur = (i, [e])
            segs.append(cur)
        elif cur is not None:
            cur[1].append(e)
        else:
            raise MachineryError("trace does not start with a reset event")
    return segs


class TraceVerdict:
    def __init__(self):
        self.nsegs = 0
        self.nevents = 0
        self.failed = []      # list of dict(start, fail_index (index inside segment, 0 = reset), event, segment)
        self.states = 0
        self.wall = 0.0
        self.distinct_hashes = set()
        self.nontrivial = 0


def explain(scratch, family, module, cfg, evs, idx, extra_env, timeout):
    """what does the specification expect for event idx of this segment? (Expect(...) in the trace spec)"""
    p = os.path.join(scratch, "explain.ndjson")
    with open(p, "w") as f:
        for e in evs[:idx + 1]:
            f.write(json.dumps(e) + "\n")
    env = {"VERIF_TRACE": p, "VERIF_EXPLAIN": "1"}
    if extra_env:
        env.update({k: v for k, v in extra_env.items() if k != "VERIF_TRACE"})
    try:
        r = run_tlc(scratch, family, module, cfg, env=env, workers=1, timeout=min(timeout, 300))
    except MachineryError:
        return None
    exp = None
    for ln in r.printed:
        m = re.match(r'^<<"EXPECT", (\d+), (".*")>>$', ln)
        if m and int(m.group(1)) == idx + 1:
            try:
                exp = json.loads(json.loads(m.group(2)))
            except Exception:
                exp = m.group(2)
    return exp


def validate_trace(scratch, family, module, cfg, trace_path, workers=None, timeout=1500, chunk_events=150000,
                   extra_env=None, explain_max=6):
    """Validate every segment of the ndjson trace with TLC. Returns TraceVerdict."""
    events = load_trace(trace_path)
    segs = segments(events)
    v = TraceVerdict()
    v.nsegs = len(segs)
    v.nevents = len(events)
    if not segs:
        raise MachineryError("empty trace %s" % trace_path)
    for s, evs in segs:
        h = hashlib.sha1(json.dumps(evs, sort_keys=True).encode()).hexdigest()
        if h not in v.distinct_hashes:
            v.distinct_hashes.add(h)
            if len(evs) >= 2:
                v.nontrivial += 1
    # chunk so that one TLC run holds a bounded trace in memory
    chunks, cur, n = [], [], 0
    for sg in segs:
        cur.append(sg)
        n += len(sg[1])
        if n >= chunk_events:
            chunks.append(cur)
            cur, n = [], 0
    if cur:
        chunks.append(cur)
    t0 = time.time()
    for ci, ch in enumerate(chunks):
        p = os.path.join(scratch, "chunk%d.ndjson" % ci)
        starts = []
        with open(p, "w") as f:
            k = 1
            for s, evs in ch:
                starts.append(k)
                for e in evs:
                    f.write(json.dumps(e) + "\n")
                k += len(evs)
        env = {"VERIF_TRACE": p}
        if extra_env:
            env.update(extra_env)
        r = run_tlc(scratch, family, module, cfg, env=env, workers=workers, timeout=timeout)
        if r.error or (not r.ok and not r.violated):
            raise MachineryError("trace validation run failed (tool error, not a verdict)\n" + tail(r.out, 60))
        if r.violated:
            # an invariant evaluated on a recorded state failed: locate it via the verbose pass below
            pass
        v.states += r.distinct
        okset = set()
        for ln in r.printed:
            m = re.match(r'^<<"SEG_OK", (\d+)>>', ln)
            if m:
                okset.add(int(m.group(1)))
        bad = [i for i in range(len(ch)) if starts[i] not in okset]
        if r.violated and not bad:
            raise MachineryError("invariant %s violated but all segments accepted?\n%s" % (r.violated, tail(r.out, 60)))
        if bad:
            # second pass: only the failed segments, verbose, to find the longest accepted prefix
            p2 = os.path.join(scratch, "chunk%d-bad.ndjson" % ci)
            starts2 = []
            with open(p2, "w") as f:
                k = 1
                for i in bad:
                    starts2.append(k)
                    for e in ch[i][1]:
                        f.write(json.dumps(e) + "\n")
                    k += len(ch[i][1])
            env2 = dict(env)
            env2["VERIF_TRACE"] = p2
            env2["VERIF_VERBOSE"] = "1"
            r2 = run_tlc(scratch, family, module, cfg, env=env2, workers=1, timeout=timeout, extra=["-continue"])
            if r2.error:
                raise MachineryError("verbose validation pass failed\n" + tail(r2.out, 60))
            hw = {}
            for ln in r2.printed:
                m = re.match(r'^<<"AT", (\d+), (\d+)>>', ln)
                if m:
                    sgi, l = int(m.group(1)), int(m.group(2))
                    hw[sgi] = max(hw.get(sgi, 0), l)
            for j, i in enumerate(bad):
                s0 = starts2[j]
                evs = ch[i][1]
                # l = index of next event to consume (file index, 1-based) ; inside segment: l - s0
                nxt = hw.get(s0, s0) - s0      # 0 => even the reset/init was not accepted
                if nxt >= len(evs):
                    # all events consumed but an invariant failed on the last state / SegDone not reached
                    nxt = len(evs) - 1
                fl = {"start": ch[i][0], "fail_index": nxt, "event": evs[nxt], "segment": evs,
                      "violated": r.violated}
                if len(v.failed) < explain_max:
                    fl["expected"] = explain(scratch, family, module, cfg, evs, nxt, extra_env, timeout)
                v.failed.append(fl)
    v.wall = time.time() - t0
    return v


# --------------------------------------------------------------------------- known findings
def load_findings():
    p = os.path.join(VERIF, "known_findings.json")
    if not os.path.exists(p):
        return {"findings": [], "fixed": []}
    return json.load(open(p))


def findings_for(pid):
    return [f for f in load_findings().get("findings", []) if f.get("property") == pid]


# --------------------------------------------------------------------------- evidence / replay
def write_evidence(pid, tier, seed, level, coverage, assumptions, wall, violations):
    edir = os.environ.get("VERIF_EVIDENCE_DIR") or os.path.join(VERIF, "evidence")   # seeded-change / mutant runs write elsewhere
    os.makedirs(edir, exist_ok=True)
    ev = {"property_id": pid, "tier": tier, "seed": int(seed), "level": level, "coverage": coverage,
          "assumptions": assumptions, "wall_s": round(wall, 2), "violations": int(violations)}
    p = os.path.join(edir, pid + ".json")
    with open(p + ".tmp", "w") as f:
        json.dump(ev, f, indent=1, sort_keys=True)
    os.replace(p + ".tmp", p)
    return p


def write_replay(pid, tier, seed, n, payload):
    d = os.path.join(os.environ.get("VERIF_REPLAY_DIR") or os.path.join(VERIF, "replays"), pid)
    os.makedirs(d, exist_ok=True)
    p = os.path.join(d, "%s-seed%s-%d.json" % (tier, seed, n))
    with open(p, "w") as f:
        json.dump(payload, f, indent=1)
    return p


def sample_segments(trace_path, k=3, maxlen=12):
    evs = load_trace(trace_path)
    segs = segments(evs)
    out = []
    if not segs:
        return out
    step = max(1, len(segs) // k)
    for s, e in segs[::step][:k]:
        out.append(e[:maxlen])
    return out


# --------------------------------------------------------------------------- binding self-test
OBS_KEYS = ("obs", "result", "runs", "out", "files", "counters", "rt", "code", "verdict", "levels", "usedLimit")


def _corrupt(node, rng, keys):
    """find numeric / boolean leaves under observation keys; flip one. returns path or None"""
    leaves = []

    def walk(x, path, under):
        if isinstance(x, dict):
            for k, v in x.items():
                walk(v, path + [k], under or k in keys)
        elif isinstance(x, list):
            if under and x and all(isinstance(v, str) for v in x):
                leaves.append((path, "strlist"))
            for i, v in enumerate(x):
                walk(v, path + [i], under)
        elif under and isinstance(x, bool):
            leaves.append((path, "bool"))
        elif under and isinstance(x, int):
            leaves.append((path, "int"))
    walk(node, [], False)
    if not leaves:
        # fall back to string tokens (families whose observations are opaque tokens)
        def walk2(x, path, under):
            if isinstance(x, dict):
                for k, v in x.items():
                    walk2(v, path + [k], under or k in keys)
            elif isinstance(x, list):
                for i, v in enumerate(x):
                    walk2(v, path + [i], under)
            elif under and isinstance(x, str):
                leaves.append((path, "str"))
        walk2(node, [], False)
    if not leaves:
        return None
    path, kind = leaves[rng.randrange(len(leaves))]
    cur = node
    for k in path[:-1]:
        cur = cur[k]
    if kind == "bool":
        cur[path[-1]] = not cur[path[-1]]
    elif kind == "str":
        cur[path[-1]] = cur[path[-1]] + "~"
    elif kind == "strlist":
        cur[path[-1]] = cur[path[-1]][1:]          # drop one element of an observed set
    else:
        cur[path[-1]] = cur[path[-1]] + 1
    return "/".join(str(k) for k in path)


def binding_selftest(scratch, family, module, cfg, trace_path, verdict, keys=None, seed=1, tries=6):
    """Take accepted segments, corrupt one observed field in one event, and require TLC to reject.
    Some corruptions are legitimately acceptable (a nondeterministic spec allows several results), so a few
    different corruptions are tried; 'not-rejected' only if none of them is rejected."""
    import random, copy
    rng = random.Random(seed * 7919 + 17)
    keys = tuple(keys or OBS_KEYS)
    events = load_trace(trace_path)
    segs = segments(events)
    failed_starts = set(f["start"] for f in verdict.failed)
    good = [sg for sg in segs if sg[0] not in failed_starts and len(sg[1]) >= 2]
    if not good:
        return {"status": "skipped", "why": "no accepted segment"}
    attempts = []
    for _ in range(tries):
        s0, evs = good[rng.randrange(len(good))]
        evs = copy.deepcopy(evs)
        idxs = list(range(1, len(evs)))
        rng.shuffle(idxs)
        where = None
        for i in idxs:
            where = _corrupt(evs[i], rng, keys)
            if where:
                where = "event %d (%s): %s" % (i, evs[i].get("op"), where)
                break
        if not where:
            continue
        p = os.path.join(scratch, "selftest.ndjson")
        with open(p, "w") as f:
            for e in evs:
                f.write(json.dumps(e) + "\n")
        try:
            r = run_tlc(scratch, family, module, cfg, env={"VERIF_TRACE": p}, workers=1, timeout=300)
        except MachineryError as ex:
            return {"status": "skipped", "why": "tlc: %s" % str(ex)[:100]}
        if r.error:
            # an evaluation error on a corrupted value (e.g. a type confusion) also means "not accepted"
            return {"status": "rejected", "corrupted": where, "how": "evaluation error"}
        ok = any(re.match(r'^<<"SEG_OK", 1>>', ln) for ln in r.printed)
        attempts.append(where)
        if not ok:
            return {"status": "rejected", "corrupted": where, "tried": len(attempts)}
    if not attempts:
        return {"status": "skipped", "why": "no observed numeric/boolean field found under keys %s" % (keys,)}
    return {"status": "not-rejected", "corrupted": attempts}
