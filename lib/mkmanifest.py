#!/usr/bin/env python3
"""Regenerates /verif/MANIFEST.json from the table below (keeps it schema-valid at all times)."""
import json, os, sys
VERIF = os.path.dirname(os.path.dirname(os.path.abspath(__file__)))
ALL = ["C%02d" % i for i in range(1, 21)]

# property -> (technique, level text, level note, design section)
CLAIMED = {}

def claim(pid, technique, text, note, ref):
    CLAIMED[pid] = (technique, text, note, ref)

exec(open(os.path.join(VERIF, "lib", "claims.py")).read())

PENDING_REASON = ("no check registered yet: the TLA+ specification / conformance harness for this property is still "
                  "being built (see DESIGN.md section 5 for the plan); the technique applies, nothing is claimed until the check exists")

def main():
    m = {
        "version": 1,
        "setup_cmd": "sh lib/setup.sh",
        "hooks": {
            "guard": "verif",
            "enable": "go test -tags verif -overlay <json built by lib/vlib.py from /verif/harness> (harness files are injected as "
                      "in-package _test.go files; /repo carries no instrumentation commits)",
            "baseline_off_cmd": "sh lib/baseline_off.sh",
            "source_commits": [],
            "add_only": True,
        },
        "engines": [
            {"name": "tlc", "path": "/opt/veriftools/tla/tla2tools.jar", "serves_properties": sorted(CLAIMED),
             "kind_free_text": "explicit-state model checker: MC (decide on the model), Gen (enumerate behaviours), Trace (validate recorded executions)"},
            {"name": "go-overlay-harness", "path": "/verif/harness", "serves_properties": sorted(CLAIMED),
             "kind_free_text": "in-package Go executors/recorders injected with go test -overlay; no oracle"},
        ],
        "checks": [],
        "not_applicable": [],
        "notes": "All verdicts come from TLC validating traces recorded from the real code against TLA+ trace specifications "
                 "(specs/<Family>/*Trace.tla). known_findings.json lists fixed defects and recorded findings.",
    }
    for pid in ALL:
        if pid in CLAIMED:
            tech, text, note, ref = CLAIMED[pid]
            m["checks"].append({
                "property_id": pid,
                "quick_cmd": "bin/check %s --tier quick" % pid,
                "thorough_cmd": "bin/check %s --tier thorough" % pid,
                "evidence_file": "/verif/evidence/%s.json" % pid,
                "replay_cmd_template": "bin/check %s --replay {path}" % pid,
                "engine": "tlc",
                "level_claimed": {"category": "model_checking", "text": text, "design_ref": ref},
                "level_note": note,
                "technique": tech,
            })
        else:
            m["not_applicable"].append({"property_id": pid, "reason": PENDING_REASON})
    with open(os.path.join(VERIF, "MANIFEST.json"), "w") as f:
        json.dump(m, f, indent=1)
    print("MANIFEST.json: %d checks, %d not claimed" % (len(m["checks"]), len(m["not_applicable"])))

main()
