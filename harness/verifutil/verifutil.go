// Package verifutil is injected into the repository build by `go test -overlay`
// (as pkg/verifutil). It holds the recorder / script reader / RNG shared by
// the in-package verification harnesses under /verif/harness. It contains no
// oracle: expected values are computed only by TLC from the specifications.
package verifutil

import (
	"bufio"
	"encoding/json"
	"fmt"
	"math/rand"
	"os"
	"strconv"
	"sync"
)

// Ev is one ndjson trace event.
type Ev map[string]interface{}

// Recorder appends ndjson events to $VERIF_OUT.
type Recorder struct {
	mu   sync.Mutex
	f    *os.File
	w    *bufio.Writer
	n    int
	segs int
}

// Enabled tells whether the harness was asked to run (VERIF_OUT set).
func Enabled() bool { return os.Getenv("VERIF_OUT") != "" }

// Tier returns "quick" or "thorough".
func Tier() string {
	if os.Getenv("VERIF_TIER") == "thorough" {
		return "thorough"
	}
	return "quick"
}

// Thorough is a shorthand.
func Thorough() bool { return Tier() == "thorough" }

// Seed returns $VERIF_SEED (default 1).
func Seed() int64 {
	s, err := strconv.ParseInt(os.Getenv("VERIF_SEED"), 10, 64)
	if err != nil {
		return 1
	}
	return s
}

// Rand returns a RNG seeded from VERIF_SEED and a per-use salt.
func Rand(salt int64) *rand.Rand { return rand.New(rand.NewSource(Seed()*1000003 + salt)) }

// EnvInt reads an integer knob.
func EnvInt(name string, def int) int {
	v, err := strconv.Atoi(os.Getenv(name))
	if err != nil {
		return def
	}
	return v
}

// NewRecorder opens $VERIF_OUT (suffix lets one test write several files).
func NewRecorder(suffix string) *Recorder {
	p := os.Getenv("VERIF_OUT") + suffix
	f, err := os.Create(p)
	if err != nil {
		panic(err)
	}
	return &Recorder{f: f, w: bufio.NewWriterSize(f, 1<<20)}
}

// Emit writes one event.
func (r *Recorder) Emit(e Ev) {
	b, err := json.Marshal(e)
	if err != nil {
		panic(fmt.Sprintf("verifutil: cannot marshal event %v: %v", e, err))
	}
	r.mu.Lock()
	defer r.mu.Unlock()
	r.w.Write(b)
	r.w.WriteByte('\n')
	r.n++
	if e["op"] == "reset" {
		r.segs++
	}
}

// Reset starts a new trace segment; cfg carries the initial parameters.
func (r *Recorder) Reset(cfg Ev) {
	if cfg == nil {
		cfg = Ev{}
	}
	cfg["op"] = "reset"
	r.Emit(cfg)
}

// Close flushes the file.
func (r *Recorder) Close() {
	r.mu.Lock()
	defer r.mu.Unlock()
	r.w.Flush()
	r.f.Close()
}

// Events returns the number of events written so far.
func (r *Recorder) Events() int { return r.n }

// Segments returns the number of reset events written so far.
func (r *Recorder) Segments() int { return r.segs }

// ReadScripts reads an ndjson file in which each line is one JSON value
// (typically an op script produced by TLC); returns raw messages.
func ReadScripts(path string) []json.RawMessage {
	if path == "" {
		return nil
	}
	f, err := os.Open(path)
	if err != nil {
		panic(err)
	}
	defer f.Close()
	var out []json.RawMessage
	sc := bufio.NewScanner(f)
	sc.Buffer(make([]byte, 1<<20), 1<<28)
	for sc.Scan() {
		b := sc.Bytes()
		if len(b) == 0 {
			continue
		}
		c := make([]byte, len(b))
		copy(c, b)
		out = append(out, json.RawMessage(c))
	}
	return out
}

// ScriptPath returns $VERIF_SCRIPT.
func ScriptPath() string { return os.Getenv("VERIF_SCRIPT") }

// ReplayPath returns $VERIF_REPLAY (a file of scripts to re-execute).
func ReplayPath() string { return os.Getenv("VERIF_REPLAY") }

// Protect runs f and converts a panic into a value (for "never crashes").
func Protect(f func()) (panicked bool, msg string) {
	defer func() {
		if r := recover(); r != nil {
			panicked = true
			msg = fmt.Sprint(r)
		}
	}()
	f()
	return
}
