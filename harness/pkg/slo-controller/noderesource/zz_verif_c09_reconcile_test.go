package noderesource

// Verification harness for C09, reconciler level (injected by `go test -overlay`, see /verif/DESIGN.md and
// /verif/specs/Reclaim/Reclaim.tla part 1d). Executor + recorder only.
//
// A segment is the life of one node under one NodeResourceReconciler instance on a controller-runtime fake client
// (the package's own fixtures: FakeCfgCache, the test init() that registers the BatchResource / MidResource
// plugins, framework.RunSetupExtenders as in Test_NodeResourceController_*):
//
//	reset  {pre}              what the node carried before this controller's first reconcile (batch-cpu / batch-memory
//	                          published by an earlier controller instance, or nothing)
//	recon  {inp, t, out}      the world is brought to inp (strategy, pods incl. pods being deleted, NodeMetric present
//	                          with age inp.age / never updated / missing), the clocks are set to start+t seconds, the
//	                          REAL Reconcile runs, out = batch-cpu / batch-memory found afterwards in
//	                          node.status.allocatable and node.status.capacity
//
// Expected values are computed only by TLC (ReclaimTrace.tla, action TRecon). The generator keeps a shadow state only
// to steer generation (ages follow from "time passes", policy "request" keeps system usage within the reservation so
// that the recorded request-policy finding is not re-reported from here).
//
// Projection (field reads only): out.alloc.cpu = node.Status.Allocatable[batch-cpu].Value(), 0 when the key is absent
// (batch-cpu is published in milli-cores, batch-memory in bytes); the same for out.cap from node.Status.Capacity.
// "Withdrawn" in the sense of the property is absent or zero, so the projection does not distinguish the two.

import (
	"context"
	"encoding/json"
	"fmt"
	"io"
	"math/rand"
	"reflect"
	"testing"
	"time"

	corev1 "k8s.io/api/core/v1"
	apierrors "k8s.io/apimachinery/pkg/api/errors"
	"k8s.io/apimachinery/pkg/api/resource"
	metav1 "k8s.io/apimachinery/pkg/apis/meta/v1"
	"k8s.io/apimachinery/pkg/runtime"
	"k8s.io/apimachinery/pkg/types"
	"k8s.io/client-go/tools/record"
	"k8s.io/klog/v2"
	fakeclock "k8s.io/utils/clock/testing"
	ctrl "sigs.k8s.io/controller-runtime"
	"sigs.k8s.io/controller-runtime/pkg/builder"
	ctrlclient "sigs.k8s.io/controller-runtime/pkg/client"
	"sigs.k8s.io/controller-runtime/pkg/client/fake"

	"github.com/koordinator-sh/koordinator/apis/configuration"
	"github.com/koordinator-sh/koordinator/apis/extension"
	slov1alpha1 "github.com/koordinator-sh/koordinator/apis/slo/v1alpha1"
	sloctrlconfig "github.com/koordinator-sh/koordinator/pkg/slo-controller/config"
	"github.com/koordinator-sh/koordinator/pkg/slo-controller/noderesource/framework"
	"github.com/koordinator-sh/koordinator/pkg/slo-controller/noderesource/plugins/batchresource"
	"github.com/koordinator-sh/koordinator/pkg/util/sloconfig"
	"github.com/koordinator-sh/koordinator/pkg/util/testutil"
	vu "github.com/koordinator-sh/koordinator/pkg/verifutil"
)

type c09rRL struct {
	CPU int64 `json:"cpu"`
	Mem int64 `json:"mem"`
}

type c09rPol struct {
	CPU string `json:"cpu"`
	Mem string `json:"mem"`
}

type c09rUse struct {
	Prio string `json:"prio"`
	Use  c09rRL `json:"use"`
}

type c09rPod struct {
	Prio   string `json:"prio"`  // prod | mid | batch | free | none
	Qos    string `json:"qos"`   // LSE | LSR | LS | BE (always set as label)
	Phase  string `json:"phase"` // Running | Pending | Succeeded | Failed
	Term   bool   `json:"term"`  // being deleted (finalizer + Delete on the fake API server => deletionTimestamp set)
	Req    c09rRL `json:"req"`
	Metric bool   `json:"metric"`
	Use    c09rRL `json:"use"`
	Numa   []int  `json:"numa"` // always empty here (no NodeResourceTopology object at this level)
}

// c09rIn is the batch input record of Reclaim.tla plus nm / diff
type c09rIn struct {
	Cap      c09rRL    `json:"cap"`
	Alloc    c09rRL    `json:"alloc"`
	Anno     c09rRL    `json:"anno"`
	Thr      c09rRL    `json:"thr"`
	Pol      c09rPol   `json:"pol"`
	Pct      c09rRL    `json:"pct"`
	Degrade  int64     `json:"degrade"`
	Age      int64     `json:"age"` // seconds since NodeMetric.status.updateTime; -1: never updated (or no NodeMetric)
	Sys      c09rRL    `json:"sys"`
	Apps     []c09rUse `json:"apps"`
	Pods     []c09rPod `json:"pods"`
	Dangling []c09rUse `json:"dangling"`
	Zones    []c09rRL  `json:"zones"` // always empty
	Nm       string    `json:"nm"`    // present | missing (the NodeMetric object does not exist)
	Diff     int64     `json:"diff"`  // resourceDiffThreshold in percent
}

type c09rPre struct {
	Has bool  `json:"has"`
	CPU int64 `json:"cpu"`
	Mem int64 `json:"mem"`
}

func (in c09rIn) clone() c09rIn {
	o := in
	o.Apps = append([]c09rUse{}, in.Apps...)
	o.Dangling = append([]c09rUse{}, in.Dangling...)
	o.Zones = []c09rRL{}
	o.Pods = make([]c09rPod, len(in.Pods))
	for i, p := range in.Pods {
		p.Numa = []int{}
		o.Pods[i] = p
	}
	return o
}

var c09rStart = time.Date(2024, 5, 1, 12, 0, 0, 0, time.UTC)

const (
	c09rNode      = "n1"
	c09rFinalizer = "verif.koordinator.sh/hold"
)

func c09rPrio(s string) extension.PriorityClass {
	switch s {
	case "prod":
		return extension.PriorityProd
	case "mid":
		return extension.PriorityMid
	case "batch":
		return extension.PriorityBatch
	case "free":
		return extension.PriorityFree
	}
	return extension.PriorityNone
}

func c09rPrioValue(s string) *int32 {
	var v int32
	switch s {
	case "prod":
		v = extension.PriorityProdValueDefault
	case "mid":
		v = extension.PriorityMidValueDefault
	case "batch":
		v = extension.PriorityBatchValueDefault
	case "free":
		v = extension.PriorityFreeValueDefault
	default:
		return nil
	}
	return &v
}

func c09rEffPrio(p c09rPod) string {
	if p.Prio != "none" {
		return p.Prio
	}
	if p.Qos == "BE" {
		return "batch"
	}
	return "prod"
}

func c09rRes(r c09rRL) corev1.ResourceList {
	return corev1.ResourceList{
		corev1.ResourceCPU:    *resource.NewMilliQuantity(r.CPU, resource.DecimalSI),
		corev1.ResourceMemory: *resource.NewQuantity(r.Mem, resource.BinarySI),
	}
}

func c09rPolicy(s string) *configuration.CalculatePolicy {
	if s == "" {
		return nil
	}
	p := configuration.CalculatePolicy(s)
	return &p
}

func c09rPct(v int64) *int64 {
	if v < 0 {
		return nil
	}
	return &v
}

// ---------------------------------------------------------------------------------------------- executor

type c09rWorld struct {
	c       ctrlclient.Client
	r       *NodeResourceReconciler
	cfg     *FakeCfgCache
	// the controller's real config cache (fed with the slo-controller ConfigMap only when the configuration changes, as
	// by ConfigMap events) and a second node with its own strategy overrides that is reconciled before the node under
	// observation: what another node is configured with never shows in this node's figures
	real    *sloctrlconfig.ColocationHandlerForConfigMapEvent
	lastCfg string
	useReal bool
	decoy   bool
	pre     c09rPre
	created bool
	pods    string // the pod set the fake API server currently holds (as JSON of inp.pods)
}

func c09rNewWorld(pre c09rPre) *c09rWorld {
	// a small scheme on purpose: the fake object tracker rebuilds a REST mapper over the whole scheme on every write
	scheme := runtime.NewScheme()
	_ = corev1.AddToScheme(scheme)
	_ = slov1alpha1.AddToScheme(scheme)
	c := fake.NewClientBuilder().WithScheme(scheme).
		WithIndex(&corev1.Pod{}, "spec.nodeName", func(obj ctrlclient.Object) []string {
			return []string{obj.(*corev1.Pod).Spec.NodeName}
		}).
		Build()
	cfg := &FakeCfgCache{available: true}
	w := &c09rWorld{c: c, cfg: cfg, pre: pre}
	w.real = sloctrlconfig.NewColocationHandlerForConfigMapEvent(c, *sloconfig.NewDefaultColocationCfg(), &record.FakeRecorder{})
	w.r = &NodeResourceReconciler{
		Client:          c,
		cfgCache:        cfg,
		Recorder:        &record.FakeRecorder{},
		Scheme:          scheme,
		NodeSyncContext: framework.NewSyncContext(),
		GPUSyncContext:  framework.NewSyncContext(),
		Clock:           fakeclock.NewFakeClock(c09rStart),
	}
	// hands the client to the plugins (batchresource reads the NodeResourceTopology through it: none exists here)
	framework.RunSetupExtenders(framework.NewOption().WithClient(c).WithScheme(scheme).
		WithControllerBuilder(builder.ControllerManagedBy(&testutil.FakeManager{})))
	return w
}

func (w *c09rWorld) strategy(in c09rIn) configuration.ColocationStrategy {
	s := sloconfig.DefaultColocationStrategy()
	enable := true
	diff := float64(in.Diff) / 100
	upd := int64(300)
	thrC, thrM, deg := in.Thr.CPU, in.Thr.Mem, in.Degrade
	s.Enable = &enable
	s.CPUReclaimThresholdPercent = &thrC
	s.MemoryReclaimThresholdPercent = &thrM
	s.CPUCalculatePolicy = c09rPolicy(in.Pol.CPU)
	s.MemoryCalculatePolicy = c09rPolicy(in.Pol.Mem)
	s.BatchCPUThresholdPercent = c09rPct(in.Pct.CPU)
	s.BatchMemoryThresholdPercent = c09rPct(in.Pct.Mem)
	s.DegradeTimeMinutes = &deg
	s.UpdateTimeThresholdSeconds = &upd
	s.ResourceDiffThreshold = &diff
	return s
}

func c09rAnno(in c09rIn) string {
	if in.Anno.CPU > 0 || in.Anno.Mem > 0 {
		return fmt.Sprintf(`{"resources":{"cpu":"%dm","memory":"%d"}%s}`, in.Anno.CPU, in.Anno.Mem,
			[]string{"", `,"applyPolicy":"Default"`, `,"applyPolicy":"ReservedCPUsOnly"`}[(in.Anno.CPU+in.Anno.Mem)%3]) // how it applies to scheduling; reserved either way
	}
	return ""
}

// syncNode creates the node (first step) or brings its kubelet-owned fields to inp (later steps)
func (w *c09rWorld) syncNode(ctx context.Context, in c09rIn) error {
	if !w.created {
		node := &corev1.Node{
			ObjectMeta: metav1.ObjectMeta{Name: c09rNode, Annotations: map[string]string{}, Labels: map[string]string{}},
			Status:     corev1.NodeStatus{Capacity: c09rRes(in.Cap), Allocatable: c09rRes(in.Alloc)},
		}
		if a := c09rAnno(in); a != "" {
			node.Annotations[extension.AnnotationNodeReservation] = a
		}
		if w.pre.Has {
			cq, mq := *resource.NewQuantity(w.pre.CPU, resource.DecimalSI), *resource.NewQuantity(w.pre.Mem, resource.BinarySI)
			node.Status.Allocatable[extension.BatchCPU], node.Status.Capacity[extension.BatchCPU] = cq, cq
			node.Status.Allocatable[extension.BatchMemory], node.Status.Capacity[extension.BatchMemory] = mq, mq
		}
		w.created = true
		return w.c.Create(ctx, node)
	}
	node := &corev1.Node{}
	if err := w.c.Get(ctx, types.NamespacedName{Name: c09rNode}, node); err != nil {
		return err
	}
	if want := c09rAnno(in); node.Annotations[extension.AnnotationNodeReservation] != want {
		if node.Annotations == nil {
			node.Annotations = map[string]string{}
		}
		if want == "" {
			delete(node.Annotations, extension.AnnotationNodeReservation)
		} else {
			node.Annotations[extension.AnnotationNodeReservation] = want
		}
		if err := w.c.Update(ctx, node); err != nil {
			return err
		}
	}
	changed := false
	for name, q := range c09rRes(in.Cap) {
		if old, ok := node.Status.Capacity[name]; !ok || old.Cmp(q) != 0 {
			node.Status.Capacity[name] = q
			changed = true
		}
	}
	for name, q := range c09rRes(in.Alloc) {
		if old, ok := node.Status.Allocatable[name]; !ok || old.Cmp(q) != 0 {
			node.Status.Allocatable[name] = q
			changed = true
		}
	}
	if changed {
		return w.c.Status().Update(ctx, node)
	}
	return nil
}

// syncPods replaces the pods of the node by inp.pods
func (w *c09rWorld) syncPods(ctx context.Context, in c09rIn) error {
	b, _ := json.Marshal(in.Pods)
	if w.created && string(b) == w.pods {
		return nil
	}
	w.pods = string(b)
	old := &corev1.PodList{}
	if err := w.c.List(ctx, old); err != nil {
		return err
	}
	for i := range old.Items {
		pod := &old.Items[i]
		if len(pod.Finalizers) > 0 {
			pod.Finalizers = nil
			if err := w.c.Update(ctx, pod); err != nil {
				return err
			}
		}
		if err := w.c.Delete(ctx, pod); err != nil && !apierrors.IsNotFound(err) {
			return err
		}
	}
	for k, p := range in.Pods {
		pod := &corev1.Pod{
			ObjectMeta: metav1.ObjectMeta{
				Name: fmt.Sprintf("p%d", k), Namespace: "ns", UID: types.UID(fmt.Sprintf("uid-p%d", k)),
				Labels:      map[string]string{extension.LabelPodQoS: p.Qos},
				Annotations: map[string]string{},
			},
			Spec: corev1.PodSpec{
				NodeName: c09rNode,
				Priority: c09rPrioValue(p.Prio),
				Containers: []corev1.Container{{
					Name:      "c",
					Resources: corev1.ResourceRequirements{Requests: c09rRes(p.Req), Limits: c09rRes(p.Req)},
				}},
			},
			Status: corev1.PodStatus{Phase: corev1.PodPhase(p.Phase)},
		}
		if p.Prio != "none" {
			pod.Spec.PriorityClassName = string(c09rPrio(p.Prio))
		}
		if p.Term {
			pod.Finalizers = []string{c09rFinalizer}
		}
		if err := w.c.Create(ctx, pod); err != nil {
			return err
		}
		if p.Term { // the fake API server keeps an object with finalizers and sets its deletionTimestamp
			if err := w.c.Delete(ctx, pod); err != nil {
				return err
			}
		}
	}
	return nil
}

func (w *c09rWorld) syncNodeMetric(ctx context.Context, in c09rIn, now time.Time) error {
	cur := &slov1alpha1.NodeMetric{}
	err := w.c.Get(ctx, types.NamespacedName{Name: c09rNode}, cur)
	exists := err == nil
	if err != nil && !apierrors.IsNotFound(err) {
		return err
	}
	if in.Nm == "missing" {
		if exists {
			return w.c.Delete(ctx, cur)
		}
		return nil
	}
	nm := &slov1alpha1.NodeMetric{
		ObjectMeta: metav1.ObjectMeta{Name: c09rNode},
		Status: slov1alpha1.NodeMetricStatus{
			NodeMetric: &slov1alpha1.NodeMetricInfo{
				NodeUsage:   slov1alpha1.ResourceMap{ResourceList: c09rRes(in.Sys)},
				SystemUsage: slov1alpha1.ResourceMap{ResourceList: c09rRes(in.Sys)},
			},
		},
	}
	if in.Age >= 0 {
		nm.Status.UpdateTime = &metav1.Time{Time: now.Add(-time.Duration(in.Age) * time.Second)}
	}
	for k, p := range in.Pods {
		if p.Metric {
			nm.Status.PodsMetric = append(nm.Status.PodsMetric, &slov1alpha1.PodMetricInfo{
				Name: fmt.Sprintf("p%d", k), Namespace: "ns",
				PodUsage: slov1alpha1.ResourceMap{ResourceList: c09rRes(p.Use)},
				Priority: c09rPrio(c09rEffPrio(p)), QoS: extension.QoSClass(p.Qos),
			})
		}
	}
	for k, d := range in.Dangling {
		nm.Status.PodsMetric = append(nm.Status.PodsMetric, &slov1alpha1.PodMetricInfo{
			Name: fmt.Sprintf("gone%d", k), Namespace: "ns",
			PodUsage: slov1alpha1.ResourceMap{ResourceList: c09rRes(d.Use)},
			Priority: c09rPrio(d.Prio),
		})
	}
	for k, a := range in.Apps {
		nm.Status.HostApplicationMetric = append(nm.Status.HostApplicationMetric, &slov1alpha1.HostApplicationMetricInfo{
			Name:     fmt.Sprintf("app%d", k),
			Usage:    slov1alpha1.ResourceMap{ResourceList: c09rRes(a.Use)},
			Priority: c09rPrio(a.Prio),
		})
	}
	if exists {
		nm.ResourceVersion = cur.ResourceVersion
		return w.c.Update(ctx, nm)
	}
	return w.c.Create(ctx, nm)
}

var c09rDecoys = []string{"n2", "n3"}

// syncConfig delivers the slo-controller ConfigMap to the real config cache when the configuration differs from the
// one delivered last. The real cache is used for this step only if it then hands out exactly the strategy of the step
// (it merges with the defaults and keeps its previous content when it finds the new one invalid); otherwise the
// package's FakeCfgCache is used as before.
func (w *c09rWorld) syncConfig(s configuration.ColocationStrategy) {
	hi := int64(97)
	cfg := configuration.ColocationCfg{ColocationStrategy: s, NodeConfigs: []configuration.NodeColocationCfg{{
		NodeCfgProfile:     configuration.NodeCfgProfile{Name: "decoy", NodeSelector: &metav1.LabelSelector{MatchLabels: map[string]string{"pool": "decoy"}}},
		ColocationStrategy: configuration.ColocationStrategy{CPUReclaimThresholdPercent: &hi, MemoryReclaimThresholdPercent: &hi},
	}}}
	b, _ := json.Marshal(cfg)
	if string(b) != w.lastCfg {
		cm := &corev1.ConfigMap{ObjectMeta: metav1.ObjectMeta{Name: sloconfig.SLOCtrlConfigMap, Namespace: sloconfig.ConfigNameSpace},
			Data: map[string]string{configuration.ColocationConfigKey: string(b)}}
		w.real.SyncCacheIfChanged(cm)
		got := w.real.GetCfgCopy()
		want := *s.DeepCopy() // the cache merges with the defaults: an unset calculate policy becomes "usage", which is what unset means
		def := sloconfig.DefaultColocationStrategy()
		if want.CPUCalculatePolicy == nil {
			want.CPUCalculatePolicy = def.CPUCalculatePolicy
		}
		if want.MemoryCalculatePolicy == nil {
			want.MemoryCalculatePolicy = def.MemoryCalculatePolicy
		}
		w.useReal = w.real.IsCfgAvailable() && !w.real.IsErrorStatus() && got != nil && reflect.DeepEqual(got.ColocationStrategy, want)
		w.lastCfg = string(b)
		if !w.useReal {
			w.lastCfg = ""
		}
	}
	if w.useReal {
		w.r.cfgCache = w.real
		c09rViaRealCfg++
	} else {
		w.r.cfgCache = w.cfg
	}
}

var c09rViaRealCfg int

// reconcileDecoy reconciles the other nodes: n2 is selected by a node config and carries a strategy annotation, n3
// carries the annotation only; both override most of the strategy
func (w *c09rWorld) reconcileDecoy(ctx context.Context) error {
	if !w.decoy {
		big := c09rRL{CPU: 64000, Mem: 64 << 30}
		for _, name := range c09rDecoys {
			node := &corev1.Node{
				ObjectMeta: metav1.ObjectMeta{Name: name, Labels: map[string]string{}, Annotations: map[string]string{
					extension.AnnotationNodeColocationStrategy: `{"cpuReclaimThresholdPercent":96,"memoryReclaimThresholdPercent":95,"cpuCalculatePolicy":"usage","memoryCalculatePolicy":"usage","batchCPUThresholdPercent":100,"batchMemoryThresholdPercent":100,"degradeTimeMinutes":100000,"resourceDiffThreshold":0.9}`,
				}},
				Status: corev1.NodeStatus{Capacity: c09rRes(big), Allocatable: c09rRes(big)},
			}
			if name == c09rDecoys[0] {
				node.Labels["pool"] = "decoy"
			}
			if err := w.c.Create(ctx, node); err != nil {
				return err
			}
		}
		w.decoy = true
	}
	for _, name := range c09rDecoys {
		var err error
		panicked, msg := vu.Protect(func() {
			_, err = w.r.Reconcile(ctx, ctrl.Request{NamespacedName: types.NamespacedName{Name: name}})
		})
		if panicked {
			return fmt.Errorf("panic: %s", msg)
		}
		if err != nil {
			return err
		}
	}
	return nil
}

// exec brings the world to in at time start+t, runs the real Reconcile and projects the node
func (w *c09rWorld) exec(in c09rIn, t int64) (out vu.Ev, failure string) {
	ctx := context.Background()
	now := c09rStart.Add(time.Duration(t) * time.Second)
	w.r.Clock = fakeclock.NewFakeClock(now)
	batchresource.Clock = fakeclock.NewFakeClock(now)
	w.cfg.cfg = configuration.ColocationCfg{ColocationStrategy: w.strategy(in)}
	w.syncConfig(w.cfg.cfg.ColocationStrategy)
	if err := w.syncNode(ctx, in); err != nil {
		return nil, "driver: node: " + err.Error()
	}
	if w.useReal {
		if err := w.reconcileDecoy(ctx); err != nil {
			return nil, "driver: decoy node: " + err.Error()
		}
	}
	if err := w.syncPods(ctx, in); err != nil {
		return nil, "driver: pods: " + err.Error()
	}
	if err := w.syncNodeMetric(ctx, in, now); err != nil {
		return nil, "driver: nodemetric: " + err.Error()
	}
	var res ctrl.Result
	var err error
	panicked, msg := vu.Protect(func() {
		res, err = w.r.Reconcile(ctx, ctrl.Request{NamespacedName: types.NamespacedName{Name: c09rNode}})
	})
	if panicked {
		return nil, "panic: " + msg
	}
	if err != nil || res.Requeue {
		return nil, fmt.Sprintf("reconcile: requeue=%v err=%v", res.Requeue, err)
	}
	node := &corev1.Node{}
	if err := w.c.Get(ctx, types.NamespacedName{Name: c09rNode}, node); err != nil {
		return nil, "driver: get node: " + err.Error()
	}
	proj := func(rl corev1.ResourceList) vu.Ev {
		one := func(name corev1.ResourceName) int64 {
			if q, ok := rl[name]; ok {
				return q.Value()
			}
			return 0
		}
		return vu.Ev{"cpu": one(extension.BatchCPU), "mem": one(extension.BatchMemory)}
	}
	return vu.Ev{"alloc": proj(node.Status.Allocatable), "cap": proj(node.Status.Capacity)}, ""
}

// ---------------------------------------------------------------------------------------------- recording

type c09rStep struct {
	In c09rIn
	T  int64
}

type c09rRunner struct {
	rec    *vu.Recorder
	recons int
	kinds  map[string]int // generated step kinds (reported by t.Logf only)
}

func (r *c09rRunner) segment(pre c09rPre, steps []c09rStep) {
	r.rec.Reset(vu.Ev{"pre": pre})
	w := c09rNewWorld(pre)
	for _, st := range steps {
		out, failure := w.exec(st.In, st.T)
		r.recons++
		if failure != "" {
			r.rec.Emit(vu.Ev{"op": "failure", "inp": st.In, "t": st.T, "what": failure})
			return
		}
		r.rec.Emit(vu.Ev{"op": "recon", "inp": st.In, "t": st.T, "out": out})
	}
}

// ---------------------------------------------------------------------------------------------- generation

// c09rGen is the shadow of one node's life: time passes, koordlet reports (or stops), the NodeMetric object is
// deleted, pods come and go. It only produces the inputs of the steps.
type c09rGen struct {
	in    c09rIn
	t     int64 // seconds since the start of the segment
	upd   int64 // time of the last NodeMetric update
	never bool  // the NodeMetric object exists but was never updated
	steps []c09rStep
	kinds map[string]int
}

func (g *c09rGen) report(lag int64) { // koordlet reports now (the report is lag seconds old)
	g.in.Nm, g.never, g.upd = "present", false, g.t-lag
}
func (g *c09rGen) wait(dt int64) { g.t += dt }
func (g *c09rGen) remove()       { g.in.Nm = "missing" }
func (g *c09rGen) neverUpdated() { g.in.Nm, g.never = "present", true }

// policy "request" (memory): keep system usage + high-priority host applications within the node reservation
// (beyond it the unchanged code departs from the statement: recorded finding, reported by the Calculate-level driver)
func (g *c09rGen) fit() {
	if g.in.Pol.Mem != "request" {
		return
	}
	reserved := g.in.Cap.Mem - g.in.Alloc.Mem
	if reserved < 0 {
		reserved = 0
	}
	if g.in.Anno.Mem > reserved {
		reserved = g.in.Anno.Mem
	}
	left := reserved
	for k := range g.in.Apps {
		if g.in.Apps[k].Use.Mem > left/2 {
			g.in.Apps[k].Use.Mem = left / 2
		}
		left -= g.in.Apps[k].Use.Mem
	}
	if g.in.Sys.Mem > left {
		g.in.Sys.Mem = left
	}
}

// snap records one reconcile of the current world
func (g *c09rGen) snap(kind string) {
	g.fit()
	in := g.in.clone()
	switch {
	case in.Nm == "missing" || g.never:
		in.Age = -1
	default:
		in.Age = g.t - g.upd
	}
	g.steps = append(g.steps, c09rStep{In: in, T: g.t})
	if g.kinds != nil {
		g.kinds[kind]++
	}
}

func c09rRLOf(v, c, m int64) c09rRL { return c09rRL{v * c, v * m} }

func (r *c09rRunner) enumerate(thorough bool) {
	// units: 100 milli-cores and 256 "bytes"; capacity 80 units
	const c, m = int64(100), int64(256)
	pod := func(prio, qos, phase string, term bool, req int64, metric bool, use int64) c09rPod {
		return c09rPod{Prio: prio, Qos: qos, Phase: phase, Term: term, Req: c09rRLOf(req, c, m), Metric: metric, Use: c09rRLOf(use, c, m), Numa: []int{}}
	}
	podSets := [][]c09rPod{
		{},
		{pod("prod", "LS", "Running", false, 12, true, 4), pod("prod", "LS", "Running", true, 9, false, 0)},
	}
	if thorough {
		podSets = append(podSets, []c09rPod{pod("prod", "LSE", "Running", true, 10, true, 3), pod("batch", "BE", "Running", false, 8, true, 8), pod("mid", "LS", "Pending", false, 6, false, 0)})
	}
	pres := []c09rPre{{}, {true, 30 * c, 30 * m}}
	degs := []int64{1, 15}
	diffs := []int64{0, 10}
	polMs := []string{"usage", "request", "maxUsageRequest"}
	for _, diff := range diffs {
		for _, pre := range pres {
			for _, deg := range degs {
				for _, pm := range polMs {
					for _, ps := range podSets {
						base := c09rIn{
							Cap: c09rRLOf(80, c, m), Alloc: c09rRLOf(75, c, m), Thr: c09rRL{75, 75}, Pol: c09rPol{"", pm}, Pct: c09rRL{-1, -1},
							Degrade: deg, Sys: c09rRLOf(3, c, m), Pods: ps, Nm: "missing", Diff: diff,
						}.clone()
						d := deg * 60
						mk := func() *c09rGen { return &c09rGen{in: base.clone(), kinds: r.kinds} }
						// A  fresh metric: publish; NodeMetric deleted: reconcile (twice); koordlet comes back
						g := mk()
						g.report(10)
						g.snap("fresh")
						g.wait(20)
						g.remove()
						g.snap("missing")
						g.wait(40)
						g.snap("missing")
						g.wait(30)
						g.report(5)
						g.snap("fresh")
						r.segment(pre, g.steps)
						// B  fresh; koordlet stops reporting: at the degrade time (not yet stale), just past it, long past it; back
						g = mk()
						g.report(0)
						g.snap("fresh")
						g.wait(d)
						g.snap("fresh")
						g.wait(1)
						g.snap("expired")
						g.wait(10 * d)
						g.snap("expired")
						g.report(30)
						g.snap("fresh")
						r.segment(pre, g.steps)
						// C  no NodeMetric at the controller's first reconcile (what an earlier instance published must go); then
						//    created but never updated; then reported; then deleted
						g = mk()
						g.snap("missing")
						g.wait(15)
						g.neverUpdated()
						g.snap("never")
						g.wait(15)
						g.report(3)
						g.snap("fresh")
						g.wait(15)
						g.remove()
						g.snap("missing")
						r.segment(pre, g.steps)
						// D  a metric that is already stale at the first reconcile; usage moves a little / a lot while fresh
						//    (node writer hysteresis); never updated
						g = mk()
						g.wait(d + 100)
						g.report(d + 61)
						g.snap("expired")
						g.report(20)
						g.snap("fresh")
						g.wait(30)
						g.in.Sys = c09rRLOf(4, c, m) // small move (< 10 % of what is published)
						g.report(10)
						g.snap("fresh")
						g.wait(30)
						g.in.Sys = c09rRLOf(25, c, m) // large move
						g.report(10)
						g.snap("fresh")
						g.wait(30)
						g.neverUpdated()
						g.snap("never")
						r.segment(pre, g.steps)
					}
				}
			}
		}
	}
}

func c09rRand(rng *rand.Rand) c09rIn {
	pick := func(xs ...string) string { return xs[rng.Intn(len(xs))] }
	upTo := func(n int64) int64 {
		if n <= 0 {
			return 0
		}
		return rng.Int63n(n + 1)
	}
	in := c09rIn{Degrade: 1 + upTo(29), Apps: []c09rUse{}, Pods: []c09rPod{}, Dangling: []c09rUse{}, Zones: []c09rRL{}, Nm: "missing"}
	cpus := []int64{4000, 8000, 16000, 32000, 64000, 96000, 128000}
	in.Cap.CPU = cpus[rng.Intn(len(cpus))]
	if rng.Intn(3) == 0 {
		in.Cap.CPU = 1000 + upTo(127000)
	}
	in.Cap.Mem = 8000 + upTo(992000)
	frac := func(v int64, pct int64) int64 { return upTo(v * pct / 100) }
	in.Alloc = c09rRL{in.Cap.CPU - frac(in.Cap.CPU, 10), in.Cap.Mem - frac(in.Cap.Mem, 10)}
	if rng.Intn(2) == 0 {
		in.Anno = c09rRL{frac(in.Cap.CPU, 12), frac(in.Cap.Mem, 12)}
	}
	thr := func() int64 {
		if rng.Intn(4) == 0 {
			return []int64{0, 25, 50, 60, 65, 70, 75, 80, 100}[rng.Intn(9)]
		}
		return upTo(100)
	}
	in.Thr = c09rRL{thr(), thr()}
	in.Pol = c09rPol{pick("", "usage", "maxUsageRequest"), pick("", "usage", "request", "maxUsageRequest")}
	pct := func() int64 {
		if rng.Intn(5) < 3 {
			return -1
		}
		return upTo(110)
	}
	in.Pct = c09rRL{pct(), pct()}
	in.Diff = []int64{0, 0, 10, 10, 25}[rng.Intn(5)]
	in.Sys = c09rRL{frac(in.Cap.CPU, 15), frac(in.Cap.Mem, 15)}
	for k := rng.Intn(3); k > 0; k-- {
		in.Apps = append(in.Apps, c09rUse{Prio: pick("prod", "prod", "mid", "batch", "free"), Use: c09rRL{frac(in.Cap.CPU, 5), frac(in.Cap.Mem, 5)}})
	}
	for k := rng.Intn(5); k > 0; k-- {
		in.Pods = append(in.Pods, c09rRandPod(rng, in, 15))
	}
	for k := rng.Intn(2); k > 0; k-- {
		in.Dangling = append(in.Dangling, c09rUse{Prio: pick("prod", "prod", "mid", "batch", "none"), Use: c09rRL{frac(in.Cap.CPU, 8), frac(in.Cap.Mem, 8)}})
	}
	return in
}

func c09rRandPod(rng *rand.Rand, in c09rIn, share int64) c09rPod {
	pick := func(xs ...string) string { return xs[rng.Intn(len(xs))] }
	upTo := func(n int64) int64 {
		if n <= 0 {
			return 0
		}
		return rng.Int63n(n + 1)
	}
	p := c09rPod{Numa: []int{}}
	p.Prio = pick("prod", "prod", "prod", "mid", "batch", "none")
	switch p.Prio {
	case "batch":
		p.Qos = "BE"
	case "none":
		p.Qos = pick("LS", "LSR", "LSE", "BE")
	case "mid":
		p.Qos = pick("LS", "BE")
	default:
		p.Qos = pick("LS", "LS", "LSR", "LSE")
	}
	p.Phase = pick("Running", "Running", "Running", "Running", "Running", "Pending", "Succeeded", "Failed")
	p.Req = c09rRL{upTo(in.Cap.CPU * share / 100), upTo(in.Cap.Mem * share / 100)}
	p.Metric = rng.Intn(10) < 7
	if p.Metric {
		p.Use = c09rRL{upTo(p.Req.CPU*3/2 + 50), upTo(p.Req.Mem*3/2 + 50)}
	}
	if (p.Phase == "Running" || p.Phase == "Pending") && rng.Intn(4) == 0 {
		p.Term = true
	}
	return p
}

// one random life of a node: 4..7 reconciles
func (r *c09rRunner) randomSegment(rng *rand.Rand) {
	g := &c09rGen{in: c09rRand(rng), kinds: r.kinds}
	pre := c09rPre{}
	if rng.Intn(3) == 0 {
		pre = c09rPre{true, rng.Int63n(g.in.Cap.CPU + 1), rng.Int63n(g.in.Cap.Mem + 1)}
	}
	d := g.in.Degrade * 60
	move := func(v, capV int64) int64 { // usage moves a little (within the hysteresis) or a lot, up or down
		var by int64
		if rng.Intn(2) == 0 {
			by = rng.Int63n(capV/50 + 1)
		} else {
			by = rng.Int63n(capV/4 + 1)
		}
		if rng.Intn(3) == 0 {
			by = -by
		}
		if v+by < 0 {
			return 0
		}
		return v + by
	}
	// how the life starts
	switch rng.Intn(6) {
	case 0: // no NodeMetric yet
	case 1:
		g.neverUpdated()
	case 2: // already stale
		g.wait(d + 1000)
		g.report(d + 1 + rng.Int63n(500))
	default:
		g.wait(100)
		g.report(rng.Int63n(60))
	}
	kindNow := func() string {
		switch {
		case g.in.Nm == "missing":
			return "missing"
		case g.never:
			return "never"
		case g.t-g.upd > d:
			return "expired"
		}
		return "fresh"
	}
	g.snap(kindNow())
	for n := 3 + rng.Intn(4); n > 0; n-- {
		switch k := rng.Intn(20); {
		case k < 7: // koordlet reports; usages have moved
			g.wait(1 + rng.Int63n(90))
			g.in.Sys = c09rRL{move(g.in.Sys.CPU, g.in.Cap.CPU), move(g.in.Sys.Mem, g.in.Cap.Mem)}
			for i := range g.in.Pods {
				if g.in.Pods[i].Metric && rng.Intn(2) == 0 {
					g.in.Pods[i].Use = c09rRL{move(g.in.Pods[i].Use.CPU, g.in.Cap.CPU), move(g.in.Pods[i].Use.Mem, g.in.Cap.Mem)}
				}
				if !g.in.Pods[i].Metric && rng.Intn(2) == 0 { // the pod shows up in the report
					g.in.Pods[i].Metric = true
					g.in.Pods[i].Use = c09rRL{rng.Int63n(g.in.Pods[i].Req.CPU + 50), rng.Int63n(g.in.Pods[i].Req.Mem + 50)}
				}
			}
			g.report(rng.Int63n(30))
		case k < 9: // a little time passes, nothing else
			g.wait(1 + rng.Int63n(120))
		case k < 10: // exactly up to the degrade time of the last report
			if g.in.Nm == "present" && !g.never && g.upd+d > g.t {
				g.t = g.upd + d + int64(rng.Intn(2))
			} else {
				g.wait(d)
			}
		case k < 12: // koordlet is silent beyond the degrade time
			g.wait(d + 1 + rng.Int63n(3*d))
		case k < 15: // the NodeMetric object disappears
			g.wait(1 + rng.Int63n(60))
			g.remove()
		case k < 16: // a NodeMetric object that was never updated (re-created empty)
			g.wait(1 + rng.Int63n(60))
			g.neverUpdated()
		case k < 18: // a pod arrives (not yet reported)
			g.wait(1 + rng.Int63n(30))
			if len(g.in.Pods) < 6 {
				p := c09rRandPod(rng, g.in, 15)
				p.Metric, p.Use = false, c09rRL{}
				g.in.Pods = append(g.in.Pods, p)
			}
		default: // a pod starts being deleted, or is gone (its metric may linger)
			g.wait(1 + rng.Int63n(30))
			if len(g.in.Pods) > 0 {
				i := rng.Intn(len(g.in.Pods))
				if rng.Intn(2) == 0 && (g.in.Pods[i].Phase == "Running" || g.in.Pods[i].Phase == "Pending") {
					g.in.Pods[i].Term = true
				} else {
					p := g.in.Pods[i]
					g.in.Pods = append(g.in.Pods[:i:i], g.in.Pods[i+1:]...)
					if p.Metric && len(g.in.Dangling) < 3 {
						g.in.Dangling = append(g.in.Dangling, c09rUse{Prio: c09rEffPrio(p), Use: p.Use})
					}
				}
			}
		}
		g.snap(kindNow())
	}
	r.segment(pre, g.steps)
}

// ---------------------------------------------------------------------------------------------- entry point

func TestVerifC09Reconcile(t *testing.T) {
	if !vu.Enabled() {
		t.Skip("verification harness: VERIF_OUT not set")
	}
	klog.LogToStderr(false)
	klog.SetOutput(io.Discard)
	oldClock := batchresource.Clock
	defer func() { batchresource.Clock = oldClock }()

	r := &c09rRunner{rec: vu.NewRecorder(""), kinds: map[string]int{}}
	defer r.rec.Close()

	if rp := vu.ReplayPath(); rp != "" {
		for _, raw := range vu.ReadScripts(rp) {
			var evs []struct {
				Op  string   `json:"op"`
				Pre *c09rPre `json:"pre"`
				Inp *c09rIn  `json:"inp"`
				T   int64    `json:"t"`
			}
			if err := json.Unmarshal(raw, &evs); err != nil {
				t.Fatalf("bad replay script: %v", err)
			}
			var pre c09rPre
			var steps []c09rStep
			for _, e := range evs {
				switch {
				case e.Op == "reset" && e.Pre != nil:
					pre = *e.Pre
				case e.Op == "recon" && e.Inp != nil:
					steps = append(steps, c09rStep{In: e.Inp.clone(), T: e.T})
				}
			}
			if len(steps) > 0 {
				r.segment(pre, steps)
			}
		}
		return
	}

	r.enumerate(vu.Thorough())
	nEnum := r.rec.Segments()
	n := vu.EnvInt("VERIF_C09_RANDOM_RECON", 700)
	if vu.Thorough() {
		n = vu.EnvInt("VERIF_C09_RANDOM_RECON", 6000)
	}
	rng := vu.Rand(11)
	for k := 0; k < n; k++ {
		r.randomSegment(rng)
	}
	t.Logf("C09 reconcile: %d enumerated + %d random segments, %d reconciles (%d with the real config cache and a second node), %d events; NodeMetric at reconcile: %v",
		nEnum, r.rec.Segments()-nEnum, r.recons, c09rViaRealCfg, r.rec.Events(), r.kinds)
}
