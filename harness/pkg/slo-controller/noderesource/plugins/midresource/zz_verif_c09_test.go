package midresource

// Verification harness for C09, mid tier (injected by `go test -overlay`, see /verif/DESIGN.md and
// /verif/specs/Reclaim/Reclaim.tla part 1c). Executor + recorder only: it turns an abstract input record into the
// real arguments of Plugin.Calculate, calls the REAL Plugin.Calculate with an injected fake clock and logs
// input + returned ResourceItems. Expected values are computed only by TLC (ReclaimTrace.tla, ops mcalc / mraise).
//
// Projection (field reads only):  out.cpu / out.mem = {reset: item.Reset, has: item.Quantity != nil,
// q: item.Quantity.Value()}  (mid-cpu is published in milli-cores, mid-memory in bytes).

import (
	"encoding/json"
	"fmt"
	"io"
	"math/rand"
	"testing"
	"time"

	corev1 "k8s.io/api/core/v1"
	"k8s.io/apimachinery/pkg/api/resource"
	metav1 "k8s.io/apimachinery/pkg/apis/meta/v1"
	"k8s.io/apimachinery/pkg/types"
	"k8s.io/klog/v2"
	fakeclock "k8s.io/utils/clock/testing"

	"github.com/koordinator-sh/koordinator/apis/configuration"
	"github.com/koordinator-sh/koordinator/apis/extension"
	slov1alpha1 "github.com/koordinator-sh/koordinator/apis/slo/v1alpha1"
	"github.com/koordinator-sh/koordinator/pkg/slo-controller/noderesource/framework"
	vu "github.com/koordinator-sh/koordinator/pkg/verifutil"
)

type c09RL struct {
	CPU int64 `json:"cpu"`
	Mem int64 `json:"mem"`
}

type c09Opt struct {
	Has bool  `json:"has"`
	CPU int64 `json:"cpu"`
	Mem int64 `json:"mem"`
}

type c09Use struct {
	Prio string `json:"prio"`
	Use  c09RL  `json:"use"`
}

type c09Pod struct {
	Prio  string `json:"prio"` // prod | mid | batch | free | none
	Qos   string `json:"qos"`
	Phase string `json:"phase"`
	Term  bool   `json:"term"` // being deleted: deletionTimestamp set (the phase stays what it is)
	Req   c09RL  `json:"req"`
}

type c09In struct {
	Cap     c09RL    `json:"cap"`
	Alloc   c09RL    `json:"alloc"`
	Anno    c09RL    `json:"anno"`
	Sys     c09RL    `json:"sys"`
	Degrade int64    `json:"degrade"`
	Age     int64    `json:"age"`
	Apps    []c09Use `json:"apps"`
	Usage   c09Opt   `json:"usage"`
	ProdRec c09Opt   `json:"prodrec"`
	Pods    []c09Pod `json:"pods"`
	MThr    c09RL    `json:"mthr"`
	UPct    int64    `json:"upct"`
	Mode    string   `json:"mode"`
	SPct    c09RL    `json:"spct"`
}

func (in c09In) clone() c09In {
	o := in
	o.Apps = append([]c09Use{}, in.Apps...)
	o.Pods = append([]c09Pod{}, in.Pods...)
	return o
}

var c09Now = time.Date(2024, 5, 1, 12, 0, 0, 0, time.UTC)

func c09Prio(s string) extension.PriorityClass {
	switch s {
	case "prod":
		return extension.PriorityProd
	case "mid":
		return extension.PriorityMid
	case "batch":
		return extension.PriorityBatch
	case "free":
		return extension.PriorityFree
	}
	return extension.PriorityNone
}

func c09PrioValue(s string) *int32 {
	var v int32
	switch s {
	case "prod":
		v = extension.PriorityProdValueDefault
	case "mid":
		v = extension.PriorityMidValueDefault
	case "batch":
		v = extension.PriorityBatchValueDefault
	case "free":
		v = extension.PriorityFreeValueDefault
	default:
		return nil
	}
	return &v
}

func c09Res(cpu, mem int64) corev1.ResourceList {
	return corev1.ResourceList{
		corev1.ResourceCPU:    *resource.NewMilliQuantity(cpu, resource.DecimalSI),
		corev1.ResourceMemory: *resource.NewQuantity(mem, resource.BinarySI),
	}
}

func c09Exec(in c09In) (out vu.Ev, failure string) {
	const nodeName = "n1"
	node := &corev1.Node{
		ObjectMeta: metav1.ObjectMeta{Name: nodeName, Annotations: map[string]string{}, Labels: map[string]string{}},
		Status:     corev1.NodeStatus{Capacity: c09Res(in.Cap.CPU, in.Cap.Mem), Allocatable: c09Res(in.Alloc.CPU, in.Alloc.Mem)},
	}
	if in.Anno.CPU > 0 || in.Anno.Mem > 0 {
		node.Annotations[extension.AnnotationNodeReservation] =
			fmt.Sprintf(`{"resources":{"cpu":"%dm","memory":"%d"}%s}`, in.Anno.CPU, in.Anno.Mem,
				[]string{"", `,"applyPolicy":"Default"`, `,"applyPolicy":"ReservedCPUsOnly"`}[(in.Anno.CPU+in.Anno.Mem)%3]) // how it applies to scheduling; reserved either way
	}
	enable := true
	strategy := &configuration.ColocationStrategy{
		Enable:                         &enable,
		DegradeTimeMinutes:             &in.Degrade,
		MidCPUThresholdPercent:         &in.MThr.CPU,
		MidMemoryThresholdPercent:      &in.MThr.Mem,
		MidUnallocatedPercent:          &in.UPct,
		MidStaticCPUReservedPercent:    &in.SPct.CPU,
		MidStaticMemoryReservedPercent: &in.SPct.Mem,
	}
	if in.Mode != "" {
		m := configuration.MidReclaimMode(in.Mode)
		strategy.MidReclaimMode = &m
	}
	nm := &slov1alpha1.NodeMetric{
		ObjectMeta: metav1.ObjectMeta{Name: nodeName},
		Status: slov1alpha1.NodeMetricStatus{
			NodeMetric: &slov1alpha1.NodeMetricInfo{
				SystemUsage: slov1alpha1.ResourceMap{ResourceList: c09Res(in.Sys.CPU, in.Sys.Mem)},
			},
		},
	}
	if in.Usage.Has {
		nm.Status.NodeMetric.NodeUsage = slov1alpha1.ResourceMap{ResourceList: c09Res(in.Usage.CPU, in.Usage.Mem)}
	}
	if in.ProdRec.Has {
		nm.Status.ProdReclaimableMetric = &slov1alpha1.ReclaimableMetric{
			Resource: slov1alpha1.ResourceMap{ResourceList: c09Res(in.ProdRec.CPU, in.ProdRec.Mem)}}
	}
	if in.Age >= 0 {
		nm.Status.UpdateTime = &metav1.Time{Time: c09Now.Add(-time.Duration(in.Age) * time.Second)}
	}
	podList := &corev1.PodList{}
	for k, p := range in.Pods {
		pod := corev1.Pod{
			ObjectMeta: metav1.ObjectMeta{Name: fmt.Sprintf("p%d", k), Namespace: "ns", UID: types.UID(fmt.Sprintf("uid-p%d", k)),
				Labels: map[string]string{extension.LabelPodQoS: p.Qos}},
			Spec: corev1.PodSpec{
				NodeName: nodeName,
				Priority: c09PrioValue(p.Prio),
				Containers: []corev1.Container{{Name: "c", Resources: corev1.ResourceRequirements{
					Requests: c09Res(p.Req.CPU, p.Req.Mem), Limits: c09Res(p.Req.CPU, p.Req.Mem)}}},
			},
			Status: corev1.PodStatus{Phase: corev1.PodPhase(p.Phase)},
		}
		if p.Prio != "none" {
			pod.Spec.PriorityClassName = string(c09Prio(p.Prio))
		}
		if p.Term {
			pod.DeletionTimestamp = &metav1.Time{Time: c09Now.Add(-5 * time.Second)}
			grace := int64(600)
			pod.DeletionGracePeriodSeconds = &grace
		}
		podList.Items = append(podList.Items, pod)
	}
	for k, a := range in.Apps {
		nm.Status.HostApplicationMetric = append(nm.Status.HostApplicationMetric, &slov1alpha1.HostApplicationMetricInfo{
			Name:     fmt.Sprintf("app%d", k),
			Usage:    slov1alpha1.ResourceMap{ResourceList: c09Res(a.Use.CPU, a.Use.Mem)},
			Priority: c09Prio(a.Prio),
		})
	}
	clk = fakeclock.NewFakeClock(c09Now)

	var items []framework.ResourceItem
	var err error
	panicked, msg := vu.Protect(func() {
		items, err = (&Plugin{}).Calculate(strategy, node, podList, &framework.ResourceMetrics{NodeMetric: nm})
	})
	if panicked {
		return nil, "panic: " + msg
	}
	if err != nil {
		return nil, "error: " + err.Error()
	}
	out = vu.Ev{}
	for i := range items {
		e := vu.Ev{"reset": items[i].Reset, "has": items[i].Quantity != nil, "q": int64(0)}
		if items[i].Quantity != nil {
			e["q"] = items[i].Quantity.Value()
		}
		switch items[i].Name {
		case extension.MidCPU:
			out["cpu"] = e
		case extension.MidMemory:
			out["mem"] = e
		}
	}
	if out["cpu"] == nil || out["mem"] == nil {
		return nil, "missing resource item"
	}
	return out, ""
}

// c09Step raises one consumption input (k is 1-based, 0 where it does not apply)
type c09Step struct {
	What string `json:"what"`
	K    int    `json:"k"`
	By   c09RL  `json:"by"`
}

func c09Add(a c09RL, c, m int64) c09RL { return c09RL{a.CPU + c, a.Mem + m} }

func (st c09Step) apply(cur c09In) (c09In, bool) {
	nx := cur.clone()
	if st.By.CPU < 0 || st.By.Mem < 0 {
		return nx, false
	}
	switch st.What {
	case "sys":
		nx.Sys = c09Add(nx.Sys, st.By.CPU, st.By.Mem)
	case "anno":
		nx.Anno = c09Add(nx.Anno, st.By.CPU, st.By.Mem)
	case "kres":
		if nx.Alloc.CPU < st.By.CPU || nx.Alloc.Mem < st.By.Mem {
			return nx, false
		}
		nx.Alloc = c09Add(nx.Alloc, -st.By.CPU, -st.By.Mem)
	case "req":
		if st.K < 1 || st.K > len(nx.Pods) {
			return nx, false
		}
		nx.Pods[st.K-1].Req = c09Add(nx.Pods[st.K-1].Req, st.By.CPU, st.By.Mem)
	case "app":
		if st.K < 1 || st.K > len(nx.Apps) {
			return nx, false
		}
		nx.Apps[st.K-1].Use = c09Add(nx.Apps[st.K-1].Use, st.By.CPU, st.By.Mem)
	case "usage":
		if !nx.Usage.Has {
			return nx, false
		}
		nx.Usage.CPU += st.By.CPU
		nx.Usage.Mem += st.By.Mem
	default:
		return nx, false
	}
	return nx, true
}

type c09Runner struct {
	rec   *vu.Recorder
	calcs int
}

func (r *c09Runner) segment(base c09In, steps []c09Step) {
	r.rec.Reset(nil)
	cur := base
	out, failure := c09Exec(cur)
	r.calcs++
	if failure != "" {
		r.rec.Emit(vu.Ev{"op": "failure", "inp": cur, "what": failure})
		return
	}
	r.rec.Emit(vu.Ev{"op": "mcalc", "inp": cur, "out": out})
	for _, st := range steps {
		nx, ok := st.apply(cur)
		if !ok {
			continue
		}
		cur = nx
		out, failure = c09Exec(cur)
		r.calcs++
		if failure != "" {
			r.rec.Emit(vu.Ev{"op": "failure", "what": failure, "step": st})
			return
		}
		r.rec.Emit(vu.Ev{"op": "mraise", "what": st.What, "k": st.K, "by": st.By, "out": out})
	}
}

func c09Steps(base c09In, c, m int64) []c09Step {
	by := func(u int64) c09RL { return c09RL{u * c, u * m} }
	steps := []c09Step{{"usage", 0, by(10)}, {"sys", 0, by(6)}}
	for k := range base.Pods {
		steps = append(steps, c09Step{"req", k + 1, by(5)})
	}
	for k := range base.Apps {
		steps = append(steps, c09Step{"app", k + 1, by(3)})
	}
	return append(steps, c09Step{"anno", 0, by(7)}, c09Step{"kres", 0, by(4)}, c09Step{"usage", 0, by(25)}, c09Step{"sys", 0, by(15)})
}

func (r *c09Runner) enumerate(thorough bool) {
	// units: 100 milli-cores, 256 bytes; capacity 80 units (multiples of 400: 25/50/75 % products are exact)
	const c, m = int64(100), int64(256)
	u := func(v int64) c09RL { return c09RL{v * c, v * m} }
	opt := func(has bool, v int64) c09Opt { return c09Opt{has, v * c, v * m} }
	pod := func(prio, qos, phase string, req int64) c09Pod {
		return c09Pod{Prio: prio, Qos: qos, Phase: phase, Req: u(req)}
	}
	term := func(p c09Pod) c09Pod { p.Term = true; return p } // being deleted, still counts
	podSets := [][]c09Pod{{}, {pod("prod", "LS", "Running", 20)}, {pod("mid", "LS", "Running", 20)}, {pod("batch", "BE", "Running", 20)},
		{pod("none", "LS", "Running", 20)}, {pod("none", "BE", "Running", 20)}, {pod("prod", "LS", "Succeeded", 20)},
		{pod("prod", "LSE", "Pending", 20)}, {pod("prod", "LS", "Running", 30), pod("prod", "LSR", "Running", 25)},
		{pod("prod", "LS", "Running", 30), pod("mid", "LS", "Running", 25)},
		{term(pod("prod", "LS", "Running", 20))}, {pod("prod", "LS", "Running", 30), term(pod("prod", "LSR", "Pending", 25))}}
	if thorough {
		podSets = append(podSets, []c09Pod{pod("free", "BE", "Running", 20)}, []c09Pod{pod("prod", "LS", "Failed", 20)},
			[]c09Pod{pod("prod", "LS", "Running", 0)}, []c09Pod{pod("mid", "BE", "Running", 20)})
	}
	appSets := [][]c09Use{{}, {{"prod", u(4)}}, {{"mid", u(4)}}}
	type md struct {
		mode string
		spct int64
	}
	modes := []md{{"", 0}, {"static", 50}, {"static", 100}}
	mthrs := []int64{100, 50}
	upcts := []int64{0, 50, 100}
	recs := []c09Opt{opt(false, 0), opt(true, 10), opt(true, 60)}
	usages := []c09Opt{opt(false, 0), opt(true, 10), opt(true, 50)}
	type sr struct{ sys, kres, anno int64 }
	srs := []sr{{0, 0, 0}, {3, 5, 0}, {20, 5, 8}}
	if thorough {
		appSets = append(appSets, []c09Use{{"batch", u(4)}})
		modes = append(modes, md{"static", 0}, md{"static", 25})
		mthrs = append(mthrs, 0, 75)
		upcts = append(upcts, 25)
		recs = append(recs, opt(true, 100))
		usages = append(usages, opt(true, 90))
		srs = append(srs, sr{3, 0, 8})
	}
	for _, mo := range modes {
		for _, mt := range mthrs {
			for _, up := range upcts {
				if mo.mode == "static" && up != upcts[0] {
					continue // the unallocated percent is irrelevant in static mode
				}
				for ri, rc := range recs {
					for ui, us := range usages {
						if mo.mode == "static" && (ri > 0 || ui > 1) {
							continue // so are the prod-reclaimable metric and (mostly) the node usage
						}
						for _, s := range srs {
							for pi, ps := range podSets {
								for ai, as := range appSets {
									if ai > 0 && pi > 1 { // host applications next to no pod / one prod pod only
										continue
									}
									in := c09In{Cap: u(80), Alloc: u(80 - s.kres), Anno: u(s.anno), Sys: u(s.sys), Degrade: 15, Age: 30,
										Apps: as, Usage: us, ProdRec: rc, Pods: ps, MThr: c09RL{mt, mt}, UPct: up, Mode: mo.mode,
										SPct: c09RL{mo.spct, mo.spct}}.clone()
									r.segment(in, c09Steps(in, c, m))
								}
							}
						}
					}
				}
			}
		}
	}
	// stale node metrics: ages around the degrade time d (d itself is not yet stale), far beyond it, never updated
	for _, deg := range []int64{1, 5, 15} {
		d := deg * 60
		for _, age := range []int64{0, d - 1, d, d + 1, d + 29, d + 31, d + 59, d + 61, 2 * d, 100000, -1} {
			for _, mo := range modes[:2] {
				in := c09In{Cap: u(80), Alloc: u(75), Sys: u(3), Degrade: deg, Age: age, Usage: opt(true, 10), ProdRec: opt(true, 30),
					Pods: podSets[1], MThr: c09RL{100, 100}, UPct: 50, Mode: mo.mode, SPct: c09RL{mo.spct, mo.spct}}.clone()
				r.segment(in, c09Steps(in, c, m)[:2])
			}
		}
	}
	// zero capacity
	in := c09In{Degrade: 15, Age: 30, Usage: opt(true, 10), ProdRec: opt(true, 30), Pods: podSets[1], MThr: c09RL{100, 100}, UPct: 50}.clone()
	r.segment(in, c09Steps(in, c, m))
}

func c09Rand(rng *rand.Rand) c09In {
	pick := func(xs ...string) string { return xs[rng.Intn(len(xs))] }
	upTo := func(n int64) int64 {
		if n <= 0 {
			return 0
		}
		return rng.Int63n(n + 1)
	}
	in := c09In{Degrade: 1 + upTo(29)}
	in.Cap = c09RL{1000 + upTo(127000), 8000 + upTo(992000)}
	frac := func(v int64, pct int64) int64 { return upTo(v * pct / 100) }
	in.Alloc = c09RL{in.Cap.CPU - frac(in.Cap.CPU, 10), in.Cap.Mem - frac(in.Cap.Mem, 10)}
	if rng.Intn(2) == 0 {
		in.Anno = c09RL{frac(in.Cap.CPU, 12), frac(in.Cap.Mem, 12)}
	}
	in.Sys = c09RL{frac(in.Cap.CPU, 15), frac(in.Cap.Mem, 15)}
	switch rng.Intn(12) {
	case 0:
		in.Age = -1
	case 1:
		in.Age = in.Degrade*60 + 1 + upTo(5000)
	case 2:
		in.Age = in.Degrade * 60
	default:
		in.Age = upTo(in.Degrade * 60)
	}
	for k := rng.Intn(3); k > 0; k-- {
		in.Apps = append(in.Apps, c09Use{Prio: pick("prod", "prod", "mid", "batch", "free"), Use: c09RL{frac(in.Cap.CPU, 5), frac(in.Cap.Mem, 5)}})
	}
	if rng.Intn(8) != 0 {
		in.Usage = c09Opt{true, frac(in.Cap.CPU, 110), frac(in.Cap.Mem, 110)}
	}
	if rng.Intn(6) != 0 {
		in.ProdRec = c09Opt{true, frac(in.Cap.CPU, 60), frac(in.Cap.Mem, 60)}
	}
	np := rng.Intn(6)
	for k := 0; k < np; k++ {
		p := c09Pod{Prio: pick("prod", "prod", "prod", "mid", "batch", "free", "none", "none")}
		switch p.Prio {
		case "batch", "free":
			p.Qos = "BE"
		case "none":
			p.Qos = pick("LS", "LSR", "LSE", "BE")
		case "mid":
			p.Qos = pick("LS", "BE")
		default:
			p.Qos = pick("LS", "LS", "LSR", "LSE")
		}
		p.Phase = pick("Running", "Running", "Running", "Running", "Running", "Running", "Pending", "Succeeded", "Failed")
		p.Req = c09RL{frac(in.Cap.CPU, 90/int64(np)), frac(in.Cap.Mem, 90/int64(np))}
		if (p.Phase == "Running" || p.Phase == "Pending") && rng.Intn(5) == 0 {
			p.Term = true
		}
		in.Pods = append(in.Pods, p)
	}
	pct := func() int64 {
		if rng.Intn(3) == 0 {
			return []int64{0, 10, 25, 50, 75, 100}[rng.Intn(6)]
		}
		return upTo(100)
	}
	in.MThr = c09RL{pct(), pct()}
	in.UPct = pct()
	if rng.Intn(4) == 0 {
		in.Mode = "static"
	}
	in.SPct = c09RL{pct(), pct()}
	return in.clone()
}

func c09RandStep(rng *rand.Rand, cur c09In) c09Step {
	d := func(capV int64) int64 { return 1 + rng.Int63n(capV/8+1) }
	by := c09RL{d(cur.Cap.CPU), d(cur.Cap.Mem)}
	switch rng.Intn(3) {
	case 0:
		by.CPU = 0
	case 1:
		by.Mem = 0
	}
	for tries := 0; tries < 20; tries++ {
		var st c09Step
		switch rng.Intn(6) {
		case 0:
			st = c09Step{"sys", 0, by}
		case 1:
			st = c09Step{"req", 1 + rng.Intn(len(cur.Pods)+1), by}
		case 2:
			st = c09Step{"usage", 0, by}
		case 3:
			st = c09Step{"app", 1 + rng.Intn(len(cur.Apps)+1), by}
		case 4:
			st = c09Step{"anno", 0, by}
		case 5:
			st = c09Step{"kres", 0, by}
		}
		if _, ok := st.apply(cur); ok {
			return st
		}
	}
	return c09Step{"sys", 0, by}
}

func (r *c09Runner) random(n int, salt int64) {
	rng := vu.Rand(salt)
	for k := 0; k < n; k++ {
		base := c09Rand(rng)
		cur := base
		var steps []c09Step
		for j := 3 + rng.Intn(3); j > 0; j-- {
			st := c09RandStep(rng, cur)
			cur, _ = st.apply(cur)
			steps = append(steps, st)
		}
		r.segment(base, steps)
	}
}

func TestVerifC09Mid(t *testing.T) {
	if !vu.Enabled() {
		t.Skip("verification harness: VERIF_OUT not set")
	}
	klog.LogToStderr(false)
	klog.SetOutput(io.Discard)
	oldClk := clk
	defer func() { clk = oldClk }()

	r := &c09Runner{rec: vu.NewRecorder("")}
	defer r.rec.Close()

	if rp := vu.ReplayPath(); rp != "" {
		for _, raw := range vu.ReadScripts(rp) {
			var evs []struct {
				Op  string          `json:"op"`
				Inp json.RawMessage `json:"inp"`
				c09Step
			}
			if err := json.Unmarshal(raw, &evs); err != nil {
				t.Fatalf("bad replay script: %v", err)
			}
			var base *c09In
			var steps []c09Step
			for _, e := range evs {
				switch e.Op {
				case "mcalc":
					var in c09In
					if err := json.Unmarshal(e.Inp, &in); err != nil {
						t.Fatalf("bad replay input: %v", err)
					}
					in = in.clone()
					base = &in
				case "mraise":
					steps = append(steps, e.c09Step)
				}
			}
			if base != nil {
				r.segment(*base, steps)
			}
		}
		return
	}

	r.enumerate(vu.Thorough())
	nEnum := r.rec.Segments()
	if vu.Thorough() {
		r.random(vu.EnvInt("VERIF_C09_RANDOM_MID", 15000), 10)
	} else {
		r.random(vu.EnvInt("VERIF_C09_RANDOM_MID", 1500), 10)
	}
	t.Logf("C09 mid: %d enumerated + %d random segments, %d calculations, %d events",
		nEnum, r.rec.Segments()-nEnum, r.calcs, r.rec.Events())
}
