package batchresource

// Verification harness for C09, batch tier (injected by `go test -overlay`, see /verif/DESIGN.md and
// /verif/specs/Reclaim/Reclaim.tla). Executor + recorder only: it turns an abstract input record into the real
// arguments of Plugin.Calculate (node, strategy, pod list, node metric, NodeResourceTopology behind a fake client,
// fake clock), calls the REAL Plugin.Calculate and logs input + returned ResourceItems. Expected values are
// computed only by TLC (ReclaimTrace.tla). The random generator and the "raise" steps only drive execution.
// Pods may be in the middle of their deletion (term: deletionTimestamp set, phase unchanged) and their resource-status
// annotation may name NUMA ids the node does not have (stale annotation); the specification charges both like the
// statement says (every pod that has not terminated; only existing zones bind a pod).
//
// Projection (field reads only):
//   out.cpu / out.mem   {reset: item.Reset, has: item.Quantity != nil, q: item.Quantity.Value()}
//                       (batch-cpu is published in milli-cores, batch-memory in bytes)
//   out.zones[z]        {cpu: ZoneQuantity["node-z"].Value() of the batch-cpu item,
//                        mem: ZoneQuantity["node-z"].MilliValue() of the batch-memory item}   ([] when not returned)

import (
	"context"
	"encoding/json"
	"fmt"
	"io"
	"math/rand"
	"testing"
	"time"

	topov1alpha1 "github.com/k8stopologyawareschedwg/noderesourcetopology-api/pkg/apis/topology/v1alpha1"
	corev1 "k8s.io/api/core/v1"
	apierrors "k8s.io/apimachinery/pkg/api/errors"
	"k8s.io/apimachinery/pkg/api/resource"
	metav1 "k8s.io/apimachinery/pkg/apis/meta/v1"
	"k8s.io/apimachinery/pkg/runtime/schema"
	"k8s.io/apimachinery/pkg/types"
	"k8s.io/klog/v2"
	fakeclock "k8s.io/utils/clock/testing"
	ctrlclient "sigs.k8s.io/controller-runtime/pkg/client"

	"github.com/koordinator-sh/koordinator/apis/configuration"
	"github.com/koordinator-sh/koordinator/apis/extension"
	slov1alpha1 "github.com/koordinator-sh/koordinator/apis/slo/v1alpha1"
	"github.com/koordinator-sh/koordinator/pkg/slo-controller/noderesource/framework"
	"github.com/koordinator-sh/koordinator/pkg/util"
	vu "github.com/koordinator-sh/koordinator/pkg/verifutil"
)

type c09RL struct {
	CPU int64 `json:"cpu"`
	Mem int64 `json:"mem"`
}

type c09Pol struct {
	CPU string `json:"cpu"`
	Mem string `json:"mem"`
}

type c09Use struct {
	Prio string `json:"prio"`
	Use  c09RL  `json:"use"`
}

type c09Pod struct {
	Prio   string `json:"prio"`  // prod | mid | batch | free | none
	Qos    string `json:"qos"`   // LSE | LSR | LS | BE (always set as label)
	Phase  string `json:"phase"` // Running | Pending | Succeeded | Failed
	Term   bool   `json:"term"`  // being deleted: deletionTimestamp set (the phase stays what it is)
	Req    c09RL  `json:"req"`
	Metric bool   `json:"metric"`
	Use    c09RL  `json:"use"`
	Numa   []int  `json:"numa"` // NUMA ids of the resource-status annotation (may name zones the node does not have)
}

type c09In struct {
	Cap      c09RL    `json:"cap"`
	Alloc    c09RL    `json:"alloc"`
	Anno     c09RL    `json:"anno"`
	Thr      c09RL    `json:"thr"`
	Pol      c09Pol   `json:"pol"`
	Pct      c09RL    `json:"pct"`
	Degrade  int64    `json:"degrade"`
	Age      int64    `json:"age"`
	Sys      c09RL    `json:"sys"`
	Apps     []c09Use `json:"apps"`
	Pods     []c09Pod `json:"pods"`
	Dangling []c09Use `json:"dangling"`
	Zones    []c09RL  `json:"zones"`
}

func (in c09In) clone() c09In {
	o := in
	o.Apps = append([]c09Use{}, in.Apps...)
	o.Dangling = append([]c09Use{}, in.Dangling...)
	o.Zones = append([]c09RL{}, in.Zones...)
	o.Pods = make([]c09Pod, len(in.Pods))
	for i, p := range in.Pods {
		p.Numa = append([]int{}, p.Numa...)
		o.Pods[i] = p
	}
	return o
}

var c09Now = time.Date(2024, 5, 1, 12, 0, 0, 0, time.UTC)

func c09Prio(s string) extension.PriorityClass {
	switch s {
	case "prod":
		return extension.PriorityProd
	case "mid":
		return extension.PriorityMid
	case "batch":
		return extension.PriorityBatch
	case "free":
		return extension.PriorityFree
	}
	return extension.PriorityNone
}

func c09PrioValue(s string) *int32 {
	var v int32
	switch s {
	case "prod":
		v = extension.PriorityProdValueDefault
	case "mid":
		v = extension.PriorityMidValueDefault
	case "batch":
		v = extension.PriorityBatchValueDefault
	case "free":
		v = extension.PriorityFreeValueDefault
	default:
		return nil
	}
	return &v
}

// priority class koordlet would report for the pod (explicit class, else derived from the QoS label)
func c09EffPrio(p c09Pod) string {
	if p.Prio != "none" {
		return p.Prio
	}
	if p.Qos == "BE" {
		return "batch"
	}
	return "prod"
}

func c09Res(r c09RL) corev1.ResourceList {
	return corev1.ResourceList{
		corev1.ResourceCPU:    *resource.NewMilliQuantity(r.CPU, resource.DecimalSI),
		corev1.ResourceMemory: *resource.NewQuantity(r.Mem, resource.BinarySI),
	}
}

func c09Policy(s string) *configuration.CalculatePolicy {
	if s == "" {
		return nil
	}
	p := configuration.CalculatePolicy(s)
	return &p
}

func c09Pct(v int64) *int64 {
	if v < 0 {
		return nil
	}
	return &v
}

// c09Client is the API-server stand-in: Plugin.Calculate only ever Gets the node's NodeResourceTopology.
// (Building a controller-runtime fake client per case costs ~1 ms; any other method panics and is recorded.)
type c09Client struct {
	ctrlclient.Client
	nrt *topov1alpha1.NodeResourceTopology
}

func (c *c09Client) Get(_ context.Context, key ctrlclient.ObjectKey, obj ctrlclient.Object, _ ...ctrlclient.GetOption) error {
	out, ok := obj.(*topov1alpha1.NodeResourceTopology)
	if !ok || c.nrt == nil || key.Name != c.nrt.Name {
		return apierrors.NewNotFound(schema.GroupResource{Group: "topology.node.k8s.io", Resource: "noderesourcetopologies"}, key.Name)
	}
	c.nrt.DeepCopyInto(out)
	return nil
}

type c09Env struct{}

func c09NewEnv() *c09Env { return &c09Env{} }

// c09Exec builds the real arguments from the abstract input, runs the real Plugin.Calculate, projects the result.
func (env *c09Env) c09Exec(in c09In) (out vu.Ev, failure string) {
	const nodeName = "n1"
	node := &corev1.Node{
		ObjectMeta: metav1.ObjectMeta{Name: nodeName, Annotations: map[string]string{}, Labels: map[string]string{}},
		Status:     corev1.NodeStatus{Capacity: c09Res(in.Cap), Allocatable: c09Res(in.Alloc)},
	}
	if in.Anno.CPU > 0 || in.Anno.Mem > 0 {
		node.Annotations[extension.AnnotationNodeReservation] =
			fmt.Sprintf(`{"resources":{"cpu":"%dm","memory":"%d"}%s}`, in.Anno.CPU, in.Anno.Mem,
				[]string{"", `,"applyPolicy":"Default"`, `,"applyPolicy":"ReservedCPUsOnly"`}[(in.Anno.CPU+in.Anno.Mem)%3]) // how it applies to scheduling; reserved either way
	}
	strategy := &configuration.ColocationStrategy{
		Enable:                        c09BoolPtr(true),
		CPUReclaimThresholdPercent:    &in.Thr.CPU,
		MemoryReclaimThresholdPercent: &in.Thr.Mem,
		CPUCalculatePolicy:            c09Policy(in.Pol.CPU),
		MemoryCalculatePolicy:         c09Policy(in.Pol.Mem),
		BatchCPUThresholdPercent:      c09Pct(in.Pct.CPU),
		BatchMemoryThresholdPercent:   c09Pct(in.Pct.Mem),
		DegradeTimeMinutes:            &in.Degrade,
		UpdateTimeThresholdSeconds:    c09Int64Ptr(300),
		ResourceDiffThreshold:         c09Float64Ptr(0.1),
	}
	podList := &corev1.PodList{}
	nm := &slov1alpha1.NodeMetric{
		ObjectMeta: metav1.ObjectMeta{Name: nodeName},
		Status: slov1alpha1.NodeMetricStatus{
			NodeMetric: &slov1alpha1.NodeMetricInfo{
				NodeUsage:   slov1alpha1.ResourceMap{ResourceList: c09Res(in.Sys)},
				SystemUsage: slov1alpha1.ResourceMap{ResourceList: c09Res(in.Sys)},
			},
		},
	}
	if in.Age >= 0 {
		nm.Status.UpdateTime = &metav1.Time{Time: c09Now.Add(-time.Duration(in.Age) * time.Second)}
	}
	for k, p := range in.Pods {
		pod := corev1.Pod{
			ObjectMeta: metav1.ObjectMeta{
				Name: fmt.Sprintf("p%d", k), Namespace: "ns", UID: types.UID(fmt.Sprintf("uid-p%d", k)), // the same pod object over the rounds (resized in place)
				Labels:      map[string]string{extension.LabelPodQoS: p.Qos},
				Annotations: map[string]string{},
			},
			Spec: corev1.PodSpec{
				NodeName: nodeName,
				Priority: c09PrioValue(p.Prio),
				Containers: []corev1.Container{{
					Name:      "c",
					Resources: corev1.ResourceRequirements{Requests: c09Res(p.Req), Limits: c09Res(p.Req)},
				}},
			},
			Status: corev1.PodStatus{Phase: corev1.PodPhase(p.Phase)},
		}
		if p.Prio != "none" {
			pod.Spec.PriorityClassName = string(c09Prio(p.Prio))
		}
		if p.Term {
			pod.DeletionTimestamp = &metav1.Time{Time: c09Now.Add(-5 * time.Second)}
			pod.DeletionGracePeriodSeconds = c09Int64Ptr(600)
		}
		if len(p.Numa) > 0 {
			rs := extension.ResourceStatus{}
			for _, n := range p.Numa {
				rs.NUMANodeResources = append(rs.NUMANodeResources, extension.NUMANodeResource{Node: int32(n)})
			}
			b, _ := json.Marshal(rs)
			pod.Annotations[extension.AnnotationResourceStatus] = string(b)
		}
		podList.Items = append(podList.Items, pod)
		if p.Metric {
			nm.Status.PodsMetric = append(nm.Status.PodsMetric, &slov1alpha1.PodMetricInfo{
				Name: pod.Name, Namespace: pod.Namespace,
				PodUsage: slov1alpha1.ResourceMap{ResourceList: c09Res(p.Use)},
				Priority: c09Prio(c09EffPrio(p)), QoS: extension.QoSClass(p.Qos),
			})
		}
	}
	for k, d := range in.Dangling {
		nm.Status.PodsMetric = append(nm.Status.PodsMetric, &slov1alpha1.PodMetricInfo{
			Name: fmt.Sprintf("gone%d", k), Namespace: "ns",
			PodUsage: slov1alpha1.ResourceMap{ResourceList: c09Res(d.Use)},
			Priority: c09Prio(d.Prio),
		})
	}
	for k, a := range in.Apps {
		nm.Status.HostApplicationMetric = append(nm.Status.HostApplicationMetric, &slov1alpha1.HostApplicationMetricInfo{
			Name:     fmt.Sprintf("app%d", k),
			Usage:    slov1alpha1.ResourceMap{ResourceList: c09Res(a.Use)},
			Priority: c09Prio(a.Prio),
		})
	}
	cl := &c09Client{}
	client = cl
	if len(in.Zones) > 0 {
		nrt := &topov1alpha1.NodeResourceTopology{
			ObjectMeta:       metav1.ObjectMeta{Name: nodeName},
			TopologyPolicies: []string{string(topov1alpha1.None)},
		}
		for z, zc := range in.Zones {
			cq, mq := *resource.NewMilliQuantity(zc.CPU, resource.DecimalSI), *resource.NewQuantity(zc.Mem, resource.BinarySI)
			nrt.Zones = append(nrt.Zones, topov1alpha1.Zone{
				Name: util.GenNodeZoneName(z), Type: util.NodeZoneType,
				Resources: topov1alpha1.ResourceInfoList{
					{Name: string(corev1.ResourceCPU), Capacity: cq, Allocatable: cq, Available: cq},
					{Name: string(corev1.ResourceMemory), Capacity: mq, Allocatable: mq, Available: mq},
				},
			})
		}
		cl.nrt = nrt
	}
	Clock = fakeclock.NewFakeClock(c09Now)

	var items []framework.ResourceItem
	var err error
	panicked, msg := vu.Protect(func() {
		items, err = (&Plugin{}).Calculate(strategy, node, podList, &framework.ResourceMetrics{NodeMetric: nm})
	})
	if panicked {
		return nil, "panic: " + msg
	}
	if err != nil {
		return nil, "error: " + err.Error()
	}
	out = vu.Ev{}
	var cpuItem, memItem *framework.ResourceItem
	for i := range items {
		switch items[i].Name {
		case extension.BatchCPU:
			cpuItem = &items[i]
		case extension.BatchMemory:
			memItem = &items[i]
		}
	}
	if cpuItem == nil || memItem == nil {
		return nil, "missing resource item"
	}
	proj := func(it *framework.ResourceItem) vu.Ev {
		e := vu.Ev{"reset": it.Reset, "has": it.Quantity != nil, "q": int64(0)}
		if it.Quantity != nil {
			e["q"] = it.Quantity.Value()
		}
		return e
	}
	out["cpu"], out["mem"] = proj(cpuItem), proj(memItem)
	zones := []vu.Ev{}
	if len(cpuItem.ZoneQuantity) > 0 || len(memItem.ZoneQuantity) > 0 {
		for z := range in.Zones {
			cq, ok1 := cpuItem.ZoneQuantity[util.GenNodeZoneName(z)]
			mq, ok2 := memItem.ZoneQuantity[util.GenNodeZoneName(z)]
			if !ok1 || !ok2 {
				return nil, "zone quantity missing for " + util.GenNodeZoneName(z)
			}
			zones = append(zones, vu.Ev{"cpu": cq.Value(), "mem": mq.MilliValue()})
		}
		if len(cpuItem.ZoneQuantity) != len(in.Zones) || len(memItem.ZoneQuantity) != len(in.Zones) {
			return nil, "unexpected zone names in result"
		}
	}
	out["zones"] = zones
	return out, ""
}

func c09BoolPtr(b bool) *bool          { return &b }
func c09Int64Ptr(v int64) *int64       { return &v }
func c09Float64Ptr(v float64) *float64 { return &v }

// ---------------------------------------------------------------------------------------------- recording

type c09Runner struct {
	env   *c09Env
	rec   *vu.Recorder
	calcs int
}

// c09Step raises one consumption input (k is 1-based, 0 where it does not apply)
type c09Step struct {
	What string `json:"what"`
	K    int    `json:"k"`
	By   c09RL  `json:"by"`
}

// apply returns the raised input; ok=false when the step is not applicable (then it is not executed/recorded)
func (st c09Step) apply(cur c09In) (c09In, bool) {
	nx := cur.clone()
	if st.By.CPU < 0 || st.By.Mem < 0 {
		return nx, false
	}
	switch st.What {
	case "sys":
		nx.Sys = c09Add(nx.Sys, st.By.CPU, st.By.Mem)
	case "anno":
		nx.Anno = c09Add(nx.Anno, st.By.CPU, st.By.Mem)
	case "kres":
		if nx.Alloc.CPU < st.By.CPU || nx.Alloc.Mem < st.By.Mem {
			return nx, false
		}
		nx.Alloc = c09Add(nx.Alloc, -st.By.CPU, -st.By.Mem)
	case "margin":
		if nx.Thr.CPU < st.By.CPU || nx.Thr.Mem < st.By.Mem {
			return nx, false
		}
		nx.Thr = c09Add(nx.Thr, -st.By.CPU, -st.By.Mem)
	case "req":
		if st.K < 1 || st.K > len(nx.Pods) {
			return nx, false
		}
		nx.Pods[st.K-1].Req = c09Add(nx.Pods[st.K-1].Req, st.By.CPU, st.By.Mem)
	case "use":
		if st.K < 1 || st.K > len(nx.Pods) || !nx.Pods[st.K-1].Metric {
			return nx, false
		}
		nx.Pods[st.K-1].Use = c09Add(nx.Pods[st.K-1].Use, st.By.CPU, st.By.Mem)
	case "dangling":
		if st.K < 1 || st.K > len(nx.Dangling) {
			return nx, false
		}
		nx.Dangling[st.K-1].Use = c09Add(nx.Dangling[st.K-1].Use, st.By.CPU, st.By.Mem)
	case "app":
		if st.K < 1 || st.K > len(nx.Apps) {
			return nx, false
		}
		nx.Apps[st.K-1].Use = c09Add(nx.Apps[st.K-1].Use, st.By.CPU, st.By.Mem)
	default:
		return nx, false
	}
	return nx, true
}

// one segment: calculate on the base input, then after every raise step again
func (r *c09Runner) segment(base c09In, steps []c09Step) {
	r.rec.Reset(nil)
	cur := base
	out, failure := r.env.c09Exec(cur)
	r.calcs++
	if failure != "" {
		r.rec.Emit(vu.Ev{"op": "failure", "inp": cur, "what": failure})
		return
	}
	r.rec.Emit(vu.Ev{"op": "calc", "inp": cur, "out": out})
	for _, st := range steps {
		nx, ok := st.apply(cur)
		if !ok {
			continue
		}
		cur = nx
		out, failure = r.env.c09Exec(cur)
		r.calcs++
		if failure != "" {
			r.rec.Emit(vu.Ev{"op": "failure", "what": failure, "step": st})
			return
		}
		r.rec.Emit(vu.Ev{"op": "raise", "what": st.What, "k": st.K, "by": st.By, "out": out})
	}
}

func c09Add(a c09RL, c, m int64) c09RL { return c09RL{a.CPU + c, a.Mem + m} }

// the fixed raise steps of the enumerated tier: every consumption input of the base once, sizes chosen to cross
// the other terms (usage past request, system usage past the reservations)
func c09Steps(base c09In, c, m int64) []c09Step {
	by := func(u int64) c09RL { return c09RL{u * c, u * m} }
	steps := []c09Step{{"sys", 0, by(6)}}
	for k := range base.Pods {
		steps = append(steps, c09Step{"use", k + 1, by(4)}, c09Step{"req", k + 1, by(5)}, c09Step{"use", k + 1, by(12)})
	}
	for k := range base.Dangling {
		steps = append(steps, c09Step{"dangling", k + 1, by(3)})
	}
	for k := range base.Apps {
		steps = append(steps, c09Step{"app", k + 1, by(3)})
	}
	return append(steps, c09Step{"anno", 0, by(7)}, c09Step{"kres", 0, by(4)}, c09Step{"margin", 0, c09RL{25, 25}}, c09Step{"sys", 0, by(15)})
}

// ---------------------------------------------------------------------------------------------- enumerated tier

type c09PodSet struct {
	pods []c09Pod
	dang []c09Use
	apps []c09Use
}

func c09RLOf(v, c, m int64) c09RL { return c09RL{v * c, v * m} }

func c09EnumPodSets(c, m int64, thorough bool) (plain []c09PodSet, zoned []c09PodSet) {
	pod := func(prio, qos, phase string, req int64, metric bool, use int64, numa ...int) c09Pod {
		if numa == nil {
			numa = []int{}
		}
		return c09Pod{Prio: prio, Qos: qos, Phase: phase, Req: c09RLOf(req, c, m), Metric: metric, Use: c09RLOf(use, c, m), Numa: numa}
	}
	use := func(prio string, v int64) c09Use { return c09Use{Prio: prio, Use: c09RLOf(v, c, m)} }
	kinds := [][2]string{{"prod", "LS"}, {"prod", "LSE"}, {"mid", "LS"}, {"batch", "BE"}, {"none", "LS"}, {"none", "BE"}}
	if thorough {
		kinds = append(kinds, [2]string{"free", "BE"}, [2]string{"mid", "BE"}, [2]string{"prod", "LSR"}, [2]string{"none", "LSE"})
	}
	type ms struct {
		metric   bool
		req, use int64
	}
	mstates := []ms{{false, 15, 0}, {true, 15, 5}, {true, 5, 15}}
	if thorough {
		mstates = append(mstates, ms{true, 10, 10}, ms{false, 0, 0}, ms{true, 0, 7})
	}
	plain = append(plain, c09PodSet{})
	for _, kd := range kinds {
		for _, s := range mstates {
			plain = append(plain, c09PodSet{pods: []c09Pod{pod(kd[0], kd[1], "Running", s.req, s.metric, s.use)}})
		}
	}
	for _, ph := range []string{"Pending", "Succeeded", "Failed"} {
		for _, s := range mstates {
			if s.metric && s.use < s.req && !thorough {
				continue
			}
			plain = append(plain, c09PodSet{pods: []c09Pod{pod("prod", "LS", ph, s.req, s.metric, s.use)}})
		}
	}
	as := []c09Pod{pod("prod", "LS", "Running", 12, false, 0), pod("prod", "LS", "Running", 12, true, 4), pod("prod", "LSE", "Running", 6, true, 14)}
	bs := []c09Pod{pod("prod", "LS", "Running", 4, true, 9), pod("mid", "LS", "Running", 8, false, 0), pod("batch", "BE", "Running", 8, true, 8)}
	for _, a := range as {
		for _, b := range bs {
			plain = append(plain, c09PodSet{pods: []c09Pod{a, b}})
		}
	}
	for _, pr := range []string{"prod", "batch", "none", "mid", "free"} {
		plain = append(plain, c09PodSet{dang: []c09Use{use(pr, 7)}})
		if pr == "prod" || pr == "batch" || thorough {
			plain = append(plain, c09PodSet{pods: []c09Pod{pod("prod", "LS", "Running", 12, true, 4)}, dang: []c09Use{use(pr, 7)}})
		}
	}
	for _, pr := range []string{"prod", "mid", "batch", "free"} {
		plain = append(plain, c09PodSet{apps: []c09Use{use(pr, 4)}})
	}
	plain = append(plain, c09PodSet{pods: []c09Pod{pod("prod", "LS", "Running", 12, false, 0)}, dang: []c09Use{use("prod", 3)}, apps: []c09Use{use("prod", 4)}})
	// pods that are being deleted (deletionTimestamp set, not yet terminated): they count like any other pod
	term := func(p c09Pod) c09Pod { p.Term = true; return p }
	for _, s := range mstates[:3] {
		plain = append(plain, c09PodSet{pods: []c09Pod{term(pod("prod", "LS", "Running", s.req, s.metric, s.use))}})
	}
	plain = append(plain,
		c09PodSet{pods: []c09Pod{term(pod("prod", "LSE", "Running", 15, true, 5))}},
		c09PodSet{pods: []c09Pod{term(pod("mid", "LS", "Pending", 15, false, 0))}},
		c09PodSet{pods: []c09Pod{term(pod("batch", "BE", "Running", 15, true, 5))}},
		c09PodSet{pods: []c09Pod{pod("prod", "LS", "Running", 12, true, 4), term(pod("prod", "LS", "Running", 9, false, 0))}})
	if thorough {
		plain = append(plain,
			c09PodSet{pods: []c09Pod{term(pod("none", "LS", "Running", 15, false, 0))}},
			c09PodSet{pods: []c09Pod{term(pod("prod", "LS", "Succeeded", 15, true, 5))}},
			c09PodSet{pods: []c09Pod{term(pod("prod", "LS", "Running", 12, true, 4))}, dang: []c09Use{use("prod", 7)}})
	}

	// pods bound to NUMA zones (zoned scenarios run with two zones)
	numas := [][]int{{}, {0}, {1}, {0, 1}}
	for _, nu := range numas {
		for _, kd := range [][2]string{{"prod", "LS"}, {"prod", "LSE"}} {
			for _, s := range mstates[:3] {
				zoned = append(zoned, c09PodSet{pods: []c09Pod{pod(kd[0], kd[1], "Running", s.req, s.metric, s.use, nu...)}})
			}
		}
		zoned = append(zoned, c09PodSet{pods: []c09Pod{pod("batch", "BE", "Running", 9, true, 9, nu...)}})
		zoned = append(zoned, c09PodSet{pods: []c09Pod{pod("prod", "LS", "Succeeded", 9, true, 7, nu...)}})
		zoned = append(zoned, c09PodSet{pods: []c09Pod{pod("prod", "LS", "Running", 7, true, 11, nu...), pod("mid", "LS", "Running", 5, false, 0)},
			dang: []c09Use{use("prod", 3)}, apps: []c09Use{use("prod", 3)}})
	}
	zoned = append(zoned, c09PodSet{}, c09PodSet{dang: []c09Use{use("prod", 7)}}, c09PodSet{dang: []c09Use{use("batch", 7)}})
	// annotation ids naming zones the node does not have (the zoned scenarios have one or two zones: ids 0, 1):
	// alone (the pod is bound nowhere), next to an existing id, negative
	for _, nu := range [][]int{{2}, {0, 2}, {-1, 1}} {
		for _, s := range mstates[:3] {
			zoned = append(zoned, c09PodSet{pods: []c09Pod{pod("prod", "LS", "Running", s.req, s.metric, s.use, nu...)}})
		}
	}
	zoned = append(zoned, c09PodSet{pods: []c09Pod{pod("prod", "LSE", "Running", 6, true, 14, 1, 3)}})
	// pods being deleted, bound / unbound
	zoned = append(zoned,
		c09PodSet{pods: []c09Pod{term(pod("prod", "LS", "Running", 15, false, 0))}},
		c09PodSet{pods: []c09Pod{term(pod("prod", "LS", "Running", 15, true, 5, 0))}},
		c09PodSet{pods: []c09Pod{term(pod("prod", "LS", "Running", 5, true, 15, 1, 2))}})
	return plain, zoned
}

func (r *c09Runner) run(in c09In, c, m int64) { r.segment(in, c09Steps(in, c, m)) }

func (r *c09Runner) enumerate(thorough bool) {
	// units: 100 milli-cores and 256 "bytes"; capacities are multiples of 400 so that 25/50/75 % products are exact
	const c, m = int64(100), int64(256)
	capV := int64(80) // 8000m, 20480
	type tp struct{ thr, pct int64 }
	tps := []tp{{100, -1}, {50, -1}, {75, 50}, {100, 25}}
	polC := []string{"", "maxUsageRequest"}
	polM := []string{"usage", "request", "maxUsageRequest"}
	type sr struct{ sys, kres, anno int64 }
	srs := []sr{{0, 0, 0}, {3, 5, 0}, {20, 5, 8}, {3, 0, 8}}
	if thorough {
		tps = append(tps, tp{0, -1}, tp{25, 100})
		polC = []string{"", "usage", "maxUsageRequest"}
		polM = []string{"", "usage", "request", "maxUsageRequest"}
		srs = append(srs, sr{20, 0, 0})
	}
	plain, zoned := c09EnumPodSets(c, m, thorough)
	mk := func(pc, pm string, t tp, s sr, ps c09PodSet, zones []c09RL, capUnits int64) c09In {
		in := c09In{
			Cap: c09RLOf(capUnits, c, m), Alloc: c09RLOf(capUnits-s.kres, c, m), Anno: c09RLOf(s.anno, c, m),
			Thr: c09RL{t.thr, t.thr}, Pol: c09Pol{pc, pm}, Pct: c09RL{t.pct, t.pct}, Degrade: 15, Age: 30,
			Sys: c09RLOf(s.sys, c, m), Apps: ps.apps, Pods: ps.pods, Dangling: ps.dang, Zones: zones,
		}
		if in.Alloc.CPU < 0 {
			in.Alloc = c09RL{}
		}
		return in.clone()
	}
	for _, pc := range polC {
		for _, pm := range polM {
			for _, t := range tps {
				for _, s := range srs {
					for _, ps := range plain {
						r.run(mk(pc, pm, t, s, ps, nil, capV), c, m)
					}
				}
			}
		}
	}
	zoneCfgs := [][]c09RL{{c09RLOf(40, c, m), c09RLOf(40, c, m)}, {c09RLOf(52, c, m), c09RLOf(28, c, m)}}
	if thorough {
		zoneCfgs = append(zoneCfgs, []c09RL{c09RLOf(80, c, m)})
	}
	for _, pc := range polC {
		for _, pm := range polM {
			for ti, t := range tps {
				for si, s := range srs {
					if (ti+si)%2 == 1 { // half of the (threshold, cap) x (usage, reservation) grid for the zoned scenarios
						continue
					}
					for _, zc := range zoneCfgs {
						for _, ps := range zoned {
							r.run(mk(pc, pm, t, s, ps, zc, capV), c, m)
						}
					}
				}
			}
		}
	}
	// edges: zero capacity, zero threshold (margin = everything), zero / full / >100 percentage cap
	one := c09PodSet{pods: []c09Pod{{Prio: "prod", Qos: "LS", Phase: "Running", Req: c09RLOf(10, c, m), Metric: true, Use: c09RLOf(6, c, m), Numa: []int{}}}}
	for _, pc := range polC {
		for _, pm := range polM {
			for _, ps := range []c09PodSet{{}, one} {
				for _, t := range []tp{{0, -1}, {100, 0}, {100, 100}, {100, 125}, {25, 75}} {
					r.run(mk(pc, pm, t, sr{3, 5, 0}, ps, nil, capV), c, m)
					r.run(mk(pc, pm, t, sr{3, 5, 0}, ps, zoneCfgs[1], capV), c, m)
				}
				r.run(mk(pc, pm, tp{50, 50}, sr{3, 0, 0}, ps, nil, 0), c, m)
			}
		}
	}
	// stale node metrics: ages around the degrade time d (d itself is not yet stale), far beyond it, never updated
	for _, deg := range []int64{1, 5, 15} {
		d := deg * 60
		for _, age := range []int64{0, d - 1, d, d + 1, d + 29, d + 31, d + 59, d + 61, 2 * d, 100000, -1} {
			for _, ps := range []c09PodSet{{}, one} {
				for _, zc := range [][]c09RL{nil, zoneCfgs[0]} {
					in := mk("", "usage", tp{75, -1}, sr{3, 5, 0}, ps, zc, capV)
					in.Age, in.Degrade = age, deg
					r.segment(in, c09Steps(in, c, m)[:2])
				}
			}
		}
	}
}

// ---------------------------------------------------------------------------------------------- random tier

func c09Rand(rng *rand.Rand) c09In {
	pick := func(xs ...string) string { return xs[rng.Intn(len(xs))] }
	upTo := func(n int64) int64 {
		if n <= 0 {
			return 0
		}
		return rng.Int63n(n + 1)
	}
	in := c09In{Degrade: 1 + upTo(29), Apps: []c09Use{}, Pods: []c09Pod{}, Dangling: []c09Use{}, Zones: []c09RL{}}
	nz := 0
	if rng.Intn(2) == 0 {
		nz = 1 + rng.Intn(4)
	}
	cpus := []int64{4000, 8000, 16000, 32000, 64000, 96000, 128000}
	in.Cap.CPU = cpus[rng.Intn(len(cpus))]
	if rng.Intn(3) == 0 {
		in.Cap.CPU = 1000 + upTo(127000)
	}
	if nz > 0 { // keep zone memory <= 120000 units (see Reclaim.tla: zone amounts are compared in 1/1000 units times lcm(1..Z))
		in.Cap.Mem = int64(nz) * (4000 + upTo(116000))
	} else {
		in.Cap.Mem = 8000 + upTo(992000)
	}
	for z := 0; z < nz; z++ {
		zc := c09RL{in.Cap.CPU / int64(nz), in.Cap.Mem / int64(nz)}
		if rng.Intn(2) == 0 { // uneven zones
			zc.CPU -= upTo(zc.CPU / 4)
			zc.Mem -= upTo(zc.Mem / 4)
		}
		in.Zones = append(in.Zones, zc)
	}
	frac := func(v int64, pct int64) int64 { return upTo(v * pct / 100) }
	in.Alloc = c09RL{in.Cap.CPU - frac(in.Cap.CPU, 10), in.Cap.Mem - frac(in.Cap.Mem, 10)}
	if rng.Intn(2) == 0 {
		in.Anno = c09RL{frac(in.Cap.CPU, 12), frac(in.Cap.Mem, 12)}
	}
	thr := func() int64 {
		switch rng.Intn(4) {
		case 0:
			return []int64{0, 25, 50, 60, 65, 70, 75, 80, 100}[rng.Intn(9)]
		default:
			return upTo(100)
		}
	}
	in.Thr = c09RL{thr(), thr()}
	in.Pol = c09Pol{pick("", "usage", "maxUsageRequest"), pick("", "usage", "request", "maxUsageRequest")}
	pct := func() int64 {
		if rng.Intn(5) < 2 {
			return -1
		}
		return upTo(110)
	}
	in.Pct = c09RL{pct(), pct()}
	switch rng.Intn(12) {
	case 0:
		in.Age = -1
	case 1:
		in.Age = in.Degrade*60 + 1 + upTo(5000)
	case 2:
		in.Age = in.Degrade * 60
	default:
		in.Age = upTo(in.Degrade * 60)
	}
	in.Sys = c09RL{frac(in.Cap.CPU, 15), frac(in.Cap.Mem, 15)}
	for k := rng.Intn(3); k > 0; k-- {
		in.Apps = append(in.Apps, c09Use{Prio: pick("prod", "prod", "mid", "batch", "free"), Use: c09RL{frac(in.Cap.CPU, 5), frac(in.Cap.Mem, 5)}})
	}
	np := rng.Intn(7)
	share := int64(60)
	if rng.Intn(3) == 0 {
		share = 130 // overloaded node: the published amount should clamp at zero
	}
	for k := 0; k < np; k++ {
		p := c09Pod{Numa: []int{}}
		p.Prio = pick("prod", "prod", "prod", "mid", "batch", "free", "none", "none")
		switch p.Prio {
		case "batch", "free":
			p.Qos = "BE"
		case "none":
			p.Qos = pick("LS", "LSR", "LSE", "BE")
		case "mid":
			p.Qos = pick("LS", "BE")
		default:
			p.Qos = pick("LS", "LS", "LSR", "LSE")
		}
		p.Phase = pick("Running", "Running", "Running", "Running", "Running", "Running", "Pending", "Succeeded", "Failed")
		p.Req = c09RL{frac(in.Cap.CPU, share/int64(np)), frac(in.Cap.Mem, share/int64(np))}
		if rng.Intn(8) == 0 {
			p.Req = c09RL{}
		}
		p.Metric = rng.Intn(10) < 7
		if p.Metric {
			p.Use = c09RL{upTo(p.Req.CPU*3/2 + 50), upTo(p.Req.Mem*3/2 + 50)}
		}
		if nz > 0 && rng.Intn(2) == 0 {
			for z := 0; z < nz; z++ {
				if rng.Intn(2) == 0 {
					p.Numa = append(p.Numa, z)
				}
			}
			if rng.Intn(4) == 0 { // an id the node does not have (stale annotation, topology changed)
				p.Numa = append(p.Numa, []int{nz, nz + 1 + rng.Intn(3), -1}[rng.Intn(3)])
			}
		}
		if (p.Phase == "Running" || p.Phase == "Pending") && rng.Intn(5) == 0 {
			p.Term = true
		}
		in.Pods = append(in.Pods, p)
	}
	for k := rng.Intn(3); k > 0; k-- {
		in.Dangling = append(in.Dangling, c09Use{Prio: pick("prod", "prod", "mid", "batch", "free", "none"), Use: c09RL{frac(in.Cap.CPU, 8), frac(in.Cap.Mem, 8)}})
	}
	return in
}

// a random raise step of one consumption input
func c09RandStep(rng *rand.Rand, cur c09In) c09Step {
	d := func(capV int64) int64 { return 1 + rng.Int63n(capV/8+1) }
	by := c09RL{d(cur.Cap.CPU), d(cur.Cap.Mem)}
	switch rng.Intn(3) { // sometimes only one resource moves
	case 0:
		by.CPU = 0
	case 1:
		by.Mem = 0
	}
	for tries := 0; tries < 20; tries++ {
		var st c09Step
		switch rng.Intn(8) {
		case 0:
			st = c09Step{"sys", 0, by}
		case 1:
			st = c09Step{"req", 1 + rng.Intn(len(cur.Pods)+1), by}
		case 2:
			st = c09Step{"use", 1 + rng.Intn(len(cur.Pods)+1), by}
		case 3:
			st = c09Step{"dangling", 1 + rng.Intn(len(cur.Dangling)+1), by}
		case 4:
			st = c09Step{"app", 1 + rng.Intn(len(cur.Apps)+1), by}
		case 5:
			st = c09Step{"anno", 0, by}
		case 6:
			st = c09Step{"kres", 0, by}
		case 7:
			st = c09Step{"margin", 0, c09RL{rng.Int63n(cur.Thr.CPU+1) / 2, rng.Int63n(cur.Thr.Mem+1) / 2}}
		}
		if _, ok := st.apply(cur); ok {
			return st
		}
	}
	return c09Step{"sys", 0, by}
}

func (r *c09Runner) random(n int, salt int64) {
	rng := vu.Rand(salt)
	for k := 0; k < n; k++ {
		base := c09Rand(rng)
		cur := base
		var steps []c09Step
		for j := 3 + rng.Intn(3); j > 0; j-- {
			st := c09RandStep(rng, cur)
			cur, _ = st.apply(cur)
			steps = append(steps, st)
		}
		r.segment(base, steps)
	}
}

// ---------------------------------------------------------------------------------------------- entry point

func TestVerifC09(t *testing.T) {
	if !vu.Enabled() {
		t.Skip("verification harness: VERIF_OUT not set")
	}
	klog.LogToStderr(false)
	klog.SetOutput(io.Discard)
	defer testPluginCleanup()
	oldClock := Clock
	defer func() { Clock = oldClock }()

	r := &c09Runner{env: c09NewEnv(), rec: vu.NewRecorder("")}
	defer r.rec.Close()

	if rp := vu.ReplayPath(); rp != "" {
		for _, raw := range vu.ReadScripts(rp) {
			var evs []struct {
				Op  string          `json:"op"`
				Inp json.RawMessage `json:"inp"`
				c09Step
			}
			if err := json.Unmarshal(raw, &evs); err != nil {
				t.Fatalf("bad replay script: %v", err)
			}
			var base *c09In
			var steps []c09Step
			for _, e := range evs {
				switch e.Op {
				case "calc":
					var in c09In
					if err := json.Unmarshal(e.Inp, &in); err != nil {
						t.Fatalf("bad replay input: %v", err)
					}
					in = in.clone()
					base = &in
				case "raise":
					steps = append(steps, e.c09Step)
				}
			}
			if base != nil {
				r.segment(*base, steps)
			}
		}
		return
	}

	r.enumerate(vu.Thorough())
	nEnum := r.rec.Segments()
	if vu.Thorough() {
		r.random(vu.EnvInt("VERIF_C09_RANDOM", 40000), 9)
	} else {
		r.random(vu.EnvInt("VERIF_C09_RANDOM", 2500), 9)
	}
	t.Logf("C09 batch: %d enumerated + %d random segments, %d calculations, %d events",
		nEnum, r.rec.Segments()-nEnum, r.calcs, r.rec.Events())
}
