package nodeslo

// Verification harness for C20 (injected by `go test -overlay`, see /verif/DESIGN.md, specs/SloLayering).
// Executor + recorder only. It renders real slo-controller ConfigMaps, feeds sequences of them to the real
// SLOCfgHandlerForConfigMapEvent (syncNodeSLOSpecIfChanged -> syncConfig) and, after every event, calls the
// real NodeSLOReconciler.getNodeSLOSpec for a handful of nodes. What is logged per event:
//
//	cfg  per section (ConfigMap key): st absent|malformed|parsed, the cluster layer and the node entries
//	     (selector, layer); a layer is  JSON path -> value token  for every leaf the rendered JSON sets
//	obs  per node and section:  JSON path -> value token  for every leaf of the delivered strategy
//	dflt (reset event) per section:  JSON path -> value token  of the real default object (DefaultSLOCfg())
//
// A token is the compact JSON text of the leaf value (" replaced by '); lists are leaves. Which layer a node
// must get a value from is decided by TLC only (SloLayeringTrace.tla); nothing here evaluates a selector.
//
// Deliberately NOT generated (whether they "set a field" / "can be parsed" is a matter of taste, so the check
// takes no side): explicit JSON nulls, "" for omitempty string fields, explicit empty lists, an empty-string or
// "null" section text, unknown keys, invalid label selectors, the node-bandwidth annotation ON AN OBSERVED NODE.

import (
	"encoding/json"
	"fmt"
	"io"
	"math/rand"
	"reflect"
	"sort"
	"strings"
	"testing"

	corev1 "k8s.io/api/core/v1"
	"k8s.io/apimachinery/pkg/api/resource"
	metav1 "k8s.io/apimachinery/pkg/apis/meta/v1"
	"k8s.io/apimachinery/pkg/util/intstr"
	"k8s.io/client-go/kubernetes/scheme"
	"k8s.io/client-go/tools/record"
	"k8s.io/klog/v2"
	"sigs.k8s.io/controller-runtime/pkg/client/fake"

	"github.com/koordinator-sh/koordinator/apis/configuration"
	"github.com/koordinator-sh/koordinator/apis/extension"
	slov1alpha1 "github.com/koordinator-sh/koordinator/apis/slo/v1alpha1"
	"github.com/koordinator-sh/koordinator/pkg/util/sloconfig"
	vu "github.com/koordinator-sh/koordinator/pkg/verifutil"
)

// ---------------------------------------------------------------------------------------------------------
// sections and the catalog of field paths (by reflection over the real strategy types)

const (
	c20Threshold = configuration.ResourceThresholdConfigKey
	c20QOS       = configuration.ResourceQOSConfigKey
	c20Burst     = configuration.CPUBurstConfigKey
	c20System    = configuration.SystemConfigKey
	c20HostApp   = configuration.HostApplicationConfigKey
)

var c20Sections = []string{c20Threshold, c20QOS, c20Burst, c20System, c20HostApp}

type c20Leaf struct {
	Path string // keys joined by "/"
	Keys []string
	Kind string // int | bool | string | quantity | intorstr | list
	Ptr  bool   // the Go field is a pointer (or map entry): its zero value can be set explicitly
	Elem reflect.Type
}

var (
	c20QtyType = reflect.TypeOf(resource.Quantity{})
	c20IosType = reflect.TypeOf(intstr.IntOrString{})
	c20MapKeys = []string{"F1", "F2"}
)

// json name of a struct field; inline = embedded without a name
func c20JSONName(f reflect.StructField) (name string, inline, skip bool) {
	tag := f.Tag.Get("json")
	name = strings.Split(tag, ",")[0]
	if name == "-" || !f.IsExported() {
		return "", false, true
	}
	if name == "" {
		if f.Anonymous {
			return "", true, false
		}
		name = f.Name
	}
	return name, false, false
}

func c20Walk(t reflect.Type, keys []string, ptr bool, out *[]c20Leaf) {
	add := func(kind string, elem reflect.Type) {
		k := append([]string{}, keys...)
		*out = append(*out, c20Leaf{Path: strings.Join(k, "/"), Keys: k, Kind: kind, Ptr: ptr, Elem: elem})
	}
	switch t {
	case c20QtyType:
		add("quantity", nil)
		return
	case c20IosType:
		add("intorstr", nil)
		return
	}
	switch t.Kind() {
	case reflect.Ptr:
		c20Walk(t.Elem(), keys, true, out)
	case reflect.Struct:
		for i := 0; i < t.NumField(); i++ {
			name, inline, skip := c20JSONName(t.Field(i))
			if skip {
				continue
			}
			if inline {
				c20Walk(t.Field(i).Type, keys, false, out)
			} else {
				c20Walk(t.Field(i).Type, append(append([]string{}, keys...), name), false, out)
			}
		}
	case reflect.Map:
		for _, k := range c20MapKeys {
			c20Walk(t.Elem(), append(append([]string{}, keys...), k), true, out)
		}
	case reflect.Slice:
		add("list", t.Elem())
	case reflect.Bool:
		add("bool", nil)
	case reflect.Int, reflect.Int32, reflect.Int64:
		add("int", nil)
	case reflect.String:
		add("string", nil)
	default:
		panic(fmt.Sprintf("c20: unhandled kind %v at %v", t.Kind(), keys))
	}
}

func c20Catalog() map[string][]c20Leaf {
	cat := map[string][]c20Leaf{}
	for sec, t := range map[string]reflect.Type{
		c20Threshold: reflect.TypeOf(slov1alpha1.ResourceThresholdStrategy{}),
		c20QOS:       reflect.TypeOf(slov1alpha1.ResourceQOSStrategy{}),
		c20Burst:     reflect.TypeOf(slov1alpha1.CPUBurstStrategy{}),
		c20System:    reflect.TypeOf(slov1alpha1.SystemStrategy{}),
	} {
		var out []c20Leaf
		c20Walk(t, nil, false, &out)
		cat[sec] = out
	}
	// host applications: the one list-valued field of configuration.HostApplicationCfg / NodeHostApplicationCfg
	f, ok := reflect.TypeOf(configuration.HostApplicationCfg{}).FieldByName("Applications")
	if !ok {
		panic("c20: HostApplicationCfg.Applications not found")
	}
	name, _, _ := c20JSONName(f)
	cat[c20HostApp] = []c20Leaf{{Path: name, Keys: []string{name}, Kind: "list", Elem: f.Type.Elem()}}
	for sec, ls := range cat {
		for _, l := range ls {
			if l.Keys[0] == "name" || l.Keys[0] == "nodeSelector" || l.Keys[0] == "nodeConfigs" {
				panic("c20: strategy field collides with the node entry profile in " + sec)
			}
		}
	}
	return cat
}

func c20Find(cat map[string][]c20Leaf, sec, path string) c20Leaf {
	for _, l := range cat[sec] {
		if l.Path == path {
			return l
		}
	}
	panic("c20: mapping table names a path the types do not have: " + sec + " " + path)
}

// ---------------------------------------------------------------------------------------------------------
// values

// a random JSON object for a struct type (list elements): every field is omitempty in the real types except
// value-typed structs, which are therefore always rendered (so that the rendered text is what the type marshals)
func c20GenObj(t reflect.Type, rng *rand.Rand) map[string]interface{} {
	for t.Kind() == reflect.Ptr {
		t = t.Elem()
	}
	o := map[string]interface{}{}
	for i := 0; i < t.NumField(); i++ {
		f := t.Field(i)
		name, inline, skip := c20JSONName(f)
		if skip {
			continue
		}
		ft := f.Type
		if inline {
			for k, v := range c20GenObj(ft, rng) {
				o[k] = v
			}
			continue
		}
		isPtr := ft.Kind() == reflect.Ptr
		if isPtr {
			ft = ft.Elem()
		}
		switch ft.Kind() {
		case reflect.String:
			if rng.Intn(10) < 7 {
				o[name] = fmt.Sprintf("x%d", 1+rng.Intn(3))
			}
		case reflect.Bool:
			if isPtr && rng.Intn(10) < 3 {
				o[name] = rng.Intn(2) == 0
			}
		case reflect.Int, reflect.Int32, reflect.Int64:
			if isPtr && rng.Intn(10) < 3 {
				o[name] = rng.Intn(4) * 7
			}
		case reflect.Struct:
			if !isPtr || rng.Intn(2) == 0 {
				o[name] = c20GenObj(ft, rng)
			}
		}
	}
	return o
}

func c20GenList(elem reflect.Type, rng *rand.Rand) []interface{} {
	n := 1 + rng.Intn(2)
	out := make([]interface{}, 0, n)
	for i := 0; i < n; i++ {
		out = append(out, c20GenObj(elem, rng))
	}
	return out
}

// the idx-th value of a leaf's pool (idx 0,1 = abstract v1,v2)
func c20Value(l c20Leaf, idx int, rng *rand.Rand) interface{} {
	switch l.Kind {
	case "int":
		pool := []int{11, 22, 33}
		if l.Ptr {
			pool = append(pool, 0)
		}
		return pool[idx%len(pool)]
	case "bool":
		return idx%2 == 0
	case "string":
		return []string{"alpha", "beta", "gamma"}[idx%3]
	case "quantity":
		return []string{"100M", "200M", "3G", "0"}[idx%4]
	case "intorstr":
		return []interface{}{10, "20%", "30%", 0}[idx%4]
	case "list":
		if rng == nil {
			rng = rand.New(rand.NewSource(int64(1000 + idx%2)))
		}
		if l.Path == "applications" && rng.Intn(4) == 0 {
			return []interface{}{} // the entry SETS the field: no host applications (not the same as leaving it unset)
		}
		return c20GenList(l.Elem, rng)
	}
	panic("c20: kind " + l.Kind)
}

// ---------------------------------------------------------------------------------------------------------
// JSON trees, flattening, tokens

type c20Tree = map[string]interface{}

func c20Set(t c20Tree, keys []string, v interface{}) {
	for _, k := range keys[:len(keys)-1] {
		n, ok := t[k].(c20Tree)
		if !ok {
			n = c20Tree{}
			t[k] = n
		}
		t = n
	}
	t[keys[len(keys)-1]] = v
}

// make sure the object that contains the leaf exists (a pointer-to-struct that is present but may be empty)
func c20EnsureContainer(t c20Tree, keys []string) {
	for _, k := range keys[:len(keys)-1] {
		n, ok := t[k].(c20Tree)
		if !ok {
			n = c20Tree{}
			t[k] = n
		}
		t = n
	}
}

func c20Token(v interface{}) string {
	b, err := json.Marshal(v)
	if err != nil {
		panic(err)
	}
	return strings.ReplaceAll(string(b), `"`, `'`)
}

func c20FlattenInto(v interface{}, prefix string, out map[string]string) {
	if m, ok := v.(map[string]interface{}); ok {
		for k, x := range m {
			p := k
			if prefix != "" {
				p = prefix + "/" + k
			}
			c20FlattenInto(x, p, out)
		}
		return
	}
	if v == nil {
		return
	}
	if l, ok := v.([]interface{}); ok && len(l) == 0 {
		// a layer that sets a list field to the empty list: the field is SET there (it hides the layers below) and what
		// it delivers is "nothing" - the specification's Unset value as the value of a set field
		out[prefix] = "-"
		return
	}
	out[prefix] = c20Token(v)
}

func c20Flatten(t c20Tree) map[string]string {
	out := map[string]string{}
	if t != nil {
		c20FlattenInto(t, "", out)
	}
	return out
}

// projection of a real object: marshal, read generically, flatten (field reads only)
func c20FlattenObj(x interface{}) map[string]string {
	b, err := json.Marshal(x)
	if err != nil {
		panic(err)
	}
	dec := json.NewDecoder(strings.NewReader(string(b)))
	dec.UseNumber()
	var v interface{}
	if err := dec.Decode(&v); err != nil {
		panic(err)
	}
	out := map[string]string{}
	c20FlattenInto(v, "", out)
	return out
}

func c20HostAppObj(apps []slov1alpha1.HostApplicationSpec) interface{} {
	if len(apps) == 0 {
		return map[string]interface{}{}
	}
	return map[string]interface{}{"applications": apps}
}

func c20Defaults() map[string]map[string]string {
	d := DefaultSLOCfg()
	return map[string]map[string]string{
		c20Threshold: c20FlattenObj(d.ThresholdCfgMerged.ClusterStrategy),
		c20QOS:       c20FlattenObj(d.ResourceQOSCfgMerged.ClusterStrategy),
		c20Burst:     c20FlattenObj(d.CPUBurstCfgMerged.ClusterStrategy),
		c20System:    c20FlattenObj(d.SystemCfgMerged.ClusterStrategy),
		c20HostApp:   c20FlattenObj(c20HostAppObj(d.HostAppCfgMerged.Applications)),
	}
}

// ---------------------------------------------------------------------------------------------------------
// ops (a recorded event is also an op: the executor reads op / nodes / data / cfg only)

type c20Req struct {
	Key  string   `json:"key"`
	Op   string   `json:"op"`
	Vals []string `json:"vals"`
}

type c20Sel struct {
	Nil bool              `json:"nil"`
	ML  map[string]string `json:"ml"`
	ME  []c20Req          `json:"me"`
}

type c20EntryAbs struct {
	Sel c20Sel            `json:"sel"`
	Set map[string]string `json:"set"`
}

type c20SecAbs struct {
	St      string            `json:"st"`
	Cluster map[string]string `json:"cluster"`
	Nodes   []c20EntryAbs     `json:"nodes"`
}

type c20Op struct {
	Op    string                       `json:"op"`
	Nodes map[string]map[string]string `json:"nodes,omitempty"` // reset: node -> labels
	Data  map[string]string            `json:"data,omitempty"`  // update: the ConfigMap data
	Cfg   map[string]*c20SecAbs        `json:"cfg,omitempty"`   // update: what data says, per section
}

func c20Norm(a *c20SecAbs) *c20SecAbs {
	if a.Cluster == nil {
		a.Cluster = map[string]string{}
	}
	if a.Nodes == nil {
		a.Nodes = []c20EntryAbs{}
	}
	for i := range a.Nodes {
		if a.Nodes[i].Set == nil {
			a.Nodes[i].Set = map[string]string{}
		}
		if a.Nodes[i].Sel.ML == nil {
			a.Nodes[i].Sel.ML = map[string]string{}
		}
		if a.Nodes[i].Sel.ME == nil {
			a.Nodes[i].Sel.ME = []c20Req{}
		}
		for j := range a.Nodes[i].Sel.ME {
			if a.Nodes[i].Sel.ME[j].Vals == nil {
				a.Nodes[i].Sel.ME[j].Vals = []string{}
			}
		}
	}
	return a
}

// ---------------------------------------------------------------------------------------------------------
// rendering a section

type c20Entry struct {
	Sel  c20Sel
	Tree c20Tree // nil: the entry carries no strategy field at all
}

type c20Section struct {
	Cluster c20Tree // nil: no clusterStrategy key
	Entries []c20Entry
}

func c20SelJSON(s c20Sel) interface{} {
	o := map[string]interface{}{}
	if len(s.ML) > 0 {
		o["matchLabels"] = s.ML
	}
	if len(s.ME) > 0 {
		var l []interface{}
		for _, r := range s.ME {
			e := map[string]interface{}{"key": r.Key, "operator": r.Op}
			if len(r.Vals) > 0 {
				e["values"] = r.Vals
			}
			l = append(l, e)
		}
		o["matchExpressions"] = l
	}
	return o
}

func c20Render(sec string, s *c20Section) (string, *c20SecAbs) {
	doc := map[string]interface{}{}
	abs := &c20SecAbs{St: "parsed", Cluster: c20Flatten(s.Cluster)}
	entriesKey := "nodeStrategies"
	if sec == c20HostApp {
		entriesKey = "nodeConfigs"
		for k, v := range s.Cluster {
			doc[k] = v
		}
	} else if s.Cluster != nil {
		doc["clusterStrategy"] = s.Cluster
	}
	var entries []interface{}
	for i, e := range s.Entries {
		o := map[string]interface{}{"name": fmt.Sprintf("e%d", i+1)}
		for k, v := range e.Tree {
			o[k] = v
		}
		if !e.Sel.Nil {
			o["nodeSelector"] = c20SelJSON(e.Sel)
		}
		entries = append(entries, o)
		abs.Nodes = append(abs.Nodes, c20EntryAbs{Sel: e.Sel, Set: c20Flatten(e.Tree)})
	}
	if entries != nil {
		doc[entriesKey] = entries
	}
	b, err := json.Marshal(doc)
	if err != nil {
		panic(err)
	}
	return string(b), c20Norm(abs)
}

// a text the section's type cannot be parsed from. variant picks the way it is broken.
func c20Malformed(sec string, cat map[string][]c20Leaf, variant int, valid string) string {
	switch variant % 8 {
	case 0:
		return `{"clusterStrategy": {`
	case 1:
		return "{"
	case 2:
		return "not json at all"
	case 3:
		return "[]"
	case 4:
		if sec == c20HostApp {
			return `{"applications": 5}`
		}
		return `{"clusterStrategy": 7}`
	case 5:
		if sec == c20HostApp {
			return `{"nodeConfigs": {"name": "x"}}`
		}
		return `{"nodeStrategies": {"name": "x"}}`
	case 6:
		// an otherwise valid document cut short
		if len(valid) > 2 {
			return valid[:len(valid)-1]
		}
		return "{"
	default:
		// a well-formed document in which one leaf has the wrong JSON type (the rest is fine)
		if sec == c20HostApp {
			return `{"applications": [{"name": "ok"}, {"name": 5}]}`
		}
		var cands []c20Leaf
		for _, l := range cat[sec] {
			if l.Kind == "int" || l.Kind == "bool" {
				cands = append(cands, l)
			}
		}
		l := cands[variant/8%len(cands)]
		bad := c20Tree{}
		c20Set(bad, l.Keys, "wrong-type")
		other := cat[sec][(variant/8+1)%len(cat[sec])]
		if other.Path != l.Path && other.Kind != "list" {
			c20Set(bad, other.Keys, c20Value(other, 0, nil))
		}
		sel := map[string]interface{}{"matchLabels": map[string]string{"l1": "1"}}
		entry := map[string]interface{}{"name": "e1", "nodeSelector": sel}
		for k, v := range bad {
			entry[k] = v
		}
		var doc map[string]interface{}
		if variant/8%2 == 0 {
			doc = map[string]interface{}{"clusterStrategy": bad}
		} else {
			doc = map[string]interface{}{"nodeStrategies": []interface{}{entry}}
		}
		b, _ := json.Marshal(doc)
		return string(b)
	}
}

func c20Unparsed(st string) *c20SecAbs { return c20Norm(&c20SecAbs{St: st}) }

// ---------------------------------------------------------------------------------------------------------
// executor + recorder

func c20Obs(r *NodeSLOReconciler, nodes map[string]map[string]string) map[string]interface{} {
	obs := map[string]interface{}{}
	// Other nodes are reconciled in between: every observed node has a twin with the same labels that carries a
	// node-bandwidth annotation of its own. What the twins get is not recorded (whether the annotation is a "layer" is
	// left open); what they are configured with must not show in the observed nodes (frame condition).
	for name, lbl := range nodes {
		twin := &corev1.Node{ObjectMeta: metav1.ObjectMeta{Name: name + "-twin", Labels: lbl,
			Annotations: map[string]string{extension.AnnotationNodeBandwidth: "99M"}}}
		_, _ = r.getNodeSLOSpec(twin, nil)
	}
	for name, lbl := range nodes {
		node := &corev1.Node{ObjectMeta: metav1.ObjectMeta{Name: name, Labels: lbl}}
		spec, err := r.getNodeSLOSpec(node, nil)
		if err != nil || spec == nil {
			// no spec at all: recorded as such in every section (the specification has no such value)
			bad := map[string]map[string]string{}
			for _, sec := range c20Sections {
				bad[sec] = map[string]string{"getNodeSLOSpec-failed": fmt.Sprint(err)}
			}
			obs[name] = bad
			continue
		}
		obs[name] = map[string]map[string]string{
			c20Threshold: c20FlattenObj(spec.ResourceUsedThresholdWithBE),
			c20QOS:       c20FlattenObj(spec.ResourceQOSStrategy),
			c20Burst:     c20FlattenObj(spec.CPUBurstStrategy),
			c20System:    c20FlattenObj(spec.SystemStrategy),
			c20HostApp:   c20FlattenObj(c20HostAppObj(spec.HostApplications)),
		}
	}
	return obs
}

var c20DefaultNodes = map[string]map[string]string{
	"n0": {}, "n1": {"l1": "1"}, "n2": {"l2": "1"}, "n12": {"l1": "1", "l2": "1"},
}

func c20Run(rec *vu.Recorder, ops []c20Op) {
	nodes := c20DefaultNodes
	if len(ops) > 0 && ops[0].Op == "reset" && ops[0].Nodes != nil {
		nodes = ops[0].Nodes
	}
	for n, l := range nodes {
		if l == nil {
			nodes[n] = map[string]string{}
		}
	}
	cl := fake.NewClientBuilder().WithScheme(scheme.Scheme).Build()
	h := NewSLOCfgHandlerForConfigMapEvent(cl, DefaultSLOCfg(), &record.FakeRecorder{})
	r := &NodeSLOReconciler{Client: cl, sloCfgCache: h}
	rec.Reset(vu.Ev{"nodes": nodes, "dflt": c20Defaults()})
	for _, o := range ops {
		ev := vu.Ev{"op": o.Op}
		switch o.Op {
		case "reset":
			continue
		case "get":
		case "update":
			cm := &corev1.ConfigMap{
				ObjectMeta: metav1.ObjectMeta{Name: sloconfig.SLOCtrlConfigMap, Namespace: sloconfig.ConfigNameSpace},
				Data:       map[string]string{},
			}
			for k, v := range o.Data {
				cm.Data[k] = v
			}
			h.syncNodeSLOSpecIfChanged(cm) // takes the cache lock and calls syncConfig(cm)
			data := o.Data
			if data == nil {
				data = map[string]string{}
			}
			ev["data"], ev["cfg"] = data, o.Cfg
		case "delete":
			h.syncNodeSLOSpecIfChanged(nil)
		default:
			panic("c20: unknown op " + o.Op)
		}
		ev["obs"] = c20Obs(r, nodes)
		rec.Emit(ev)
	}
}

// ---------------------------------------------------------------------------------------------------------
// Gen scripts (TLC, abstract, one section) -> real ConfigMap sequences

type c20AbsTree struct {
	Has bool   `json:"has"`
	A   string `json:"a"`
	B   string `json:"b"`
	P   struct {
		Has bool   `json:"has"`
		C   string `json:"c"`
	} `json:"p"`
}

type c20AbsOp struct {
	Op      string     `json:"op"`
	St      string     `json:"st"`
	Cluster c20AbsTree `json:"cluster"`
	Nodes   []struct {
		Sel   []string   `json:"sel"`
		Strat c20AbsTree `json:"strat"`
	} `json:"nodes"`
}

// THE MAPPING TABLE: abstract fields of the model's struct shape -> real JSON paths of the strategy types.
//
//	a    a plain optional field          in/b  a field of an inlined (embedded) struct
//	p/c  a field behind a pointer-to-struct (or map); p present-but-empty renders the empty container
//
// Sections whose type has no such shape use further plain fields. Every script instantiation rotates through
// the alternatives. host-application-config has the single field "applications" (b, p/c are dropped).
var c20Mapping = map[string][3][]string{
	c20Threshold: {
		{"enable", "cpuSuppressThresholdPercent", "memoryEvictThresholdPercent", "cpuEvictPolicy"},
		{"cpuSuppressPolicy", "cpuSuppressMinPercent", "cpuEvictTimeWindowSeconds", "evictEnabledPriorityThreshold"},
		{"memoryEvictLowerPercent", "cpuEvictBEUsageThresholdPercent", "allocatableEvictPriorityThreshold"},
	},
	c20QOS: {
		{"lsClass/cpuQOS/enable", "beClass/memoryQOS/enable", "cgroupRoot/blkioQOS/enable"},
		{"lsClass/cpuQOS/groupIdentity", "beClass/memoryQOS/wmarkRatio", "beClass/resctrlQOS/catRangeEndPercent", "lsrClass/networkQOS/ingressLimit"},
		{"policies/cpuPolicy", "policies/netQOSPolicy", "systemClass/resctrlQOS/mbaPercent", "beClass/blkioQOS/blocks"},
	},
	c20Burst: {
		{"sharePoolThresholdPercent"},
		{"policy", "cpuBurstPercent"},
		{"cfsQuotaBurstPercent", "cfsQuotaBurstPeriodSeconds"},
	},
	c20System: {
		{"minFreeKbytesFactor", "watermarkScaleFactor", "memcgReapBackGround"},
		{"totalNetworkBandwidth", "schedIdleSaverWmark", "pageCacheLimitEnabled"},
		{"schedFeatures/F1", "schedFeatures/F2"},
	},
	c20HostApp: {{"applications"}, {}, {}},
}

func c20AbsVal(s string) int {
	if s == "v2" {
		return 1
	}
	return 0
}

func c20InstTree(t c20AbsTree, leaves [3]*c20Leaf) c20Tree {
	if !t.Has {
		return nil
	}
	tree := c20Tree{}
	if t.A != "-" && leaves[0] != nil {
		c20Set(tree, leaves[0].Keys, c20Value(*leaves[0], c20AbsVal(t.A), nil))
	}
	if t.B != "-" && leaves[1] != nil {
		c20Set(tree, leaves[1].Keys, c20Value(*leaves[1], c20AbsVal(t.B), nil))
	}
	if t.P.Has && leaves[2] != nil {
		c20EnsureContainer(tree, leaves[2].Keys)
		if t.P.C != "-" {
			c20Set(tree, leaves[2].Keys, c20Value(*leaves[2], c20AbsVal(t.P.C), nil))
		}
	}
	return tree
}

// segment j: section k replays script (j + k*stride) mod N; a section whose script is shorter keeps its last text
func c20Instantiate(scripts [][]c20AbsOp, j int, cat map[string][]c20Leaf) []c20Op {
	n := len(scripts)
	stride := n/len(c20Sections) + 1
	per := map[string][]c20AbsOp{}
	maxLen := 0
	for k, sec := range c20Sections {
		s := scripts[(j+k*stride)%n]
		if len(s) > 0 && s[0].Op == "reset" {
			s = s[1:]
		}
		per[sec] = s
		if len(s) > maxLen {
			maxLen = len(s)
		}
	}
	deleter := c20Sections[j%len(c20Sections)] // a delete in this section's script deletes the ConfigMap
	leaves := map[string][3]*c20Leaf{}
	for _, sec := range c20Sections {
		var ls [3]*c20Leaf
		for f := 0; f < 3; f++ {
			alts := c20Mapping[sec][f]
			if len(alts) > 0 {
				l := c20Find(cat, sec, alts[(j/(f+1))%len(alts)])
				ls[f] = &l
			}
		}
		leaves[sec] = ls
	}
	ops := []c20Op{{Op: "reset"}, {Op: "get"}}
	lastText := map[string]string{}
	lastAbs := map[string]*c20SecAbs{}
	for t := 0; t < maxLen; t++ {
		if s := per[deleter]; t < len(s) && s[t].Op == "delete" {
			ops = append(ops, c20Op{Op: "delete"})
			for _, sec := range c20Sections {
				delete(lastText, sec)
				lastAbs[sec] = c20Unparsed("absent")
			}
			continue
		}
		op := c20Op{Op: "update", Data: map[string]string{}, Cfg: map[string]*c20SecAbs{}}
		for _, sec := range c20Sections {
			s := per[sec]
			if t < len(s) {
				a := s[t]
				switch {
				case a.Op == "delete" || a.St == "absent":
					delete(lastText, sec)
					lastAbs[sec] = c20Unparsed("absent")
				case a.St == "malformed":
					valid := lastText[sec]
					lastText[sec] = c20Malformed(sec, cat, j+t*3, valid)
					lastAbs[sec] = c20Unparsed("malformed")
				default:
					cs := &c20Section{Cluster: c20InstTree(a.Cluster, leaves[sec])}
					for _, e := range a.Nodes {
						sel := c20Sel{ML: map[string]string{}}
						for _, k := range e.Sel {
							sel.ML[k] = "1"
						}
						cs.Entries = append(cs.Entries, c20Entry{Sel: sel, Tree: c20InstTree(e.Strat, leaves[sec])})
					}
					lastText[sec], lastAbs[sec] = c20Render(sec, cs)
				}
			}
			if lastAbs[sec] == nil {
				lastAbs[sec] = c20Unparsed("absent")
			}
			if txt, ok := lastText[sec]; ok {
				op.Data[sec] = txt
			}
			op.Cfg[sec] = lastAbs[sec]
		}
		ops = append(ops, op)
	}
	return ops
}

// ---------------------------------------------------------------------------------------------------------
// random tier: field paths picked by reflection (every path of every type is the focus of some segment)

func c20RandSel(rng *rand.Rand) c20Sel {
	keys := []string{"l1", "l2"}
	vals := []string{"1", "2"}
	s := c20Sel{ML: map[string]string{}, ME: []c20Req{}}
	req := func() c20Req {
		r := c20Req{Key: keys[rng.Intn(2)], Op: []string{"In", "NotIn", "Exists", "DoesNotExist"}[rng.Intn(4)], Vals: []string{}}
		if r.Op == "In" || r.Op == "NotIn" {
			r.Vals = append(r.Vals, vals[rng.Intn(2)])
			if rng.Intn(3) == 0 {
				r.Vals = []string{"1", "2"}
			}
		}
		return r
	}
	switch k := rng.Intn(20); {
	case k == 0:
		s.Nil = true
	case k <= 2:
		// empty selector: everything
	case k <= 12:
		s.ML[keys[rng.Intn(2)]] = vals[rng.Intn(2)]
	case k <= 14:
		s.ML["l1"], s.ML["l2"] = vals[rng.Intn(2)], vals[rng.Intn(2)]
	case k <= 17:
		s.ME = append(s.ME, req())
	default:
		s.ML[keys[rng.Intn(2)]] = vals[rng.Intn(2)]
		s.ME = append(s.ME, req())
	}
	return s
}

func c20CopyTree(v interface{}) interface{} {
	switch x := v.(type) {
	case c20Tree:
		out := c20Tree{}
		for k, y := range x {
			out[k] = c20CopyTree(y)
		}
		return out
	case []interface{}:
		out := make([]interface{}, len(x))
		for i, y := range x {
			out[i] = c20CopyTree(y)
		}
		return out
	}
	return v
}

// c20SmallDelta returns a copy of the section that differs from it in ONE field of one layer: the field is dropped,
// set (to another value) or - a list field - set to the empty list. Change detection has to notice every one of them.
func c20SmallDelta(rng *rand.Rand, cs *c20Section, focus []c20Leaf) *c20Section {
	out := &c20Section{}
	if cs.Cluster != nil {
		out.Cluster = c20CopyTree(cs.Cluster).(c20Tree)
	}
	for _, e := range cs.Entries {
		ne := c20Entry{Sel: e.Sel}
		if e.Tree != nil {
			ne.Tree = c20CopyTree(e.Tree).(c20Tree)
		}
		out.Entries = append(out.Entries, ne)
	}
	var target *c20Tree
	if k := rng.Intn(len(out.Entries) + 1); k < len(out.Entries) {
		if out.Entries[k].Tree == nil {
			out.Entries[k].Tree = c20Tree{}
		}
		target = &out.Entries[k].Tree
	} else {
		if out.Cluster == nil {
			out.Cluster = c20Tree{}
		}
		target = &out.Cluster
	}
	l := focus[rng.Intn(len(focus))]
	// is the leaf present in the target?
	cur := interface{}(*target)
	present := true
	for _, k := range l.Keys {
		m, ok := cur.(c20Tree)
		if !ok {
			present = false
			break
		}
		if cur, ok = m[k]; !ok {
			present = false
			break
		}
	}
	switch {
	case present && rng.Intn(2) == 0:
		t := *target
		for _, k := range l.Keys[:len(l.Keys)-1] {
			t = t[k].(c20Tree)
		}
		delete(t, l.Keys[len(l.Keys)-1])
	case l.Kind == "list" && l.Path == "applications" && rng.Intn(2) == 0:
		// (only host applications: the merged strategy sections are typed objects whose list fields are `omitempty`, an
		// empty list there IS the unset field - reading decision, DESIGN 10.3)
		c20Set(*target, l.Keys, []interface{}{})
	default:
		c20Set(*target, l.Keys, c20Value(l, rng.Intn(4), rng))
	}
	return out
}

func c20RandTree(rng *rand.Rand, focus []c20Leaf) c20Tree {
	t := c20Tree{}
	for _, l := range focus {
		switch k := rng.Intn(20); {
		case k < 11:
			c20Set(t, l.Keys, c20Value(l, rng.Intn(4), rng))
		case k < 13:
			c20EnsureContainer(t, l.Keys)
		}
	}
	return t
}

func c20RandomSegment(rng *rand.Rand, cat map[string][]c20Leaf, j int) []c20Op {
	nodes := map[string]map[string]string{}
	for i := 0; i < 5; i++ {
		l := map[string]string{}
		for _, k := range []string{"l1", "l2"} {
			switch x := rng.Intn(5); {
			case x < 2:
				l[k] = "1"
			case x < 3:
				l[k] = "2"
			}
		}
		nodes[fmt.Sprintf("n%d", i)] = l
	}
	focus := map[string][]c20Leaf{}
	for _, sec := range c20Sections {
		ls := cat[sec]
		f := []c20Leaf{ls[j%len(ls)]}
		for n := rng.Intn(3); n > 0; n-- {
			c := ls[rng.Intn(len(ls))]
			dup := false
			for _, x := range f {
				dup = dup || x.Path == c.Path
			}
			if !dup {
				f = append(f, c)
			}
		}
		focus[sec] = f
	}
	ops := []c20Op{{Op: "reset", Nodes: nodes}, {Op: "get"}}
	lastText := map[string]string{}
	lastSec := map[string]*c20Section{} // the section as last rendered from a tree (absent: literal / malformed / no text)
	lastAbs := map[string]*c20SecAbs{}
	for _, sec := range c20Sections {
		lastAbs[sec] = c20Unparsed("absent")
	}
	for n := 3 + rng.Intn(4); n > 0; n-- {
		if rng.Intn(16) == 0 {
			ops = append(ops, c20Op{Op: "delete"})
			for _, sec := range c20Sections {
				delete(lastText, sec)
				lastAbs[sec] = c20Unparsed("absent")
			}
			continue
		}
		op := c20Op{Op: "update", Data: map[string]string{}, Cfg: map[string]*c20SecAbs{}}
		// one update in four changes ONE field of one layer of ONE section and nothing else in the whole ConfigMap
		only := ""
		if rng.Intn(4) == 0 {
			var cands []string
			for _, sec := range c20Sections {
				if lastSec[sec] != nil {
					cands = append(cands, sec)
				}
			}
			if len(cands) > 0 {
				only = cands[rng.Intn(len(cands))]
			}
		}
		for _, sec := range c20Sections {
			if only != "" {
				if sec == only {
					cs := c20SmallDelta(rng, lastSec[sec], focus[sec])
					lastSec[sec] = cs
					lastText[sec], lastAbs[sec] = c20Render(sec, cs)
				}
				if txt, ok := lastText[sec]; ok {
					op.Data[sec] = txt
				}
				op.Cfg[sec] = lastAbs[sec]
				continue
			}
			switch k := rng.Intn(100); {
			case k < 14: // this key is not touched by the update
			case k < 30 && lastSec[sec] != nil:
				// the same section with ONE field of one layer changed
				cs := c20SmallDelta(rng, lastSec[sec], focus[sec])
				lastSec[sec] = cs
				lastText[sec], lastAbs[sec] = c20Render(sec, cs)
			case k < 22:
				delete(lastText, sec)
				delete(lastSec, sec)
				lastAbs[sec] = c20Unparsed("absent")
			case k < 36:
				lastText[sec] = c20Malformed(sec, cat, rng.Intn(1<<20), lastText[sec])
				delete(lastSec, sec)
				lastAbs[sec] = c20Unparsed("malformed")
			case k < 40:
				lastText[sec] = []string{"{}", " { } "}[rng.Intn(2)]
				delete(lastSec, sec)
				lastAbs[sec] = c20Unparsed("parsed")
			default:
				cs := &c20Section{}
				if rng.Intn(6) > 0 {
					cs.Cluster = c20RandTree(rng, focus[sec])
				}
				for e := rng.Intn(4); e > 0; e-- {
					en := c20Entry{Sel: c20RandSel(rng)}
					if rng.Intn(6) > 0 {
						en.Tree = c20RandTree(rng, focus[sec])
					}
					cs.Entries = append(cs.Entries, en)
				}
				lastText[sec], lastAbs[sec] = c20Render(sec, cs)
				lastSec[sec] = cs
			}
			if txt, ok := lastText[sec]; ok {
				op.Data[sec] = txt
			}
			op.Cfg[sec] = lastAbs[sec]
		}
		ops = append(ops, op)
		if rng.Intn(10) == 0 {
			ops = append(ops, c20Op{Op: "get"})
		}
	}
	return ops
}

// ---------------------------------------------------------------------------------------------------------

func TestVerifC20(t *testing.T) {
	if !vu.Enabled() {
		t.Skip("verification harness: VERIF_OUT not set")
	}
	klog.LogToStderr(false)
	klog.SetOutput(io.Discard)
	rec := vu.NewRecorder("")
	defer rec.Close()
	cat := c20Catalog()

	if vu.ReplayPath() != "" {
		for _, raw := range vu.ReadScripts(vu.ReplayPath()) {
			var ops []c20Op
			if err := json.Unmarshal(raw, &ops); err != nil {
				t.Fatal(err)
			}
			for i := range ops {
				for _, a := range ops[i].Cfg {
					c20Norm(a)
				}
			}
			c20Run(rec, ops)
		}
		return
	}

	var scripts [][]c20AbsOp
	for _, raw := range vu.ReadScripts(vu.ScriptPath()) {
		var s []c20AbsOp
		if err := json.Unmarshal(raw, &s); err != nil {
			t.Fatal(err)
		}
		scripts = append(scripts, s)
	}
	for j := range scripts {
		c20Run(rec, c20Instantiate(scripts, j, cat))
	}
	nGen := rec.Segments()

	total := 0
	var paths []string
	for _, sec := range c20Sections {
		total += len(cat[sec])
		for _, l := range cat[sec] {
			paths = append(paths, sec+":"+l.Path)
		}
	}
	sort.Strings(paths)
	n := vu.EnvInt("VERIF_C20_RANDOM", 600)
	if vu.Thorough() {
		n = vu.EnvInt("VERIF_C20_RANDOM", 4000)
	}
	rng := vu.Rand(20)
	off := int(vu.Seed()) * 37
	for j := 0; j < n; j++ {
		c20Run(rec, c20RandomSegment(rng, cat, j+off))
	}
	t.Logf("C20: %d field paths in the catalog; %d Gen segments, %d random segments, %d events",
		total, nGen, rec.Segments()-nGen, rec.Events())
}
