package loadaware

// Verification harness for C08 (injected by `go test -overlay`, see /verif/DESIGN.md and /verif/docs/FAMILY_GUIDE.md).
//
// Executor + recorder only: op scripts (enumerated, seeded random, or a replayed segment) are executed on the REAL
// podAssignCache (fake clock) and the REAL Plugin (built through frameworkext.PluginFactoryProxy(New), exactly as the
// package's own tests do; its cache is swapped for a fresh one with a fake clock at every segment). After every
// operation the vectors returned by GetNodeMetricAndEstimatedOfExisting are logged for every node and view
// (whole-node, prod, aggregated p95 longest period / 300 s); Filter verdicts are logged with all inputs.
// There is no oracle here: TLC computes every expected value from specs/LoadAware/LoadAwareTrace.tla.
//
// Time: the model's integer times are seconds after T0 = (wall clock at start) - 10 days. isNodeMetricExpired uses
// the wall clock; expiration seconds are 1 day (always expired) or 365 days (never expired), so wall-clock progress
// during the run cannot flip a verdict.

import (
	"context"
	"encoding/json"
	"fmt"
	"math/rand"
	"sort"
	"strconv"
	"sync"
	"testing"
	"time"

	corev1 "k8s.io/api/core/v1"
	"k8s.io/apimachinery/pkg/api/resource"
	metav1 "k8s.io/apimachinery/pkg/apis/meta/v1"
	"k8s.io/apimachinery/pkg/types"
	"k8s.io/client-go/informers"
	kubefake "k8s.io/client-go/kubernetes/fake"
	"k8s.io/client-go/tools/cache"
	"k8s.io/kubernetes/pkg/scheduler/framework"
	"k8s.io/kubernetes/pkg/scheduler/framework/plugins/defaultbinder"
	"k8s.io/kubernetes/pkg/scheduler/framework/plugins/queuesort"
	frameworkruntime "k8s.io/kubernetes/pkg/scheduler/framework/runtime"
	schedulertesting "k8s.io/kubernetes/pkg/scheduler/testing/framework"
	clocktesting "k8s.io/utils/clock/testing"

	"github.com/koordinator-sh/koordinator/apis/extension"
	slov1alpha1 "github.com/koordinator-sh/koordinator/apis/slo/v1alpha1"
	koordfake "github.com/koordinator-sh/koordinator/pkg/client/clientset/versioned/fake"
	koordinatorinformers "github.com/koordinator-sh/koordinator/pkg/client/informers/externalversions"
	"github.com/koordinator-sh/koordinator/pkg/scheduler/apis/config"
	"github.com/koordinator-sh/koordinator/pkg/scheduler/frameworkext"
	vu "github.com/koordinator-sh/koordinator/pkg/verifutil"
)

const (
	c08NowOff  = 864000   // T0 is 10 days before the wall clock
	c08Expired = 86400    // expiration seconds under which every report is expired
	c08Fresh   = 31536000 // expiration seconds under which no report is expired
)

var c08T0 time.Time

func c08Time(k int64) time.Time { return c08T0.Add(time.Duration(k) * time.Second) }

type c08Vec map[string]int64

func c08V(cpu, mem int64) c08Vec { return c08Vec{"cpu": cpu, "memory": mem} }

type c08Pod struct {
	UID   string `json:"uid"`
	Name  string `json:"name"`
	Prio  string `json:"prio"` // prod | mid | batch | free  (spec.priority 9500 / 7500 / 5500 / 3500)
	Req   c08Vec `json:"req"`  // in the resource names of the priority class (cpu: milli, memory: bytes)
	Lim   c08Vec `json:"lim"`
	Node  string `json:"node"`
	Sched int64  `json:"sched"` // LastTransitionTime of PodScheduled=True, -1 = no such condition
	Init  int64  `json:"init"`  // LastTransitionTime of Initialized=True, -1 = no such condition
	Term  bool   `json:"term"`
	DS    bool   `json:"ds"`
	Cs    int64  `json:"cs"` // custom estimated-seconds-after-pod-scheduled annotation, -1 = absent
	Ci    int64  `json:"ci"` // custom estimated-seconds-after-initialized annotation, -1 = absent
	Cf    c08Vec `json:"cf"` // custom scaling factors annotation, 0 = key absent
}

type c08Agg struct {
	Type  string `json:"type"`
	Dur   int64  `json:"dur"`
	Usage c08Vec `json:"usage"`
	Empty bool   `json:"empty"`
}

type c08Rep struct {
	Name  string `json:"name"`
	Prio  string `json:"prio"`
	Usage c08Vec `json:"usage"`
	Empty bool   `json:"empty"`
}

type c08Thr struct {
	Has bool   `json:"has"`
	V   c08Vec `json:"v"`
}

type c08AggThr struct {
	Has  bool   `json:"has"`
	V    c08Vec `json:"v"`
	Type string `json:"type"`
	Dur  int64  `json:"dur"`
}

type c08Node struct {
	Name  string    `json:"name"`
	Alloc c08Vec    `json:"alloc"`
	Raw   c08Vec    `json:"raw"` // raw-allocatable annotation, -1 = key absent
	Cu    c08Thr    `json:"cu"`  // custom usage thresholds annotation
	Cp    c08Thr    `json:"cp"`
	Ca    c08AggThr `json:"ca"`
}

type c08Cfg struct {
	Kind          string   `json:"kind"` // hist | est
	Nodes         []string `json:"nodes"`
	Clock         int64    `json:"clock"`
	Factors       c08Vec   `json:"factors"`
	EstSched      int64    `json:"estSched"` // -1 = nil
	EstInit       int64    `json:"estInit"`
	Custom        bool     `json:"custom"`
	IncludeSys    bool     `json:"includeSys"`
	UsageThr      c08Vec   `json:"usageThr"`
	ProdThr       c08Vec   `json:"prodThr"`
	AggOn         bool     `json:"aggOn"`
	AggThr        c08Vec   `json:"aggThr"`
	AggType       string   `json:"aggType"`
	AggDur        int64    `json:"aggDur"`
	FilterExpired int64    `json:"filterExpired"` // -1 nil, 0 false, 1 true
	ExpSec        int64    `json:"expSec"`        // -1 nil
	EnableExpired int64    `json:"enableExpired"` // -1 nil, 0 false, 1 true
	NowOff        int64    `json:"nowOff"`
}

type c08Op struct {
	Op      string   `json:"op"`
	D       int64    `json:"d"`
	Pod     *c08Pod  `json:"pod"`
	Node    string   `json:"node"`
	OldNode string   `json:"oldNode"`
	Tomb    bool     `json:"tomb"`
	Ut      int64    `json:"ut"`
	Ri      int64    `json:"ri"`
	HasNM   bool     `json:"hasNM"`
	Usage   c08Vec   `json:"usage"`
	Sys     c08Vec   `json:"sys"`
	Agg     []c08Agg `json:"agg"`
	Pods    []c08Rep `json:"pods"`
	Nd      *c08Node `json:"nd"`
	Variant int      `json:"variant"`
	Ops     []*c08Op `json:"ops,omitempty"` // par: reserve / unreserve of distinct pods issued concurrently
}

// ------------------------------------------------------------------------------------------------ object builders

var c08Prio = map[string]int32{"prod": 9500, "mid": 7500, "batch": 5500, "free": 3500}

func c08ResNames(prio string) (corev1.ResourceName, corev1.ResourceName) {
	switch prio {
	case "mid":
		return extension.MidCPU, extension.MidMemory
	case "batch":
		return extension.BatchCPU, extension.BatchMemory
	}
	return corev1.ResourceCPU, corev1.ResourceMemory
}

func c08PodRL(prio string, v c08Vec) corev1.ResourceList {
	rl := corev1.ResourceList{}
	cpu, mem := c08ResNames(prio)
	if v["cpu"] > 0 {
		if cpu == corev1.ResourceCPU {
			rl[cpu] = *resource.NewMilliQuantity(v["cpu"], resource.DecimalSI)
		} else {
			rl[cpu] = *resource.NewQuantity(v["cpu"], resource.DecimalSI)
		}
	}
	if v["memory"] > 0 {
		rl[mem] = *resource.NewQuantity(v["memory"], resource.BinarySI)
	}
	return rl
}

func c08BuildPod(p *c08Pod) *corev1.Pod {
	prio := c08Prio[p.Prio]
	pod := &corev1.Pod{
		ObjectMeta: metav1.ObjectMeta{Name: p.Name, Namespace: "default", UID: types.UID(p.UID), Annotations: map[string]string{}},
		Spec: corev1.PodSpec{
			NodeName: p.Node,
			Priority: &prio,
			Containers: []corev1.Container{{Name: "c", Resources: corev1.ResourceRequirements{
				Requests: c08PodRL(p.Prio, p.Req), Limits: c08PodRL(p.Prio, p.Lim)}}},
		},
	}
	if p.DS {
		pod.OwnerReferences = []metav1.OwnerReference{{APIVersion: "apps/v1", Kind: "DaemonSet", Name: "ds", UID: "ds-uid"}}
	}
	if p.Cs >= 0 {
		pod.Annotations[extension.AnnotationCustomEstimatedSecondsAfterPodScheduled] = strconv.FormatInt(p.Cs, 10)
	}
	if p.Ci >= 0 {
		pod.Annotations[extension.AnnotationCustomEstimatedSecondsAfterInitialized] = strconv.FormatInt(p.Ci, 10)
	}
	cf := map[string]int64{}
	for _, d := range []string{"cpu", "memory"} {
		if p.Cf[d] > 0 {
			cf[d] = p.Cf[d]
		}
	}
	if len(cf) > 0 {
		b, _ := json.Marshal(cf)
		pod.Annotations[extension.AnnotationCustomEstimatedScalingFactors] = string(b)
	}
	if p.Sched >= 0 {
		pod.Status.Conditions = append(pod.Status.Conditions, corev1.PodCondition{Type: corev1.PodScheduled,
			Status: corev1.ConditionTrue, LastTransitionTime: metav1.Time{Time: c08Time(p.Sched)}})
	}
	if p.Init >= 0 {
		pod.Status.Conditions = append(pod.Status.Conditions, corev1.PodCondition{Type: corev1.PodInitialized,
			Status: corev1.ConditionTrue, LastTransitionTime: metav1.Time{Time: c08Time(p.Init)}})
	}
	switch {
	case p.Term:
		pod.Status.Phase = corev1.PodFailed
	case p.Node != "":
		pod.Status.Phase = corev1.PodRunning
	default:
		pod.Status.Phase = corev1.PodPending
	}
	return pod
}

func c08UsageRL(v c08Vec) corev1.ResourceList {
	return corev1.ResourceList{
		corev1.ResourceCPU:    *resource.NewMilliQuantity(v["cpu"], resource.DecimalSI),
		corev1.ResourceMemory: *resource.NewQuantity(v["memory"], resource.BinarySI),
	}
}

func c08BuildMetric(o *c08Op) *slov1alpha1.NodeMetric {
	m := &slov1alpha1.NodeMetric{ObjectMeta: metav1.ObjectMeta{Name: o.Node}}
	if o.Ri >= 0 {
		ri := o.Ri
		m.Spec.CollectPolicy = &slov1alpha1.NodeMetricCollectPolicy{ReportIntervalSeconds: &ri}
	}
	if o.Ut >= 0 {
		m.Status.UpdateTime = &metav1.Time{Time: c08Time(o.Ut)}
	}
	if o.HasNM {
		info := &slov1alpha1.NodeMetricInfo{
			NodeUsage:   slov1alpha1.ResourceMap{ResourceList: c08UsageRL(o.Usage)},
			SystemUsage: slov1alpha1.ResourceMap{ResourceList: c08UsageRL(o.Sys)},
		}
		// one AggregatedUsage per duration, in order of first appearance
		idx := map[int64]int{}
		for _, a := range o.Agg {
			i, ok := idx[a.Dur]
			if !ok {
				i = len(info.AggregatedNodeUsages)
				idx[a.Dur] = i
				info.AggregatedNodeUsages = append(info.AggregatedNodeUsages, slov1alpha1.AggregatedUsage{
					Usage:    map[extension.AggregationType]slov1alpha1.ResourceMap{},
					Duration: metav1.Duration{Duration: time.Duration(a.Dur) * time.Second}})
			}
			rm := slov1alpha1.ResourceMap{}
			if !a.Empty {
				rm.ResourceList = c08UsageRL(a.Usage)
			}
			info.AggregatedNodeUsages[i].Usage[extension.AggregationType(a.Type)] = rm
		}
		m.Status.NodeMetric = info
	}
	for _, r := range o.Pods {
		pm := &slov1alpha1.PodMetricInfo{Namespace: "default", Name: r.Name, Priority: extension.PriorityClass(r.Prio)}
		if !r.Empty {
			pm.PodUsage = slov1alpha1.ResourceMap{ResourceList: c08UsageRL(r.Usage)}
		}
		m.Status.PodsMetric = append(m.Status.PodsMetric, pm)
	}
	return m
}

func c08ThrMap(v c08Vec) map[corev1.ResourceName]int64 {
	return map[corev1.ResourceName]int64{corev1.ResourceCPU: v["cpu"], corev1.ResourceMemory: v["memory"]}
}

func c08BuildNode(nd *c08Node) *corev1.Node {
	n := &corev1.Node{ObjectMeta: metav1.ObjectMeta{Name: nd.Name, Annotations: map[string]string{}},
		Status: corev1.NodeStatus{Allocatable: corev1.ResourceList{
			corev1.ResourceCPU:    *resource.NewMilliQuantity(nd.Alloc["cpu"], resource.DecimalSI),
			corev1.ResourceMemory: *resource.NewQuantity(nd.Alloc["memory"], resource.BinarySI),
		}}}
	raw := corev1.ResourceList{}
	if nd.Raw["cpu"] >= 0 {
		raw[corev1.ResourceCPU] = *resource.NewMilliQuantity(nd.Raw["cpu"], resource.DecimalSI)
	}
	if nd.Raw["memory"] >= 0 {
		raw[corev1.ResourceMemory] = *resource.NewQuantity(nd.Raw["memory"], resource.BinarySI)
	}
	if len(raw) > 0 {
		extension.SetNodeRawAllocatable(n, raw)
	}
	if nd.Cu.Has || nd.Cp.Has || nd.Ca.Has {
		c := &extension.CustomUsageThresholds{}
		if nd.Cu.Has {
			c.UsageThresholds = c08ThrMap(nd.Cu.V)
		}
		if nd.Cp.Has {
			c.ProdUsageThresholds = c08ThrMap(nd.Cp.V)
		}
		if nd.Ca.Has {
			c.AggregatedUsage = &extension.CustomAggregatedUsage{UsageThresholds: c08ThrMap(nd.Ca.V),
				UsageAggregationType: extension.AggregationType(nd.Ca.Type)}
			if nd.Ca.Dur > 0 {
				c.AggregatedUsage.UsageAggregatedDuration = &metav1.Duration{Duration: time.Duration(nd.Ca.Dur) * time.Second}
			}
		}
		b, _ := json.Marshal(c)
		n.Annotations[extension.AnnotationCustomUsageThresholds] = string(b)
	}
	return n
}

func c08Args(c *c08Cfg) *config.LoadAwareSchedulingArgs {
	a := &config.LoadAwareSchedulingArgs{
		EstimatedScalingFactors:  map[corev1.ResourceName]int64{},
		ProdUsageIncludeSys:      c.IncludeSys,
		AllowCustomizeEstimation: c.Custom,
	}
	for _, d := range []string{"cpu", "memory"} {
		if c.Factors[d] > 0 {
			a.EstimatedScalingFactors[corev1.ResourceName(d)] = c.Factors[d]
		}
	}
	nz := func(v c08Vec) bool { return v["cpu"] != 0 || v["memory"] != 0 }
	if nz(c.UsageThr) {
		a.UsageThresholds = c08ThrMap(c.UsageThr)
	}
	if nz(c.ProdThr) {
		a.ProdUsageThresholds = c08ThrMap(c.ProdThr)
	}
	if c.AggOn {
		a.Aggregated = &config.LoadAwareSchedulingAggregatedArgs{UsageThresholds: c08ThrMap(c.AggThr),
			UsageAggregationType:    extension.AggregationType(c.AggType),
			UsageAggregatedDuration: metav1.Duration{Duration: time.Duration(c.AggDur) * time.Second}}
	}
	if c.EstSched >= 0 {
		v := c.EstSched
		a.EstimatedSecondsAfterPodScheduled = &v
	}
	if c.EstInit >= 0 {
		v := c.EstInit
		a.EstimatedSecondsAfterInitialized = &v
	}
	tri := func(x int64) *bool {
		if x < 0 {
			return nil
		}
		b := x == 1
		return &b
	}
	a.FilterExpiredNodeMetrics = tri(c.FilterExpired)
	a.EnableScheduleWhenNodeMetricsExpired = tri(c.EnableExpired)
	if c.ExpSec >= 0 {
		v := c.ExpSec
		a.NodeMetricExpirationSeconds = &v
	}
	return a
}

// the plugin is built the way the package's own tests build it (TestNew / TestFilterUsage)
func c08NewPlugin(t *testing.T, args *config.LoadAwareSchedulingArgs) *Plugin {
	koordClientSet := koordfake.NewSimpleClientset()
	koordSharedInformerFactory := koordinatorinformers.NewSharedInformerFactory(koordClientSet, 0)
	extenderFactory, _ := frameworkext.NewFrameworkExtenderFactory(
		frameworkext.WithKoordinatorClientSet(koordClientSet),
		frameworkext.WithKoordinatorSharedInformerFactory(koordSharedInformerFactory),
	)
	proxyNew := frameworkext.PluginFactoryProxy(extenderFactory, New)
	cs := kubefake.NewSimpleClientset()
	informerFactory := informers.NewSharedInformerFactory(cs, 0)
	snapshot := newTestSharedLister(nil, nil)
	registeredPlugins := []schedulertesting.RegisterPluginFunc{
		schedulertesting.RegisterBindPlugin(defaultbinder.Name, defaultbinder.New),
		schedulertesting.RegisterQueueSortPlugin(queuesort.Name, queuesort.New),
	}
	fh, err := schedulertesting.NewFramework(context.TODO(), registeredPlugins, "koord-scheduler",
		frameworkruntime.WithClientSet(cs),
		frameworkruntime.WithInformerFactory(informerFactory),
		frameworkruntime.WithSnapshotSharedLister(snapshot),
	)
	if err != nil {
		t.Fatalf("NewFramework: %v", err)
	}
	p, err := proxyNew(context.TODO(), args, fh)
	if err != nil || p == nil {
		t.Fatalf("New: %v", err)
	}
	return p.(*Plugin)
}

// ------------------------------------------------------------------------------------------------ executor

type c08Resv struct {
	node string
	obj  *corev1.Pod
}

type c08World struct {
	t       *testing.T
	cfg     *c08Cfg
	pl      *Plugin
	cache   *podAssignCache
	fc      *clocktesting.FakeClock
	api     map[string]*corev1.Pod // uid -> object last delivered by the "informer" (environment, not an oracle)
	resv    map[string]c08Resv     // uid -> reservation held by the "scheduler"
	metrics map[string]*slov1alpha1.NodeMetric
	touch   int
}

var c08Plugins = map[string]*Plugin{}

func c08PluginFor(t *testing.T, c *c08Cfg) *Plugin {
	k := *c
	k.Nodes, k.Clock, k.Kind = nil, 0, ""
	b, _ := json.Marshal(k)
	if p, ok := c08Plugins[string(b)]; ok {
		return p
	}
	p := c08NewPlugin(t, c08Args(c))
	c08Plugins[string(b)] = p
	return p
}

func c08NewWorld(t *testing.T, c *c08Cfg) *c08World {
	w := &c08World{t: t, cfg: c, pl: c08PluginFor(t, c), api: map[string]*corev1.Pod{}, resv: map[string]c08Resv{},
		metrics: map[string]*slov1alpha1.NodeMetric{}}
	w.fc = clocktesting.NewFakeClock(c08Time(c.Clock))
	w.cache = newPodAssignCache(w.pl.estimator, w.pl.vectorizer, w.pl.args)
	w.cache.clock = w.fc
	w.pl.podAssignCache = w.cache
	return w
}

func c08VecOf(vz ResourceVectorizer, v ResourceVector) c08Vec {
	out := c08V(0, 0)
	for i, n := range vz {
		if n == corev1.ResourceCPU || n == corev1.ResourceMemory {
			out[string(n)] = v[i]
		}
	}
	return out
}

// projection: field reads of what GetNodeMetricAndEstimatedOfExisting returns
func c08Obs(c *podAssignCache, nodes []string) map[string]interface{} {
	out := map[string]interface{}{}
	for _, n := range nodes {
		found := true
		get := func(prod bool, dur int64, typ string) c08Vec {
			_, est, _, err := c.GetNodeMetricAndEstimatedOfExisting(n, prod,
				metav1.Duration{Duration: time.Duration(dur) * time.Second}, extension.AggregationType(typ), false)
			if err != nil {
				found = false
				return c08V(0, 0)
			}
			return c08VecOf(c.vectorizer, est)
		}
		node, prod, a0, a300 := get(false, 0, ""), get(true, 0, ""), get(false, 0, "p95"), get(false, 300, "p95")
		// a second aggregation type, default period (= the longest period THAT type has data for: the reports carry avg
		// for fewer periods than p95)
		g0 := get(false, 0, "avg")
		out[n] = vu.Ev{"found": found, "node": node, "prod": prod, "a0": a0, "a300": a300, "g0": g0}
	}
	return out
}

func (w *c08World) assumed(p *c08Pod, node string) *corev1.Pod {
	q := *p
	q.Node = node
	return c08BuildPod(&q)
}

// a fresh cache fed the current reports and the pods the world currently places (reserved, or bound and not terminated)
func (w *c08World) fresh(variant int) *podAssignCache {
	f := newPodAssignCache(w.pl.estimator, w.pl.vectorizer, w.pl.args)
	fc := clocktesting.NewFakeClock(w.fc.Now())
	f.clock = fc
	feedMetrics := func() {
		names := make([]string, 0, len(w.metrics))
		for n := range w.metrics {
			names = append(names, n)
		}
		sort.Strings(names)
		for _, n := range names {
			f.AddOrUpdateNodeMetric(w.metrics[n])
		}
	}
	feedPods := func() {
		type placed struct {
			node string
			obj  *corev1.Pod
		}
		var ps []placed
		uids := map[string]bool{}
		for u := range w.resv {
			uids[u] = true
		}
		for u := range w.api {
			uids[u] = true
		}
		sorted := make([]string, 0, len(uids))
		for u := range uids {
			sorted = append(sorted, u)
		}
		sort.Strings(sorted)
		for _, u := range sorted {
			if r, ok := w.resv[u]; ok {
				ps = append(ps, placed{r.node, r.obj})
			} else if o := w.api[u]; o.Spec.NodeName != "" && o.Status.Phase != corev1.PodFailed && o.Status.Phase != corev1.PodSucceeded {
				ps = append(ps, placed{o.Spec.NodeName, o})
			}
		}
		if variant%4 >= 2 { // reverse order
			for i, j := 0, len(ps)-1; i < j; i, j = i+1, j-1 {
				ps[i], ps[j] = ps[j], ps[i]
			}
		}
		for _, p := range ps {
			// same input: the time at which the scheduler-internal clock stamped the assignment
			if info := w.cache.getPodAssignInfo(p.node, p.obj); info != nil {
				fc.SetTime(info.timestamp)
			} else {
				fc.SetTime(w.fc.Now())
			}
			f.assign(p.node, p.obj)
		}
	}
	if variant%2 == 0 {
		feedMetrics()
		feedPods()
	} else {
		feedPods()
		feedMetrics()
	}
	return f
}

func c08Event(o *c08Op) vu.Ev {
	ev := vu.Ev{"op": o.Op}
	switch o.Op {
	case "tick":
		ev["d"] = o.D
	case "reserve", "unreserve":
		ev["pod"], ev["node"] = o.Pod, o.Node
	case "podAdd":
		ev["pod"] = o.Pod
	case "podUpdate":
		ev["pod"], ev["oldNode"] = o.Pod, o.OldNode
	case "podDelete":
		ev["pod"], ev["tomb"] = o.Pod, o.Tomb
	case "par":
		subs := []vu.Ev{}
		for _, x := range o.Ops {
			subs = append(subs, c08Event(x))
		}
		ev["ops"] = subs
	case "metric":
		agg, pods := o.Agg, o.Pods
		if agg == nil {
			agg = []c08Agg{}
		}
		if pods == nil {
			pods = []c08Rep{}
		}
		ev["node"], ev["ut"], ev["ri"], ev["hasNM"], ev["usage"], ev["sys"], ev["agg"], ev["pods"] =
			o.Node, o.Ut, o.Ri, o.HasNM, o.Usage, o.Sys, agg, pods
	case "metricDelete":
		ev["node"] = o.Node
	case "filter":
		ev["pod"], ev["nd"] = o.Pod, o.Nd
	case "rebuild":
		ev["variant"] = o.Variant
	case "estimate":
		ev["pod"] = o.Pod
	}
	return ev
}

func (w *c08World) exec(o *c08Op, rec *vu.Recorder) {
	ev := c08Event(o)
	ctx := context.TODO()
	obs := true
	// a panic of the real code is itself an event (the specification has no such action, so the segment is rejected)
	if panicked, msg := vu.Protect(func() { obs = w.apply(ctx, o, ev) }); panicked {
		rec.Emit(vu.Ev{"op": "panic", "during": o.Op, "msg": msg})
		return
	}
	if obs {
		ev["obs"] = c08Obs(w.cache, w.cfg.Nodes)
	}
	rec.Emit(ev)
}

// apply executes one operation on the real objects; returns whether the cache's vectors are to be logged afterwards
func (w *c08World) apply(ctx context.Context, o *c08Op, ev vu.Ev) bool {
	obs := true
	switch o.Op {
	case "tick":
		w.fc.Step(time.Duration(o.D) * time.Second)
	case "reserve":
		obj := w.assumed(o.Pod, o.Node)
		w.resv[o.Pod.UID] = c08Resv{o.Node, obj}
		w.pl.Reserve(ctx, framework.NewCycleState(), obj, o.Node)
	case "unreserve":
		obj := w.assumed(o.Pod, o.Node)
		if r, ok := w.resv[o.Pod.UID]; ok {
			obj = r.obj
		}
		delete(w.resv, o.Pod.UID)
		w.pl.Unreserve(ctx, framework.NewCycleState(), obj, o.Node)
	case "par":
		// the world's own bookkeeping first (sequentially), then the real calls from goroutines released together
		var calls []func()
		for _, x := range o.Ops {
			x := x
			obj := w.assumed(x.Pod, x.Node)
			switch x.Op {
			case "reserve":
				w.resv[x.Pod.UID] = c08Resv{x.Node, obj}
				calls = append(calls, func() { w.pl.Reserve(ctx, framework.NewCycleState(), obj, x.Node) })
			case "unreserve":
				if r, ok := w.resv[x.Pod.UID]; ok {
					obj = r.obj
				}
				delete(w.resv, x.Pod.UID)
				calls = append(calls, func() { w.pl.Unreserve(ctx, framework.NewCycleState(), obj, x.Node) })
			default:
				w.t.Fatalf("c08: %q inside par", x.Op)
			}
		}
		start := make(chan struct{})
		var wg sync.WaitGroup
		for _, c := range calls {
			wg.Add(1)
			go func(c func()) {
				defer wg.Done()
				<-start
				c()
			}(c)
		}
		close(start)
		wg.Wait()
	case "podAdd":
		obj := c08BuildPod(o.Pod)
		w.api[o.Pod.UID] = obj
		w.cache.OnAdd(obj, false)
	case "podUpdate":
		obj := c08BuildPod(o.Pod)
		w.touch++
		obj.Labels = map[string]string{"verif/generation": strconv.Itoa(w.touch)} // metadata differs on every delivery
		old := w.api[o.Pod.UID]
		if old == nil || old.Spec.NodeName != o.OldNode {
			old = obj.DeepCopy()
			old.Spec.NodeName = o.OldNode
		}
		w.api[o.Pod.UID] = obj
		if r, ok := w.resv[o.Pod.UID]; ok && r.node == obj.Spec.NodeName {
			delete(w.resv, o.Pod.UID) // the binding reached the informer
		}
		w.cache.OnUpdate(old, obj)
	case "podDelete":
		obj := w.api[o.Pod.UID]
		if obj == nil || obj.Spec.NodeName != o.Pod.Node {
			obj = c08BuildPod(o.Pod)
		}
		delete(w.api, o.Pod.UID)
		if o.Tomb {
			w.cache.OnDelete(cache.DeletedFinalStateUnknown{Key: "default/" + o.Pod.Name, Obj: obj})
		} else {
			w.cache.OnDelete(obj)
		}
	case "metric":
		m := c08BuildMetric(o)
		h := w.cache.NodeMetricHandler()
		if old, ok := w.metrics[o.Node]; ok {
			h.OnUpdate(old, m)
		} else {
			h.OnAdd(m, false)
		}
		w.metrics[o.Node] = m
	case "metricDelete":
		m := w.metrics[o.Node]
		if m == nil {
			m = &slov1alpha1.NodeMetric{ObjectMeta: metav1.ObjectMeta{Name: o.Node}}
		}
		delete(w.metrics, o.Node)
		w.cache.NodeMetricHandler().OnDelete(m)
	case "filter":
		pod := c08BuildPod(o.Pod)
		ni := framework.NewNodeInfo()
		ni.SetNode(c08BuildNode(o.Nd))
		state := framework.NewCycleState()
		w.pl.PreFilter(ctx, state, pod, nil)
		st := w.pl.Filter(ctx, state, pod, ni)
		ev["pass"], ev["code"], ev["reason"] = st.IsSuccess(), st.Code().String(), st.Message()
	case "rebuild":
		ev["obs"] = c08Obs(w.fresh(o.Variant), w.cfg.Nodes)
		obs = false
	case "estimate":
		list, err := w.pl.estimator.EstimatePod(c08BuildPod(o.Pod))
		if err != nil {
			panic(err)
		}
		ev["est"] = c08VecOf(w.pl.vectorizer, w.pl.vectorizer.ToFactorVec(list))
		obs = false
	default:
		w.t.Fatalf("c08: unknown op %q", o.Op)
	}
	return obs
}

func c08Run(t *testing.T, rec *vu.Recorder, c *c08Cfg, ops []*c08Op) {
	b, _ := json.Marshal(c)
	var m vu.Ev
	_ = json.Unmarshal(b, &m)
	rec.Reset(m)
	w := c08NewWorld(t, c)
	for _, o := range ops {
		w.exec(o, rec)
	}
}

// ------------------------------------------------------------------------------------------------ generators
// (shadow state only steers generation towards legal histories; it never judges anything)

type c08GPod struct {
	live bool   // the API object exists
	gen  int    // incarnation (uid = name.gen)
	cur  c08Pod // the object last delivered
	resv string // node the scheduler holds a reservation on
}

type c08Gen struct {
	rng   *rand.Rand
	cfg   *c08Cfg
	clock int64
	pods  map[string]*c08GPod
	names []string
	hasM  map[string]bool
	lastM map[string]*c08Op // the last metric object delivered per node
	ops   []*c08Op
}

func c08NewGen(rng *rand.Rand, c *c08Cfg, names []string) *c08Gen {
	g := &c08Gen{rng: rng, cfg: c, clock: c.Clock, pods: map[string]*c08GPod{}, names: names, hasM: map[string]bool{}}
	for _, n := range names {
		g.pods[n] = &c08GPod{}
	}
	return g
}

func (g *c08Gen) pick(xs ...int64) int64 { return xs[g.rng.Intn(len(xs))] }

func c08CopyPod(p c08Pod) *c08Pod {
	q := p
	q.Req, q.Lim, q.Cf = c08V(p.Req["cpu"], p.Req["memory"]), c08V(p.Lim["cpu"], p.Lim["memory"]), c08V(p.Cf["cpu"], p.Cf["memory"])
	return &q
}

func (g *c08Gen) emit(o *c08Op) { g.ops = append(g.ops, o) }

func (g *c08Gen) randSpec(p *c08Pod) {
	p.Prio = []string{"prod", "prod", "prod", "mid", "batch", "free"}[g.rng.Intn(6)]
	cpu := g.pick(0, 100, 250, 333, 500, 1000, 1001, 1999, 2500)
	mem := g.pick(0, 1000, 4096, 65537, 1000000)
	p.Req = c08V(cpu, mem)
	p.Lim = c08V(0, 0)
	switch g.rng.Intn(4) {
	case 0:
		p.Lim = c08V(cpu, mem)
	case 1:
		p.Lim = c08V(cpu+g.pick(0, 1, 500), mem+g.pick(0, 1, 4096))
	case 2:
		p.Lim = c08V(g.pick(0, 50, 700), g.pick(0, 512, 2000000))
		if g.rng.Intn(2) == 0 {
			p.Req = c08V(0, 0)
		}
	}
}

func (g *c08Gen) newPod(name string) c08Pod {
	gp := g.pods[name]
	gp.gen++
	return g.podDesc(name, fmt.Sprintf("%s.%d", name, gp.gen))
}

func (g *c08Gen) podDesc(name, uid string) c08Pod {
	p := c08Pod{UID: uid, Name: name, Sched: -1, Init: -1, Cs: -1, Ci: -1, Cf: c08V(0, 0)}
	g.randSpec(&p)
	p.DS = g.rng.Intn(12) == 0
	if g.rng.Intn(3) == 0 {
		p.Cs = g.pick(0, 3, 30, 600)
	}
	if g.rng.Intn(3) == 0 {
		p.Ci = g.pick(0, 3, 30, 600)
	}
	switch g.rng.Intn(4) {
	case 0:
		p.Cf = c08V(g.pick(1, 50, 100, 150), 0)
	case 1:
		p.Cf = c08V(g.pick(33, 80), g.pick(10, 100, 120))
	}
	return p
}

func (g *c08Gen) relTime() int64 {
	t := g.clock + g.pick(-700, -121, -61, -60, -59, -31, -30, -29, -6, -5, -4, -1, 0, 1, 5, 61)
	if t < 0 {
		t = 0
	}
	return t
}

func (g *c08Gen) node() string { return g.cfg.Nodes[g.rng.Intn(len(g.cfg.Nodes))] }

// one legal pod event for pod `name`
func (g *c08Gen) podOp(name string) {
	gp := g.pods[name]
	if !gp.live {
		if gp.resv != "" { // deleted while reserved: the scheduler rolls back
			g.emit(&c08Op{Op: "unreserve", Pod: c08CopyPod(gp.cur), Node: gp.resv})
			gp.resv = ""
			return
		}
		p := g.newPod(name)
		if g.rng.Intn(3) == 0 { // already bound when first seen (initial list / another scheduler)
			p.Node = g.node()
			if g.rng.Intn(4) > 0 {
				p.Sched = g.relTime()
			}
			if g.rng.Intn(3) == 0 {
				p.Init = g.relTime()
			}
		}
		gp.live, gp.cur = true, p
		g.emit(&c08Op{Op: "podAdd", Pod: c08CopyPod(p)})
		return
	}
	cur := gp.cur
	deliver := func(p c08Pod) {
		g.emit(&c08Op{Op: "podUpdate", Pod: c08CopyPod(p), OldNode: cur.Node})
		gp.cur = p
	}
	if cur.Node == "" && !cur.Term {
		if gp.resv == "" {
			switch g.rng.Intn(6) {
			case 0:
				p := cur
				g.randSpec(&p)
				deliver(p)
			case 1:
				g.emit(&c08Op{Op: "podDelete", Pod: c08CopyPod(cur), Tomb: g.rng.Intn(4) == 0})
				gp.live = false
			default:
				gp.resv = g.node()
				g.emit(&c08Op{Op: "reserve", Pod: c08CopyPod(cur), Node: gp.resv})
			}
			return
		}
		switch g.rng.Intn(8) {
		case 0:
			g.emit(&c08Op{Op: "unreserve", Pod: c08CopyPod(cur), Node: gp.resv})
			gp.resv = ""
		case 1:
			g.emit(&c08Op{Op: "podDelete", Pod: c08CopyPod(cur), Tomb: false})
			gp.live = false
		case 2: // the pending pod is updated while reserved
			p := cur
			g.randSpec(&p)
			deliver(p)
		default: // the binding reaches the informer
			p := cur
			p.Node = gp.resv
			if g.rng.Intn(5) > 0 {
				p.Sched = g.relTime()
			}
			gp.resv = ""
			deliver(p)
		}
		return
	}
	// bound (or terminated) pod
	switch k := g.rng.Intn(12); {
	case k == 0:
		g.emit(&c08Op{Op: "podDelete", Pod: c08CopyPod(cur), Tomb: g.rng.Intn(4) == 0})
		gp.live = false
	case k == 1 && !cur.Term:
		p := cur
		p.Term = true
		deliver(p)
	case k == 2 && len(g.cfg.Nodes) > 1 && cur.Node != "":
		p := cur
		for p.Node == cur.Node {
			p.Node = g.node()
		}
		deliver(p)
	case k <= 4: // spec (resize) and / or priority
		p := cur
		g.randSpec(&p)
		deliver(p)
	case k <= 6: // conditions
		p := cur
		if g.rng.Intn(2) == 0 {
			p.Init = g.relTime()
		} else {
			p.Sched = g.relTime()
		}
		deliver(p)
	case k == 7: // priority only
		p := cur
		p.Prio = []string{"prod", "mid", "batch"}[g.rng.Intn(3)]
		deliver(p)
	default: // nothing relevant changed (resync / metadata)
		deliver(cur)
	}
}

func (g *c08Gen) usage() c08Vec {
	return c08V(g.pick(0, 1, 50, 249, 250, 251, 700, 1500, 3000), g.pick(0, 1, 999, 4096, 500000, 2000000))
}

func (g *c08Gen) metricOp(node string) {
	if l := g.lastM[node]; l != nil && g.hasM[node] && g.rng.Intn(6) == 0 {
		// a spec-only update of the NodeMetric (koord-manager changes the collect policy, koordlet has not reported
		// again): the same status with another report interval
		o := *l
		for o.Ri == l.Ri {
			o.Ri = g.pick(-1, 0, 1, 5, 30, 60, 120, 300)
		}
		g.lastM[node] = &o
		g.emit(&o)
		return
	}
	// report times on both sides of (assign time + report interval) and of the estimation deadlines (5 / 30 / 600 s windows)
	ut := g.relTime()
	if g.rng.Intn(3) == 0 {
		ut = g.clock + g.pick(29, 30, 31, 59, 60, 61, 120, 299, 300, 301, 599, 600, 601, 660, 700)
	}
	o := &c08Op{Op: "metric", Node: node, Ut: ut, Ri: g.pick(-1, 0, 1, 5, 30, 60, 60), Usage: c08V(0, 0), Sys: c08V(0, 0)}
	switch k := g.rng.Intn(12); {
	case k == 0: // object as created by the controller: empty status
		o.Ut = -1
	case k == 1: // status without node usage
	default:
		o.HasNM = true
		o.Usage, o.Sys = g.usage(), c08V(g.pick(0, 10, 200), g.pick(0, 100, 50000))
		for _, a := range []c08Agg{{Type: "p95", Dur: 300}, {Type: "p95", Dur: 600}, {Type: "avg", Dur: 300}, {Type: "p95", Dur: 1800}} {
			if g.rng.Intn(3) == 0 {
				a.Usage, a.Empty = g.usage(), g.rng.Intn(5) == 0
				o.Agg = append(o.Agg, a)
			}
		}
	}
	if o.Ut >= 0 {
		names := append([]string{}, g.names...)
		names = append(names, "stranger")
		for _, n := range names {
			if g.rng.Intn(5) < 3 {
				o.Pods = append(o.Pods, c08Rep{Name: n, Prio: []string{"koord-prod", "koord-prod", "koord-prod", "koord-mid", "koord-batch", ""}[g.rng.Intn(6)],
					Usage: g.usage(), Empty: g.rng.Intn(8) == 0})
			}
		}
	}
	g.hasM[node] = true
	if g.lastM == nil {
		g.lastM = map[string]*c08Op{}
	}
	g.lastM[node] = o
	g.emit(o)
}

func c08ThrVec(rng *rand.Rand) c08Vec {
	ch := []int64{0, 0, 1, 10, 33, 50, 65, 75, 95, 100}
	return c08V(ch[rng.Intn(len(ch))], ch[rng.Intn(len(ch))])
}

// allocatable steered to the decision boundary: reads (does not judge) what the real cache and estimator currently report
func (g *c08Gen) filterOp(w *c08World, node string) *c08Op {
	p := g.podDesc("incoming", "incoming")
	if g.rng.Intn(3) > 0 {
		p.Prio = "prod"
	}
	nd := &c08Node{Name: node, Alloc: c08V(0, 0), Raw: c08V(-1, -1), Cu: c08Thr{V: c08V(0, 0)}, Cp: c08Thr{V: c08V(0, 0)},
		Ca: c08AggThr{V: c08V(0, 0)}}
	if g.rng.Intn(6) == 0 {
		nd.Cu = c08Thr{Has: true, V: c08ThrVec(g.rng)}
	}
	if g.rng.Intn(6) == 0 {
		nd.Cp = c08Thr{Has: true, V: c08ThrVec(g.rng)}
	}
	if g.rng.Intn(8) == 0 {
		nd.Ca = c08AggThr{Has: true, V: c08ThrVec(g.rng), Type: []string{"p95", "avg"}[g.rng.Intn(2)], Dur: g.pick(0, 300, 600)}
		if nd.Ca.V["cpu"] == 0 && nd.Ca.V["memory"] == 0 {
			nd.Ca.V["cpu"] = 50
		}
	}
	// a guess of the thresholds / "existing" vector that will apply, only to aim the inputs near a boundary
	obs := c08Obs(w.cache, []string{node})[node].(vu.Ev)
	nz := func(v c08Vec) bool { return v["cpu"] != 0 || v["memory"] != 0 }
	thr, base := g.cfg.UsageThr, obs["node"].(c08Vec)
	if nd.Cu.Has {
		thr = nd.Cu.V
	}
	prodThr := g.cfg.ProdThr
	if nd.Cp.Has {
		prodThr = nd.Cp.V
	}
	aggOn, aggThr, aggDur := g.cfg.AggOn, g.cfg.AggThr, g.cfg.AggDur
	if nd.Ca.Has {
		aggOn, aggThr, aggDur = true, nd.Ca.V, nd.Ca.Dur
	}
	if p.Prio == "prod" && nz(prodThr) {
		thr, base = prodThr, obs["prod"].(c08Vec)
	} else if aggOn {
		thr = aggThr
		if aggDur == 0 {
			base = obs["a0"].(c08Vec)
		} else if aggDur == 300 {
			base = obs["a300"].(c08Vec)
		}
	}
	if g.rng.Intn(6) == 0 {
		thr = [][]c08Vec{{g.cfg.UsageThr, nd.Cu.V}, {g.cfg.ProdThr, nd.Cp.V}, {g.cfg.AggThr, nd.Ca.V}}[g.rng.Intn(3)][g.rng.Intn(2)]
		base = obs[[]string{"node", "prod", "a0", "a300"}[g.rng.Intn(4)]].(c08Vec)
	}
	estimate := func() c08Vec {
		list, _ := w.pl.estimator.EstimatePod(c08BuildPod(&p))
		return c08VecOf(w.pl.vectorizer, w.pl.vectorizer.ToFactorVec(list))
	}
	nice := map[string][]int64{"cpu": {1000, 2000, 4000, 8000, 64000}, "memory": {1000000, 4000000, 1000000000}}
	mode := map[string]int{"cpu": g.rng.Intn(10), "memory": g.rng.Intn(10)}
	// phase 1 (mode >= 6): fix a round allocatable and aim the incoming pod's own estimate at the boundary / half point
	for _, d := range []string{"cpu", "memory"} {
		t := thr[d]
		if mode[d] < 6 || t == 0 || g.cfg.Factors[d] == 0 || p.Prio == "free" {
			continue
		}
		a := nice[d][g.rng.Intn(len(nice[d]))]
		target := t * a / 100
		if g.rng.Intn(2) == 0 {
			target = (2*t + 1) * a / 200
		}
		needed := target + g.pick(-1, 0, 0, 0, 1) - base[d]
		if needed < 1 || needed > 1500000 {
			mode[d] = 3 // fall back to steering the allocatable
			continue
		}
		p.Cf = c08V(0, 0)
		p.Lim[d] = 0
		p.Req[d] = needed * 100 / g.cfg.Factors[d]
		for i := 0; i < 4; i++ {
			if got := estimate()[d]; got != needed && p.Req[d]+(needed-got) >= 1 {
				p.Req[d] += needed - got
			}
		}
		nd.Alloc[d] = a
	}
	inc := estimate()
	for _, d := range []string{"cpu", "memory"} {
		if mode[d] >= 6 && nd.Alloc[d] != 0 {
			continue
		}
		e, t := base[d]+inc[d], thr[d]
		var a int64
		switch k := mode[d]; {
		case k == 0:
			a = 0
		case k <= 2 || t == 0 || e == 0:
			a = nice[d][g.rng.Intn(len(nice[d]))]
		case k <= 4: // around e * 100 / t
			a = e*100/t + g.pick(-1, 0, 0, 1, 2)
		default: // around the half point 200 e = (2 t + 1) a
			a = 200*e/(2*t+1) + g.pick(-1, 0, 0, 1)
		}
		if a < 0 {
			a = 0
		}
		if a > 2000000000 {
			a = 2000000000
		}
		nd.Alloc[d] = a
	}
	if g.rng.Intn(5) == 0 { // amplified node: the raw allocatable is what counts
		for _, d := range []string{"cpu", "memory"} {
			if g.rng.Intn(3) > 0 {
				nd.Raw[d] = nd.Alloc[d]
				nd.Alloc[d] = nd.Alloc[d]*3/2 + 1
				if nd.Alloc[d] > 2000000000 {
					nd.Alloc[d] = 2000000000
				}
			}
		}
	}
	return &c08Op{Op: "filter", Pod: c08CopyPod(p), Nd: nd}
}

func c08RandCfg(rng *rand.Rand) *c08Cfg {
	pick := func(xs ...int64) int64 { return xs[rng.Intn(len(xs))] }
	c := &c08Cfg{Kind: "hist", Nodes: []string{"n1", "n2"}, Clock: 1000, NowOff: c08NowOff,
		Factors:  c08V(pick(0, 33, 50, 85, 85, 99, 100, 100), pick(0, 10, 70, 70, 100, 100)),
		EstSched: pick(-1, -1, 0, 5, 30, 600), EstInit: pick(-1, -1, 0, 5, 30, 600),
		Custom: rng.Intn(3) == 0, IncludeSys: rng.Intn(2) == 0,
		UsageThr: c08ThrVec(rng), ProdThr: c08V(0, 0), AggThr: c08V(0, 0), AggType: "", AggDur: 0,
		FilterExpired: pick(-1, 0, 1, 1, 1), ExpSec: pick(-1, c08Expired, c08Fresh, c08Fresh, c08Fresh), EnableExpired: pick(-1, 0, 0, 1)}
	if rng.Intn(2) == 0 {
		c.ProdThr = c08ThrVec(rng)
	}
	if rng.Intn(3) == 0 {
		c.AggOn, c.AggThr, c.AggType, c.AggDur = true, c08ThrVec(rng), []string{"p95", "avg"}[rng.Intn(2)], pick(0, 300, 600)
		if c.AggThr["cpu"] == 0 && c.AggThr["memory"] == 0 {
			c.AggThr["memory"] = 65
		}
	}
	if rng.Intn(4) == 0 {
		c.Nodes = []string{"n1"}
	}
	return c
}

// a seeded random legal history, executed while it is generated (filter inputs are steered by what the cache reports)
func c08Random(t *testing.T, rec *vu.Recorder, rng *rand.Rand, c *c08Cfg, steps int) {
	b, _ := json.Marshal(c)
	var m vu.Ev
	_ = json.Unmarshal(b, &m)
	rec.Reset(m)
	w := c08NewWorld(t, c)
	names := []string{"p1", "p2", "p3", "p4", "p5"}[:2+rng.Intn(4)]
	g := c08NewGen(rng, c, names)
	for i := 0; i < steps; i++ {
		g.ops = g.ops[:0]
		switch k := rng.Intn(100); {
		case k < 8:
			d := g.pick(1, 1, 2, 5, 29, 30, 31, 60, 61, 300)
			g.clock += d
			g.emit(&c08Op{Op: "tick", D: d})
		case k < 28:
			g.metricOp(g.node())
		case k < 31:
			n := g.node()
			if g.hasM[n] {
				g.hasM[n] = false
				g.emit(&c08Op{Op: "metricDelete", Node: n})
			}
		case k < 34:
			// concurrent Reserve / Unreserve of distinct pods on ONE node: the pods reserved there are rolled back while
			// pending pods are reserved there (emptying and re-filling a node's entry at the same time)
			n := g.node()
			par := &c08Op{Op: "par"}
			for _, name := range names {
				gp := g.pods[name]
				if !gp.live || gp.cur.Node != "" || gp.cur.Term {
					continue
				}
				switch {
				case gp.resv == n:
					par.Ops = append(par.Ops, &c08Op{Op: "unreserve", Pod: c08CopyPod(gp.cur), Node: n})
					gp.resv = ""
				case gp.resv == "" && rng.Intn(3) > 0:
					par.Ops = append(par.Ops, &c08Op{Op: "reserve", Pod: c08CopyPod(gp.cur), Node: n})
					gp.resv = n
				}
			}
			if len(par.Ops) >= 2 {
				g.emit(par)
			} else if len(par.Ops) == 1 {
				g.emit(par.Ops[0])
			}
		case k < 75:
			g.podOp(names[rng.Intn(len(names))])
		case k < 96:
			n := g.node()
			if !g.hasM[n] && rng.Intn(5) > 0 { // mostly ask about nodes that have a report
				for _, x := range c.Nodes {
					if g.hasM[x] {
						n = x
					}
				}
			}
			g.emit(g.filterOp(w, n))
		default:
			g.emit(&c08Op{Op: "rebuild", Variant: rng.Intn(4)})
		}
		for _, o := range g.ops {
			w.exec(o, rec)
		}
	}
	w.exec(&c08Op{Op: "rebuild", Variant: rng.Intn(4)}, rec)
}

// ---- enumerated histories: every sequence of `depth` enabled operations from a fixed menu (2 pods, 2 nodes)
func c08EnumCfg() *c08Cfg {
	return &c08Cfg{Kind: "hist", Nodes: []string{"n1", "n2"}, Clock: 1000, NowOff: c08NowOff, Factors: c08V(100, 100),
		EstSched: 30, EstInit: 10, Custom: false, IncludeSys: true, UsageThr: c08V(60, 0), ProdThr: c08V(50, 0), AggThr: c08V(0, 0),
		AggType: "", AggDur: 0, FilterExpired: 1, ExpSec: c08Fresh, EnableExpired: 0}
}

type c08EState struct {
	clock int64
	pods  map[string]c08GPod
	hasM  bool
}

func (s c08EState) clone() c08EState {
	n := c08EState{clock: s.clock, hasM: s.hasM, pods: map[string]c08GPod{}}
	for k, v := range s.pods {
		n.pods[k] = v
	}
	return n
}

type c08EStep struct {
	op   *c08Op
	next c08EState
}

func c08EnumMenu(s c08EState, names []string) []c08EStep {
	var out []c08EStep
	add := func(o *c08Op, f func(*c08EState)) {
		n := s.clone()
		if f != nil {
			f(&n)
		}
		out = append(out, c08EStep{o, n})
	}
	c := s.clock
	add(&c08Op{Op: "tick", D: 40}, func(n *c08EState) { n.clock += 40 })
	mk := func(ut, ri int64, full bool, pods []c08Rep) *c08Op {
		o := &c08Op{Op: "metric", Node: "n1", Ut: ut, Ri: ri, HasNM: full, Usage: c08V(0, 0), Sys: c08V(0, 0), Pods: pods}
		if full {
			o.Usage, o.Sys = c08V(1000, 1000), c08V(100, 100)
		}
		return o
	}
	setM := func(n *c08EState) { n.hasM = true }
	add(mk(c, 60, true, []c08Rep{{Name: "p1", Prio: "koord-prod", Usage: c08V(300, 300)}, {Name: "p2", Prio: "koord-mid", Usage: c08V(100, 100)}}), setM)
	add(mk(c+100, 30, true, []c08Rep{{Name: "p1", Prio: "koord-prod", Usage: c08V(50, 50)}, {Name: "p2", Prio: "koord-prod", Usage: c08V(700, 700)}}), setM)
	add(mk(c-100, 30, true, []c08Rep{{Name: "p1", Prio: "koord-mid", Usage: c08V(10, 10)}}), setM)
	add(mk(-1, 60, false, nil), setM)
	if s.hasM {
		add(&c08Op{Op: "metricDelete", Node: "n1"}, func(n *c08EState) { n.hasM = false })
	}
	add(&c08Op{Op: "filter", Pod: &c08Pod{UID: "incoming", Name: "incoming", Prio: "prod", Req: c08V(500, 500), Lim: c08V(0, 0), Sched: -1, Init: -1,
		Cs: -1, Ci: -1, Cf: c08V(0, 0)}, Nd: &c08Node{Name: "n1", Alloc: c08V(2000, 4000), Raw: c08V(-1, -1), Cu: c08Thr{V: c08V(0, 0)},
		Cp: c08Thr{V: c08V(0, 0)}, Ca: c08AggThr{V: c08V(0, 0)}}}, nil)
	for i, name := range names {
		gp := s.pods[name]
		base := c08Pod{Name: name, Prio: "prod", Req: c08V(500, 500), Lim: c08V(0, 0), Sched: -1, Init: -1, Cs: -1, Ci: -1, Cf: c08V(0, 0)}
		if i == 1 {
			base.Prio, base.Req = "mid", c08V(400, 400)
		}
		set := func(f func(*c08GPod)) func(*c08EState) {
			return func(n *c08EState) {
				x := n.pods[name]
				f(&x)
				n.pods[name] = x
			}
		}
		if !gp.live {
			if gp.resv != "" {
				add(&c08Op{Op: "unreserve", Pod: c08CopyPod(gp.cur), Node: gp.resv}, set(func(x *c08GPod) { x.resv = "" }))
				continue
			}
			p := base
			p.UID = fmt.Sprintf("%s.%d", name, gp.gen+1)
			add(&c08Op{Op: "podAdd", Pod: c08CopyPod(p)}, set(func(x *c08GPod) { x.live, x.gen, x.cur = true, x.gen+1, p }))
			b := p
			b.Node, b.Sched = "n1", c-50
			add(&c08Op{Op: "podAdd", Pod: c08CopyPod(b)}, set(func(x *c08GPod) { x.live, x.gen, x.cur = true, x.gen+1, b }))
			continue
		}
		cur := gp.cur
		upd := func(p c08Pod, f func(*c08GPod)) {
			add(&c08Op{Op: "podUpdate", Pod: c08CopyPod(p), OldNode: cur.Node}, set(func(x *c08GPod) {
				x.cur = p
				if f != nil {
					f(x)
				}
			}))
		}
		del := func() {
			add(&c08Op{Op: "podDelete", Pod: c08CopyPod(cur)}, set(func(x *c08GPod) { x.live = false }))
		}
		resize := cur
		if cur.Req["cpu"] == 200 {
			resize.Req = c08V(900, 900)
		} else {
			resize.Req = c08V(200, 200)
		}
		switch {
		case cur.Node == "" && gp.resv == "":
			add(&c08Op{Op: "reserve", Pod: c08CopyPod(cur), Node: "n1"}, set(func(x *c08GPod) { x.resv = "n1" }))
			upd(resize, nil)
			del()
		case cur.Node == "":
			add(&c08Op{Op: "unreserve", Pod: c08CopyPod(cur), Node: gp.resv}, set(func(x *c08GPod) { x.resv = "" }))
			b := cur
			b.Node, b.Sched = gp.resv, c
			upd(b, func(x *c08GPod) { x.resv = "" })
			del()
		default:
			upd(resize, nil)
			pr := cur
			if cur.Prio == "prod" {
				pr.Prio = "mid"
			} else {
				pr.Prio = "prod"
			}
			upd(pr, nil)
			if cur.Init < 0 {
				in := cur
				in.Init = c
				upd(in, nil)
			}
			if !cur.Term {
				tm := cur
				tm.Term = true
				upd(tm, nil)
			}
			upd(cur, nil)
			mv := cur
			if cur.Node == "n1" {
				mv.Node = "n2"
			} else {
				mv.Node = "n1"
			}
			upd(mv, nil)
			del()
		}
	}
	return out
}

func c08Enumerate(t *testing.T, rec *vu.Recorder, depth int, names []string, sample func(int) bool) int {
	c := c08EnumCfg()
	init := c08EState{clock: c.Clock, pods: map[string]c08GPod{}}
	for _, n := range names {
		init.pods[n] = c08GPod{}
	}
	n := 0
	var path []*c08Op
	var rec1 func(s c08EState, d int)
	rec1 = func(s c08EState, d int) {
		if d == depth {
			n++
			if sample == nil || sample(n) {
				ops := append(append([]*c08Op{}, path...), &c08Op{Op: "rebuild", Variant: n % 4})
				c08Run(t, rec, c, ops)
			}
			return
		}
		for _, st := range c08EnumMenu(s, names) {
			path = append(path, st.op)
			rec1(st.next, d+1)
			path = path[:len(path)-1]
		}
	}
	rec1(init, 0)
	return n
}

// ---- (E) estimator table
func c08EstimatorTable(t *testing.T, rec *vu.Recorder) {
	for _, f := range []c08Vec{c08V(100, 100), c08V(85, 70), c08V(33, 0), c08V(1, 99), c08V(50, 50)} {
		for _, custom := range []bool{false, true} {
			c := c08EnumCfg()
			c.Kind, c.Factors, c.Custom = "est", f, custom
			var ops []*c08Op
			for _, prio := range []string{"prod", "mid", "batch", "free"} {
				for _, req := range []int64{0, 1, 3, 50, 149, 150, 250, 333, 1001} {
					for _, lim := range []int64{0, 1, 100, 334, 2000} {
						for _, cf := range []c08Vec{c08V(0, 0), c08V(150, 0), c08V(7, 120)} {
							if cf["cpu"] != 0 && !custom && req%2 == 0 {
								continue
							}
							p := &c08Pod{UID: "e", Name: "e", Prio: prio, Req: c08V(req, req*3), Lim: c08V(lim, lim*2), Sched: -1, Init: -1,
								Cs: -1, Ci: -1, Cf: cf}
							ops = append(ops, &c08Op{Op: "estimate", Pod: p})
						}
					}
				}
			}
			c08Run(t, rec, c, ops)
		}
	}
}

func TestVerifC08(t *testing.T) {
	if !vu.Enabled() {
		t.Skip("VERIF_OUT not set")
	}
	c08T0 = time.Unix(time.Now().Unix()-c08NowOff, 0)
	rec := vu.NewRecorder("")
	defer rec.Close()

	if rp := vu.ReplayPath(); rp != "" {
		for _, raw := range vu.ReadScripts(rp) {
			var evs []json.RawMessage
			if err := json.Unmarshal(raw, &evs); err != nil || len(evs) == 0 {
				t.Fatalf("bad replay script: %v", err)
			}
			var c c08Cfg
			if err := json.Unmarshal(evs[0], &c); err != nil {
				t.Fatalf("bad reset event: %v", err)
			}
			var ops []*c08Op
			for _, e := range evs[1:] {
				o := &c08Op{}
				if err := json.Unmarshal(e, o); err != nil {
					t.Fatalf("bad event: %v", err)
				}
				ops = append(ops, o)
			}
			c08Run(t, rec, &c, ops)
		}
		return
	}

	c08EstimatorTable(t, rec)
	if vu.Thorough() {
		n := c08Enumerate(t, rec, 4, []string{"p1", "p2"}, nil)
		t.Logf("c08: enumerated %d histories of depth 4", n)
	} else {
		n := c08Enumerate(t, rec, 3, []string{"p1", "p2"}, nil)
		t.Logf("c08: enumerated %d histories of depth 3", n)
	}
	rng := vu.Rand(8)
	ncfg, nseg, steps := 30, 300, 45
	if vu.Thorough() {
		ncfg, nseg, steps = 200, 9000, 60
	}
	cfgs := make([]*c08Cfg, ncfg)
	for i := range cfgs {
		cfgs[i] = c08RandCfg(rng)
	}
	for i := 0; i < nseg; i++ {
		c08Random(t, rec, rng, cfgs[i%ncfg], steps/2+rng.Intn(steps))
	}
	// churn: one node, pods reserved and rolled back concurrently over and over (a node's entry is emptied and re-filled
	// at the same moment), sometimes with a report arriving / leaving in between
	nchurn, rounds := 40, 40
	if vu.Thorough() {
		nchurn, rounds = 400, 60
	}
	for i := 0; i < nchurn; i++ {
		c08Churn(t, rec, rng, cfgs[i%ncfg], rounds)
	}
	t.Logf("c08: %d segments, %d events", rec.Segments(), rec.Events())
}

func c08Churn(t *testing.T, rec *vu.Recorder, rng *rand.Rand, c0 *c08Cfg, rounds int) {
	c := *c0
	c.Nodes = []string{"n1"}
	b, _ := json.Marshal(&c)
	var m vu.Ev
	_ = json.Unmarshal(b, &m)
	rec.Reset(m)
	w := c08NewWorld(t, &c)
	names := []string{"p1", "p2", "p3", "p4", "p5"}
	g := c08NewGen(rng, &c, names)
	for _, n := range names {
		p := g.newPod(n)
		g.pods[n].live, g.pods[n].cur = true, p
		w.exec(&c08Op{Op: "podAdd", Pod: c08CopyPod(p)}, rec)
	}
	for r := 0; r < rounds; r++ {
		par := &c08Op{Op: "par"}
		for _, n := range names {
			gp := g.pods[n]
			switch {
			case gp.resv != "":
				par.Ops = append(par.Ops, &c08Op{Op: "unreserve", Pod: c08CopyPod(gp.cur), Node: "n1"})
				gp.resv = ""
			case rng.Intn(3) > 0:
				par.Ops = append(par.Ops, &c08Op{Op: "reserve", Pod: c08CopyPod(gp.cur), Node: "n1"})
				gp.resv = "n1"
			}
		}
		if len(par.Ops) >= 2 {
			w.exec(par, rec)
		} else if len(par.Ops) == 1 {
			w.exec(par.Ops[0], rec)
		}
		if rng.Intn(10) == 0 {
			g.ops = g.ops[:0]
			if g.hasM["n1"] && rng.Intn(2) == 0 {
				g.hasM["n1"] = false
				g.emit(&c08Op{Op: "metricDelete", Node: "n1"})
			} else {
				g.metricOp("n1")
			}
			for _, o := range g.ops {
				w.exec(o, rec)
			}
		}
	}
	w.exec(&c08Op{Op: "rebuild", Variant: rng.Intn(4)}, rec)
}
