package nodenumaresource

// Verification harness for C19 / CPU-NUMA part (injected by `go test -overlay`; builds on the C06 executor).
// restart: every live allocation is persisted on a pod object by the REAL pre-bind code (Plugin.preBindObject ->
// SetResourceStatus), the live cache is dropped, and a fresh resourceManager is rebuilt ONLY through the informer
// handler (podEventHandler.OnAdd / OnUpdate) from those objects, in an arbitrary order with duplicate adds and
// updates carrying the same allocation. The projection of the fresh cache is logged; TLC demands that it equals the
// state the specification holds for the scheduler that made the allocations. No oracle here.

import (
	"context"
	"encoding/json"
	"math/rand"
	"sort"
	"sync"
	"testing"

	corev1 "k8s.io/api/core/v1"
	metav1 "k8s.io/apimachinery/pkg/apis/meta/v1"
	"k8s.io/kubernetes/pkg/scheduler/framework"

	"github.com/koordinator-sh/koordinator/apis/extension"
	schedulingv1alpha1 "github.com/koordinator-sh/koordinator/apis/scheduling/v1alpha1"
	schedulingconfig "github.com/koordinator-sh/koordinator/pkg/scheduler/apis/config"
	reservationutil "github.com/koordinator-sh/koordinator/pkg/util/reservation"
	vu "github.com/koordinator-sh/koordinator/pkg/verifutil"
)

var (
	c19T      *testing.T
	c19Plugin *Plugin
)

func c19GetPlugin() *Plugin {
	if c19Plugin == nil {
		node := &corev1.Node{ObjectMeta: metav1.ObjectMeta{Name: c06Node}}
		suit := newPluginTestSuit(c19T, nil, []*corev1.Node{node})
		p, err := suit.proxyNew(context.TODO(), suit.nodeNUMAResourceArgs, suit.Handle)
		if err != nil {
			panic(err)
		}
		c19Plugin = p.(*Plugin)
	}
	return c19Plugin
}

func (w *c06World) c19Restart(o *c06Op) vu.Ev {
	live := w.rm.GetNodeAllocation(c06Node)
	live.lock.RLock()
	allocs := make([]PodAllocation, 0, len(live.allocatedPods))
	for _, pa := range live.allocatedPods {
		allocs = append(allocs, pa)
	}
	live.lock.RUnlock()
	sort.Slice(allocs, func(i, j int) bool { return allocs[i].UID < allocs[j].UID })
	// persist: the surviving objects
	plg := c19GetPlugin()
	w.c19Resv = map[string]*schedulingv1alpha1.Reservation{}
	var pods []*corev1.Pod
	for i := range allocs {
		pa := allocs[i]
		pod := c06Pod(string(pa.UID))
		pod.Spec.NodeName = c06Node
		pod.Status.Phase = corev1.PodRunning
		if pa.CPUExclusivePolicy != "" && pa.CPUExclusivePolicy != schedulingconfig.CPUExclusivePolicyNone {
			// the exclusive policy is part of the pod's own resource-spec annotation (written before scheduling)
			if err := extension.SetResourceSpec(pod, &extension.ResourceSpec{PreferredCPUExclusivePolicy: pa.CPUExclusivePolicy}); err != nil {
				panic(err)
			}
		}
		cs := framework.NewCycleState()
		cs.Write(stateKey, &preFilterState{allocation: &pa})
		if (o.Variant+i)%4 == 0 {
			// this allocation is held by a RESERVATION (same uid): the plugin persists it on the Reservation object
			// (PreBindReservation) and every scheduler learns it from the reservation informer, which hands the pod
			// handler the reserve pod made of the template and the Reservation's own annotations. Every other time the
			// template is a copy of a running pod (as a PodMigrationJob makes it) and still carries THAT pod's allocation.
			tmpl := corev1.PodTemplateSpec{ObjectMeta: metav1.ObjectMeta{Namespace: "ns", Annotations: map[string]string{}}}
			for k, v := range pod.Annotations { // the resource-spec annotation belongs to the pod (template)
				tmpl.Annotations[k] = v
			}
			if (o.Variant+i)%8 == 0 {
				tmpl.Annotations[extension.AnnotationResourceStatus] = `{"cpuset":"0"}`
			}
			r := &schedulingv1alpha1.Reservation{
				ObjectMeta: metav1.ObjectMeta{Name: string(pa.UID), UID: pa.UID},
				Spec: schedulingv1alpha1.ReservationSpec{Template: &tmpl, TTL: &metav1.Duration{Duration: 1 << 40},
					Owners: []schedulingv1alpha1.ReservationOwner{{Object: &corev1.ObjectReference{Name: "owner"}}}},
				Status: schedulingv1alpha1.ReservationStatus{Phase: schedulingv1alpha1.ReservationAvailable, NodeName: c06Node},
			}
			if st := plg.PreBindReservation(context.TODO(), cs, r, c06Node); !st.IsSuccess() {
				panic("PreBindReservation: " + st.Message())
			}
			w.c19Resv[string(pa.UID)] = r
		} else if st := plg.preBindObject(context.TODO(), cs, pod, c06Node); !st.IsSuccess() {
			panic("preBindObject: " + st.Message())
		}
		pods = append(pods, pod)
	}
	// restart: fresh cache, fed only through the informer handler
	rng := rand.New(rand.NewSource(int64(o.Variant)))
	rng.Shuffle(len(pods), func(i, j int) { pods[i], pods[j] = pods[j], pods[i] })
	first, firstObs := w.c19Rebuild(pods, rng)
	w.rm = first
	ev := vu.Ev{"op": "restart", "variant": o.Variant, "persisted": len(pods), "obs": firstObs}
	// the same rebuild is run again on further fresh caches (the concurrent deliveries interleave differently every time):
	// every outcome that differs from the first one is reported as well ("reprobe" events, same demand)
	if len(pods) > 1 {
		want, _ := json.Marshal(firstObs)
		for k := 0; k < c19Reprobes; k++ {
			_, obs := w.c19Rebuild(pods, rng)
			if got, _ := json.Marshal(obs); string(got) != string(want) {
				w.c19Extra = append(w.c19Extra, vu.Ev{"op": "reprobe", "obs": obs})
				break
			}
		}
	}
	return ev
}

var c19Reprobes = 24

func (w *c06World) c19Rebuild(pods []*corev1.Pod, rng *rand.Rand) (*resourceManager, interface{}) {
	fresh := &resourceManager{
		numaAllocateStrategy:   w.rm.numaAllocateStrategy,
		topologyOptionsManager: w.tom,
		nodeAllocations:        map[string]*NodeAllocation{},
	}
	h := &podEventHandler{resourceManager: fresh}
	rh := reservationutil.NewReservationToPodEventHandler(h, reservationutil.IsObjValidActiveReservation)
	deliver := func(pod *corev1.Pod, how int) {
		if r := w.c19Resv[string(pod.UID)]; r != nil { // through the reservation informer's handler
			rh.OnAdd(r, true)
			switch how {
			case 0:
				rh.OnAdd(r.DeepCopy(), true)
			case 1, 3:
				rh.OnUpdate(r, r.DeepCopy())
			}
			return
		}
		if how >= 3 {
			// a scheduler that watched the pod's whole life (stand-by replica, or one that was restarted while the pod was
			// in its binding cycle): pending -> the pre-bind patch adds the annotations -> the bind sets the node name
			pending := pod.DeepCopy()
			pending.Spec.NodeName, pending.Status.Phase = "", corev1.PodPending
			bare := pending.DeepCopy()
			delete(bare.Annotations, extension.AnnotationResourceStatus)
			h.OnAdd(bare, false)
			h.OnUpdate(bare, pending)
			h.OnUpdate(pending, pod)
			return
		}
		h.OnAdd(pod, true)
		switch how {
		case 0:
			h.OnAdd(pod.DeepCopy(), true) // duplicate add
		case 1:
			h.OnUpdate(pod, pod.DeepCopy()) // update carrying the same allocation
		}
	}
	hows := make([]int, len(pods))
	for i := range pods {
		hows[i] = rng.Intn(5)
	}
	if workers := 1 + rng.Intn(3); workers > 1 && len(pods) > 1 {
		// the pod informer and the reservation informer (reserve pods) feed the same handler from different goroutines
		start := make(chan struct{})
		var wg sync.WaitGroup
		for k := 0; k < workers; k++ {
			wg.Add(1)
			go func(k int) {
				defer wg.Done()
				<-start
				for i := k; i < len(pods); i += workers {
					deliver(pods[i], hows[i])
				}
			}(k)
		}
		close(start)
		wg.Wait()
	} else {
		for i, pod := range pods {
			deliver(pod, hows[i])
		}
	}
	return fresh, c06Project(fresh.GetNodeAllocation(c06Node), w.topo.NumCPUs, w.numaIDs)
}

func TestVerifC19Numa(t *testing.T) {
	if !vu.Enabled() {
		t.Skip("verification harness: VERIF_OUT not set")
	}
	c19T = t
	rec := vu.NewRecorder("")
	defer rec.Close()
	if vu.ReplayPath() != "" {
		for _, raw := range vu.ReadScripts(vu.ReplayPath()) {
			var script []c06Op
			if err := json.Unmarshal(raw, &script); err != nil {
				t.Fatal(err)
			}
			c06RunScript(rec, script)
		}
		return
	}
	c06Restarts = true
	defer func() { c06Restarts = false }()
	st := &c06Stats{m: map[string]int{}}
	rng := vu.Rand(196)
	n, length := 200, 40
	if vu.Thorough() {
		n, length = 2500, 60
	}
	for i := 0; i < n; i++ {
		c06RandomHistory(rec, st, rng, length, i)
	}
	t.Logf("C19 numa: %d segments, %d events", rec.Segments(), rec.Events())
}
