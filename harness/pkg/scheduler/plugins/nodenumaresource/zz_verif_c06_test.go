package nodenumaresource

// Verification harness for C06 (injected by `go test -overlay`, see /verif/DESIGN.md and docs/FAMILY_GUIDE.md).
// Executor + recorder only: it calls the REAL takeCPUs / takePreferredCPUs, tryBestToDistributeEvenly,
// satisfiedRequiredCPUBindPolicy and resourceManager.Allocate / Update / Release, and logs inputs, results and
// the projection of the NodeAllocation.  No oracle here: whether a result is allowed is decided by TLC
// (specs/NumaCpu/NumaCpuTrace.tla).  The random generators keep a shadow of what they were handed only to steer
// generation (legal informer deliveries, own-CPU credits).
//
// Reusable by C19 (restart round-trip):
//   c06NewWorld(reset)                      a node (topology options + resourceManager) from a reset event
//   c06ApplyOp(rm, tom, node, &op)          apply ONE alloc / update / release op to a ResourceManager
//   c06Project(nodeAllocation, nCPUs, ids)  projection of a NodeAllocation onto the spec variables

import (
	"encoding/json"
	"fmt"
	"math/rand"
	"os"
	"sort"
	"testing"

	corev1 "k8s.io/api/core/v1"
	"k8s.io/apimachinery/pkg/api/resource"
	metav1 "k8s.io/apimachinery/pkg/apis/meta/v1"
	"k8s.io/apimachinery/pkg/types"

	"github.com/koordinator-sh/koordinator/apis/extension"
	schedulingv1alpha1 "github.com/koordinator-sh/koordinator/apis/scheduling/v1alpha1"
	schedulingconfig "github.com/koordinator-sh/koordinator/pkg/scheduler/apis/config"
	"github.com/koordinator-sh/koordinator/pkg/scheduler/frameworkext/topologymanager"
	"github.com/koordinator-sh/koordinator/pkg/util/bitmask"
	"github.com/koordinator-sh/koordinator/pkg/util/cpuset"
	vu "github.com/koordinator-sh/koordinator/pkg/verifutil"
)

const c06Node = "n1"

// amounts of one NUMA node: cpu in milli-CPU, mem in units (bytes)
type c06Amt struct {
	Node int   `json:"node"`
	CPU  int64 `json:"cpu"`
	Mem  int64 `json:"mem"`
}

type c06Req struct {
	CPU int64 `json:"cpu"`
	Mem int64 `json:"mem"`
}

type c06CPU struct {
	CPU  int    `json:"cpu"`
	Ref  int    `json:"ref"`
	Excl string `json:"excl"`
}

// one operation; a recorded event carries every argument, so a trace segment is also a script
type c06Op struct {
	Op      string `json:"op"`
	Variant int    `json:"variant,omitempty"` // restart (C19): informer delivery order / duplicates
	// reset: the node
	Kind     string   `json:"kind"`
	Dims     []int    `json:"dims"` // sockets, NUMA nodes per socket, cores per node, threads per core
	MaxRef   int      `json:"maxRef"`
	Reserved []int    `json:"reserved"`
	Cap      []c06Amt `json:"cap"`
	// alloc
	Pod      string `json:"pod"`
	N        int    `json:"n"`
	Bind     bool   `json:"bind"`
	Policy   string `json:"policy"`
	Required bool   `json:"required"`
	Excl     string `json:"excl"`
	Pref     []int  `json:"pref"`
	Pre      []int  `json:"pre"`
	HasHint  bool   `json:"hasHint"`
	Hint     []int  `json:"hint"`
	Req      c06Req `json:"req"`
	Ext      bool   `json:"ext"` // the request also names a resource that no NUMA node reports
	Strategy string `json:"strategy"`
	Commit   bool   `json:"commit"`
	// update
	Cpus []int    `json:"cpus"`
	Numa []c06Amt `json:"numa"`
	// take
	Fn    string   `json:"fn"`
	Avail []int    `json:"avail"`
	Alloc []c06CPU `json:"alloc"`
	// dist
	Mode   string   `json:"mode"`
	Free   []c06Amt `json:"free"`
	NoTopo bool     `json:"noTopo,omitempty"` // release: executed while the node has no usable CPU topology
}

func c06Ints(s []int) []int {
	out := make([]int, 0, len(s))
	out = append(out, s...)
	sort.Ints(out)
	return out
}

func c06Amts(s []c06Amt) []c06Amt {
	out := make([]c06Amt, 0, len(s))
	return append(out, s...)
}

func c06RL(cpuMilli, mem int64) corev1.ResourceList {
	return corev1.ResourceList{
		corev1.ResourceCPU:    *resource.NewMilliQuantity(cpuMilli, resource.DecimalSI),
		corev1.ResourceMemory: *resource.NewQuantity(mem, resource.BinarySI),
	}
}

func c06NUMARes(list []c06Amt) []NUMANodeResource {
	out := make([]NUMANodeResource, 0, len(list))
	for _, a := range list {
		out = append(out, NUMANodeResource{Node: a.Node, Resources: c06RL(a.CPU, a.Mem)})
	}
	return out
}

// field reads only: NUMANodeResource list -> [node, cpu (milli), mem]
func c06AmtList(list []NUMANodeResource) []c06Amt {
	out := make([]c06Amt, 0, len(list))
	for _, r := range list {
		cpu := r.Resources[corev1.ResourceCPU]
		mem := r.Resources[corev1.ResourceMemory]
		out = append(out, c06Amt{Node: r.Node, CPU: cpu.MilliValue(), Mem: mem.Value()})
	}
	return out
}

// ---------------------------------------------------------------------------------------------- the node

type c06World struct {
	reset    c06Op
	topo     *CPUTopology
	numaIDs  []int
	tom      TopologyOptionsManager
	rm       *resourceManager
	node     *corev1.Node
	maxRef   int
	reserved cpuset.CPUSet
	c19Extra []vu.Ev                                    // C19: further outcomes of the same rebuild ("reprobe" events), emitted right after the restart event
	c19Resv  map[string]*schedulingv1alpha1.Reservation // C19: the allocations of the last restart that a Reservation object carries
}

func c06Topology(dims []int) *CPUTopology {
	return buildCPUTopologyForTest(dims[0], dims[1], dims[2], dims[3])
}

// c06NewWorld builds the node described by a reset event: topology options (CPU topology, sharing limit,
// reserved CPUs, NUMA capacities) and an empty resourceManager.
func c06NewWorld(reset c06Op) *c06World {
	w := &c06World{reset: reset, topo: c06Topology(reset.Dims), maxRef: reset.MaxRef, reserved: cpuset.NewCPUSet(reset.Reserved...)}
	w.tom = NewTopologyOptionsManager()
	w.tom.UpdateTopologyOptions(c06Node, func(o *TopologyOptions) {
		o.CPUTopology = w.topo
		o.MaxRefCount = reset.MaxRef
		o.ReservedCPUs = w.reserved
		o.NUMANodeResources = c06NUMARes(reset.Cap)
	})
	for _, a := range reset.Cap {
		w.numaIDs = append(w.numaIDs, a.Node)
	}
	w.rm = &resourceManager{
		numaAllocateStrategy:   schedulingconfig.NUMAMostAllocated,
		topologyOptionsManager: w.tom,
		nodeAllocations:        map[string]*NodeAllocation{},
	}
	w.node = &corev1.Node{ObjectMeta: metav1.ObjectMeta{Name: c06Node, Labels: map[string]string{}}}
	return w
}

// the reset event: what the Go side needs (dims ...) and, spelled out for TLC, the topology itself
func (w *c06World) resetEvent() vu.Ev {
	topo := make([]vu.Ev, 0, w.topo.NumCPUs)
	for _, c := range c06Ints(w.topo.CPUDetails.CPUs().ToSliceNoSort()) {
		i := w.topo.CPUDetails[c]
		topo = append(topo, vu.Ev{"cpu": i.CPUID, "core": i.CoreID, "node": i.NodeID, "socket": i.SocketID})
	}
	return vu.Ev{"kind": w.reset.Kind, "dims": c06Ints2(w.reset.Dims), "maxRef": w.reset.MaxRef, "reserved": c06Ints(w.reset.Reserved),
		"cap": c06Amts(w.reset.Cap), "topo": topo, "tpc": w.topo.CPUsPerCore()}
}

func c06Ints2(s []int) []int { // keeps the order
	out := make([]int, 0, len(s))
	return append(out, s...)
}

// ---------------------------------------------------------------------------------------------- projection

// c06Project projects a NodeAllocation onto the spec variables (field reads only):
//
//	pods   allocatedPods[uid] -> {cpus: CPUSet, numa: NUMANodeResources as [node, cpu milli, mem]}
//	refs   refs[c] = allocatedCPUs[c].RefCount for c in 0..nCPUs-1 (0 when absent); stray = entries for other ids
//	numa   allocatedResources[node].Resources for every node id of the topology or present in the ledger
func c06Project(na *NodeAllocation, nCPUs int, numaIDs []int) vu.Ev {
	na.lock.RLock()
	defer na.lock.RUnlock()
	pods := map[string]interface{}{}
	for uid, pa := range na.allocatedPods {
		pods[string(uid)] = vu.Ev{"cpus": c06Ints(pa.CPUSet.ToSliceNoSort()), "numa": c06AmtList(pa.NUMANodeResources)}
	}
	refs := make([]int, nCPUs)
	stray := []c06CPU{}
	keys := make([]int, 0, len(na.allocatedCPUs))
	for c := range na.allocatedCPUs {
		keys = append(keys, c)
	}
	sort.Ints(keys)
	for _, c := range keys {
		if c >= 0 && c < nCPUs {
			refs[c] = na.allocatedCPUs[c].RefCount
		} else {
			stray = append(stray, c06CPU{CPU: c, Ref: na.allocatedCPUs[c].RefCount})
		}
	}
	ids := map[int]bool{}
	for _, n := range numaIDs {
		ids[n] = true
	}
	for n := range na.allocatedResources {
		ids[n] = true
	}
	sorted := make([]int, 0, len(ids))
	for n := range ids {
		sorted = append(sorted, n)
	}
	sort.Ints(sorted)
	numa := make([]c06Amt, 0, len(sorted))
	for _, n := range sorted {
		a := c06Amt{Node: n}
		if r := na.allocatedResources[n]; r != nil {
			cpu := r.Resources[corev1.ResourceCPU]
			mem := r.Resources[corev1.ResourceMemory]
			a.CPU, a.Mem = cpu.MilliValue(), mem.Value()
		}
		numa = append(numa, a)
	}
	return vu.Ev{"pods": pods, "refs": refs, "stray": stray, "numa": numa}
}

// ---------------------------------------------------------------------------------------------- executor

func c06Pod(name string) *corev1.Pod {
	return &corev1.Pod{ObjectMeta: metav1.ObjectMeta{Name: name, Namespace: "ns", UID: types.UID(name)}}
}

func c06Options(o *c06Op, topologyOptions TopologyOptions) *ResourceOptions {
	requests := c06RL(o.Req.CPU, o.Req.Mem)
	if o.Ext {
		requests[extension.ResourceGPUMemory] = *resource.NewQuantity(10, resource.BinarySI)
	}
	opts := &ResourceOptions{
		numCPUsNeeded:         o.N,
		requestCPUBind:        o.Bind,
		requests:              requests,
		originalRequests:      requests.DeepCopy(),
		requiredCPUBindPolicy: o.Required,
		cpuBindPolicy:         schedulingconfig.CPUBindPolicy(o.Policy),
		cpuExclusivePolicy:    schedulingconfig.CPUExclusivePolicy(o.Excl),
		preferredCPUs:         cpuset.NewCPUSet(o.Pref...),
		preemptibleCPUs:       cpuset.NewCPUSet(o.Pre...),
		topologyOptions:       topologyOptions,
	}
	if o.HasHint {
		mask, err := bitmask.NewBitMask(o.Hint...)
		if err != nil {
			panic(err)
		}
		opts.hint = topologymanager.NUMATopologyHint{NUMANodeAffinity: mask}
	}
	return opts
}

// c06ApplyOp applies ONE alloc / update / release operation to a ResourceManager, the way the plugin does:
//
//	alloc    Allocate(node, pod, options) and, when it succeeds and o.Commit, Update(node, allocation) (Plugin.Reserve)
//	update   Update(node, allocation from the op)                                   (pod informer)
//	release  Release(node, pod uid)                                                 (Unreserve / pod delete)
//
// It returns the logged result (nil for update / release) and, for a successful alloc, the allocation.
func c06ApplyOp(rm ResourceManager, tom TopologyOptionsManager, node *corev1.Node, o *c06Op) (vu.Ev, *PodAllocation) {
	switch o.Op {
	case "alloc":
		n := node.DeepCopy()
		if n.Labels == nil {
			n.Labels = map[string]string{}
		}
		if o.Strategy != "" {
			n.Labels[extension.LabelNodeNUMAAllocateStrategy] = o.Strategy
		}
		alloc, status := rm.Allocate(n, c06Pod(o.Pod), c06Options(o, tom.GetTopologyOptions(node.Name)))
		res := vu.Ev{"ok": false, "cpus": []int{}, "numa": []c06Amt{}, "err": ""}
		if !status.IsSuccess() || alloc == nil {
			res["err"] = status.Message()
			return res, nil
		}
		res["ok"] = true
		res["cpus"] = c06Ints(alloc.CPUSet.ToSliceNoSort())
		res["numa"] = c06AmtList(alloc.NUMANodeResources)
		if o.Commit {
			rm.Update(node.Name, alloc)
		}
		return res, alloc
	case "update":
		rm.Update(node.Name, &PodAllocation{
			UID: types.UID(o.Pod), Namespace: "ns", Name: o.Pod,
			CPUSet:             cpuset.NewCPUSet(o.Cpus...),
			CPUExclusivePolicy: schedulingconfig.CPUExclusivePolicy(o.Excl),
			NUMANodeResources:  c06NUMARes(o.Numa),
		})
		return nil, nil
	case "release":
		rm.Release(node.Name, types.UID(o.Pod))
		return nil, nil
	}
	panic("c06ApplyOp: unknown op " + o.Op)
}

// set by the C19 driver: random histories are cut by restarts
var c06Restarts bool

func c06Strategy(s string) schedulingconfig.NUMAAllocateStrategy {
	if s == "" {
		return schedulingconfig.NUMAMostAllocated
	}
	return schedulingconfig.NUMAAllocateStrategy(s)
}

// c06Exec executes one op on the world and returns the event (arguments echoed, result, obs)
func (w *c06World) c06Exec(o *c06Op) vu.Ev {
	var ev vu.Ev
	panicked, msg := vu.Protect(func() { ev = w.exec(o) })
	if panicked {
		return vu.Ev{"op": "panic", "in": o.Op, "msg": msg}
	}
	return ev
}

func (w *c06World) exec(o *c06Op) vu.Ev {
	switch o.Op {
	case "alloc":
		ev := vu.Ev{"op": "alloc", "pod": o.Pod, "n": o.N, "bind": o.Bind, "policy": o.Policy, "required": o.Required, "excl": o.Excl,
			"pref": c06Ints(o.Pref), "pre": c06Ints(o.Pre), "hasHint": o.HasHint, "hint": c06Ints(o.Hint), "req": o.Req, "ext": o.Ext,
			"strategy": o.Strategy, "commit": o.Commit}
		ev["result"], _ = c06ApplyOp(w.rm, w.tom, w.node, o)
		ev["obs"] = c06Project(w.rm.GetNodeAllocation(c06Node), w.topo.NumCPUs, w.numaIDs)
		return ev
	case "update":
		ev := vu.Ev{"op": "update", "pod": o.Pod, "cpus": c06Ints(o.Cpus), "numa": c06Amts(o.Numa), "excl": o.Excl}
		c06ApplyOp(w.rm, w.tom, w.node, o)
		ev["obs"] = c06Project(w.rm.GetNodeAllocation(c06Node), w.topo.NumCPUs, w.numaIDs)
		return ev
	case "release":
		ev := vu.Ev{"op": "release", "pod": o.Pod}
		if o.NoTopo {
			// the pod goes away while the node's topology report is missing (NodeResourceTopology deleted / re-reported
			// without a usable CPU topology); the report comes back afterwards
			ev["noTopo"] = true
			w.tom.UpdateTopologyOptions(c06Node, func(t *TopologyOptions) { t.CPUTopology = nil })
			defer w.tom.UpdateTopologyOptions(c06Node, func(t *TopologyOptions) { t.CPUTopology = w.topo })
		}
		c06ApplyOp(w.rm, w.tom, w.node, o)
		ev["obs"] = c06Project(w.rm.GetNodeAllocation(c06Node), w.topo.NumCPUs, w.numaIDs)
		return ev
	case "restart":
		return w.c19Restart(o)
	case "take":
		// direct call of the accumulator on an explicit available set
		allocated := NewCPUDetails()
		for _, a := range o.Alloc {
			info := w.topo.CPUDetails[a.CPU]
			info.RefCount = a.Ref
			info.ExclusivePolicy = schedulingconfig.CPUExclusivePolicy(a.Excl)
			allocated[a.CPU] = info
		}
		avail := cpuset.NewCPUSet(o.Avail...)
		var got cpuset.CPUSet
		var err error
		if o.Fn == "takePreferredCPUs" {
			got, err = takePreferredCPUs(w.topo, w.maxRef, avail, cpuset.NewCPUSet(o.Pref...), allocated, o.N,
				schedulingconfig.CPUBindPolicy(o.Policy), schedulingconfig.CPUExclusivePolicy(o.Excl), c06Strategy(o.Strategy))
		} else {
			got, err = takeCPUs(w.topo, w.maxRef, avail, allocated, o.N,
				schedulingconfig.CPUBindPolicy(o.Policy), schedulingconfig.CPUExclusivePolicy(o.Excl), c06Strategy(o.Strategy))
		}
		alloc := make([]c06CPU, 0, len(o.Alloc))
		alloc = append(alloc, o.Alloc...)
		res := vu.Ev{"ok": err == nil, "cpus": []int{}, "err": ""}
		if err != nil {
			res["err"] = err.Error()
		} else {
			res["cpus"] = c06Ints(got.ToSliceNoSort())
		}
		return vu.Ev{"op": "take", "fn": o.Fn, "avail": c06Ints(o.Avail), "alloc": alloc, "n": o.N, "policy": o.Policy, "excl": o.Excl,
			"strategy": o.Strategy, "pref": c06Ints(o.Pref), "result": res}
	case "dist":
		// direct call of tryBestToDistributeEvenly on explicit free amounts
		total := map[int]corev1.ResourceList{}
		for _, f := range o.Free {
			total[f.Node] = c06RL(f.CPU, f.Mem)
		}
		mask, err := bitmask.NewBitMask(o.Hint...)
		if err != nil {
			panic(err)
		}
		opts := &ResourceOptions{
			hint:            topologymanager.NUMATopologyHint{NUMANodeAffinity: mask},
			topologyOptions: w.tom.GetTopologyOptions(c06Node),
		}
		switch o.Mode {
		case "cpubind":
			opts.requestCPUBind = true
		case "fullpcpus":
			opts.requestCPUBind = true
			opts.requiredCPUBindPolicy = true
			opts.cpuBindPolicy = schedulingconfig.CPUBindPolicyFullPCPUs
		}
		result, reasons := tryBestToDistributeEvenly(c06RL(o.Req.CPU, o.Req.Mem), total, opts)
		rs := make([]string, 0, len(reasons))
		rs = append(rs, reasons...)
		sort.Strings(rs)
		return vu.Ev{"op": "dist", "mode": o.Mode, "hint": c06Ints(o.Hint), "free": c06Amts(o.Free), "req": o.Req,
			"result": vu.Ev{"ok": len(reasons) == 0, "numa": c06AmtList(result), "reasons": rs}}
	case "policy":
		err := satisfiedRequiredCPUBindPolicy(schedulingconfig.CPUBindPolicy(o.Policy), cpuset.NewCPUSet(o.Cpus...), w.topo)
		return vu.Ev{"op": "policy", "policy": o.Policy, "cpus": c06Ints(o.Cpus), "result": vu.Ev{"satisfied": err == nil}}
	}
	panic("c06: unknown op " + o.Op)
}

// c06RunScript re-executes a recorded segment / a script (first element = reset)
func c06RunScript(rec *vu.Recorder, script []c06Op) {
	if len(script) == 0 || script[0].Op != "reset" {
		panic("c06: script does not start with reset")
	}
	w := c06NewWorld(script[0])
	rec.Reset(w.resetEvent())
	for i := 1; i < len(script); i++ {
		if script[i].Op == "panic" {
			continue
		}
		if script[i].Op == "reprobe" {
			continue // produced by the restart before it
		}
		rec.Emit(w.c06Exec(&script[i]))
		for _, x := range w.c19Extra {
			rec.Emit(x)
		}
		w.c19Extra = nil
	}
}

// ---------------------------------------------------------------------------------------------- enumerated tables

var (
	c06Policies   = []string{"Default", "FullPCPUs", "SpreadByPCPUs"}
	c06Excls      = []string{"None", "PCPULevel", "NUMANodeLevel"}
	c06Strategies = []string{"MostAllocated", "LeastAllocated"}
)

type c06Stats struct {
	m map[string]int
}

func (s *c06Stats) add(k string) { s.m[k]++ }

func c06Has0(hint []int) bool {
	for _, h := range hint {
		if h == 0 {
			return true
		}
	}
	return false
}

func (s *c06Stats) observe(ev vu.Ev) {
	switch ev["op"] {
	case "dist":
		r := ev["result"].(vu.Ev)
		k := fmt.Sprintf("dist mode=%v ok=%v", ev["mode"], r["ok"])
		s.add(k)
		if h := ev["hint"].([]int); len(h) > 0 && !c06Has0(h) {
			s.add("dist hint-not-from-0")
		}
	case "take":
		r := ev["result"].(vu.Ev)
		s.add(fmt.Sprintf("take policy=%v ok=%v", ev["policy"], r["ok"]))
	case "policy":
		r := ev["result"].(vu.Ev)
		s.add(fmt.Sprintf("policy %v satisfied=%v", ev["policy"], r["satisfied"]))
	case "alloc":
		r := ev["result"].(vu.Ev)
		s.add(fmt.Sprintf("alloc bind=%v hint=%v policy=%v required=%v commit=%v ok=%v", ev["bind"], ev["hasHint"], ev["policy"], ev["required"], ev["commit"], r["ok"]))
		if h := ev["hint"].([]int); ev["hasHint"].(bool) && len(h) > 0 && !c06Has0(h) {
			s.add(fmt.Sprintf("alloc hint-not-from-0 ok=%v", r["ok"]))
		}
		s.shared(ev)
	case "update", "release":
		s.add(fmt.Sprint(ev["op"]))
		s.shared(ev)
	case "panic":
		s.add("panic")
	}
}

func (s *c06Stats) shared(ev vu.Ev) {
	if obs, ok := ev["obs"].(vu.Ev); ok {
		for _, r := range obs["refs"].([]int) {
			if r >= 2 {
				s.add("states with a CPU shared by >= 2 pods")
				return
			}
		}
	}
}

// every free vector of k NUMA nodes (0..4 units per node) x EVERY hint mask x request 0..8 units;
// one segment per (mode, free vector); nth > 1 takes a seed-dependent 1/nth sample of the free vectors
func c06DistTables(rec *vu.Recorder, st *c06Stats, k int, modes []string, nth int) {
	const maxFree, maxReq = 4, 8
	nvec := 1
	for i := 0; i < k; i++ {
		nvec *= maxFree + 1
	}
	for mi, mode := range modes {
		unit := int64(1)
		if mode == "cpubind" || mode == "fullpcpus" {
			unit = 1000
		}
		for v := 0; v < nvec; v++ {
			if nth > 1 && (int64(v*7+mi)+vu.Seed())%int64(nth) != 0 {
				continue
			}
			free := make([]c06Amt, k)
			x := v
			for n := 0; n < k; n++ {
				f := int64(x%(maxFree+1)) * unit
				x /= maxFree + 1
				free[n] = c06Amt{Node: n}
				if mode == "mem" {
					free[n].Mem = f
				} else {
					free[n].CPU = f
				}
			}
			w := c06NewWorld(c06Op{Op: "reset", Kind: "dist", Dims: []int{1, k, 1, 2}, MaxRef: 1, Cap: free})
			rec.Reset(w.resetEvent())
			for mask := 0; mask < 1<<uint(k); mask++ {
				hint := []int{}
				for n := 0; n < k; n++ {
					if mask&(1<<uint(n)) != 0 {
						hint = append(hint, n)
					}
				}
				for q := int64(0); q <= maxReq; q++ {
					o := c06Op{Op: "dist", Mode: mode, Hint: hint, Free: free}
					if mode == "mem" {
						o.Req.Mem = q
					} else {
						o.Req.CPU = q * unit
					}
					ev := w.c06Exec(&o)
					st.observe(ev)
					rec.Emit(ev)
				}
			}
		}
	}
}

// every subset of an 8-CPU topology as the available set (the other CPUs are allocated), n in 1..8, every bind
// policy x exclusive policy x NUMA strategy; one segment per (topology, available set)
func c06TakeTables(rec *vu.Recorder, st *c06Stats, dims []int, full bool, nth int) {
	topo := c06Topology(dims)
	n := topo.NumCPUs
	for sub := 0; sub < 1<<uint(n); sub++ {
		if nth > 1 && (int64(sub)+vu.Seed())%int64(nth) != 0 {
			continue
		}
		avail := []int{}
		alloc := []c06CPU{}
		for c := 0; c < n; c++ {
			if sub&(1<<uint(c)) != 0 {
				avail = append(avail, c)
			} else {
				alloc = append(alloc, c06CPU{CPU: c, Ref: 1, Excl: c06Excls[(sub+c)%3]})
			}
		}
		w := c06NewWorld(c06Op{Op: "reset", Kind: "take", Dims: dims, MaxRef: 1, Cap: []c06Amt{}})
		rec.Reset(w.resetEvent())
		for need := 1; need <= n; need++ {
			for _, pol := range c06Policies {
				for ei, excl := range c06Excls {
					for si, strat := range c06Strategies {
						if !full && (ei != 0 || si != 0) {
							continue
						}
						ev := w.c06Exec(&c06Op{Op: "take", Fn: "takeCPUs", Avail: avail, Alloc: alloc, N: need, Policy: pol, Excl: excl, Strategy: strat})
						st.observe(ev)
						rec.Emit(ev)
					}
				}
			}
		}
	}
}

// satisfiedRequiredCPUBindPolicy on every subset of the topology's CPUs, both verifiable policies
func c06PolicyTables(rec *vu.Recorder, st *c06Stats, dims []int) {
	topo := c06Topology(dims)
	n := topo.NumCPUs
	for _, pol := range []string{"FullPCPUs", "SpreadByPCPUs"} {
		w := c06NewWorld(c06Op{Op: "reset", Kind: "policy", Dims: dims, MaxRef: 1, Cap: []c06Amt{}})
		rec.Reset(w.resetEvent())
		for sub := 0; sub < 1<<uint(n); sub++ {
			cpus := []int{}
			for c := 0; c < n; c++ {
				if sub&(1<<uint(c)) != 0 {
					cpus = append(cpus, c)
				}
			}
			ev := w.c06Exec(&c06Op{Op: "policy", Policy: pol, Cpus: cpus})
			st.observe(ev)
			rec.Emit(ev)
		}
	}
}

// ---------------------------------------------------------------------------------------------- random drivers

var c06HistDims = [][]int{{1, 1, 2, 2}, {1, 2, 2, 2}, {2, 1, 2, 2}, {2, 2, 2, 2}, {2, 2, 1, 2}, {1, 2, 4, 1}, {2, 2, 2, 1}, {1, 1, 4, 2}, {1, 3, 2, 2}, {1, 4, 1, 2}, {3, 1, 2, 2}, {3, 1, 3, 2}, {4, 1, 2, 2}}

func c06Subset(rng *rand.Rand, from []int, p float64) []int {
	out := []int{}
	for _, x := range from {
		if rng.Float64() < p {
			out = append(out, x)
		}
	}
	return out
}

func c06Pick(rng *rand.Rand, s []string) string { return s[rng.Intn(len(s))] }

// random direct calls of takeCPUs / takePreferredCPUs: topologies up to 16 CPUs, sharing limit 1..2 (available
// CPUs may already be referenced once), preferred CPUs
func c06RandomTakes(rec *vu.Recorder, st *c06Stats, rng *rand.Rand, segs, per int) {
	for s := 0; s < segs; s++ {
		dims := c06HistDims[rng.Intn(len(c06HistDims))]
		maxRef := 1 + rng.Intn(2)
		w := c06NewWorld(c06Op{Op: "reset", Kind: "take", Dims: dims, MaxRef: maxRef, Cap: []c06Amt{}})
		rec.Reset(w.resetEvent())
		n := w.topo.NumCPUs
		for i := 0; i < per; i++ {
			avail := []int{}
			alloc := []c06CPU{}
			p := rng.Float64()
			for c := 0; c < n; c++ {
				ref := 0
				if rng.Float64() > p {
					ref = 1 + rng.Intn(maxRef)
				}
				if ref < maxRef {
					avail = append(avail, c)
				}
				if ref > 0 {
					alloc = append(alloc, c06CPU{CPU: c, Ref: ref, Excl: c06Pick(rng, c06Excls)})
				}
			}
			o := c06Op{Op: "take", Fn: "takeCPUs", Avail: avail, Alloc: alloc, N: 1 + rng.Intn(n), Policy: c06Pick(rng, c06Policies),
				Excl: c06Pick(rng, c06Excls), Strategy: c06Pick(rng, c06Strategies)}
			if rng.Intn(2) == 0 {
				o.Fn = "takePreferredCPUs"
				all := make([]int, n)
				for c := range all {
					all[c] = c
				}
				o.Pref = c06Subset(rng, all, 0.3)
			}
			ev := w.c06Exec(&o)
			st.observe(ev)
			rec.Emit(ev)
		}
	}
}

// random direct calls of tryBestToDistributeEvenly: up to 5 NUMA nodes, two resources at once, larger and
// fractional amounts
func c06RandomDists(rec *vu.Recorder, st *c06Stats, rng *rand.Rand, segs, per int) {
	modes := []string{"mem", "cpu", "cpubind", "fullpcpus"}
	for s := 0; s < segs; s++ {
		k := 2 + rng.Intn(4)
		w := c06NewWorld(c06Op{Op: "reset", Kind: "dist", Dims: []int{1, k, 2, 2}, MaxRef: 1, Cap: []c06Amt{}})
		rec.Reset(w.resetEvent())
		all := make([]int, k)
		for n := range all {
			all[n] = n
		}
		for i := 0; i < per; i++ {
			mode := c06Pick(rng, modes)
			free := make([]c06Amt, k)
			for n := 0; n < k; n++ {
				free[n] = c06Amt{Node: n, Mem: int64(rng.Intn(20))}
				switch mode {
				case "cpubind", "fullpcpus":
					free[n].CPU = int64(rng.Intn(9)) * 500
				default:
					free[n].CPU = int64(rng.Intn(4000))
				}
			}
			o := c06Op{Op: "dist", Mode: mode, Hint: c06Subset(rng, all, 0.6), Free: free}
			o.Req.Mem = int64(rng.Intn(40))
			switch mode {
			case "cpubind", "fullpcpus":
				o.Req.CPU = int64(rng.Intn(10)) * 1000
			default:
				o.Req.CPU = int64(rng.Intn(9000))
			}
			if mode == "mem" {
				o.Req.CPU = 0
			}
			ev := w.c06Exec(&o)
			st.observe(ev)
			rec.Emit(ev)
		}
	}
}

// shadow of what the generator was handed (steers generation only, never judges)
type c06Shadow struct {
	cpus map[string][]int
	numa map[string][]c06Amt
	excl map[string]string // exclusive policy of the last informer delivery
}

func (s *c06Shadow) refs() map[int]int {
	r := map[int]int{}
	for _, cs := range s.cpus {
		for _, c := range cs {
			r[c]++
		}
	}
	return r
}

func (s *c06Shadow) pods() []string {
	out := make([]string, 0, len(s.cpus))
	for p := range s.cpus {
		out = append(out, p)
	}
	sort.Strings(out)
	return out
}

// CPUs a legal informer delivery for pod may name: not reserved, below the sharing limit once the pod's own
// holding is released
func (s *c06Shadow) deliverable(w *c06World, pod string) []int {
	refs := s.refs()
	own := map[int]bool{}
	for _, c := range s.cpus[pod] {
		own[c] = true
	}
	out := []int{}
	for c := 0; c < w.topo.NumCPUs; c++ {
		r := refs[c]
		if own[c] {
			r--
		}
		if r < w.maxRef && !w.reserved.Contains(c) {
			out = append(out, c)
		}
	}
	return out
}

// one seeded random history of allocate / update / release on one node
func c06RandomHistory(rec *vu.Recorder, st *c06Stats, rng *rand.Rand, length int, idx int) {
	dims := c06HistDims[rng.Intn(len(c06HistDims))]
	topo := c06Topology(dims)
	nCPU, nNodes := topo.NumCPUs, topo.NumNodes
	allCPUs := make([]int, nCPU)
	for c := range allCPUs {
		allCPUs[c] = c
	}
	allNodes := make([]int, nNodes)
	for n := range allNodes {
		allNodes[n] = n
	}
	reset := c06Op{Op: "reset", Kind: "hist", Dims: dims, MaxRef: 1 + idx%2, Reserved: []int{}, Cap: []c06Amt{}}
	if vu.Thorough() && idx%7 == 6 {
		reset.MaxRef = 3
	}
	if rng.Intn(5) < 2 {
		reset.Reserved = c06Subset(rng, allCPUs, 0.15)
	}
	perNode := int64(topo.CPUsPerNode()) * 1000
	for n := 0; n < nNodes; n++ {
		a := c06Amt{Node: n, CPU: perNode, Mem: int64(rng.Intn(9))}
		if rng.Intn(4) == 0 {
			a.CPU = int64(rng.Intn(int(perNode) + 1)) // a node that reports less (or odd amounts of) CPU
		}
		reset.Cap = append(reset.Cap, a)
	}
	w := c06NewWorld(reset)
	rec.Reset(w.resetEvent())
	sh := &c06Shadow{cpus: map[string][]int{}, numa: map[string][]c06Amt{}, excl: map[string]string{}}
	podNames := []string{"p1", "p2", "p3", "p4", "p5", "p6"}
	emit := func(o *c06Op) vu.Ev {
		ev := w.c06Exec(o)
		st.observe(ev)
		rec.Emit(ev)
		for _, x := range w.c19Extra {
			rec.Emit(x)
		}
		w.c19Extra = nil
		return ev
	}
	randNuma := func() []c06Amt {
		out := []c06Amt{}
		for _, n := range c06Subset(rng, allNodes, 0.5) {
			out = append(out, c06Amt{Node: n, CPU: int64(rng.Intn(3)) * 500, Mem: int64(rng.Intn(4))})
		}
		return out
	}
	for i := 0; i < length; i++ {
		if c06Restarts && rng.Intn(10) == 0 {
			// C19: the scheduler restarts; the history goes on against the rebuilt cache
			for k := 1 + rng.Intn(3); k > 0; k-- { // each restart is one chance for the rebuild's first-touch races
				emit(&c06Op{Op: "restart", Variant: rng.Intn(1 << 16)})
			}
			for _, p := range sh.pods() { // what the fresh cache does not restore: allocations that hold nothing
				if len(sh.cpus[p]) == 0 && len(sh.numa[p]) == 0 {
					delete(sh.cpus, p)
					delete(sh.numa, p)
				}
			}
			continue
		}
		x := rng.Intn(100)
		switch {
		case x < 55: // allocate (committed as Reserve does, or a dry run with credits for CPUs of other pods)
			o := c06Op{Op: "alloc", Pod: c06Pick(rng, podNames), Policy: c06Pick(rng, c06Policies), Excl: c06Pick(rng, c06Excls),
				Strategy: c06Pick(rng, c06Strategies), Commit: true, Pref: []int{}, Pre: []int{}, Hint: []int{}}
			kind := rng.Intn(4) // 0,1: CPU set only; 2: NUMA hint only; 3: both
			if kind != 2 {
				o.Bind = true
				o.N = 1 + rng.Intn(nCPU/2+1)
				if rng.Intn(3) == 0 {
					o.N = 1 + rng.Intn(nCPU)
				}
				o.Required = rng.Intn(5) < 2
				o.Req.CPU = int64(o.N) * 1000
			}
			if kind >= 2 {
				o.HasHint = true
				o.Hint = c06Subset(rng, allNodes, 0.6) // any subset of node ids
				o.Req.Mem = int64(rng.Intn(10))
				if !o.Bind {
					o.Req.CPU = int64(rng.Intn(int(perNode)*nNodes/2 + 1))
					if rng.Intn(2) == 0 {
						o.Req.CPU = o.Req.CPU / 500 * 500
					}
					o.N = int(o.Req.CPU / 1000)
				}
				o.Ext = rng.Intn(6) == 0
			}
			if own := sh.cpus[o.Pod]; len(own) > 0 && rng.Intn(2) == 0 {
				o.Pref = append([]int{}, own...) // the pod's own CPUs (re-allocation)
			}
			if rng.Intn(6) == 0 { // dry run of a preemption: credits for CPUs held by others
				o.Commit = false
				o.Pref = c06Subset(rng, allCPUs, 0.3)
				o.Pre = c06Subset(rng, allCPUs, 0.3)
			}
			ev := emit(&o)
			if r, ok := ev["result"].(vu.Ev); ok && r["ok"].(bool) && o.Commit {
				sh.cpus[o.Pod] = r["cpus"].([]int)
				sh.numa[o.Pod] = r["numa"].([]c06Amt)
			}
		case x < 72: // informer delivery
			o := c06Op{Op: "update", Pod: c06Pick(rng, podNames), Excl: c06Pick(rng, c06Excls)}
			if _, known := sh.cpus[o.Pod]; known && rng.Intn(3) == 0 {
				o.Cpus, o.Numa = sh.cpus[o.Pod], sh.numa[o.Pod] // the same allocation again
			} else if known && len(sh.numa[o.Pod]) > 0 && rng.Intn(2) == 0 {
				// same CPUs, same policy, same NUMA nodes - only the per-NUMA amounts change (resize in place)
				o.Cpus = sh.cpus[o.Pod]
				if e, ok := sh.excl[o.Pod]; ok {
					o.Excl = e
				}
				for _, a := range sh.numa[o.Pod] {
					o.Numa = append(o.Numa, c06Amt{Node: a.Node, CPU: int64(rng.Intn(3)) * 500, Mem: int64(rng.Intn(4))})
				}
			} else {
				o.Cpus = c06Subset(rng, sh.deliverable(w, o.Pod), 0.15+0.5*rng.Float64())
				o.Numa = randNuma()
			}
			emit(&o)
			sh.cpus[o.Pod], sh.numa[o.Pod] = c06Ints(o.Cpus), c06Amts(o.Numa)
			sh.excl[o.Pod] = o.Excl
		default: // release (sometimes a pod the node does not know)
			o := c06Op{Op: "release", Pod: c06Pick(rng, podNames), NoTopo: rng.Intn(4) == 0}
			if live := sh.pods(); len(live) > 0 && rng.Intn(4) != 0 {
				o.Pod = live[rng.Intn(len(live))]
			} else if rng.Intn(2) == 0 {
				o.Pod = "ghost"
			}
			emit(&o)
			delete(sh.cpus, o.Pod)
			delete(sh.numa, o.Pod)
		}
	}
}

func TestVerifC06(t *testing.T) {
	if !vu.Enabled() {
		t.Skip("verification harness: VERIF_OUT not set")
	}
	rec := vu.NewRecorder("")
	defer rec.Close()
	if p := vu.ReplayPath(); p != "" {
		for _, raw := range vu.ReadScripts(p) {
			var script []c06Op
			if err := json.Unmarshal(raw, &script); err != nil {
				t.Fatal(err)
			}
			c06RunScript(rec, script)
		}
		return
	}
	st := &c06Stats{m: map[string]int{}}
	divisible := []string{"mem", "cpu"}
	whole := []string{"cpubind", "fullpcpus"}
	if vu.Thorough() {
		c06DistTables(rec, st, 3, append(divisible, whole...), 1)
		c06DistTables(rec, st, 4, append(divisible, whole...), 1)
		for _, d := range [][]int{{1, 2, 2, 2}, {2, 2, 2, 1}, {1, 1, 4, 2}, {2, 1, 2, 2}} {
			c06TakeTables(rec, st, d, true, 1)
			c06PolicyTables(rec, st, d)
		}
		c06PolicyTables(rec, st, []int{2, 2, 1, 2})
		c06RandomTakes(rec, st, vu.Rand(2), 1500, 12)
		c06RandomDists(rec, st, vu.Rand(3), 1500, 12)
		rng := vu.Rand(1)
		for i := 0; i < 2500; i++ {
			c06RandomHistory(rec, st, rng, 40, i)
		}
	} else {
		c06DistTables(rec, st, 3, divisible, 1)
		c06DistTables(rec, st, 3, whole, 4)
		c06DistTables(rec, st, 4, divisible, 12)
		c06DistTables(rec, st, 4, whole, 50)
		c06TakeTables(rec, st, []int{1, 2, 2, 2}, false, 1)
		c06TakeTables(rec, st, []int{2, 1, 2, 2}, false, 1)
		for _, d := range [][]int{{1, 2, 2, 2}, {2, 2, 2, 1}, {1, 1, 4, 2}} {
			c06TakeTables(rec, st, d, true, 16)
		}
		c06PolicyTables(rec, st, []int{1, 2, 2, 2})
		c06PolicyTables(rec, st, []int{2, 2, 2, 1})
		c06RandomTakes(rec, st, vu.Rand(2), 150, 10)
		c06RandomDists(rec, st, vu.Rand(3), 150, 10)
		rng := vu.Rand(1)
		for i := 0; i < 200; i++ {
			c06RandomHistory(rec, st, rng, 30, i)
		}
	}
	keys := make([]string, 0, len(st.m))
	for k := range st.m {
		keys = append(keys, k)
	}
	sort.Strings(keys)
	stats := ""
	for _, k := range keys {
		stats += fmt.Sprintf("%s: %d\n", k, st.m[k])
	}
	// non-vacuity counters for the human reader (not an input of the verdict)
	_ = os.WriteFile(os.Getenv("VERIF_OUT")+".stats", []byte(stats), 0o644)
	t.Logf("C06: %d segments, %d events", rec.Segments(), rec.Events())
}
