package deviceshare

// Verification harness for C07, plugin level (injected by `go test -overlay`; builds on zz_verif_c07_test.go).
//
// Whole scheduling cycles are run through the REAL Plugin (built the way the package's unit tests build it:
// newPluginTestSuit + proxyNew) on TWO nodes:
//
//	begin         Plugin.PreFilter on a fresh cycle state (optionally: the pod carries a device-allocated annotation and
//	              the deviceshare scheduling hint is set = a DESIGNATED allocation)
//	whatifRemove  Plugin.PreFilterExtensions().RemovePod  on the node's COPY of the cycle state (the preemption dry-run and
//	whatifAdd     Plugin.PreFilterExtensions().AddPod      the nominated-pods pass of the scheduler work on state.Clone())
//	filter        Plugin.Filter on a node (on the cycle state, or - whatif - on the node's copy)
//	reserve       Plugin.Reserve on a node that passed Filter (+ the framework's Unreserve when Reserve fails)
//	unreserve     Plugin.Unreserve (a later plugin / permit / bind failed)
//	bind          Plugin.PreBind writes the allocation, the informer delivers the bound pod
//	end           the cycle is given up (no node fits, pod gone); nothing is called
//
// with informer events (inventory refresh / device turning unhealthy, pods bound by another scheduler, deletes,
// terminations, duplicates) anywhere in between - in particular between Filter and Reserve.
// After EVERY step the projection (c07Project) of EVERY node's ledgers is logged: one history is written as one trace
// segment per node (reset event {"view": node}); every event echoes the whole operation, obs is the view's node.
// There is no oracle here; TLC decides (specs/Device/DeviceTrace.tla, CycleSpec).

import (
	"context"
	"encoding/json"
	"fmt"
	"math/rand"
	"sort"
	"strings"
	"testing"

	corev1 "k8s.io/api/core/v1"
	metav1 "k8s.io/apimachinery/pkg/apis/meta/v1"
	"k8s.io/apimachinery/pkg/types"
	"k8s.io/client-go/tools/cache"
	fwktype "k8s.io/kube-scheduler/framework"
	"k8s.io/kubernetes/pkg/scheduler/framework"

	apiext "github.com/koordinator-sh/koordinator/apis/extension"
	schedulingv1alpha1 "github.com/koordinator-sh/koordinator/apis/scheduling/v1alpha1"
	"github.com/koordinator-sh/koordinator/pkg/scheduler/frameworkext/hinter"
	vu "github.com/koordinator-sh/koordinator/pkg/verifutil"
)

var c07pNodes = []string{"n1", "n2"}

var (
	c07pT      *testing.T
	c07pPlugin *Plugin
	c07pSuit   *pluginTestSuit
)

// one Plugin for the whole run (newPluginTestSuit + proxyNew); every history gets a fresh nodeDeviceCache
func c07pGetPlugin() *Plugin {
	if c07pPlugin == nil {
		var nodes []*corev1.Node
		for _, n := range c07pNodes {
			nodes = append(nodes, &corev1.Node{ObjectMeta: metav1.ObjectMeta{Name: n}})
		}
		c07pSuit = newPluginTestSuit(c07pT, nodes)
		p, err := c07pSuit.proxyNew(context.TODO(), getDefaultArgs(), c07pSuit.Framework)
		if err != nil {
			panic("c07: " + err.Error())
		}
		c07pPlugin = p.(*Plugin)
	}
	return c07pPlugin
}

// PreBind looks the Device CR up in the device informer's store (fillID): hold there what the API server holds
func c07pSetDeviceCR(node string, d *schedulingv1alpha1.Device) {
	idx := c07pSuit.koordinatorSharedInformerFactory.Scheduling().V1alpha1().Devices().Informer().GetIndexer()
	if d == nil {
		d = &schedulingv1alpha1.Device{ObjectMeta: metav1.ObjectMeta{Name: node}}
	}
	if err := idx.Update(d); err != nil {
		panic("c07: " + err.Error())
	}
}

// ---- environment + real plugin ------------------------------------------------------------------------------

type c07pCycle struct {
	pod      *corev1.Pod                   // the object the scheduler works on (requests, designated annotation)
	cs       fwktype.CycleState            // the cycle state PreFilter / Filter / Reserve / Unreserve / PreBind share
	whatif   map[string]fwktype.CycleState // per node: the copy the what-if steps work on
	removed  map[string]map[string]bool    // steering: node -> victims currently removed in the node's copy
	reqs     c07Reqs                       // what the pod asks for (echoed with reserve)
	required c07Minors                     // the devices it may use (designated minors; empty: any)
	filtered []string                      // steering: nodes Filter was run on / passed
	passed   []string
	node     string // the node Reserve committed on ("": not reserved yet)
}

type c07pWorld struct {
	plg    *Plugin
	cache  *nodeDeviceCache
	device map[string]*schedulingv1alpha1.Device // Device CR last delivered, per node
	api    map[string]*corev1.Pod                // pod object last delivered by the pod informer
	gone   map[string]*corev1.Pod                // last object of a deleted pod
	cyc    map[string]*c07pCycle                 // pod -> scheduling cycle in progress / holding a reservation
	inc    int
}

func c07pNewWorld() *c07pWorld {
	w := &c07pWorld{plg: c07pGetPlugin(), cache: newNodeDeviceCache(), device: map[string]*schedulingv1alpha1.Device{},
		api: map[string]*corev1.Pod{}, gone: map[string]*corev1.Pod{}, cyc: map[string]*c07pCycle{}}
	w.plg.nodeDeviceCache = w.cache
	for _, n := range c07pNodes {
		c07pSetDeviceCR(n, nil)
	}
	return w
}

func (w *c07pWorld) obs(node string) vu.Ev {
	sum, ok := w.cache.getNodeDeviceSummary(node)
	if !ok {
		sum = NewNodeDeviceSummary()
	}
	return c07Project(sum)
}

func (w *c07pWorld) nodeInfo(node string) fwktype.NodeInfo {
	ni, err := w.plg.handle.SnapshotSharedLister().NodeInfos().Get(node)
	if err != nil {
		panic("c07: " + err.Error())
	}
	return ni
}

func (w *c07pWorld) newPod(name string) *corev1.Pod {
	w.inc++
	return &corev1.Pod{
		ObjectMeta: metav1.ObjectMeta{Namespace: c07NS, Name: name, UID: types.UID(fmt.Sprintf("%s-%d", name, w.inc))},
		Spec:       corev1.PodSpec{Containers: []corev1.Container{{Name: "c"}}},
		Status:     corev1.PodStatus{Phase: corev1.PodPending},
	}
}

func c07pKnownNode(n string) bool { return n == c07pNodes[0] || n == c07pNodes[1] }

func c07pMinorsOf(a c07Alloc) c07Minors {
	out := c07Minors{}
	for t, gs := range a {
		ms := []int{}
		for _, g := range gs {
			ms = append(ms, g.M)
		}
		sort.Ints(ms)
		out[t] = ms
	}
	return out
}

func c07pStatus(st *fwktype.Status) vu.Ev {
	return vu.Ev{"ok": st.IsSuccess(), "reason": st.Message()}
}

// apply executes one operation through the real plugin / the real informer handlers. The returned event echoes
// op + arguments (a trace is also a script) plus the node the operation concerns; applied=false: not executable here.
func (w *c07pWorld) apply(o *c07Op) (vu.Ev, bool) {
	ctx := context.TODO()
	ev := vu.Ev{"op": o.Op}
	if o.Pod != "" {
		ev["pod"] = o.Pod
	}
	cur := w.api[o.Pod]
	assigned := cur != nil && cur.Spec.NodeName != ""
	running := assigned && cur.Status.Phase != corev1.PodSucceeded && cur.Status.Phase != corev1.PodFailed
	cyc := w.cyc[o.Pod]
	onNode := func() { // a pod event concerns the node the delivered object is assigned to
		if assigned {
			ev["node"] = cur.Spec.NodeName
		}
	}
	switch o.Op {
	// ---------------------------------------------------------------- device informer
	case "inventory":
		if !c07pKnownNode(o.Node) {
			return nil, false
		}
		ds := o.Devices
		if ds == nil {
			ds = []c07Dev{}
		}
		ev["node"], ev["devices"], ev["topo"] = o.Node, ds, o.Topo
		d := c07Device(o.Devices, o.Topo)
		d.Name = o.Node
		if w.device[o.Node] == nil {
			w.cache.onDeviceAdd(d)
		} else {
			w.cache.onDeviceUpdate(w.device[o.Node], d)
		}
		w.device[o.Node] = d
		c07pSetDeviceCR(o.Node, d)
	case "invalidate":
		if !c07pKnownNode(o.Node) || w.device[o.Node] == nil {
			return nil, false
		}
		ev["node"] = o.Node
		w.cache.onDeviceDelete(w.device[o.Node])
		delete(w.device, o.Node)
		c07pSetDeviceCR(o.Node, nil)
	// ---------------------------------------------------------------- pod informer
	case "create":
		if cur != nil || cyc != nil {
			return nil, false
		}
		p := w.newPod(o.Pod)
		w.cache.onPodAdd(p)
		w.api[o.Pod] = p
	case "add": // a pod bound by another scheduler instance / before a fail-over appears
		if cur != nil || cyc != nil || !c07pKnownNode(o.Node) {
			return nil, false
		}
		ev["node"], ev["alloc"] = o.Node, o.Alloc
		p := w.newPod(o.Pod)
		p.Spec.NodeName = o.Node
		p.Status.Phase = corev1.PodRunning
		if err := apiext.SetDeviceAllocations(p, c07ToAllocations(o.Alloc)); err != nil {
			panic(err)
		}
		w.cache.onPodAdd(p)
		w.api[o.Pod] = p
	case "annotate":
		if !running {
			return nil, false
		}
		onNode()
		ev["alloc"] = o.Alloc
		np := cur.DeepCopy()
		if err := apiext.SetDeviceAllocations(np, c07ToAllocations(o.Alloc)); err != nil {
			panic(err)
		}
		w.cache.onPodUpdate(cur, np)
		w.api[o.Pod] = np
	case "terminate":
		if !running {
			return nil, false
		}
		onNode()
		ph := corev1.PodSucceeded
		if o.Phase == "Failed" {
			ph = corev1.PodFailed
		}
		ev["phase"] = string(ph)
		np := cur.DeepCopy()
		np.Status.Phase = ph
		w.cache.onPodUpdate(cur, np)
		w.api[o.Pod] = np
	case "unassign":
		if !assigned {
			return nil, false
		}
		onNode()
		np := cur.DeepCopy()
		np.Spec.NodeName = ""
		w.cache.onPodUpdate(cur, np)
		w.api[o.Pod] = np
	case "touch":
		if cur == nil {
			return nil, false
		}
		onNode()
		np := cur.DeepCopy()
		np.ResourceVersion = fmt.Sprint(w.inc)
		w.inc++
		w.cache.onPodUpdate(cur, np)
		w.api[o.Pod] = np
	case "readd":
		if cur == nil {
			return nil, false
		}
		onNode()
		w.cache.onPodAdd(cur)
	case "delete":
		if cur == nil {
			return nil, false
		}
		onNode()
		ev["tombstone"] = o.Tombstone
		if o.Tombstone {
			w.cache.onPodDelete(cache.DeletedFinalStateUnknown{Key: c07NS + "/" + o.Pod, Obj: cur})
		} else {
			w.cache.onPodDelete(cur)
		}
		w.gone[o.Pod] = cur
		delete(w.api, o.Pod)
	case "redelete":
		if cur != nil || cyc != nil || w.gone[o.Pod] == nil {
			return nil, false
		}
		if n := w.gone[o.Pod].Spec.NodeName; n != "" {
			ev["node"] = n
		}
		w.cache.onPodDelete(w.gone[o.Pod])
	// ---------------------------------------------------------------- one scheduling cycle
	case "begin": // PreFilter
		if cur == nil || assigned || cyc != nil {
			return nil, false
		}
		ev["reqs"], ev["designated"], ev["hint"] = o.Reqs, c07pNonNilAlloc(o.Designated), o.Hint
		p := cur.DeepCopy()
		p.Spec.Containers[0].Resources.Requests = c07PodRequests(o.Reqs)
		p.Spec.Containers[0].Resources.Limits = c07PodRequests(o.Reqs)
		if len(o.Designated) > 0 {
			if err := apiext.SetDeviceAllocations(p, c07ToAllocations(o.Designated)); err != nil {
				panic(err)
			}
		}
		w.cache.onPodUpdate(cur, p) // the unassigned object as the API server holds it
		w.api[o.Pod] = p
		c := &c07pCycle{pod: p, cs: framework.NewCycleState(), whatif: map[string]fwktype.CycleState{},
			removed: map[string]map[string]bool{}, reqs: o.Reqs, required: c07Minors{}}
		if o.Hint {
			hinter.SetSchedulingHintState(c.cs, &hinter.SchedulingHintStateData{Extensions: map[string]interface{}{Name: nil}})
			c.required = c07pMinorsOf(o.Designated)
		}
		_, st := w.plg.PreFilter(ctx, c.cs, p, nil)
		if !st.IsSuccess() {
			panic(fmt.Sprintf("c07: harness built a request the plugin does not accept: %v %v: %v", o.Reqs, o.Designated, st.Message()))
		}
		ev["result"] = c07pStatus(st)
		w.cyc[o.Pod] = c
	case "whatifRemove", "whatifAdd": // preemption dry-run / nominated pods: on the node's copy of the cycle state
		if cyc == nil || cyc.node != "" || !c07pKnownNode(o.Node) {
			return nil, false
		}
		victim := w.api[o.Victim]
		if victim == nil && w.cyc[o.Victim] != nil {
			victim = w.cyc[o.Victim].pod
		}
		if victim == nil || o.Victim == o.Pod {
			return nil, false
		}
		ev["node"], ev["victim"] = o.Node, o.Victim
		if cyc.whatif[o.Node] == nil {
			cyc.whatif[o.Node] = cyc.cs.Clone()
			cyc.removed[o.Node] = map[string]bool{}
		}
		pi, err := framework.NewPodInfo(victim)
		if err != nil {
			panic("c07: " + err.Error())
		}
		var st *fwktype.Status
		if o.Op == "whatifRemove" {
			st = w.plg.PreFilterExtensions().RemovePod(ctx, cyc.whatif[o.Node], cyc.pod, pi, w.nodeInfo(o.Node))
			cyc.removed[o.Node][o.Victim] = true
		} else {
			st = w.plg.PreFilterExtensions().AddPod(ctx, cyc.whatif[o.Node], cyc.pod, pi, w.nodeInfo(o.Node))
			delete(cyc.removed[o.Node], o.Victim)
		}
		ev["result"] = c07pStatus(st)
	case "filter":
		if cyc == nil || cyc.node != "" || !c07pKnownNode(o.Node) || (o.Whatif && cyc.whatif[o.Node] == nil) {
			return nil, false
		}
		ev["node"], ev["whatif"] = o.Node, o.Whatif
		cs := cyc.cs
		if o.Whatif {
			cs = cyc.whatif[o.Node]
		}
		st := w.plg.Filter(ctx, cs, cyc.pod, w.nodeInfo(o.Node))
		ev["result"] = c07pStatus(st)
		if !o.Whatif {
			cyc.filtered = append(cyc.filtered, o.Node)
			if st.IsSuccess() {
				cyc.passed = append(cyc.passed, o.Node)
			}
		}
	case "reserve":
		if cyc == nil || cyc.node != "" || cur == nil || !c07pKnownNode(o.Node) {
			return nil, false
		}
		ev["node"], ev["reqs"], ev["required"] = o.Node, cyc.reqs, cyc.required
		// as kube-scheduler does it: the pod is assumed on the node first (a copy with spec.nodeName set), and it is that
		// copy the reserve plugins, Unreserve and PreBind are called with
		cyc.pod = cyc.pod.DeepCopy()
		cyc.pod.Spec.NodeName = o.Node
		st := w.plg.Reserve(ctx, cyc.cs, cyc.pod, o.Node)
		var result apiext.DeviceAllocations
		if s, _ := getPreFilterState(cyc.cs); s != nil && st.IsSuccess() {
			result = s.allocationResult
		}
		ok := st.IsSuccess() && len(result) > 0
		ev["result"] = vu.Ev{"ok": ok, "alloc": c07FromAllocations(result), "reason": st.Message()}
		if ok {
			cyc.node = o.Node
		} else { // the framework runs Unreserve of every reserve plugin when Reserve failed; the cycle is over
			w.plg.Unreserve(ctx, cyc.cs, cyc.pod, o.Node)
			delete(w.cyc, o.Pod)
		}
	case "unreserve": // a later reserve plugin / permit / the bind failed
		if cyc == nil || cyc.node == "" {
			return nil, false
		}
		ev["node"] = cyc.node
		w.plg.Unreserve(ctx, cyc.cs, cyc.pod, cyc.node)
		delete(w.cyc, o.Pod)
	case "bind": // PreBind writes the allocation; the pod is bound; the informer delivers the update
		if cyc == nil || cyc.node == "" || cur == nil || assigned {
			return nil, false
		}
		ev["node"] = cyc.node
		np := cur.DeepCopy()
		np.Spec.NodeName = cyc.node
		if st := w.plg.PreBind(ctx, cyc.cs, np, cyc.node); !st.IsSuccess() {
			panic("c07: PreBind: " + st.Message())
		}
		np.Spec.NodeName = cyc.node
		np.Status.Phase = corev1.PodRunning
		w.cache.onPodUpdate(cur, np)
		w.api[o.Pod] = np
		delete(w.cyc, o.Pod)
	case "end": // the cycle is given up before Reserve
		if cyc == nil || cyc.node != "" {
			return nil, false
		}
		delete(w.cyc, o.Pod)
	default:
		panic("c07: unknown op " + o.Op)
	}
	return ev, true
}

func c07pNonNilAlloc(a c07Alloc) c07Alloc {
	if a == nil {
		return c07Alloc{}
	}
	return a
}

// ---- recording: one segment per (history, node) -----------------------------------------------------------------

type c07pRec struct {
	rec *vu.Recorder
	buf map[string][]vu.Ev
}

func c07pNewRec(rec *vu.Recorder) *c07pRec { return &c07pRec{rec: rec, buf: map[string][]vu.Ev{}} }

func (r *c07pRec) emit(w *c07pWorld, ev vu.Ev) {
	for _, n := range c07pNodes {
		e := vu.Ev{}
		for k, v := range ev {
			e[k] = v
		}
		if w != nil {
			e["obs"] = w.obs(n)
		}
		r.buf[n] = append(r.buf[n], e)
	}
}

func (r *c07pRec) flush() {
	for _, n := range c07pNodes {
		r.rec.Reset(vu.Ev{"view": n})
		for _, e := range r.buf[n] {
			r.rec.Emit(e)
		}
	}
	r.buf = map[string][]vu.Ev{}
}

// step executes one op and logs it in every view; false: the history ends here (panic in the code under test)
func (r *c07pRec) step(w *c07pWorld, o *c07Op, stats map[string]int) (vu.Ev, bool, bool) {
	var ev vu.Ev
	var ok bool
	panicked, msg := vu.Protect(func() { ev, ok = w.apply(o) })
	if panicked {
		if strings.HasPrefix(msg, "c07:") {
			panic(msg) // harness trouble, never a verdict
		}
		r.emit(nil, vu.Ev{"op": "panic", "in": o.Op, "msg": msg})
		return nil, false, false
	}
	if !ok {
		stats["skipped"]++
		return nil, false, true
	}
	r.emit(w, ev)
	c07pCount(stats, ev)
	return ev, true, true
}

func c07pCount(stats map[string]int, ev vu.Ev) {
	op := ev["op"].(string)
	stats[op]++
	if res, has := ev["result"].(vu.Ev); has {
		if res["ok"].(bool) {
			stats[op+".ok"]++
		} else {
			stats[op+".fail"]++
		}
	}
	if op == "filter" && ev["whatif"].(bool) {
		stats["filter.whatif"]++
	}
	if op == "begin" && ev["hint"].(bool) && len(ev["designated"].(c07Alloc)) > 0 {
		stats["begin.designated"]++
	}
	if op == "reserve" && len(ev["required"].(c07Minors)) > 0 {
		stats["reserve.designated"]++
		if ev["result"].(vu.Ev)["ok"].(bool) {
			stats["reserve.designated.ok"]++
		}
	}
}

// run one script (replay) as one history
func c07pRun(rec *vu.Recorder, script []c07Op, stats map[string]int) {
	w := c07pNewWorld()
	vr := c07pNewRec(rec)
	defer vr.flush()
	for i := range script {
		if script[i].Op == "reset" || script[i].Op == "panic" {
			continue
		}
		if _, _, alive := vr.step(w, &script[i], stats); !alive {
			return
		}
	}
}

// ---- seeded random generator (a shadow of the ENVIRONMENT steers generation; it never judges) -------------------

type c07pGen struct {
	rng    *rand.Rand
	w      *c07pWorld
	vr     *c07pRec
	stats  map[string]int
	pods   []string
	types  []string
	nminor int
	topo   bool
	gpuMem []int64 // memory size of GPU minor m (the same machine model on both nodes)
	active string  // the pod whose scheduling cycle is in progress (the scheduler runs one scheduling cycle at a time)
	since  int     // events since the active cycle's last Filter (steering: events between Filter and Reserve)
	sweep  string  // the node whose pods a what-if is removing one after the other (as the preemption dry-run does)
	left   int
}

func (g *c07pGen) devRes(t string, m int) map[string]int64 {
	if t == "gpu" {
		return map[string]int64{"core": 100, "ratio": 100, "mem": g.gpuMem[m]}
	}
	full := int64(100)
	if g.rng.Intn(8) == 0 {
		full = 50
	}
	return map[string]int64{t: full}
}

func (g *c07pGen) inventory(node string, calm bool) c07Op {
	o := c07Op{Op: "inventory", Node: node, Topo: g.topo, Devices: []c07Dev{}}
	for _, t := range g.types {
		if !calm && g.rng.Intn(14) == 0 {
			continue
		}
		for m := 0; m < g.nminor; m++ {
			if !calm && g.rng.Intn(10) == 0 {
				continue
			}
			o.Devices = append(o.Devices, c07Dev{T: t, M: m, H: calm || g.rng.Intn(5) != 0, Res: g.devRes(t, m)})
		}
	}
	return o
}

// one device of the node turns unhealthy, everything else as reported last (the typical refresh between Filter and Reserve)
func (g *c07pGen) unhealthy(node string) c07Op {
	d := g.w.device[node]
	o := c07Op{Op: "inventory", Node: node, Topo: g.topo, Devices: []c07Dev{}}
	if d == nil || len(d.Spec.Devices) == 0 {
		return g.inventory(node, false)
	}
	hit := g.rng.Intn(len(d.Spec.Devices))
	for i, x := range d.Spec.Devices {
		o.Devices = append(o.Devices, c07Dev{T: string(x.Type), M: int(*x.Minor), H: x.Health && i != hit, Res: c07Ints(x.Resources)})
	}
	return o
}

func (g *c07pGen) freeOf(node, t string, m int) map[string]int64 {
	sum, ok := g.w.cache.getNodeDeviceSummary(node)
	if !ok {
		return nil
	}
	return c07Ints(sum.DeviceFreeDetail[schedulingv1alpha1.DeviceType(t)][m])
}

func (g *c07pGen) amounts(t string) map[string]int64 {
	if t == "gpu" {
		p := c07GPUMenu[g.rng.Intn(len(c07GPUMenu))]
		return map[string]int64{"core": p[0], "ratio": p[1]}
	}
	return map[string]int64{t: []int64{25, 50, 50, 100}[g.rng.Intn(4)]}
}

func (g *c07pGen) request(t string) c07Req {
	cnt := 1
	if g.rng.Intn(4) == 0 {
		cnt = 2 + g.rng.Intn(2)
	}
	if t == "gpu" {
		switch g.rng.Intn(10) {
		case 0:
			return c07Req{Req: map[string]int64{"core": []int64{10, 25, 50}[g.rng.Intn(3)], "mem": 100 + g.rng.Int63n(5000)}, Cnt: cnt}
		case 1:
			return c07Req{Req: map[string]int64{"ratio": []int64{10, 25, 50}[g.rng.Intn(3)]}, Cnt: 1}
		}
		return c07Req{Req: g.amounts(t), Cnt: cnt}
	}
	r := c07Req{Req: g.amounts(t), Cnt: cnt}
	if cnt > 1 {
		r.Req = map[string]int64{t: 100}
	}
	return r
}

func (g *c07pGen) begin(pod string) c07Op {
	o := c07Op{Op: "begin", Pod: pod, Reqs: c07Reqs{}, Designated: c07Alloc{}}
	t := g.types[g.rng.Intn(len(g.types))]
	if g.rng.Intn(3) == 0 { // a designated allocation: the minors and the amounts the pod asks for on each
		cnt := 1 + g.rng.Intn(4)/3
		amt := g.amounts(t)
		if cnt > 1 && t != "gpu" {
			amt = map[string]int64{t: 100}
		}
		o.Reqs[t] = c07Req{Req: amt, Cnt: cnt}
		// (the annotation is a recorded allocation: exactly one entry per device asked for)
		for _, m := range g.rng.Perm(g.nminor)[:cnt] {
			res := map[string]int64{}
			for k, v := range amt {
				res[k] = v
			}
			o.Designated[t] = append(o.Designated[t], c07Grant{M: m, Res: res})
		}
		sort.Slice(o.Designated[t], func(i, j int) bool { return o.Designated[t][i].M < o.Designated[t][j].M })
		o.Hint = g.rng.Intn(8) != 0 // without the hint the annotation is ignored
		return o
	}
	o.Reqs[t] = g.request(t)
	if len(g.types) > 1 && g.rng.Intn(8) == 0 {
		if t2 := g.types[g.rng.Intn(len(g.types))]; t2 != t {
			o.Reqs[t2] = g.request(t2)
		}
	}
	return o
}

// an allocation as another scheduler may have made it: mostly one that fits what the cache reports free (steering only)
func (g *c07pGen) foreign(node string) c07Alloc {
	a := c07Alloc{}
	t := g.types[g.rng.Intn(len(g.types))]
	n := 1 + g.rng.Intn(3)/2
	for _, m := range g.rng.Perm(g.nminor) {
		if len(a[t]) == n {
			break
		}
		res := g.amounts(t)
		if t == "gpu" {
			res["mem"] = res["ratio"] * g.gpuMem[m] / 100
		}
		free := g.freeOf(node, t, m)
		fits := free != nil
		for k, v := range res {
			if free[k] < v {
				fits = false
			}
		}
		if fits || g.rng.Intn(6) == 0 {
			a[t] = append(a[t], c07Grant{M: m, Res: res})
		}
	}
	if len(a[t]) == 0 {
		delete(a, t)
	}
	return a
}

// pods the node's allocateSet records (steering: the victims a what-if can remove)
func (g *c07pGen) holders(node, except string) []string {
	seen := map[string]bool{}
	for _, row := range g.w.obs(node)["alloc"].([]vu.Ev) {
		seen[row["pod"].(string)] = true
	}
	delete(seen, except)
	out := make([]string, 0, len(seen))
	for p := range seen {
		out = append(out, p)
	}
	sort.Strings(out)
	return out
}

func (g *c07pGen) envOp() c07Op {
	node := c07pNodes[g.rng.Intn(len(c07pNodes))]
	k := g.rng.Intn(100)
	switch {
	case k < 6:
		return g.inventory(node, false)
	case k < 14:
		return g.unhealthy(node)
	case k < 20:
		return g.inventory(node, true) // everything healthy again
	case k < 22:
		return c07Op{Op: "invalidate", Node: node}
	}
	pod := g.pods[g.rng.Intn(len(g.pods))]
	for i := 0; i < 4 && (pod == g.active || (g.w.cyc[pod] != nil && g.rng.Intn(3) != 0)); i++ {
		pod = g.pods[g.rng.Intn(len(g.pods))]
	}
	cur := g.w.api[pod]
	assigned := cur != nil && cur.Spec.NodeName != ""
	live := assigned && cur.Status.Phase != corev1.PodSucceeded && cur.Status.Phase != corev1.PodFailed
	switch {
	case g.w.cyc[pod] != nil: // in a cycle: the unassigned object may be touched or deleted
		if k < 80 {
			return c07Op{Op: "touch", Pod: pod}
		}
		return c07Op{Op: "delete", Pod: pod, Tombstone: g.rng.Intn(3) == 0}
	case cur == nil:
		if k < 30 && g.w.gone[pod] != nil {
			return c07Op{Op: "redelete", Pod: pod}
		}
		if k < 85 {
			return c07Op{Op: "add", Pod: pod, Node: node, Alloc: g.foreign(node)}
		}
		return c07Op{Op: "create", Pod: pod}
	case !assigned:
		return c07Op{Op: []string{"touch", "readd", "delete"}[g.rng.Intn(3)], Pod: pod, Tombstone: g.rng.Intn(3) == 0}
	case live:
		switch {
		case k < 35:
			return c07Op{Op: []string{"touch", "readd"}[g.rng.Intn(2)], Pod: pod}
		case k < 45:
			return c07Op{Op: "annotate", Pod: pod, Alloc: g.foreign(cur.Spec.NodeName)}
		case k < 65:
			return c07Op{Op: "terminate", Pod: pod, Phase: []string{"Succeeded", "Failed"}[g.rng.Intn(2)]}
		case k < 70:
			return c07Op{Op: "unassign", Pod: pod}
		default:
			return c07Op{Op: "delete", Pod: pod, Tombstone: g.rng.Intn(3) == 0}
		}
	default:
		if k < 50 {
			return c07Op{Op: []string{"touch", "readd"}[g.rng.Intn(2)], Pod: pod}
		}
		return c07Op{Op: "delete", Pod: pod, Tombstone: g.rng.Intn(3) == 0}
	}
}

// the next step of the active scheduling cycle
func (g *c07pGen) cycleOp() c07Op {
	pod := g.active
	c := g.w.cyc[pod]
	if g.w.api[pod] == nil { // the pod went away: the scheduler gives the cycle up
		return c07Op{Op: "end", Pod: pod}
	}
	var unfiltered []string
	for _, n := range c07pNodes {
		seen := false
		for _, f := range c.filtered {
			seen = seen || f == n
		}
		if !seen {
			unfiltered = append(unfiltered, n)
		}
	}
	if g.left > 0 { // the dry-run goes on removing the pods of the node
		g.left--
		var cand []string
		for _, v := range g.holders(g.sweep, pod) {
			if !c.removed[g.sweep][v] {
				cand = append(cand, v)
			}
		}
		if len(cand) > 0 {
			return c07Op{Op: "whatifRemove", Pod: pod, Node: g.sweep, Victim: cand[g.rng.Intn(len(cand))]}
		}
		g.left = 0
	}
	k := g.rng.Intn(100)
	switch {
	case k < 14 || (len(c.passed) > 0 && g.since == 0 && k < 40): // informer events, often right between Filter and Reserve
		g.since++
		return g.envOp()
	case k < 40: // a what-if step on some node
		node := c07pNodes[g.rng.Intn(len(c07pNodes))]
		removed := c.removed[node]
		var back []string
		for v := range removed {
			back = append(back, v)
		}
		sort.Strings(back)
		var cand []string
		for _, v := range g.holders(node, pod) {
			if !removed[v] {
				cand = append(cand, v)
			}
		}
		j := g.rng.Intn(10)
		switch {
		case len(cand) > 0 && (j < 6 || len(back) == 0):
			if len(cand) > 1 && g.rng.Intn(2) == 0 {
				g.sweep, g.left = node, len(cand)-1
			}
			return c07Op{Op: "whatifRemove", Pod: pod, Node: node, Victim: cand[g.rng.Intn(len(cand))]}
		case len(back) > 0 && j < 8:
			return c07Op{Op: "whatifAdd", Pod: pod, Node: node, Victim: back[g.rng.Intn(len(back))]}
		case c.whatif[node] != nil:
			return c07Op{Op: "filter", Pod: pod, Node: node, Whatif: true}
		}
		fallthrough
	default:
		if len(unfiltered) > 0 && (len(c.passed) == 0 || k < 80) {
			g.since = 0
			return c07Op{Op: "filter", Pod: pod, Node: unfiltered[g.rng.Intn(len(unfiltered))]}
		}
		if len(c.passed) == 0 {
			return c07Op{Op: "end", Pod: pod}
		}
		return c07Op{Op: "reserve", Pod: pod, Node: c.passed[g.rng.Intn(len(c.passed))]}
	}
}

func (g *c07pGen) next() c07Op {
	for _, n := range c07pNodes {
		if g.w.device[n] == nil && g.rng.Intn(4) != 0 {
			return g.inventory(n, g.rng.Intn(2) == 0)
		}
	}
	if g.active != "" && g.w.cyc[g.active] != nil && g.w.cyc[g.active].node == "" {
		return g.cycleOp()
	}
	g.active = ""
	var held, idle []string
	for _, p := range g.pods {
		cur := g.w.api[p]
		switch {
		case g.w.cyc[p] != nil:
			held = append(held, p)
		case cur != nil && cur.Spec.NodeName == "":
			idle = append(idle, p)
		}
	}
	k := g.rng.Intn(100)
	switch {
	case len(held) > 0 && k < 30: // the binding cycle of a reserved pod completes or fails
		p := held[g.rng.Intn(len(held))]
		if g.w.api[p] == nil || g.rng.Intn(4) == 0 {
			return c07Op{Op: "unreserve", Pod: p}
		}
		return c07Op{Op: "bind", Pod: p}
	case k < 62:
		if len(idle) == 0 {
			for _, p := range g.pods {
				if g.w.api[p] == nil && g.w.cyc[p] == nil {
					return c07Op{Op: "create", Pod: p}
				}
			}
			return g.envOp()
		}
		g.active = idle[g.rng.Intn(len(idle))]
		g.since, g.left = 0, 0
		return g.begin(g.active)
	default:
		return g.envOp()
	}
}

func c07pRandom(rec *vu.Recorder, rng *rand.Rand, length int, stats map[string]int) {
	g := &c07pGen{rng: rng, w: c07pNewWorld(), vr: c07pNewRec(rec), stats: stats}
	defer g.vr.flush()
	g.types = [][]string{{"gpu"}, {"gpu"}, {"rdma"}, {"gpu", "rdma"}, {"gpu", "rdma", "fpga"}}[rng.Intn(5)]
	g.nminor = 2 + rng.Intn(3)
	g.topo = rng.Intn(5) == 0
	for m := 0; m < g.nminor; m++ {
		g.gpuMem = append(g.gpuMem, []int64{8000, 8000, 16000}[rng.Intn(3)])
	}
	for i := 0; i < 5+rng.Intn(4); i++ {
		g.pods = append(g.pods, fmt.Sprintf("p%d", i))
	}
	for n := 0; n < length; n++ {
		o := g.next()
		if _, _, alive := g.vr.step(g.w, &o, stats); !alive {
			return
		}
	}
}

// ---- enumerated histories (deterministic) -----------------------------------------------------------------------

type c07pHist struct {
	w     *c07pWorld
	vr    *c07pRec
	stats map[string]int
	dead  bool
}

func c07pNewHist(rec *vu.Recorder, stats map[string]int) *c07pHist {
	return &c07pHist{w: c07pNewWorld(), vr: c07pNewRec(rec), stats: stats}
}

func (h *c07pHist) do(o c07Op) vu.Ev {
	if h.dead {
		return nil
	}
	ev, ok, alive := h.vr.step(h.w, &o, h.stats)
	if !alive {
		h.dead = true
		return nil
	}
	if !ok {
		panic("c07: enumerated operation not executable: " + o.Op + " " + o.Pod)
	}
	return ev
}

func c07pOK(ev vu.Ev) bool {
	if ev == nil {
		return false
	}
	return ev["result"].(vu.Ev)["ok"].(bool)
}

func c07pWhole(t string, m int, amt int64, mem int64) c07Grant {
	if t == "gpu" {
		return c07Grant{M: m, Res: map[string]int64{"core": amt, "ratio": amt, "mem": amt * mem / 100}}
	}
	return c07Grant{M: m, Res: map[string]int64{t: amt}}
}

func c07pInv(node, t string, n int, mem int64, sick int) c07Op {
	o := c07Op{Op: "inventory", Node: node, Devices: []c07Dev{}}
	for m := 0; m < n; m++ {
		res := map[string]int64{t: 100}
		if t == "gpu" {
			res = map[string]int64{"core": 100, "ratio": 100, "mem": mem}
		}
		o.Devices = append(o.Devices, c07Dev{T: t, M: m, H: m != sick, Res: res})
	}
	return o
}

// Designated allocations: a pod designates device 0 (amount amt). Device 0 of n1 / n2 is idle, half or entirely in use;
// Filter runs on the nodes in some order; something may happen between Filter and Reserve on the chosen node (a pod bound
// by another scheduler takes the device, the device turns unhealthy, the pod that held it goes away); Reserve runs on
// every node that passed Filter (one history each), then the bind is delivered or the reservation is rolled back.
func c07pDesignatedFamily(rec *vu.Recorder, stats map[string]int) {
	const mem = 8000
	n := 0
	for _, t := range []string{"gpu", "rdma"} {
		for _, amt := range []int64{100, 50} {
			if t == "rdma" && amt != 100 {
				continue
			}
			for _, busy1 := range []int64{0, 50, 100} {
				for _, busy2 := range []int64{0, 50, 100} {
					for _, order := range [][]string{{"n1", "n2"}, {"n2", "n1"}, {"n1"}, {"n2"}} {
						for _, between := range []string{"", "taken", "unhealthy", "freed"} {
							for ri := 0; ; ri++ {
								n++
								h := c07pNewHist(rec, stats)
								busy := map[string]int64{"n1": busy1, "n2": busy2}
								for i, node := range c07pNodes {
									h.do(c07pInv(node, t, 2, mem, -1))
									if busy[node] > 0 {
										h.do(c07Op{Op: "add", Pod: fmt.Sprintf("p%d", 1+i), Node: node, Alloc: c07Alloc{t: {c07pWhole(t, 0, busy[node], mem)}}})
									}
								}
								req := map[string]int64{t: amt}
								if t == "gpu" {
									req = map[string]int64{"core": amt, "ratio": amt}
								}
								h.do(c07Op{Op: "create", Pod: "p0"})
								h.do(c07Op{Op: "begin", Pod: "p0", Reqs: c07Reqs{t: {Req: req, Cnt: 1}}, Hint: true,
									Designated: c07Alloc{t: {{M: 0, Res: req}}}})
								var passed []string
								for _, node := range order {
									if c07pOK(h.do(c07Op{Op: "filter", Pod: "p0", Node: node})) {
										passed = append(passed, node)
									}
								}
								if ri >= len(passed) {
									if ri == 0 {
										h.do(c07Op{Op: "end", Pod: "p0"})
										h.vr.flush()
									} // else: every passing node has had its history; this prefix is a duplicate and is dropped
									break
								}
								node := passed[ri]
								switch between {
								case "taken":
									h.do(c07Op{Op: "add", Pod: "p3", Node: node, Alloc: c07Alloc{t: {c07pWhole(t, 0, 100-busy[node], mem)}}})
								case "unhealthy":
									h.do(c07pInv(node, t, 2, mem, 0))
								case "freed":
									if busy[node] > 0 {
										h.do(c07Op{Op: "delete", Pod: fmt.Sprintf("p%d", 1+c07pIndexOf(c07pNodes, node))})
									}
								}
								if c07pOK(h.do(c07Op{Op: "reserve", Pod: "p0", Node: node})) {
									if n%2 == 0 {
										h.do(c07Op{Op: "bind", Pod: "p0"})
										h.do(c07Op{Op: "delete", Pod: "p0"})
									} else {
										h.do(c07Op{Op: "unreserve", Pod: "p0"})
									}
								}
								h.vr.flush()
							}
						}
					}
				}
			}
		}
	}
}

func c07pIndexOf(l []string, s string) int {
	for i, x := range l {
		if x == s {
			return i
		}
	}
	return -1
}

// What-if: three pods hold half a device each on n1 (every placement on devices 0 / 1); one cycle removes them in every
// order on the node's copy of the cycle state, filters, adds them back one by one (the reprieve pass of the preemption
// dry-run), filters again; then the cycle goes on on the real state: Filter on both nodes, Reserve, bind.
func c07pWhatIfFamily(rec *vu.Recorder, stats map[string]int) {
	const mem = 8000
	perms := [][3]int{{0, 1, 2}, {0, 2, 1}, {1, 0, 2}, {1, 2, 0}, {2, 0, 1}, {2, 1, 0}}
	for _, t := range []string{"gpu", "rdma"} {
		for place := 0; place < 8; place++ {
			for _, perm := range perms {
				for _, cnt := range []int{1, 2} {
					h := c07pNewHist(rec, stats)
					h.do(c07pInv("n1", t, 1+cnt, mem, -1)) // cnt whole devices fit only if the what-if removals were real
					h.do(c07pInv("n2", t, 1, mem, -1))
					victims := []string{"p1", "p2", "p3"}
					for i, v := range victims {
						h.do(c07Op{Op: "add", Pod: v, Node: "n1", Alloc: c07Alloc{t: {c07pWhole(t, (place>>i)&1, 50, mem)}}})
					}
					req := map[string]int64{t: 100}
					if t == "gpu" {
						req = map[string]int64{"core": 100, "ratio": 100}
					}
					h.do(c07Op{Op: "create", Pod: "p0"})
					h.do(c07Op{Op: "begin", Pod: "p0", Reqs: c07Reqs{t: {Req: req, Cnt: cnt}}})
					h.do(c07Op{Op: "filter", Pod: "p0", Node: "n1"})
					for _, i := range perm {
						h.do(c07Op{Op: "whatifRemove", Pod: "p0", Node: "n1", Victim: victims[i]})
					}
					h.do(c07Op{Op: "filter", Pod: "p0", Node: "n1", Whatif: true})
					for _, i := range perm {
						h.do(c07Op{Op: "whatifAdd", Pod: "p0", Node: "n1", Victim: victims[i]})
						h.do(c07Op{Op: "filter", Pod: "p0", Node: "n1", Whatif: true})
					}
					p2 := c07pOK(h.do(c07Op{Op: "filter", Pod: "p0", Node: "n2"}))
					// a second cycle whose dry-run removes ONE of the pods only
					h.do(c07Op{Op: "end", Pod: "p0"})
					h.do(c07Op{Op: "begin", Pod: "p0", Reqs: c07Reqs{t: {Req: req, Cnt: 1}}})
					h.do(c07Op{Op: "whatifRemove", Pod: "p0", Node: "n1", Victim: victims[perm[1]]})
					h.do(c07Op{Op: "filter", Pod: "p0", Node: "n1", Whatif: true})
					p1 := c07pOK(h.do(c07Op{Op: "filter", Pod: "p0", Node: "n1"}))
					switch {
					case p1:
						h.do(c07Op{Op: "reserve", Pod: "p0", Node: "n1"})
					case p2 && c07pOK(h.do(c07Op{Op: "filter", Pod: "p0", Node: "n2"})):
						h.do(c07Op{Op: "reserve", Pod: "p0", Node: "n2"})
					default:
						h.do(c07Op{Op: "end", Pod: "p0"})
					}
					if h.w.cyc["p0"] != nil {
						h.do(c07Op{Op: "bind", Pod: "p0"})
					}
					h.vr.flush()
				}
			}
		}
	}
}

func TestVerifC07Plugin(t *testing.T) {
	if !vu.Enabled() {
		t.Skip("verification harness: VERIF_OUT not set")
	}
	c07pT = t
	rec := vu.NewRecorder("")
	defer rec.Close()
	stats := map[string]int{}
	if vu.ReplayPath() != "" {
		for _, raw := range vu.ReadScripts(vu.ReplayPath()) {
			var script []c07Op
			if err := json.Unmarshal(raw, &script); err != nil {
				t.Fatalf("bad script %s: %v", string(raw), err)
			}
			c07pRun(rec, script, stats)
		}
		return
	}
	c07pDesignatedFamily(rec, stats)
	c07pWhatIfFamily(rec, stats)
	enumerated := rec.Segments()
	n, length := 220, 45
	if vu.Thorough() {
		n, length = 1500, 60
	}
	n = vu.EnvInt("VERIF_C07P_N", n)
	rng := vu.Rand(77)
	for i := 0; i < n; i++ {
		c07pRandom(rec, rng, length, stats)
	}
	keys := make([]string, 0, len(stats))
	for k := range stats {
		keys = append(keys, k)
	}
	sort.Strings(keys)
	var sb strings.Builder
	for _, k := range keys {
		fmt.Fprintf(&sb, " %s=%d", k, stats[k])
	}
	t.Logf("C07 plugin: %d segments (%d enumerated), %d events;%s", rec.Segments(), enumerated, rec.Events(), sb.String())
}
