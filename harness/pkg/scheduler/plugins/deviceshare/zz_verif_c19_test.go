package deviceshare

// Verification harness for C19 / device part (injected by `go test -overlay`; builds on the C07 executor).
//
// restart: every pod that is bound and for which the live nodeDeviceCache HOLDS an allocation gets that allocation
// persisted on its pod object by the REAL pre-bind code (Plugin.preBindObject -> fillID + apiext.SetDeviceAllocations),
// exactly as the binding cycle does. Then the live cache is dropped together with everything that lived only in the
// scheduler's memory (allocations held by scheduling cycles between Reserve and bind: nothing was persisted for them),
// and a FRESH nodeDeviceCache is rebuilt ONLY through the real informer handlers from the surviving API objects:
// the Device CR (onDeviceAdd, when one exists) and ALL pod objects (onPodAdd / onPodUpdate), in an arbitrary
// interleaving - the device informer and the pod informer are started together and deliver independently, so the
// Device CR may arrive before, between or after the pods -, with duplicate adds and updates that carry the same
// object. The fresh cache becomes the live one; its projection is logged by the C07 executor and TLC demands
// (DeviceTrace!TRestart) that it equals the state the specification holds for the scheduler that made the
// allocations minus what was only reserved. No oracle here.

import (
	"context"
	"encoding/json"
	"fmt"
	"math/rand"
	"sort"
	"strings"
	"testing"

	corev1 "k8s.io/api/core/v1"
	metav1 "k8s.io/apimachinery/pkg/apis/meta/v1"
	"k8s.io/apimachinery/pkg/types"
	"k8s.io/kubernetes/pkg/scheduler/framework"

	apiext "github.com/koordinator-sh/koordinator/apis/extension"
	schedulingv1alpha1 "github.com/koordinator-sh/koordinator/apis/scheduling/v1alpha1"
	vu "github.com/koordinator-sh/koordinator/pkg/verifutil"
)

var (
	c19T      *testing.T
	c19Plugin *Plugin
	c19Suit   *pluginTestSuit
	c19Stats  = map[string]int{}
)

// one Plugin built the way the package's unit tests build it (newPluginTestSuit + proxyNew); only its pre-bind code is used
func c19GetPlugin() *Plugin {
	if c19Plugin == nil {
		c19Suit = newPluginTestSuit(c19T, []*corev1.Node{{ObjectMeta: metav1.ObjectMeta{Name: c07Node}}})
		p, err := c19Suit.proxyNew(context.TODO(), getDefaultArgs(), c19Suit.Framework)
		if err != nil {
			panic("c07: " + err.Error())
		}
		c19Plugin = p.(*Plugin)
	}
	return c19Plugin
}

// preBindObject looks the Device CR up in the device informer's store (fillID): hold there what the API server holds
func c19SetDeviceCR(d *schedulingv1alpha1.Device) {
	idx := c19Suit.koordinatorSharedInformerFactory.Scheduling().V1alpha1().Devices().Informer().GetIndexer()
	if d == nil { // Device CR deleted after the pods were bound: the identifiers stay empty, as fillID leaves them for unknown minors
		d = &schedulingv1alpha1.Device{ObjectMeta: metav1.ObjectMeta{Name: c07Node}}
	}
	for _, old := range idx.List() {
		_ = idx.Delete(old)
	}
	if err := idx.Add(d); err != nil {
		panic("c07: " + err.Error())
	}
}

// the allocation the live cache holds for a pod (field reads of nodeDevice.allocateSet), minors in ascending order
func c19Held(nd *nodeDevice, pod *corev1.Pod) apiext.DeviceAllocations {
	if nd == nil {
		return nil
	}
	nd.lock.RLock()
	defer nd.lock.RUnlock()
	out := apiext.DeviceAllocations{}
	key := types.NamespacedName{Namespace: pod.Namespace, Name: pod.Name}
	for t, pods := range nd.allocateSet {
		res := pods[key]
		minors := make([]int, 0, len(res))
		for m := range res {
			minors = append(minors, m)
		}
		sort.Ints(minors)
		for _, m := range minors {
			out[t] = append(out[t], &apiext.DeviceAllocation{Minor: int32(m), Resources: res[m].DeepCopy()})
		}
	}
	return out
}

type c19Token struct {
	obj  int // index into the surviving objects; -1 = the Device CR
	kind int // 0 add, 1 duplicate add, 2 update carrying the same object
}

func (w *c07World) c19Restart(o *c07Op) vu.Ev {
	plg := c19GetPlugin()
	c19SetDeviceCR(w.device)
	live := w.cache.getNodeDevice(c07Node, false)
	names := make([]string, 0, len(w.api))
	for n := range w.api {
		names = append(names, n)
	}
	sort.Strings(names)

	// ---- persist: what the binding cycle wrote for every bound pod that holds an allocation
	persisted := 0
	var pods []*corev1.Pod
	for _, n := range names {
		cur := w.api[n]
		bound := cur.Spec.NodeName != "" && cur.Status.Phase != corev1.PodSucceeded && cur.Status.Phase != corev1.PodFailed
		if held := c19Held(live, cur); bound && len(held) > 0 {
			np := cur.DeepCopy()
			delete(np.Annotations, apiext.AnnotationDeviceAllocated)
			cs := framework.NewCycleState()
			cs.Write(stateKey, &preFilterState{allocationResult: held})
			if st := plg.preBindObject(context.TODO(), cs, np, c07Node); !st.IsSuccess() {
				panic("c07: preBindObject: " + st.Message())
			}
			w.api[n] = np
			persisted++
		}
		pods = append(pods, w.api[n]) // every pod object the API server holds survives (unassigned and terminated ones too)
	}
	dropped := 0
	for _, a := range w.resv {
		if len(a) > 0 {
			dropped++
		}
	}

	// ---- restart: fresh cache, fed only through the informer handlers
	fresh := newNodeDeviceCache()
	rng := rand.New(rand.NewSource(int64(o.Variant)))
	var toks []c19Token
	add := func(obj int) {
		toks = append(toks, c19Token{obj, 0})
		switch rng.Intn(4) {
		case 0:
			toks = append(toks, c19Token{obj, 1})
		case 1:
			toks = append(toks, c19Token{obj, 2})
		case 2:
			toks = append(toks, c19Token{obj, 2}, c19Token{obj, 1})
		}
	}
	if w.device != nil {
		add(-1)
	}
	for i := range pods {
		add(i)
	}
	rng.Shuffle(len(toks), func(i, j int) { toks[i], toks[j] = toks[j], toks[i] })
	switch rng.Intn(4) { // force the two extreme orders often: Device CR first / last
	case 0:
		sort.SliceStable(toks, func(i, j int) bool { return toks[i].obj == -1 && toks[j].obj != -1 })
	case 1:
		sort.SliceStable(toks, func(i, j int) bool { return toks[i].obj != -1 && toks[j].obj == -1 })
	}
	seen := map[int]bool{}
	dups, updates, podsBeforeDev, podsAfterDev := 0, 0, 0, 0
	for _, tk := range toks {
		kind := tk.kind
		if !seen[tk.obj] {
			kind = 0 // whatever comes first for an object is its add event
			if tk.obj >= 0 && w.device != nil {
				if seen[-1] {
					podsAfterDev++
				} else {
					podsBeforeDev++
				}
			}
		} else if kind == 0 {
			kind = 1 + rng.Intn(2)
		}
		seen[tk.obj] = true
		switch {
		case tk.obj == -1 && kind != 2:
			fresh.onDeviceAdd(w.device)
		case tk.obj == -1:
			fresh.onDeviceUpdate(w.device, w.device.DeepCopy())
			updates++
		case kind == 0:
			fresh.onPodAdd(pods[tk.obj])
		case kind == 1:
			fresh.onPodAdd(pods[tk.obj].DeepCopy())
			dups++
		default:
			fresh.onPodUpdate(pods[tk.obj], pods[tk.obj].DeepCopy())
			updates++
		}
	}
	w.cache = fresh
	w.resv = map[string]apiext.DeviceAllocations{} // the scheduling cycles died with the process
	w.gone = map[string]*corev1.Pod{}              // the new informers never saw the objects deleted before

	order := "none" // no Device CR, or no pod
	switch {
	case podsBeforeDev > 0 && podsAfterDev > 0:
		order = "between"
	case podsBeforeDev > 0:
		order = "podsFirst"
	case podsAfterDev > 0:
		order = "deviceFirst"
	}
	c19Stats["restart"]++
	c19Stats["order."+order]++
	c19Stats["dupAdds"] += dups
	c19Stats["sameUpdates"] += updates
	c19Stats["persistedPods"] += persisted
	if persisted > 0 {
		c19Stats["restart.persisted>0"]++
	}
	if dropped > 0 {
		c19Stats["restart.dropped>0"]++
	}
	return vu.Ev{"op": "restart", "variant": o.Variant, "persisted": persisted, "dropped": dropped, "objects": len(pods),
		"order": order, "dups": dups, "updates": updates}
}

func TestVerifC19Device(t *testing.T) {
	if !vu.Enabled() {
		t.Skip("verification harness: VERIF_OUT not set")
	}
	c19T = t
	rec := vu.NewRecorder("")
	defer rec.Close()
	if vu.ReplayPath() != "" {
		for _, raw := range vu.ReadScripts(vu.ReplayPath()) {
			var script []c07Op
			if err := json.Unmarshal(raw, &script); err != nil {
				t.Fatalf("bad script %s: %v", string(raw), err)
			}
			c07Run(rec, script)
		}
		return
	}
	c07Restarts = true
	defer func() { c07Restarts = false }()
	n, length := 300, 40
	if vu.Thorough() {
		n, length = 4000, 60
	}
	n = vu.EnvInt("VERIF_C19_N", n)
	rng := vu.Rand(197)
	stats := map[string]int{}
	for i := 0; i < n; i++ {
		c07Random(rec, rng, length, vu.Thorough(), stats)
	}
	for k, v := range c19Stats {
		stats["c19."+k] = v
	}
	keys := make([]string, 0, len(stats))
	for k := range stats {
		keys = append(keys, k)
	}
	sort.Strings(keys)
	var sb strings.Builder
	for _, k := range keys {
		fmt.Fprintf(&sb, " %s=%d", k, stats[k])
	}
	t.Logf("C19 device: %d segments, %d events;%s", rec.Segments(), rec.Events(), sb.String())
}
