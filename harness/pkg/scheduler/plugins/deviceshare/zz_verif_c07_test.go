package deviceshare

// Verification harness for C07 (injected by `go test -overlay`, see /verif/DESIGN.md and specs/Device/*).
// Executor + recorder only: operation scripts (from TLC's Gen_Device or from the seeded generator below) are
// executed on the REAL nodeDeviceCache (device / pod event handlers, AutopilotAllocator.Allocate on a request
// context built by preparePod, the ledger update of Reserve / Unreserve) and after EVERY operation the
// projection of getNodeDeviceSummary() plus the DeviceAllocations returned by the allocator are logged.
// There is no oracle here; TLC decides (specs/Device/DeviceTrace.tla).
//
// Reusable pieces (C19 builds on them):
//   c07NewWorld()                      fresh cache + environment (API objects last delivered by the informers)
//   (*c07World).apply(op) (ev, bool)   execute ONE operation on the real cache; returns the echoed event + result
//   c07Project(*NodeDeviceSummary)     projection of the real ledgers onto the spec variables (field reads only)
//   (*c07World).obs()                  = c07Project(cache.getNodeDeviceSummary(node))

import (
	"encoding/json"
	"fmt"
	"math/rand"
	"sort"
	"strings"
	"testing"

	corev1 "k8s.io/api/core/v1"
	"k8s.io/apimachinery/pkg/api/resource"
	metav1 "k8s.io/apimachinery/pkg/apis/meta/v1"
	"k8s.io/apimachinery/pkg/types"
	"k8s.io/apimachinery/pkg/util/sets"
	"k8s.io/client-go/tools/cache"

	apiext "github.com/koordinator-sh/koordinator/apis/extension"
	schedulingv1alpha1 "github.com/koordinator-sh/koordinator/apis/scheduling/v1alpha1"
	schedulerconfig "github.com/koordinator-sh/koordinator/pkg/scheduler/apis/config"
	vu "github.com/koordinator-sh/koordinator/pkg/verifutil"
)

const (
	c07Node = "n1"
	c07NS   = "ns"
)

// short resource names used in scripts / traces <-> real resource names
var c07ResLong = map[string]corev1.ResourceName{
	"core":  apiext.ResourceGPUCore,
	"ratio": apiext.ResourceGPUMemoryRatio,
	"mem":   apiext.ResourceGPUMemory,
	"rdma":  apiext.ResourceRDMA,
	"fpga":  apiext.ResourceFPGA,
}

var c07ResShort = func() map[corev1.ResourceName]string {
	m := map[corev1.ResourceName]string{}
	for s, l := range c07ResLong {
		m[l] = s
	}
	return m
}()

func c07RL(m map[string]int64) corev1.ResourceList {
	rl := corev1.ResourceList{}
	for k, v := range m {
		long, ok := c07ResLong[k]
		if !ok {
			panic("c07: unknown resource " + k)
		}
		rl[long] = *resource.NewQuantity(v, resource.DecimalSI)
	}
	return rl
}

func c07Ints(rl corev1.ResourceList) map[string]int64 {
	m := map[string]int64{}
	for k, q := range rl {
		s, ok := c07ResShort[k]
		if !ok {
			s = string(k) // unknown names are passed through: the spec has no such resource and rejects
		}
		m[s] = q.Value()
	}
	return m
}

// ---- script / trace vocabulary ------------------------------------------------------------------------------

type c07Dev struct {
	T   string           `json:"t"`
	M   int              `json:"m"`
	H   bool             `json:"h"`
	Res map[string]int64 `json:"res"`
}

type c07Grant struct {
	M   int              `json:"m"`
	Res map[string]int64 `json:"res"`
}

type c07Req struct {
	Req map[string]int64 `json:"req"`
	Cnt int              `json:"cnt"`
}

// TLC's ToJson prints an empty function as [] : accept it where an (empty) object is meant
type c07Minors map[string][]int
type c07Alloc map[string][]c07Grant
type c07Reqs map[string]c07Req

func c07EmptyArr(b []byte) bool { return strings.TrimSpace(string(b)) == "[]" }

func (m *c07Minors) UnmarshalJSON(b []byte) error {
	if c07EmptyArr(b) {
		*m = c07Minors{}
		return nil
	}
	var x map[string][]int
	if err := json.Unmarshal(b, &x); err != nil {
		return err
	}
	*m = x
	return nil
}

func (m *c07Alloc) UnmarshalJSON(b []byte) error {
	if c07EmptyArr(b) {
		*m = c07Alloc{}
		return nil
	}
	var x map[string][]c07Grant
	if err := json.Unmarshal(b, &x); err != nil {
		return err
	}
	*m = x
	return nil
}

func (m *c07Reqs) UnmarshalJSON(b []byte) error {
	if c07EmptyArr(b) {
		*m = c07Reqs{}
		return nil
	}
	var x map[string]c07Req
	if err := json.Unmarshal(b, &x); err != nil {
		return err
	}
	*m = x
	return nil
}

type c07Op struct {
	Op string `json:"op"`
	// inventory
	Devices []c07Dev `json:"devices,omitempty"`
	Topo    bool     `json:"topo,omitempty"` // GPU devices carry NUMA/PCIe topology (exercises the topology-scoped GPU path)
	// pod operations
	Pod string `json:"pod,omitempty"`
	// alloc
	Reqs      c07Reqs   `json:"reqs,omitempty"`
	Required  c07Minors `json:"required,omitempty"`
	Preferred c07Minors `json:"preferred,omitempty"`
	Filter    bool      `json:"filter,omitempty"` // non-nil (empty) preemptible map, as the plugin always passes: goes through nodeDevice.filter
	Scorer    string    `json:"scorer,omitempty"` // "", "least", "most"
	Commit    bool      `json:"commit,omitempty"`
	// add / annotate
	Alloc c07Alloc `json:"alloc,omitempty"`
	// terminate
	Phase string `json:"phase,omitempty"`
	// delete
	Tombstone bool `json:"tombstone,omitempty"`
	// restart (C19, zz_verif_c19_test.go): informer delivery order / duplicates
	Variant int `json:"variant,omitempty"`
	// plugin-level cycles on several nodes (zz_verif_c07b_test.go)
	Node       string   `json:"node,omitempty"`       // the node the operation concerns
	Victim     string   `json:"victim,omitempty"`     // whatifRemove / whatifAdd
	Whatif     bool     `json:"whatif,omitempty"`     // filter: on the node's what-if copy of the cycle state
	Designated c07Alloc `json:"designated,omitempty"` // begin: device-allocated annotation the pod carries
	Hint       bool     `json:"hint,omitempty"`       // begin: the deviceshare scheduling hint is set (the annotation is honoured)
}

// ---- environment + real cache -------------------------------------------------------------------------------

type c07World struct {
	cache  *nodeDeviceCache
	device *schedulingv1alpha1.Device          // Device CR last delivered by the device informer (nil: none)
	api    map[string]*corev1.Pod              // pod object last delivered by the pod informer
	gone   map[string]*corev1.Pod              // last object of a deleted pod (for duplicate delete events)
	resv   map[string]apiext.DeviceAllocations // allocation held by the scheduling cycle until bind / unreserve
	lost   map[string]bool                     // assigned pods dropped from the ledgers by a late Unreserve, not delivered again yet
	inc    int
}

func c07NewWorld() *c07World {
	return &c07World{cache: newNodeDeviceCache(), api: map[string]*corev1.Pod{}, gone: map[string]*corev1.Pod{},
		resv: map[string]apiext.DeviceAllocations{}, lost: map[string]bool{}}
}

// c07Project is the projection function: NodeDeviceSummary -> {dev: [...], alloc: [...]} (field reads only).
// Every (type, minor) that occurs as a key in any of the three ledgers is listed with the three resource maps as they are.
func c07Project(sum *NodeDeviceSummary) vu.Ev {
	type key struct {
		t string
		m int
	}
	keys := map[key]bool{}
	for _, led := range []map[schedulingv1alpha1.DeviceType]deviceResources{sum.DeviceTotalDetail, sum.DeviceUsedDetail, sum.DeviceFreeDetail} {
		for t, dr := range led {
			for m := range dr {
				keys[key{string(t), m}] = true
			}
		}
	}
	ks := make([]key, 0, len(keys))
	for k := range keys {
		ks = append(ks, k)
	}
	sort.Slice(ks, func(i, j int) bool {
		if ks[i].t != ks[j].t {
			return ks[i].t < ks[j].t
		}
		return ks[i].m < ks[j].m
	})
	devs := []vu.Ev{}
	for _, k := range ks {
		t := schedulingv1alpha1.DeviceType(k.t)
		devs = append(devs, vu.Ev{"t": k.t, "m": k.m,
			"total": c07Ints(sum.DeviceTotalDetail[t][k.m]),
			"used":  c07Ints(sum.DeviceUsedDetail[t][k.m]),
			"free":  c07Ints(sum.DeviceFreeDetail[t][k.m])})
	}
	type arow struct {
		pod, t string
		m      int
		res    map[string]int64
	}
	var rows []arow
	for t, pods := range sum.AllocateSet {
		for podKey, minors := range pods {
			for m, rl := range minors {
				rows = append(rows, arow{strings.TrimPrefix(podKey, c07NS+"/"), string(t), m, c07Ints(rl)})
			}
		}
	}
	sort.Slice(rows, func(i, j int) bool {
		a, b := rows[i], rows[j]
		if a.pod != b.pod {
			return a.pod < b.pod
		}
		if a.t != b.t {
			return a.t < b.t
		}
		return a.m < b.m
	})
	allocs := []vu.Ev{}
	for _, r := range rows {
		allocs = append(allocs, vu.Ev{"pod": r.pod, "t": r.t, "m": r.m, "res": r.res})
	}
	return vu.Ev{"dev": devs, "alloc": allocs}
}

func (w *c07World) obs() vu.Ev {
	sum, ok := w.cache.getNodeDeviceSummary(c07Node)
	if !ok {
		sum = NewNodeDeviceSummary() // no nodeDevice yet: every ledger is empty
	}
	return c07Project(sum)
}

func c07Device(devs []c07Dev, topo bool) *schedulingv1alpha1.Device {
	d := &schedulingv1alpha1.Device{ObjectMeta: metav1.ObjectMeta{Name: c07Node}}
	for _, x := range devs {
		minor := int32(x.M)
		info := schedulingv1alpha1.DeviceInfo{
			Type: schedulingv1alpha1.DeviceType(x.T), Minor: &minor, Health: x.H,
			UUID: fmt.Sprintf("%s-%d", x.T, x.M), Resources: c07RL(x.Res),
		}
		if topo && x.T == "gpu" {
			info.Topology = &schedulingv1alpha1.DeviceTopology{SocketID: int32(x.M / 2), NodeID: int32(x.M / 2), PCIEID: fmt.Sprintf("pcie-%d", x.M)}
		}
		d.Spec.Devices = append(d.Spec.Devices, info)
	}
	return d
}

func c07ToAllocations(a c07Alloc) apiext.DeviceAllocations {
	out := apiext.DeviceAllocations{}
	for t, gs := range a {
		for _, g := range gs {
			out[schedulingv1alpha1.DeviceType(t)] = append(out[schedulingv1alpha1.DeviceType(t)],
				&apiext.DeviceAllocation{Minor: int32(g.M), Resources: c07RL(g.Res)})
		}
	}
	return out
}

func c07FromAllocations(a apiext.DeviceAllocations) map[string][]vu.Ev {
	out := map[string][]vu.Ev{}
	for t, as := range a {
		l := []vu.Ev{}
		for _, x := range as {
			l = append(l, vu.Ev{"m": int(x.Minor), "res": c07Ints(x.Resources)})
		}
		sort.SliceStable(l, func(i, j int) bool { return l[i]["m"].(int) < l[j]["m"].(int) })
		out[string(t)] = l
	}
	return out
}

func (w *c07World) newPod(name string) *corev1.Pod {
	w.inc++
	return &corev1.Pod{
		ObjectMeta: metav1.ObjectMeta{Namespace: c07NS, Name: name, UID: types.UID(fmt.Sprintf("%s-%d", name, w.inc))},
		Spec:       corev1.PodSpec{Containers: []corev1.Container{{Name: "c"}}},
		Status:     corev1.PodStatus{Phase: corev1.PodPending},
	}
}

// pod-level resource requests that the device handlers split back into  per-instance request x count
func c07PodRequests(reqs c07Reqs) corev1.ResourceList {
	rl := corev1.ResourceList{}
	for t, r := range reqs {
		k := int64(r.Cnt)
		switch t {
		case "gpu":
			whole := r.Req["core"] == 100 && r.Req["ratio"] == 100 && len(r.Req) == 2
			for n, v := range r.Req {
				rl[c07ResLong[n]] = *resource.NewQuantity(v*k, resource.DecimalSI)
			}
			if k > 1 && !whole {
				rl[apiext.ResourceGPUShared] = *resource.NewQuantity(k, resource.DecimalSI)
			}
		default:
			for n, v := range r.Req {
				if k > 1 && v != 100 {
					panic("c07: a multi-device request for " + t + " must ask for whole devices")
				}
				rl[c07ResLong[n]] = *resource.NewQuantity(v*k, resource.DecimalSI)
			}
		}
	}
	return rl
}

func c07Scorer(name string) *resourceAllocationScorer {
	if name == "" {
		return nil
	}
	args := getDefaultArgs()
	args.ScoringStrategy.Type = schedulerconfig.LeastAllocated
	if name == "most" {
		args.ScoringStrategy.Type = schedulerconfig.MostAllocated
	}
	return deviceResourceStrategyTypeMap[args.ScoringStrategy.Type](args)
}

func c07MinorSets(m c07Minors) map[schedulingv1alpha1.DeviceType]sets.Int {
	if len(m) == 0 {
		return nil
	}
	out := map[schedulingv1alpha1.DeviceType]sets.Int{}
	for t, l := range m {
		if len(l) > 0 {
			out[schedulingv1alpha1.DeviceType(t)] = sets.NewInt(l...)
		}
	}
	return out
}

// allocate = what Plugin.allocate does for one node: request context from the pod, AutopilotAllocator.Allocate, fillGPUTotalMem
func (w *c07World) allocate(o *c07Op, pod *corev1.Pod) (apiext.DeviceAllocations, string) {
	p := pod.DeepCopy()
	p.Spec.Containers[0].Resources.Requests = c07PodRequests(o.Reqs)
	state, status := preparePod(p, nil, nil)
	if !status.IsSuccess() || state.skip {
		panic(fmt.Sprintf("c07: harness built a request the plugin does not accept: %v %v", o.Reqs, status))
	}
	nd := w.cache.getNodeDevice(c07Node, false)
	if nd == nil {
		return nil, "no device information for the node"
	}
	var preemptible map[schedulingv1alpha1.DeviceType]deviceResources
	if o.Filter {
		preemptible = map[schedulingv1alpha1.DeviceType]deviceResources{}
	}
	allocator := &AutopilotAllocator{
		state: state, nodeDevice: nd, pod: p, scorer: c07Scorer(o.Scorer),
		node: &corev1.Node{ObjectMeta: metav1.ObjectMeta{Name: c07Node}},
	}
	nd.lock.RLock()
	defer nd.lock.RUnlock()
	result, st := allocator.Allocate(c07MinorSets(o.Required), c07MinorSets(o.Preferred), nil, preemptible)
	if !st.IsSuccess() {
		return nil, st.Message()
	}
	if err := fillGPUTotalMem(result, nd); err != nil {
		return nil, err.Error()
	}
	return result, ""
}

// apply executes one operation on the real cache. The returned event echoes op + arguments (a trace is also a script)
// and carries the result; applied=false means the operation is not executable in the current environment (skipped).
func (w *c07World) apply(o *c07Op) (vu.Ev, bool) {
	switch o.Op { // the informer delivers the pod (again): a late roll-back is made good by the handler
	case "touch", "readd", "annotate", "terminate", "unassign", "delete", "add", "restart":
		defer func(p string) {
			if o.Op == "restart" {
				w.lost = map[string]bool{}
			} else {
				delete(w.lost, p)
			}
		}(o.Pod)
	}
	ev := vu.Ev{"op": o.Op}
	if o.Pod != "" {
		ev["pod"] = o.Pod
	}
	cur := w.api[o.Pod]
	assigned := cur != nil && cur.Spec.NodeName != ""
	switch o.Op {
	case "inventory":
		ds := o.Devices
		if ds == nil {
			ds = []c07Dev{}
		}
		ev["devices"], ev["topo"] = ds, o.Topo
		d := c07Device(o.Devices, o.Topo)
		if w.device == nil {
			w.cache.onDeviceAdd(d)
		} else {
			w.cache.onDeviceUpdate(w.device, d)
		}
		w.device = d
	case "invalidate": // the Device object is deleted: every device is marked unhealthy until it is re-created
		if w.device == nil {
			return nil, false
		}
		w.cache.onDeviceDelete(w.device)
		w.device = nil
	case "create": // an unassigned pod appears
		if cur != nil {
			return nil, false
		}
		p := w.newPod(o.Pod)
		w.cache.onPodAdd(p)
		w.api[o.Pod] = p
	case "alloc": // one scheduling attempt on this node (+ Reserve when commit)
		if assigned || len(w.resv[o.Pod]) > 0 {
			return nil, false
		}
		if cur == nil { // the add event of an unassigned pod
			cur = w.newPod(o.Pod)
			w.cache.onPodAdd(cur)
			w.api[o.Pod] = cur
		}
		ev["reqs"], ev["required"], ev["preferred"] = o.Reqs, c07NonNilMinors(o.Required), c07NonNilMinors(o.Preferred)
		ev["filter"], ev["scorer"], ev["commit"] = o.Filter, o.Scorer, o.Commit
		result, reason := w.allocate(o, cur)
		ok := reason == "" && len(result) > 0
		ev["result"] = vu.Ev{"ok": ok, "alloc": c07FromAllocations(result), "reason": reason}
		if ok && o.Commit { // Plugin.Reserve
			nd := w.cache.getNodeDevice(c07Node, false)
			nd.lock.Lock()
			nd.updateCacheUsed(result, cur, true)
			nd.lock.Unlock()
			w.resv[o.Pod] = result
		}
	case "unreserve": // Plugin.Unreserve (bind failed / pod rejected after Reserve)
		if assigned || len(w.resv[o.Pod]) == 0 {
			return nil, false
		}
		if nd := w.cache.getNodeDevice(c07Node, false); nd != nil {
			nd.lock.Lock()
			nd.updateCacheUsed(w.resv[o.Pod], w.podOrStub(o.Pod), false)
			nd.lock.Unlock()
		}
		delete(w.resv, o.Pod)
	case "lateUnreserve": // the bind was persisted and delivered, but the bind call reported an error: Plugin.Unreserve rolls back
		if !assigned || w.lost[o.Pod] || cur.Status.Phase == corev1.PodSucceeded || cur.Status.Phase == corev1.PodFailed {
			return nil, false
		}
		held, err := apiext.GetDeviceAllocations(cur.Annotations)
		if err != nil || len(held) == 0 {
			return nil, false
		}
		if nd := w.cache.getNodeDevice(c07Node, false); nd != nil {
			nd.lock.Lock()
			nd.updateCacheUsed(held, cur, false) // state.allocationResult = what Reserve assumed = what PreBind persisted
			nd.lock.Unlock()
		}
		w.lost[o.Pod] = true
	case "bind": // PreBind wrote the annotation, the pod got bound: the informer delivers the update
		if assigned || len(w.resv[o.Pod]) == 0 || cur == nil {
			return nil, false
		}
		np := cur.DeepCopy()
		np.Spec.NodeName = c07Node
		np.Status.Phase = corev1.PodRunning
		if err := apiext.SetDeviceAllocations(np, w.resv[o.Pod]); err != nil {
			panic(err)
		}
		w.cache.onPodUpdate(cur, np)
		w.api[o.Pod] = np
		delete(w.resv, o.Pod)
	case "touch": // an update that does not change the allocation (status / resync)
		if cur == nil {
			return nil, false
		}
		np := cur.DeepCopy()
		np.ResourceVersion = fmt.Sprint(w.inc)
		w.inc++
		w.cache.onPodUpdate(cur, np)
		w.api[o.Pod] = np
	case "annotate": // an update that changes the allocation annotation of an assigned, running pod
		if !assigned || cur.Status.Phase == corev1.PodSucceeded || cur.Status.Phase == corev1.PodFailed {
			return nil, false
		}
		ev["alloc"] = o.Alloc
		np := cur.DeepCopy()
		if err := apiext.SetDeviceAllocations(np, c07ToAllocations(o.Alloc)); err != nil {
			panic(err)
		}
		w.cache.onPodUpdate(cur, np)
		w.api[o.Pod] = np
	case "terminate":
		if !assigned || cur.Status.Phase == corev1.PodSucceeded || cur.Status.Phase == corev1.PodFailed {
			return nil, false
		}
		ph := corev1.PodSucceeded
		if o.Phase == "Failed" {
			ph = corev1.PodFailed
		}
		ev["phase"] = string(ph)
		np := cur.DeepCopy()
		np.Status.Phase = ph
		w.cache.onPodUpdate(cur, np)
		w.api[o.Pod] = np
	case "unassign": // multi-scheduler: the pod object becomes unassigned again
		if !assigned {
			return nil, false
		}
		np := cur.DeepCopy()
		np.Spec.NodeName = ""
		w.cache.onPodUpdate(cur, np)
		w.api[o.Pod] = np
	case "delete":
		if cur == nil {
			return nil, false
		}
		ev["tombstone"] = o.Tombstone
		if o.Tombstone {
			w.cache.onPodDelete(cache.DeletedFinalStateUnknown{Key: c07NS + "/" + o.Pod, Obj: cur})
		} else {
			w.cache.onPodDelete(cur)
		}
		w.gone[o.Pod] = cur
		delete(w.api, o.Pod)
	case "readd": // duplicate add of the current object (ForceSyncFromInformer + informer at start-up)
		if cur == nil {
			return nil, false
		}
		w.cache.onPodAdd(cur)
	case "redelete": // duplicate delete of an object that is already gone
		if cur != nil || len(w.resv[o.Pod]) > 0 || w.gone[o.Pod] == nil {
			return nil, false
		}
		w.cache.onPodDelete(w.gone[o.Pod])
	case "add": // an already assigned pod appears (scheduler fail-over, another scheduler)
		if cur != nil || len(w.resv[o.Pod]) > 0 {
			return nil, false
		}
		ev["alloc"] = o.Alloc
		p := w.newPod(o.Pod)
		p.Spec.NodeName = c07Node
		p.Status.Phase = corev1.PodRunning
		if err := apiext.SetDeviceAllocations(p, c07ToAllocations(o.Alloc)); err != nil {
			panic(err)
		}
		w.cache.onPodAdd(p)
		w.api[o.Pod] = p
	case "restart": // C19: the scheduler restarts (zz_verif_c19_test.go)
		return w.c19Restart(o), true
	default:
		panic("c07: unknown op " + o.Op)
	}
	return ev, true
}

func c07NonNilMinors(m c07Minors) c07Minors {
	if m == nil {
		return c07Minors{}
	}
	return m
}

func (w *c07World) podOrStub(name string) *corev1.Pod {
	if p := w.api[name]; p != nil {
		return p
	}
	return &corev1.Pod{ObjectMeta: metav1.ObjectMeta{Namespace: c07NS, Name: name}}
}

// run one script as one trace segment; returns (#applied, #skipped)
func c07Run(rec *vu.Recorder, script []c07Op) (int, int) {
	w := c07NewWorld()
	rec.Reset(nil)
	applied, skipped := 0, 0
	for i := range script {
		o := &script[i]
		if o.Op == "reset" {
			continue
		}
		var ev vu.Ev
		var ok bool
		panicked, msg := vu.Protect(func() { ev, ok = w.apply(o) })
		if panicked {
			if strings.HasPrefix(msg, "c07:") {
				panic(msg) // harness trouble, never a verdict
			}
			rec.Emit(vu.Ev{"op": "panic", "in": o.Op, "msg": msg})
			return applied, skipped
		}
		if !ok {
			skipped++
			continue
		}
		ev["obs"] = w.obs()
		rec.Emit(ev)
		applied++
	}
	return applied, skipped
}

// ---- seeded random generator (a shadow of the ENVIRONMENT steers generation; it never judges) ----------------

type c07Gen struct {
	rng      *rand.Rand
	w        *c07World // the generator runs against the live world: ops are drawn, executed and recorded one by one
	pods     []string
	types    []string
	nminor   int
	topo     bool
	thorough bool
	minors   map[string][]int // minors listed by the last inventory, per type
	gpuMem   []int64          // memory size of GPU minor m: a property of the physical device, fixed within a history
}

var c07GPUMenu = [][2]int64{{25, 25}, {50, 50}, {100, 100}, {100, 100}, {50, 25}, {25, 50}}

func (g *c07Gen) devRes(t string, m int) map[string]int64 {
	switch t {
	case "gpu": // a healthy GPU always reports 100 percent of core / memory and its memory size
		return map[string]int64{"core": 100, "ratio": 100, "mem": g.gpuMem[m]}
	default:
		full := int64(100)
		if g.rng.Intn(6) == 0 {
			full = 50 // a shrunk (not zero) total
		}
		return map[string]int64{t: full}
	}
}

func (g *c07Gen) inventory() c07Op {
	o := c07Op{Op: "inventory", Topo: g.topo, Devices: []c07Dev{}}
	g.minors = map[string][]int{}
	for _, t := range g.types {
		if g.rng.Intn(12) == 0 {
			continue // the whole type disappears
		}
		for m := 0; m < g.nminor; m++ {
			if g.rng.Intn(8) == 0 {
				continue // minor removed
			}
			d := c07Dev{T: t, M: m, H: g.rng.Intn(6) != 0, Res: g.devRes(t, m)}
			o.Devices = append(o.Devices, d)
			g.minors[t] = append(g.minors[t], m)
		}
	}
	return o
}

func (g *c07Gen) subset(n int) []int {
	var s []int
	for m := 0; m < n; m++ {
		if g.rng.Intn(2) == 0 {
			s = append(s, m)
		}
	}
	if len(s) == 0 {
		s = []int{g.rng.Intn(n)}
	}
	return s
}

// free amounts of one device as the cache reports them (steering only)
func (g *c07Gen) freeOf(t string, m int) map[string]int64 {
	sum, ok := g.w.cache.getNodeDeviceSummary(c07Node)
	if !ok {
		return nil
	}
	return c07Ints(sum.DeviceFreeDetail[schedulingv1alpha1.DeviceType(t)][m])
}

func (g *c07Gen) request(t string) c07Req {
	cnt := 1
	if g.rng.Intn(3) == 0 {
		cnt = 2 + g.rng.Intn(2)
	}
	// boundary value: ask for exactly what some device has left
	if g.rng.Intn(6) == 0 {
		free := g.freeOf(t, g.rng.Intn(g.nminor))
		if t == "gpu" && free["ratio"] >= 1 && free["core"] >= 1 {
			return c07Req{Req: map[string]int64{"core": 1 + g.rng.Int63n(free["core"]), "ratio": free["ratio"]}, Cnt: 1}
		}
		if t != "gpu" && free[t] >= 1 {
			return c07Req{Req: map[string]int64{t: free[t]}, Cnt: 1}
		}
	}
	if t == "gpu" {
		switch g.rng.Intn(8) {
		case 0: // GPU memory in bytes (any amount, not a whole percentage of the device)
			return c07Req{Req: map[string]int64{"core": []int64{10, 25, 50}[g.rng.Intn(3)], "mem": 100 + g.rng.Int63n(5000)}, Cnt: cnt}
		case 1:
			return c07Req{Req: map[string]int64{"mem": 100 + g.rng.Int63n(5000)}, Cnt: 1}
		case 2:
			return c07Req{Req: map[string]int64{"ratio": []int64{10, 25, 50}[g.rng.Intn(3)]}, Cnt: 1}
		}
		p := c07GPUMenu[g.rng.Intn(len(c07GPUMenu))]
		if g.thorough && g.rng.Intn(6) == 0 {
			p = [2]int64{int64(5 * (1 + g.rng.Intn(20))), int64(5 * (1 + g.rng.Intn(20)))}
		}
		return c07Req{Req: map[string]int64{"core": p[0], "ratio": p[1]}, Cnt: cnt}
	}
	q := []int64{25, 50, 100, 100}[g.rng.Intn(4)]
	if g.thorough && g.rng.Intn(6) == 0 {
		q = int64(5 * (1 + g.rng.Intn(20)))
	}
	if cnt > 1 {
		q = 100
	}
	return c07Req{Req: map[string]int64{t: q}, Cnt: cnt}
}

func (g *c07Gen) allocOp(pod string) c07Op {
	o := c07Op{Op: "alloc", Pod: pod, Reqs: c07Reqs{}, Required: c07Minors{}, Preferred: c07Minors{},
		Filter: g.rng.Intn(10) < 7, Scorer: []string{"", "", "least", "most"}[g.rng.Intn(4)], Commit: g.rng.Intn(8) != 0}
	t := g.types[g.rng.Intn(len(g.types))]
	o.Reqs[t] = g.request(t)
	if len(g.types) > 1 && g.rng.Intn(7) == 0 {
		t2 := g.types[g.rng.Intn(len(g.types))]
		if t2 != t {
			o.Reqs[t2] = g.request(t2)
		}
	}
	ts := make([]string, 0, len(o.Reqs))
	for t := range o.Reqs {
		ts = append(ts, t)
	}
	sort.Strings(ts) // no map-order dependence in how the RNG is consumed
	for _, t := range ts {
		if !(g.topo && t == "gpu") && g.rng.Intn(5) == 0 { // the topology-scoped GPU path takes its device restriction from the filtered nodeDevice only
			o.Required[t] = g.subset(g.nminor)
		}
		if g.rng.Intn(5) == 0 {
			o.Preferred[t] = g.subset(g.nminor)
		}
	}
	return o
}

// a concrete allocation for add / annotate: mostly one that fits the free amounts reported by the cache (steering only)
func (g *c07Gen) foreign() c07Alloc {
	a := c07Alloc{}
	sum, _ := g.w.cache.getNodeDeviceSummary(c07Node)
	t := g.types[g.rng.Intn(len(g.types))]
	n := 1 + g.rng.Intn(2)
	perm := g.rng.Perm(g.nminor)
	for _, m := range perm {
		if len(a[t]) == n {
			break
		}
		var res map[string]int64
		if t == "gpu" {
			p := c07GPUMenu[g.rng.Intn(len(c07GPUMenu))]
			res = map[string]int64{"core": p[0], "ratio": p[1], "mem": p[1] * g.gpuMem[m] / 100}
		} else {
			res = map[string]int64{t: []int64{25, 50, 100}[g.rng.Intn(3)]}
		}
		fits := false
		if sum != nil {
			free := c07Ints(sum.DeviceFreeDetail[schedulingv1alpha1.DeviceType(t)][m])
			fits = true
			for k, v := range res {
				if free[k] < v {
					fits = false
				}
			}
		}
		if fits || g.rng.Intn(4) == 0 {
			a[t] = append(a[t], c07Grant{M: m, Res: res})
		}
	}
	if len(a[t]) == 0 {
		delete(a, t)
	}
	return a
}

func (g *c07Gen) next() c07Op {
	pod := g.pods[g.rng.Intn(len(g.pods))]
	cur := g.w.api[pod]
	assigned := cur != nil && cur.Spec.NodeName != ""
	live := assigned && cur.Status.Phase != corev1.PodSucceeded && cur.Status.Phase != corev1.PodFailed
	held := len(g.w.resv[pod]) > 0
	k := g.rng.Intn(100)
	switch {
	case g.w.device == nil || k < 9:
		return g.inventory()
	case k < 11:
		return c07Op{Op: "invalidate"}
	case held:
		switch {
		case k < 75:
			return c07Op{Op: "bind", Pod: pod}
		case k < 85:
			return c07Op{Op: "unreserve", Pod: pod}
		case k < 92 && cur != nil:
			return c07Op{Op: "delete", Pod: pod, Tombstone: g.rng.Intn(3) == 0} // unassigned pod deleted while assumed
		default:
			return c07Op{Op: "touch", Pod: pod}
		}
	case cur == nil:
		switch {
		case k < 25 && g.w.gone[pod] != nil:
			return c07Op{Op: "redelete", Pod: pod}
		case k < 40:
			return c07Op{Op: "add", Pod: pod, Alloc: g.foreign()}
		case k < 45:
			return c07Op{Op: "create", Pod: pod}
		default:
			return g.allocOp(pod)
		}
	case !assigned:
		if k < 20 {
			return c07Op{Op: []string{"touch", "readd", "delete"}[g.rng.Intn(3)], Pod: pod}
		}
		return g.allocOp(pod)
	case live:
		switch {
		case k >= 19 && k < 25 && !g.w.lost[pod]:
			return c07Op{Op: "lateUnreserve", Pod: pod}
		case k < 25:
			return c07Op{Op: "touch", Pod: pod}
		case k < 40:
			return c07Op{Op: "readd", Pod: pod}
		case k < 52:
			return c07Op{Op: "annotate", Pod: pod, Alloc: g.foreign()}
		case k < 72:
			return c07Op{Op: "terminate", Pod: pod, Phase: []string{"Succeeded", "Failed"}[g.rng.Intn(2)]}
		case k < 77:
			return c07Op{Op: "unassign", Pod: pod}
		default:
			return c07Op{Op: "delete", Pod: pod, Tombstone: g.rng.Intn(3) == 0}
		}
	default: // assigned and terminated
		switch {
		case k < 30:
			return c07Op{Op: "touch", Pod: pod}
		case k < 45:
			return c07Op{Op: "readd", Pod: pod}
		default:
			return c07Op{Op: "delete", Pod: pod, Tombstone: g.rng.Intn(3) == 0}
		}
	}
}

// set by the C19 driver only: random histories are cut by restarts (C07's own histories contain none)
var c07Restarts bool

// one random segment: ops are drawn against the live environment and executed immediately
func c07Random(rec *vu.Recorder, rng *rand.Rand, length int, thorough bool, stats map[string]int) {
	g := &c07Gen{rng: rng, w: c07NewWorld(), thorough: thorough}
	g.types = [][]string{{"gpu"}, {"rdma"}, {"gpu", "rdma"}, {"gpu", "rdma"}, {"gpu", "rdma", "fpga"}}[rng.Intn(5)]
	g.nminor = 2 + rng.Intn(3)
	g.topo = rng.Intn(4) == 0
	for m := 0; m < g.nminor; m++ {
		g.gpuMem = append(g.gpuMem, []int64{8000, 8000, 16000}[rng.Intn(3)])
	}
	for i := 0; i < 3+rng.Intn(4); i++ {
		g.pods = append(g.pods, fmt.Sprintf("p%d", i))
	}
	rec.Reset(nil)
	for n := 0; n < length; n++ {
		var o c07Op
		if c07Restarts && n > 0 && rng.Intn(10) == 0 {
			// C19: the scheduler restarts; the history goes on against the rebuilt cache
			o = c07Op{Op: "restart", Variant: rng.Intn(1 << 20)}
		} else {
			o = g.next()
		}
		var ev vu.Ev
		var ok bool
		panicked, msg := vu.Protect(func() { ev, ok = g.w.apply(&o) })
		if panicked {
			if strings.HasPrefix(msg, "c07:") {
				panic(msg)
			}
			rec.Emit(vu.Ev{"op": "panic", "in": o.Op, "msg": msg})
			return
		}
		if !ok {
			stats["skipped"]++
			continue
		}
		ev["obs"] = g.w.obs()
		rec.Emit(ev)
		c07Count(stats, ev)
	}
}

func c07Count(stats map[string]int, ev vu.Ev) {
	op := ev["op"].(string)
	stats[op]++
	if op == "alloc" {
		if ev["result"].(vu.Ev)["ok"].(bool) {
			stats["alloc.ok"]++
		} else {
			stats["alloc.fail"]++
		}
	}
}

// enumerated boundary histories (deterministic): n pods ask for b bytes of GPU memory on a GPU of size T, then one pod
// asks, in percent, for exactly / one less than what the ledger reports as left, or in bytes for what is left.
func c07Boundary(rec *vu.Recorder, stats map[string]int) {
	emit := func(w *c07World, o c07Op) vu.Ev {
		ev, ok := w.apply(&o)
		if !ok {
			panic("c07: boundary operation not executable: " + o.Op)
		}
		ev["obs"] = w.obs()
		rec.Emit(ev)
		c07Count(stats, ev)
		return ev
	}
	for _, T := range []int64{8000, 16000} {
		for _, b := range []int64{1000, 2500, 3000, 3300, 5000} {
			for n := 1; n <= 3 && int64(n)*b < T; n++ {
				for _, last := range []string{"ratio-left", "ratio-left-1", "mem-left"} {
					for _, filter := range []bool{true, false} {
						w := c07NewWorld()
						rec.Reset(nil)
						emit(w, c07Op{Op: "inventory", Devices: []c07Dev{{T: "gpu", M: 0, H: true, Res: map[string]int64{"core": 100, "ratio": 100, "mem": T}}}})
						for i := 0; i < n; i++ {
							emit(w, c07Op{Op: "alloc", Pod: fmt.Sprintf("p%d", i), Filter: filter, Commit: true,
								Reqs: c07Reqs{"gpu": {Req: map[string]int64{"core": 10, "mem": b}, Cnt: 1}}})
						}
						sum, _ := w.cache.getNodeDeviceSummary(c07Node)
						free := c07Ints(sum.DeviceFreeDetail[schedulingv1alpha1.GPU][0])
						req := map[string]int64{"core": 10, "ratio": free["ratio"]}
						switch last {
						case "ratio-left-1":
							req["ratio"] = free["ratio"] - 1
						case "mem-left":
							req = map[string]int64{"core": 10, "mem": free["mem"]}
						}
						if req["ratio"] < 1 && req["mem"] < 1 {
							continue
						}
						pod := fmt.Sprintf("p%d", n)
						emit(w, c07Op{Op: "alloc", Pod: pod, Filter: filter, Commit: true, Reqs: c07Reqs{"gpu": {Req: req, Cnt: 1}}})
						if len(w.resv[pod]) > 0 {
							emit(w, c07Op{Op: "bind", Pod: pod})
							emit(w, c07Op{Op: "delete", Pod: pod})
						}
					}
				}
			}
		}
	}
}

func TestVerifC07(t *testing.T) {
	if !vu.Enabled() {
		t.Skip("verification harness: VERIF_OUT not set")
	}
	rec := vu.NewRecorder("")
	defer rec.Close()
	path := vu.ScriptPath()
	if vu.ReplayPath() != "" {
		path = vu.ReplayPath()
	}
	applied, skipped := 0, 0
	for _, raw := range vu.ReadScripts(path) {
		var script []c07Op
		if err := json.Unmarshal(raw, &script); err != nil {
			t.Fatalf("bad script %s: %v", string(raw), err)
		}
		a, s := c07Run(rec, script)
		applied, skipped = applied+a, skipped+s
	}
	t.Logf("C07 scripts: %d segments, %d ops applied, %d skipped (not executable in the real environment)", rec.Segments(), applied, skipped)
	if vu.ReplayPath() != "" {
		return
	}
	n, length := 300, 40
	if vu.Thorough() {
		n, length = 4000, 60
	}
	n = vu.EnvInt("VERIF_C07_N", n)
	rng := vu.Rand(7)
	stats := map[string]int{}
	c07Boundary(rec, stats)
	for i := 0; i < n; i++ {
		c07Random(rec, rng, length, vu.Thorough(), stats)
	}
	keys := make([]string, 0, len(stats))
	for k := range stats {
		keys = append(keys, k)
	}
	sort.Strings(keys)
	var sb strings.Builder
	for _, k := range keys {
		fmt.Fprintf(&sb, " %s=%d", k, stats[k])
	}
	t.Logf("C07 random: %d segments, %d events;%s", rec.Segments(), rec.Events(), sb.String())
}
