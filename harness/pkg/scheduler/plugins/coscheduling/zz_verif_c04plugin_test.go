package coscheduling

// Verification harness for C04 at the PLUGIN level (injected by `go test -overlay`): the executor of
// core/zz_verif_c04.go with every scheduler-facing call routed through the real Coscheduling methods of
// coscheduling.go (Permit incl. AllowGangGroup, Unreserve, AfterPostFilter, PostBind). No oracle here.

import (
	"context"
	"testing"

	corev1 "k8s.io/api/core/v1"
	fwktype "k8s.io/kube-scheduler/framework"
	"k8s.io/kubernetes/pkg/scheduler/framework"

	"github.com/koordinator-sh/koordinator/pkg/scheduler/plugins/coscheduling/core"
)

func TestVerifC04Plugin(t *testing.T) {
	core.VerifC04Main(t, func(mgr *core.PodGroupManager, handle fwktype.Handle) *core.VerifC04Glue {
		cs := &Coscheduling{frameworkHandler: handle, pgMgr: mgr}
		return &core.VerifC04Glue{
			Permit: func(ctx context.Context, pod *corev1.Pod) string {
				st, _ := cs.Permit(ctx, framework.NewCycleState(), pod, "n1")
				switch {
				case st.IsSuccess():
					return "Success"
				case st.Code() == fwktype.Wait:
					return "Wait"
				}
				return "Other"
			},
			Unreserve: func(ctx context.Context, pod *corev1.Pod) {
				cs.Unreserve(ctx, framework.NewCycleState(), pod, "n1")
			},
			Fail: func(ctx context.Context, pod *corev1.Pod) {
				cs.AfterPostFilter(ctx, framework.NewCycleState(), pod, framework.NewDefaultNodeToStatus(), nil)
			},
			PostBind: func(ctx context.Context, pod *corev1.Pod) {
				cs.PostBind(ctx, framework.NewCycleState(), pod, "n1")
			},
		}
	})
}
