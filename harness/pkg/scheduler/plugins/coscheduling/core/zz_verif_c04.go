//go:build verif

package core

// Verification harness for C04 (injected by `go test -overlay`; a non-test file so that the plugin-level test in the
// parent package can run the same executor through the real Coscheduling plugin glue). Executor + recorder: drives the real
// PodGroupManager / gang cache through informer handlers, Permit, Unreserve, AfterPostFilter and PostBind
// with a recording framework handle that plays the scheduler framework's waiting-pod table.
// No oracle here; TLC validates the recorded trace against specs/Gang/GangTrace.tla.

import (
	"context"
	"encoding/json"
	"fmt"
	"math/rand"
	"sort"
	"strings"
	"testing"
	"time"

	corev1 "k8s.io/api/core/v1"
	metav1 "k8s.io/apimachinery/pkg/apis/meta/v1"
	"k8s.io/apimachinery/pkg/types"
	"k8s.io/apimachinery/pkg/util/sets"
	fwktype "k8s.io/kube-scheduler/framework"
	"k8s.io/kubernetes/pkg/scheduler/framework"

	"k8s.io/client-go/informers"
	clientsetfake "k8s.io/client-go/kubernetes/fake"

	"github.com/koordinator-sh/koordinator/apis/extension"
	pgv1alpha1 "github.com/koordinator-sh/koordinator/apis/thirdparty/scheduler-plugins/pkg/apis/scheduling/v1alpha1"
	fakepgclientset "github.com/koordinator-sh/koordinator/apis/thirdparty/scheduler-plugins/pkg/generated/clientset/versioned/fake"
	pgformers "github.com/koordinator-sh/koordinator/apis/thirdparty/scheduler-plugins/pkg/generated/informers/externalversions"
	koordfake "github.com/koordinator-sh/koordinator/pkg/client/clientset/versioned/fake"
	koordinformers "github.com/koordinator-sh/koordinator/pkg/client/informers/externalversions"
	"github.com/koordinator-sh/koordinator/pkg/scheduler/apis/config"
	vu "github.com/koordinator-sh/koordinator/pkg/verifutil"
)

// VerifC04Glue lets the plugin-level test route the scheduler-facing calls through the real Coscheduling plugin methods
// (Permit / Unreserve / AfterPostFilter / PostBind of coscheduling.go); nil = the manager is called directly, with the
// plugin's few lines of glue replicated here.
type VerifC04Glue struct {
	Permit    func(ctx context.Context, pod *corev1.Pod) string // "Success" | "Wait" | "Other"
	Unreserve func(ctx context.Context, pod *corev1.Pod)
	Fail      func(ctx context.Context, pod *corev1.Pod)
	PostBind  func(ctx context.Context, pod *corev1.Pod)
}

// VerifC04Factory builds the glue for a fresh manager and the recording framework handle of one segment.
type VerifC04Factory func(mgr *PodGroupManager, handle fwktype.Handle) *VerifC04Glue

var c04Factory VerifC04Factory

func c04NewManager() *PodGroupManager { // as NewManagerForTest of the package's tests
	pgClient := fakepgclientset.NewSimpleClientset()
	pgInformerFactory := pgformers.NewSharedInformerFactory(pgClient, 0)
	informerFactory := informers.NewSharedInformerFactory(clientsetfake.NewSimpleClientset(), 0)
	koordInformerFactory := koordinformers.NewSharedInformerFactory(koordfake.NewSimpleClientset(), 0)
	args := &config.CoschedulingArgs{DefaultTimeout: metav1.Duration{Duration: 300 * time.Second}}
	return NewPodGroupManager(nil, args, pgClient, pgInformerFactory, informerFactory, koordInformerFactory)
}

var c04Pods = []string{"p1", "p2", "p3", "p4", "p5", "p6", "p7", "p8"}

// the id of the third gang is a prefix of the first one's ("ns/g1" / "ns/g11"): ids must be compared, not searched for
var c04Gangs = []string{"g11", "g2", "g1"}

type c04GangCfg struct {
	Min    int      `json:"min"`
	Strict bool     `json:"strict"`
	Policy string   `json:"policy"` // once | waiting | waitrun
	Group  []string `json:"group"`
}

type c04Op struct {
	Op     string                `json:"op"`
	Pod    string                `json:"pod,omitempty"`
	Bound  bool                  `json:"bound,omitempty"`
	Term   bool                  `json:"term,omitempty"` // podSet: the object carries a deletionTimestamp (a finalizer holds it): still a member until it is deleted
	Auto   bool                  `json:"auto,omitempty"`
	GangOf map[string]string     `json:"gangOf,omitempty"`
	Cfg    map[string]c04GangCfg `json:"cfg,omitempty"`
	Crd    bool                  `json:"crd,omitempty"`  // reset: gangs are declared by PodGroup objects (pods carry the pod-group label)
	Gang   string                `json:"gang,omitempty"` // pgSet
	Cfg1   *c04GangCfg           `json:"cfg1,omitempty"` // pgSet: the gang's new settings
}

// ---- the framework's waiting-pod table, recording Allow / Reject ----
type c04Waiting struct {
	pod *corev1.Pod
	w   *c04World
}

func (wp *c04Waiting) GetPod() *corev1.Pod         { return wp.pod }
func (wp *c04Waiting) GetPendingPlugins() []string { return []string{"Coscheduling"} }
func (wp *c04Waiting) Allow(pluginName string)     { wp.w.allowed[wp.pod.Name] = true }
func (wp *c04Waiting) Reject(pluginName, msg string) {
	wp.w.rejected[wp.pod.Name] = true
}

type c04Handle struct {
	fwktype.Handle // nil: any other method would panic, none is used by the calls we make
	w              *c04World
}

func (h *c04Handle) IterateOverWaitingPods(cb func(fwktype.WaitingPod)) {
	names := make([]string, 0, len(h.w.fw))
	for n := range h.w.fw {
		names = append(names, n)
	}
	sort.Strings(names)
	for _, n := range names {
		cb(&c04Waiting{pod: h.w.fw[n], w: h.w})
	}
}

type c04World struct {
	mgr      *PodGroupManager
	handle   *c04Handle
	gangOf   map[string]string
	cfg      map[string]c04GangCfg
	objs     map[string]*corev1.Pod // last object delivered by the "API server"
	fw       map[string]*corev1.Pod // parked at permit
	assumed  map[string]bool        // passed Permit step (parked or released), not yet bound / rolled back
	bound    map[string]bool
	allowed  map[string]bool
	rejected map[string]bool
	rec      *vu.Recorder
	glue     *VerifC04Glue
	crd      bool
	pgs      map[string]*pgv1alpha1.PodGroup // last PodGroup object delivered per gang
}

func c04Policy(p string) string {
	switch p {
	case "waiting":
		return extension.GangMatchPolicyOnlyWaiting
	case "waitrun":
		return extension.GangMatchPolicyWaitingAndRunning
	}
	return extension.GangMatchPolicyOnceSatisfied
}

func (w *c04World) podObj(id string, bound bool) *corev1.Pod {
	g := w.gangOf[id]
	c := w.cfg[g]
	groups := []string{}
	for _, x := range c.Group {
		groups = append(groups, "ns/"+x)
	}
	gb, _ := json.Marshal(groups)
	mode := extension.GangModeNonStrict
	if c.Strict {
		mode = extension.GangModeStrict
	}
	if w.crd {
		p := &corev1.Pod{ObjectMeta: metav1.ObjectMeta{Name: id, Namespace: "ns", UID: types.UID(id), Labels: map[string]string{pgv1alpha1.PodGroupLabel: g}}}
		if bound {
			p.Spec.NodeName = "n1"
		}
		return p
	}
	p := &corev1.Pod{ObjectMeta: metav1.ObjectMeta{Name: id, Namespace: "ns", UID: types.UID(id), Annotations: map[string]string{
		extension.AnnotationGangName:        g,
		extension.AnnotationGangMinNum:      fmt.Sprint(c.Min),
		extension.AnnotationGangMode:        mode,
		extension.AnnotationGangMatchPolicy: c04Policy(c.Policy),
		extension.AnnotationGangGroups:      string(gb),
	}}}
	if bound {
		p.Spec.NodeName = "n1"
	}
	return p
}

func c04PodGroup(g string, c c04GangCfg) *pgv1alpha1.PodGroup {
	groups := []string{}
	for _, x := range c.Group {
		groups = append(groups, "ns/"+x)
	}
	gb, _ := json.Marshal(groups)
	mode := extension.GangModeNonStrict
	if c.Strict {
		mode = extension.GangModeStrict
	}
	return &pgv1alpha1.PodGroup{
		ObjectMeta: metav1.ObjectMeta{Name: g, Namespace: "ns", Annotations: map[string]string{
			extension.AnnotationGangMode:        mode,
			extension.AnnotationGangMatchPolicy: c04Policy(c.Policy),
			extension.AnnotationGangGroups:      string(gb),
		}},
		Spec: pgv1alpha1.PodGroupSpec{MinMember: int32(c.Min)},
	}
}

func c04Sorted(m map[string]bool) []string {
	s := []string{}
	for k, v := range m {
		if v {
			s = append(s, k)
		}
	}
	sort.Strings(s)
	return s
}

func c04Names(set sets.Set[string]) []string {
	s := []string{}
	for k := range set {
		s = append(s, strings.TrimPrefix(k, "ns/"))
	}
	sort.Strings(s)
	return s
}

func (w *c04World) obs() map[string]interface{} {
	out := map[string]interface{}{}
	for id, s := range w.mgr.GetGangSummaries() {
		out[strings.TrimPrefix(id, "ns/")] = vu.Ev{
			"children": c04Names(s.Children), "pending": c04Names(s.PendingChildren),
			"waiting": c04Names(s.WaitingForBindChildren), "bound": c04Names(s.BoundChildren),
		}
	}
	return out
}

// executes one op on the real code and records it; returns the pods rejected by the call (to be rolled back)
func (w *c04World) exec(o c04Op) []string {
	w.allowed, w.rejected = map[string]bool{}, map[string]bool{}
	ctx := context.TODO()
	ev := vu.Ev{"op": o.Op, "pod": o.Pod}
	if o.Auto {
		ev["auto"] = true
	}
	switch o.Op {
	case "podSet":
		obj := w.podObj(o.Pod, o.Bound)
		if o.Term {
			now := metav1.Now()
			obj.DeletionTimestamp = &now
			obj.Finalizers = []string{"verif/hold"}
			ev["term"] = true
		}
		if old, ok := w.objs[o.Pod]; ok {
			w.mgr.cache.onPodUpdate(old, obj)
		} else {
			w.mgr.cache.onPodAdd(obj)
		}
		w.objs[o.Pod] = obj
		if o.Bound {
			delete(w.fw, o.Pod)
			delete(w.assumed, o.Pod)
			w.bound[o.Pod] = true
		}
		ev["bound"] = o.Bound
	case "podDelete":
		if old, ok := w.objs[o.Pod]; ok {
			w.mgr.cache.onPodDelete(old)
		}
		delete(w.objs, o.Pod)
		delete(w.fw, o.Pod)
		delete(w.bound, o.Pod)
		delete(w.assumed, o.Pod) // the scheduler's binding goroutine may still call PostBind/Unreserve: kept in `inflight`
	case "permit":
		obj := w.objs[o.Pod]
		res := "Other"
		if w.glue != nil {
			res = w.glue.Permit(ctx, obj)
		} else {
			_, st := w.mgr.Permit(ctx, obj)
			switch st {
			case Success:
				res = "Success"
				w.mgr.AllowGangGroup(obj, w.handle, "Coscheduling")
			case Wait:
				res = "Wait"
			}
		}
		if res == "Wait" {
			w.fw[o.Pod] = obj
		}
		w.assumed[o.Pod] = true
		for _, a := range c04Sorted(w.allowed) {
			delete(w.fw, a)
		}
		ev["result"] = res
		ev["allowed"] = c04Sorted(w.allowed)
	case "unreserve":
		obj := w.objs[o.Pod]
		if obj == nil {
			obj = w.podObj(o.Pod, false)
		}
		delete(w.fw, o.Pod)
		delete(w.assumed, o.Pod)
		if w.glue != nil {
			w.glue.Unreserve(ctx, obj)
		} else {
			w.mgr.Unreserve(ctx, framework.NewCycleState(), obj, "n1", w.handle, "Coscheduling")
		}
		ev["rejected"] = c04Sorted(w.rejected)
	case "fail":
		obj := w.objs[o.Pod]
		if w.glue != nil {
			w.glue.Fail(ctx, obj)
		} else {
			w.mgr.AfterPostFilter(ctx, framework.NewCycleState(), obj, w.handle, "Coscheduling", framework.NewDefaultNodeToStatus(), nil)
		}
		ev["rejected"] = c04Sorted(w.rejected)
	case "pgSet":
		npg := c04PodGroup(o.Gang, *o.Cfg1)
		w.mgr.cache.onPodGroupUpdate(w.pgs[o.Gang], npg)
		w.pgs[o.Gang] = npg
		w.cfg[o.Gang] = *o.Cfg1
		delete(ev, "pod")
		ev["gang"], ev["cfg"], ev["cfg1"] = o.Gang, *o.Cfg1, *o.Cfg1
	case "postBind":
		obj := w.objs[o.Pod]
		if obj == nil {
			obj = w.podObj(o.Pod, false)
		}
		delete(w.assumed, o.Pod)
		w.bound[o.Pod] = true
		if w.glue != nil {
			w.glue.PostBind(ctx, obj)
		} else {
			w.mgr.PostBind(ctx, obj, "n1")
		}
	default:
		panic("unknown op " + o.Op)
	}
	rej := c04Sorted(w.rejected)
	for _, r := range rej {
		delete(w.fw, r)
	}
	ev["obs"] = w.obs()
	w.rec.Emit(ev)
	return rej
}

// the framework rolls back every pod rejected at the permit stage
func (w *c04World) rollback(rej []string) {
	for len(rej) > 0 {
		r := rej[0]
		rej = rej[1:]
		if !w.assumed[r] {
			continue
		}
		rej = append(rej, w.exec(c04Op{Op: "unreserve", Pod: r, Auto: true})...)
	}
}

func c04NewWorld(rec *vu.Recorder, gangOf map[string]string, cfg0 map[string]c04GangCfg, crd bool) *c04World {
	cfg := map[string]c04GangCfg{} // own copy: pgSet changes it
	for g, c := range cfg0 {
		cfg[g] = c
	}
	w := &c04World{mgr: c04NewManager(), gangOf: gangOf, cfg: cfg, crd: crd, pgs: map[string]*pgv1alpha1.PodGroup{}, objs: map[string]*corev1.Pod{}, fw: map[string]*corev1.Pod{},
		assumed: map[string]bool{}, bound: map[string]bool{}, rec: rec}
	w.handle = &c04Handle{w: w}
	if c04Factory != nil {
		w.glue = c04Factory(w.mgr, w.handle)
	}
	rec.Reset(vu.Ev{"gangOf": gangOf, "cfg": cfg0, "crd": crd})
	if crd { // the PodGroup objects exist before the pods
		names := make([]string, 0, len(cfg))
		for g := range cfg {
			names = append(names, g)
		}
		sort.Strings(names)
		for _, g := range names {
			w.pgs[g] = c04PodGroup(g, cfg[g])
			w.mgr.cache.onPodGroupAdd(w.pgs[g])
		}
	}
	return w
}

func c04RandomCfg(rng *rand.Rand) (map[string]string, map[string]c04GangCfg) {
	ng := 1 + rng.Intn(3)
	groupAll := c04Gangs[:ng]
	cfg := map[string]c04GangCfg{}
	policy := []string{"once", "waiting", "waitrun"}[rng.Intn(3)]
	strict := rng.Intn(2) == 0
	split := ng == 3 && rng.Intn(2) == 0 // the third gang on its own
	alone := ng >= 2 && rng.Intn(6) == 0 // every gang on its own
	for i, g := range c04Gangs {
		grp := []string{g}
		if i < ng && !alone {
			grp = append([]string{}, groupAll...)
			if split {
				if i == 2 {
					grp = []string{g}
				} else {
					grp = append([]string{}, c04Gangs[:2]...)
				}
			}
		}
		c := c04GangCfg{Min: 1 + rng.Intn(3), Strict: strict, Policy: policy, Group: grp}
		if rng.Intn(4) == 0 {
			c.Policy = []string{"once", "waiting", "waitrun"}[rng.Intn(3)]
		}
		cfg[g] = c
	}
	gangOf := map[string]string{}
	for _, p := range c04Pods {
		gangOf[p] = c04Gangs[rng.Intn(ng)]
	}
	return gangOf, cfg
}

// online random driver: picks the next op from what the (simulated) scheduler and API server could do now
func c04RandomRun(rec *vu.Recorder, rng *rand.Rand, steps int) {
	gangOf, cfg := c04RandomCfg(rng)
	crd := rng.Intn(3) == 0
	w := c04NewWorld(rec, gangOf, cfg, crd)
	hasOnce := false
	for _, c := range cfg {
		hasOnce = hasOnce || c.Policy == "once"
	}
	inflight := map[string]bool{} // deleted while the scheduler still owns them (parked or in the binding goroutine)
	informed := map[string]bool{} // the informer has delivered an object carrying a node name: no later object can lack it
	terminating := map[string]bool{}
	for i := 0; i < steps; i++ {
		if crd && rng.Intn(14) == 0 {
			// the PodGroup object of one gang is updated: min member, mode, match policy or gang group
			g := c04Gangs[rng.Intn(len(c04Gangs))]
			c := w.cfg[g]
			c.Group = append([]string{}, c.Group...)
			switch rng.Intn(4) {
			case 0:
				c.Min = 1 + rng.Intn(3)
			case 1:
				c.Strict = !c.Strict
			case 2:
				if !hasOnce { // the once-satisfied mark belongs to a gang GROUP: settings that re-define it are left alone
					c.Policy = []string{"waiting", "waitrun"}[rng.Intn(2)]
				}
			default:
				if !hasOnce {
					c.Group = []string{g}
					for _, x := range c04Gangs {
						if x != g && rng.Intn(2) == 0 {
							c.Group = append(c.Group, x)
						}
					}
					sort.Strings(c.Group)
				}
			}
			w.exec(c04Op{Op: "pgSet", Gang: g, Cfg1: &c})
			continue
		}
		p := c04Pods[rng.Intn(len(c04Pods))]
		_, known := w.objs[p]
		var rej []string
		switch k := rng.Intn(12); {
		case !known && !inflight[p]:
			b := rng.Intn(8) == 0
			informed[p] = b
			rej = w.exec(c04Op{Op: "podSet", Pod: p, Bound: b})
		case inflight[p]:
			// the binding goroutine finishes for a pod the informer already dropped
			delete(inflight, p)
			if rng.Intn(2) == 0 {
				w.assumed[p] = true
				rej = w.exec(c04Op{Op: "postBind", Pod: p})
			} else {
				w.assumed[p] = true
				rej = w.exec(c04Op{Op: "unreserve", Pod: p})
			}
		case k == 0:
			owned := w.assumed[p]
			released := owned && w.fw[p] == nil
			rej = w.exec(c04Op{Op: "podDelete", Pod: p})
			informed[p] = false
			terminating[p] = false
			if owned {
				inflight[p] = true
				if !released {
					// parked pod deleted: the framework rejects it and rolls it back right away
					delete(inflight, p)
					w.assumed[p] = true
					rej = append(rej, w.exec(c04Op{Op: "unreserve", Pod: p})...)
				}
			}
		case k == 1:
			// fresh informer update, or a stale one (the object still lacks the node name although PostBind already ran);
			// the pod may have started terminating (a finalizer holds it; once set the timestamp stays)
			b := informed[p] || (w.bound[p] && rng.Intn(3) > 0)
			informed[p] = b
			terminating[p] = terminating[p] || rng.Intn(3) == 0
			rej = w.exec(c04Op{Op: "podSet", Pod: p, Bound: b, Term: terminating[p]})
		case w.bound[p]:
			continue
		case w.assumed[p] && w.fw[p] != nil:
			if k < 4 { // permit timeout
				rej = w.exec(c04Op{Op: "unreserve", Pod: p})
			}
		case w.assumed[p]: // released: bind succeeds or fails
			if k < 9 {
				rej = w.exec(c04Op{Op: "postBind", Pod: p})
				if rng.Intn(3) > 0 {
					b := informed[p] || rng.Intn(4) > 0
					informed[p] = b
					rej = append(rej, w.exec(c04Op{Op: "podSet", Pod: p, Bound: b})...) // informer catches up (or a stale update first)
				}
			} else if k == 9 {
				rej = w.exec(c04Op{Op: "unreserve", Pod: p})
			} else {
				// the bind was persisted but the call returned an error: the informer reports the pod bound,
				// then the scheduler rolls it back
				informed[p] = true
				rej = w.exec(c04Op{Op: "podSet", Pod: p, Bound: true})
				w.rollback(rej)
				w.assumed[p] = true
				rej = w.exec(c04Op{Op: "unreserve", Pod: p})
				delete(w.assumed, p)
			}
		default: // pending
			if k < 10 {
				rej = w.exec(c04Op{Op: "permit", Pod: p})
			} else {
				rej = w.exec(c04Op{Op: "fail", Pod: p})
			}
		}
		w.rollback(rej)
	}
}

func c04Replay(rec *vu.Recorder, script []c04Op) {
	w := c04NewWorld(rec, script[0].GangOf, script[0].Cfg, script[0].Crd)
	owned := map[string]bool{}   // deleted by the informer while the scheduler still owns them
	through := map[string]bool{} // let through Permit, binding under way
	for _, o := range script[1:] {
		if o.Auto {
			continue // produced by the framework simulation, re-created by rollback()
		}
		// a step the (simulated) scheduler / API server cannot take in the current state of the real run is skipped:
		// TLC-generated schedules follow the MODEL's permit verdicts, the real code decides the real ones
		_, known := w.objs[o.Pod]
		switch o.Op {
		case "pgSet":
			if !w.crd || o.Cfg1 == nil {
				continue
			}
		case "permit", "fail":
			if !known || w.assumed[o.Pod] || w.bound[o.Pod] {
				continue
			}
		case "unreserve":
			if !w.assumed[o.Pod] && !w.bound[o.Pod] && !owned[o.Pod] {
				continue
			}
			w.assumed[o.Pod] = true
			delete(owned, o.Pod)
			delete(through, o.Pod)
		case "postBind":
			// only a pod that was let through Permit (and not rolled back since) is bound
			if !through[o.Pod] || w.fw[o.Pod] != nil {
				continue
			}
			w.assumed[o.Pod] = true
			delete(owned, o.Pod)
			delete(through, o.Pod)
		case "podDelete":
			if !known {
				continue
			}
		case "podSet":
			// pods are identified by name: no re-creation while the scheduler still owns the previous incarnation
			if !known && owned[o.Pod] {
				continue
			}
		}
		if o.Op == "podDelete" && w.assumed[o.Pod] {
			owned[o.Pod] = true // the scheduler still owns the deleted pod: its roll-back (or PostBind) will arrive
		}
		wasParked := map[string]bool{}
		for n := range w.fw {
			wasParked[n] = true
		}
		rej := w.exec(o)
		if o.Op == "permit" {
			if w.fw[o.Pod] == nil && w.assumed[o.Pod] {
				through[o.Pod] = true
			}
			for n := range wasParked {
				if w.fw[n] == nil && w.assumed[n] {
					through[n] = true // allowed by this release
				}
			}
		}
		if o.Op == "podSet" && o.Bound {
			delete(through, o.Pod)
		}
		for _, r := range rej {
			delete(through, r)
		}
		w.rollback(rej)
	}
}

// VerifC04Main runs the replayed scripts and the online random driver; factory = nil drives the manager directly.
func VerifC04Main(t *testing.T, factory VerifC04Factory) {
	c04Factory = factory
	if !vu.Enabled() {
		t.Skip("verification harness: VERIF_OUT not set")
	}
	rec := vu.NewRecorder("")
	defer rec.Close()
	path := vu.ScriptPath()
	if vu.ReplayPath() != "" {
		path = vu.ReplayPath()
	}
	if factory != nil && vu.ReplayPath() == "" && !vu.Thorough() {
		path = "" // plugin level, quick tier: the online random driver only (the TLC-generated scripts run at the core level)
	}
	for _, raw := range vu.ReadScripts(path) {
		var script []c04Op
		if err := json.Unmarshal(raw, &script); err != nil {
			t.Fatal(err)
		}
		c04Replay(rec, script)
	}
	if vu.ReplayPath() != "" {
		return
	}
	n, steps := 300, 50
	if vu.Thorough() {
		n, steps = 4000, 80
	}
	salt := int64(4)
	if factory != nil {
		salt = 5 // other histories than the core-level run
	}
	rng := vu.Rand(salt)
	for i := 0; i < n; i++ {
		c04RandomRun(rec, rng, steps)
	}
	t.Logf("C04: %d segments, %d events", rec.Segments(), rec.Events())
}
