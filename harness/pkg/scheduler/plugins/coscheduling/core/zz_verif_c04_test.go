package core

import "testing"

// core level: the PodGroupManager is called directly (see zz_verif_c04.go)
func TestVerifC04(t *testing.T) { VerifC04Main(t, nil) }
