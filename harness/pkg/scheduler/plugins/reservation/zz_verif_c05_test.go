package reservation

// Verification harness for C05 (injected by `go test -overlay`, see /verif/DESIGN.md, /verif/docs/FAMILY_GUIDE.md).
//
// Executor + recorder, no oracle: operation scripts are executed on the REAL reservationCache, the real
// reservation / pod event-handler entry points and the real fit / match / nominate code of the plugin; after every
// operation the projection of the cache (read under the cache's lock) is logged. Expected values are computed only
// by TLC from specs/Reservation/ReservationTrace.tla.
//
// Reusable pieces (C19 reuses them):
//   c05NewWorld(t)            one plugin instance (package fixture newPluginTestSuitWith) + fresh cache
//   (*c05World).Fresh()       swap in an empty reservationCache / nominator (a "restarted" scheduler)
//   c05ApplyOp(w, &op)        apply ONE operation to the cache / handlers / plugin; returns the logged result fields
//   c05Project(cache)         projection of a reservationCache onto the specification's variables
//   c05Reservation / c05Pod   abstract object -> API object

import (
	"context"
	"encoding/json"
	"fmt"
	"math/rand"
	"runtime"
	"sort"
	"strings"
	"sync/atomic"
	"testing"
	"time"

	corev1 "k8s.io/api/core/v1"
	apiequality "k8s.io/apimachinery/pkg/api/equality"
	"k8s.io/apimachinery/pkg/api/resource"
	metav1 "k8s.io/apimachinery/pkg/apis/meta/v1"
	"k8s.io/apimachinery/pkg/types"
	utilruntime "k8s.io/apimachinery/pkg/util/runtime"
	toolscache "k8s.io/client-go/tools/cache"
	"k8s.io/kubernetes/pkg/scheduler/framework"
	"k8s.io/utils/ptr"

	apiext "github.com/koordinator-sh/koordinator/apis/extension"
	schedulingv1alpha1 "github.com/koordinator-sh/koordinator/apis/scheduling/v1alpha1"
	schedulinglister "github.com/koordinator-sh/koordinator/pkg/client/listers/scheduling/v1alpha1"
	"github.com/koordinator-sh/koordinator/pkg/scheduler/frameworkext"
	reservationutil "github.com/koordinator-sh/koordinator/pkg/util/reservation"
	vu "github.com/koordinator-sh/koordinator/pkg/verifutil"
)

// ---------------------------------------------------------------------------------------------- abstract objects

// c05Vec is a resource vector keyed by dimension ("cpu" in milli-CPU, "memory" in bytes, "pods" a count).
// Only the keys present are written into the API object (absent and explicit zero are different inputs).
type c05Vec map[string]int64

// TLC prints an empty record as [] : accept it where an object is meant.
func (v *c05Vec) UnmarshalJSON(b []byte) error {
	s := strings.TrimSpace(string(b))
	if s == "[]" || s == "null" {
		*v = c05Vec{}
		return nil
	}
	m := map[string]int64{}
	if err := json.Unmarshal(b, &m); err != nil {
		return err
	}
	*v = m
	return nil
}

// one owner term (the fields of a term are ANDed, the terms of a reservation are ORed); "" = field not set
type c05Owner struct {
	Sel    string `json:"sel"`    // label selector app=<sel>
	Obj    string `json:"obj"`    // object reference: pod name
	ObjNs  string `json:"objNs"`  // object reference: namespace
	Ctrl   string `json:"ctrl"`   // controller reference: name of a ReplicaSet
	CtrlNs string `json:"ctrlNs"` // controller reference: namespace
}

type c05PodObj struct {
	Pod   string `json:"pod"`            // identity of the pod object = its uid
	Name  string `json:"name,omitempty"` // object name ("" = same as the uid); a re-created pod keeps the name and gets a new uid
	Ns    string `json:"ns"`
	App   string `json:"app"`
	Ctrl  string `json:"ctrl"`
	PNode string `json:"pnode"` // spec.nodeName
	Ra    string `json:"ra"`    // uid in the reservation-allocated annotation ("" = no annotation)
	Req   c05Vec `json:"req"`
	Dead  bool   `json:"dead"` // phase Succeeded
}

type c05Op struct {
	Op string `json:"op"`
	// reservation object (rAdd rUpdate rDelete rAssume rForget rCacheDelete); R also names the target of assume/forget/fit
	R        string     `json:"r"`
	Node     string     `json:"node"` // status.nodeName; for nominate: the node asked for
	Phase    string     `json:"phase"`
	Policy   string     `json:"policy"`
	Once     bool       `json:"once"`
	Term     bool       `json:"term"`
	Alloc    c05Vec     `json:"alloc"`
	Ropts    []string   `json:"ropts"`
	Reserved c05Vec     `json:"reserved"`
	Owners   []c05Owner `json:"owners"`
	Bad      bool       `json:"bad"` // an owner term with an unparsable label selector
	// pod object (assume forget podAdd podUpdate podDelete match nominate)
	c05PodObj
	Old *c05PodObj `json:"old,omitempty"` // podUpdate: the previous object
	// queries
	Pre c05Vec `json:"pre"` // fit: preemptible amounts inside the reservation
	Aff string `json:"aff"` // match / nominate: "" | "sel" | "name:<r>"
	Tag string `json:"tag,omitempty"`
	// restart (C19, zz_verif_c19_test.go): informer delivery order / duplicates
	Variant int `json:"variant,omitempty"`
}

var c05Nodes = []string{"n1", "n2"}

const c05Label = "verif-c05"

func c05RL(v c05Vec) corev1.ResourceList {
	rl := corev1.ResourceList{}
	for k, x := range v {
		if k == "cpu" {
			rl[corev1.ResourceCPU] = *resource.NewMilliQuantity(x, resource.DecimalSI)
		} else {
			rl[corev1.ResourceName(k)] = *resource.NewQuantity(x, resource.DecimalSI)
		}
	}
	return rl
}

func c05Num(rl corev1.ResourceList, k string) int64 {
	q, ok := rl[corev1.ResourceName(k)]
	if !ok {
		return 0
	}
	if k == "cpu" {
		return q.MilliValue()
	}
	return q.Value()
}

var c05Epoch = metav1.NewTime(time.Date(2024, 1, 1, 0, 0, 0, 0, time.UTC))

func c05Phase(s string) schedulingv1alpha1.ReservationPhase {
	switch s {
	case "Available":
		return schedulingv1alpha1.ReservationAvailable
	case "Waiting":
		return schedulingv1alpha1.ReservationWaiting
	case "Succeeded":
		return schedulingv1alpha1.ReservationSucceeded
	case "Failed":
		return schedulingv1alpha1.ReservationFailed
	}
	return schedulingv1alpha1.ReservationPending
}

// c05Reservation builds the API object of an abstract reservation (template requests = status.allocatable = alloc).
func c05Reservation(o *c05Op) *schedulingv1alpha1.Reservation {
	r := &schedulingv1alpha1.Reservation{
		ObjectMeta: metav1.ObjectMeta{Name: o.R, UID: types.UID(o.R), Labels: map[string]string{c05Label: "yes"}, Annotations: map[string]string{}},
		Spec: schedulingv1alpha1.ReservationSpec{
			Template: &corev1.PodTemplateSpec{Spec: corev1.PodSpec{Containers: []corev1.Container{{Name: "c",
				Resources: corev1.ResourceRequirements{Requests: c05RL(o.Alloc)}}}}},
			TTL:          &metav1.Duration{Duration: 30 * time.Minute},
			AllocateOnce: ptr.To[bool](o.Once),
		},
	}
	switch o.Policy {
	case "Aligned":
		r.Spec.AllocatePolicy = schedulingv1alpha1.ReservationAllocatePolicyAligned
	case "Restricted":
		r.Spec.AllocatePolicy = schedulingv1alpha1.ReservationAllocatePolicyRestricted
	default:
		r.Spec.AllocatePolicy = schedulingv1alpha1.ReservationAllocatePolicyDefault
	}
	for _, ow := range o.Owners {
		var x schedulingv1alpha1.ReservationOwner
		if ow.Sel != "" {
			x.LabelSelector = &metav1.LabelSelector{MatchLabels: map[string]string{"app": ow.Sel}}
		}
		if ow.Obj != "" || ow.ObjNs != "" {
			x.Object = &corev1.ObjectReference{Kind: "Pod", Name: ow.Obj, Namespace: ow.ObjNs}
		}
		if ow.Ctrl != "" {
			x.Controller = &schedulingv1alpha1.ReservationControllerReference{
				OwnerReference: metav1.OwnerReference{Kind: "ReplicaSet", Name: ow.Ctrl, Controller: ptr.To[bool](true)},
				Namespace:      ow.CtrlNs,
			}
		}
		r.Spec.Owners = append(r.Spec.Owners, x)
	}
	if o.Bad {
		r.Spec.Owners = append(r.Spec.Owners, schedulingv1alpha1.ReservationOwner{LabelSelector: &metav1.LabelSelector{
			MatchExpressions: []metav1.LabelSelectorRequirement{{Key: "app", Operator: "no-such-operator"}}}})
	}
	if o.Term {
		t := c05Epoch
		r.DeletionTimestamp = &t
	}
	if len(o.Ropts) > 0 {
		opts := &apiext.ReservationRestrictedOptions{}
		for _, n := range o.Ropts {
			opts.Resources = append(opts.Resources, corev1.ResourceName(n))
		}
		if err := apiext.SetReservationRestrictedOptions(r, opts); err != nil {
			panic(err)
		}
	}
	if len(o.Reserved) > 0 {
		b, err := json.Marshal(&apiext.NodeReservation{Resources: c05RL(o.Reserved)})
		if err != nil {
			panic(err)
		}
		r.Annotations[apiext.AnnotationNodeReservation] = string(b)
	}
	r.Status.Phase = c05Phase(o.Phase)
	r.Status.NodeName = o.Node
	if r.Status.Phase == schedulingv1alpha1.ReservationAvailable {
		r.Status.Allocatable = c05RL(o.Alloc)
	}
	return r
}

func (p *c05PodObj) name() string {
	if p.Name != "" {
		return p.Name
	}
	return p.Pod
}

// c05Pod builds the API object of an abstract pod.
func c05Pod(p *c05PodObj, aff string) *corev1.Pod {
	pod := &corev1.Pod{
		ObjectMeta: metav1.ObjectMeta{Name: p.name(), Namespace: p.Ns, UID: types.UID(p.Pod), Labels: map[string]string{}, Annotations: map[string]string{}},
		Spec: corev1.PodSpec{NodeName: p.PNode, Containers: []corev1.Container{{Name: "c",
			Resources: corev1.ResourceRequirements{Requests: c05RL(p.Req)}}}},
	}
	if pod.Namespace == "" {
		pod.Namespace = "ns1"
	}
	if p.App != "" {
		pod.Labels["app"] = p.App
	}
	if p.Ctrl != "" {
		pod.OwnerReferences = []metav1.OwnerReference{{APIVersion: "apps/v1", Kind: "ReplicaSet", Name: p.Ctrl, UID: types.UID("uid-" + p.Ctrl), Controller: ptr.To[bool](true)}}
	}
	if p.Ra != "" {
		apiext.SetReservationAllocated(pod, &metav1.ObjectMeta{Name: p.Ra, UID: types.UID(p.Ra)})
	}
	if p.Dead {
		pod.Status.Phase = corev1.PodSucceeded
	} else if p.PNode != "" {
		pod.Status.Phase = corev1.PodRunning
	}
	switch {
	case aff == "sel":
		if err := apiext.SetReservationAffinity(pod, &apiext.ReservationAffinity{ReservationSelector: map[string]string{c05Label: "yes"}}); err != nil {
			panic(err)
		}
	case strings.HasPrefix(aff, "name:"):
		if err := apiext.SetReservationAffinity(pod, &apiext.ReservationAffinity{Name: strings.TrimPrefix(aff, "name:")}); err != nil {
			panic(err)
		}
	}
	return pod
}

// ---------------------------------------------------------------------------------------------- world

type c05World struct {
	pl    *Plugin
	cache *reservationCache
	rh    *reservationEventHandler
	ph    *podEventHandler
	lastR map[string]*schedulingv1alpha1.Reservation // last object delivered per uid (the informer's "old" object)
	// the reservation informer's store behind Plugin.rLister: holds what the informer delivered last (an informer
	// updates its store before it calls the handlers); it survives Fresh(), as the API objects survive a restart
	rStore toolscache.Indexer
	// C19 (zz_verif_c19_test.go): the objects the API server holds = what the informers delivered last; they survive a restart
	apiR map[string]*c05Op
	apiP map[string]*c05PodObj
}

var c05ViaPlugin, c05Direct int // rAssume through Plugin.Reserve / by the direct cache call

var c05Panics int32 // panics swallowed in worker goroutines of the plugin (Parallelizer)

func c05NewWorld(t testing.TB) *c05World {
	utilruntime.ReallyCrash = false
	utilruntime.PanicHandlers = append(utilruntime.PanicHandlers, func(context.Context, interface{}) { atomic.AddInt32(&c05Panics, 1) })
	huge := corev1.ResourceList{
		corev1.ResourceCPU:    *resource.NewQuantity(1<<40, resource.DecimalSI),
		corev1.ResourceMemory: *resource.NewQuantity(1<<50, resource.DecimalSI),
		corev1.ResourcePods:   *resource.NewQuantity(1<<20, resource.DecimalSI),
	}
	var nodes []*corev1.Node
	for _, n := range c05Nodes {
		nodes = append(nodes, &corev1.Node{ObjectMeta: metav1.ObjectMeta{Name: n}, Status: corev1.NodeStatus{Allocatable: huge, Capacity: huge}})
	}
	suit := newPluginTestSuitWith(t, nil, nodes)
	p, err := suit.pluginFactory()
	if err != nil {
		t.Fatal(err)
	}
	w := &c05World{pl: p.(*Plugin)}
	// The scheduler cache (NodeInfo holding the reserve pods) is not part of this harness: reserved resources are
	// restored lazily (feature gate LazyReservationRestore), i.e. in BeforeFilter, which the queries do not need.
	w.pl.enableLazyReservationRestore = true
	w.rStore = toolscache.NewIndexer(toolscache.MetaNamespaceKeyFunc, toolscache.Indexers{})
	w.pl.rLister = schedulinglister.NewReservationLister(w.rStore)
	w.Fresh()
	return w
}

// Fresh gives the plugin an empty cache and nominator, as after a restart of the scheduler.
func (w *c05World) Fresh() {
	w.cache = newReservationCache(w.pl.rLister)
	w.pl.reservationCache = w.cache
	w.pl.nominator = newNominator(w.pl.podLister, w.pl.rLister)
	w.rh = &reservationEventHandler{cache: w.cache, rrNominator: w.pl.nominator}
	w.ph = &podEventHandler{cache: w.cache, nominator: w.pl.nominator}
	w.lastR = map[string]*schedulingv1alpha1.Reservation{}
}

func c05SortedUIDs(m map[types.UID]struct{}) []string {
	out := make([]string, 0, len(m))
	for u := range m {
		out = append(out, string(u))
	}
	sort.Strings(out)
	return out
}

func c05Index(idx map[string]map[types.UID]struct{}) map[string][]string {
	out := map[string][]string{}
	for n, m := range idx {
		out[n] = c05SortedUIDs(m)
	}
	return out
}

// c05Project is the projection function: field reads under the cache's lock, nothing else.
//
//	res[uid]   = {alloc: reported Allocated per dimension (0 when absent), pods: uids of AssignedPods (sorted), node}
//	onNode / matchable / allocated = the three per-node indexes, node -> sorted uids
func c05Project(cache *reservationCache) vu.Ev {
	cache.lock.RLock()
	defer cache.lock.RUnlock()
	res := map[string]interface{}{}
	for uid, ri := range cache.reservationInfos {
		pods := make([]string, 0, len(ri.AssignedPods))
		for p := range ri.AssignedPods {
			pods = append(pods, string(p))
		}
		sort.Strings(pods)
		res[string(uid)] = vu.Ev{
			"alloc": map[string]int64{"cpu": c05Num(ri.Allocated, "cpu"), "memory": c05Num(ri.Allocated, "memory"), "pods": c05Num(ri.Allocated, "pods")},
			"pods":  pods,
			"node":  ri.GetNodeName(),
		}
	}
	return vu.Ev{"res": res, "onNode": c05Index(cache.reservationsOnNode), "matchable": c05Index(cache.matchableOnNode), "allocated": c05Index(cache.allocatedOnNode)}
}

func c05Matched(cs *framework.CycleState) map[string][]string {
	out := map[string][]string{}
	for n, st := range getStateData(cs).nodeReservationStates {
		ids := []string{}
		for _, ri := range st.matchedOrIgnored {
			ids = append(ids, string(ri.UID()))
		}
		sort.Strings(ids)
		out[n] = ids
	}
	return out
}

// c05ApplyOp executes one operation on the real code and returns what it answered (no judgement).
func c05ApplyOp(w *c05World, o *c05Op) vu.Ev {
	out := vu.Ev{}
	ctx := context.TODO()
	w.c19Track(o)
	switch o.Op {
	case "restart": // C19: the scheduler restarts (zz_verif_c19_test.go)
		return w.c19Restart(o)
	case "rAdd": // informer add
		r := c05Reservation(o)
		w.lastR[o.R] = r
		_ = w.rStore.Add(r)
		w.rh.OnAdd(r, false)
	case "rUpdate": // informer update (also resync: old == new)
		r := c05Reservation(o)
		old := w.lastR[o.R]
		if old == nil {
			old = r
		}
		w.lastR[o.R] = r
		_ = w.rStore.Update(r)
		w.rh.OnUpdate(old, r)
	case "rDelete": // informer delete, the plugin's own handler
		r := c05Reservation(o)
		delete(w.lastR, o.R)
		_ = w.rStore.Delete(r)
		w.rh.OnDelete(r)
	case "rCacheDelete": // what the scheduler-wide reservation handler calls on terminate / delete / roll-back
		w.pl.DeleteReservation(c05Reservation(o))
	case "rAssume": // Reserve of the reserve pod
		// through Plugin.Reserve when the informer's object is the one the event describes (the plugin assumes the
		// lister's object with the chosen node stamped on it); otherwise the cache call Reserve would have made
		want := c05Reservation(o)
		if cur, err := w.pl.rLister.Get(o.R); err == nil {
			got := cur.DeepCopy()
			got.Status.NodeName = o.Node
			if apiequality.Semantic.DeepEqual(want, got) {
				cs := framework.NewCycleState()
				cs.Write(stateKey, &stateData{})
				st := w.pl.Reserve(ctx, cs, reservationutil.NewReservePod(cur), o.Node)
				if !st.IsSuccess() {
					panic("c05: Reserve of a reserve pod failed: " + st.Message())
				}
				c05ViaPlugin++
				break
			}
		}
		c05Direct++
		w.cache.assumeReservation(want)
	case "rForget": // Unreserve of the reserve pod, through Plugin.Unreserve (informer's object, or a stub when it is gone)
		cs := framework.NewCycleState()
		cs.Write(stateKey, &stateData{})
		w.pl.Unreserve(ctx, cs, reservationutil.NewReservePod(c05Reservation(o)), o.Node)
	case "assume": // Reserve of an owner pod on the nominated reservation
		err := w.cache.assumePod(types.UID(o.R), c05Pod(&o.c05PodObj, ""))
		out["ok"] = err == nil
	case "forget": // Unreserve
		w.cache.forgetPods(types.UID(o.R), []*corev1.Pod{c05Pod(&o.c05PodObj, "")})
	case "podAdd":
		w.ph.OnAdd(c05Pod(&o.c05PodObj, ""), false)
	case "podUpdate":
		w.ph.OnUpdate(c05Pod(o.Old, ""), c05Pod(&o.c05PodObj, ""))
	case "podDelete":
		w.ph.OnDelete(c05Pod(&o.c05PodObj, ""))
	case "fit": // the fit check of the Filter phase for ONE reservation, node part skipped
		ri := w.cache.getReservationInfoByUID(types.UID(o.R))
		out["known"] = ri != nil
		out["fits"] = false
		if ri != nil {
			req := c05RL(o.Req)
			byNode, byR := fitsNodeAndReservation(framework.NewResource(req), nil, nil, dummyResource, ri.GetAvailable(), req, c05RL(o.Pre),
				c05Pod(&o.c05PodObj, ""), ri, nil, 1, false, true, nil, nil)
			out["fits"] = len(byNode) == 0 && len(byR) == 0
		}
	case "match": // BeforePreFilter: which reservations are matched to the pod, per node
		cs := framework.NewCycleState()
		_, _, st := w.pl.BeforePreFilter(ctx, cs, c05Pod(&o.c05PodObj, o.Aff))
		out["ok"] = st.IsSuccess()
		out["matched"] = c05Matched(cs)
	case "nominate": // BeforePreFilter, PreFilter, Filter(node), then the nomination of Reserve
		cs := framework.NewCycleState()
		pod := c05Pod(&o.c05PodObj, o.Aff)
		_, _, st := w.pl.BeforePreFilter(ctx, cs, pod)
		out["ok"] = st.IsSuccess()
		out["matched"] = c05Matched(cs)
		out["filter"] = false
		out["nominated"] = ""
		if st.IsSuccess() {
			_, pst := w.pl.PreFilter(ctx, cs, pod, nil)
			ni, err := w.pl.handle.SnapshotSharedLister().NodeInfos().Get(o.Node)
			if (pst.IsSuccess() || pst.IsSkip()) && err == nil && ni != nil {
				fst := w.pl.Filter(ctx, cs, pod, ni)
				if fst.IsSuccess() {
					out["filter"] = true
					var nm frameworkext.ReservationNominator = w.pl
					if x := w.pl.handle.GetReservationNominator(); x != nil {
						nm = x
					}
					ri, nst := nm.NominateReservation(ctx, cs, pod, o.Node)
					if nst.IsSuccess() && ri != nil {
						out["nominated"] = string(ri.UID())
					}
				}
			}
		}
	default:
		panic("c05: unknown op " + o.Op)
	}
	return out
}

// ---------------------------------------------------------------------------------------------- events

func c05V(v c05Vec) map[string]int64 {
	out := map[string]int64{}
	for k, x := range v {
		out[k] = x
	}
	return out
}

func c05PodFields(ev vu.Ev, p *c05PodObj) {
	ev["pod"], ev["ns"], ev["app"], ev["ctrl"], ev["pnode"], ev["ra"], ev["req"], ev["dead"] = p.Pod, p.Ns, p.App, p.Ctrl, p.PNode, p.Ra, c05V(p.Req), p.Dead
	ev["name"] = p.name()
}

// the event echoes the operation with every argument written out (a trace is also a script)
func c05Event(o *c05Op) vu.Ev {
	ev := vu.Ev{"op": o.Op}
	if o.Tag != "" {
		ev["tag"] = o.Tag
	}
	switch o.Op {
	case "rAdd", "rUpdate", "rDelete", "rCacheDelete", "rAssume", "rForget":
		owners := []vu.Ev{}
		for _, ow := range o.Owners {
			owners = append(owners, vu.Ev{"sel": ow.Sel, "obj": ow.Obj, "objNs": ow.ObjNs, "ctrl": ow.Ctrl, "ctrlNs": ow.CtrlNs})
		}
		ropts := append([]string{}, o.Ropts...)
		ev["r"], ev["node"], ev["phase"], ev["policy"], ev["once"], ev["term"] = o.R, o.Node, o.Phase, o.Policy, o.Once, o.Term
		ev["alloc"], ev["ropts"], ev["reserved"], ev["owners"], ev["bad"] = c05V(o.Alloc), ropts, c05V(o.Reserved), owners, o.Bad
	case "assume", "forget":
		ev["r"] = o.R
		c05PodFields(ev, &o.c05PodObj)
	case "podAdd", "podDelete":
		c05PodFields(ev, &o.c05PodObj)
	case "podUpdate":
		c05PodFields(ev, &o.c05PodObj)
		old := vu.Ev{}
		c05PodFields(old, o.Old)
		ev["old"] = old
	case "fit":
		ev["r"], ev["pre"] = o.R, c05V(o.Pre)
		c05PodFields(ev, &o.c05PodObj)
	case "match":
		ev["aff"] = o.Aff
		c05PodFields(ev, &o.c05PodObj)
	case "nominate":
		ev["aff"], ev["node"] = o.Aff, o.Node
		c05PodFields(ev, &o.c05PodObj)
	case "restart":
		ev["variant"] = o.Variant
	}
	return ev
}

// c05Run executes one script as one trace segment.
func c05Run(w *c05World, rec *vu.Recorder, script []c05Op) {
	w.Fresh()
	w.apiR, w.apiP = map[string]*c05Op{}, map[string]*c05PodObj{}
	rec.Reset(nil)
	for i := range script {
		o := &script[i]
		if o.Op == "reset" {
			continue
		}
		if o.Op == "podUpdate" && o.Old == nil {
			panic("c05: podUpdate without old object")
		}
		ev := c05Event(o)
		before := atomic.LoadInt32(&c05Panics)
		goroutines := runtime.NumGoroutine()
		panicked, msg := vu.Protect(func() {
			for k, v := range c05ApplyOp(w, o) {
				ev[k] = v
			}
			ev["obs"] = c05Project(w.cache)
		})
		// a worker of the plugin's Parallelizer signals completion BEFORE its crash handler runs: let the workers
		// of this operation finish, so that a swallowed panic is attributed to the operation that caused it
		for i := 0; i < 2000 && runtime.NumGoroutine() > goroutines; i++ {
			time.Sleep(100 * time.Microsecond)
		}
		if panicked || atomic.LoadInt32(&c05Panics) != before {
			// the specification has no such action: the segment is rejected at this event
			rec.Emit(vu.Ev{"op": "panic", "during": ev, "msg": fmt.Sprint(msg)})
			return
		}
		rec.Emit(ev)
	}
}

// ---------------------------------------------------------------------------------------------- generators
// (shadow state below only steers generation towards histories the informer / scheduler can deliver; it never judges)

type c05Gen struct {
	rng  *rand.Rand
	big  bool
	ext  bool              // also generate the extended multi-scheduler transition (same uid moves to another node)
	api  map[string]*c05Op // API object per reservation uid (absent = not created / deleted)
	asm  map[string]string // reserve pod assumed on node (Reserve done, Bind pending)
	pods map[string]*c05PodObj
	pasm map[string]string // owner pod assumed on reservation
	out  []c05Op
	nR   int
	nP   int
	gen  int // uids handed out to re-created pods
}

var c05Apps = []string{"a", "b"}
var c05Ctrls = []string{"rs1", "rs1", "rs2", ""} // p1 (ns1) and p2 (ns2) are controlled by homonymous controllers
var c05Nss = []string{"ns1", "ns2"}

func (g *c05Gen) q(max int64) int64 {
	if g.big {
		return g.rng.Int63n(max*100000 + 1)
	}
	return g.rng.Int63n(max + 1)
}

func (g *c05Gen) vec(max int64, allowPods bool) c05Vec {
	v := c05Vec{}
	switch g.rng.Intn(6) {
	case 0:
		v["cpu"] = g.q(max)
	case 1:
		v["memory"] = g.q(max)
	default:
		v["cpu"], v["memory"] = g.q(max), g.q(max)
	}
	if allowPods && g.rng.Intn(5) == 0 {
		v["pods"] = int64(g.rng.Intn(4))
	}
	return v
}

func (g *c05Gen) owners() ([]c05Owner, bool) {
	pod := fmt.Sprintf("p%d", 1+g.rng.Intn(g.nP))
	switch g.rng.Intn(18) {
	case 0:
		return nil, false // matches nothing
	case 1:
		return []c05Owner{{}}, false // matches everything
	case 2:
		return []c05Owner{{Sel: "a"}}, false
	case 3:
		return []c05Owner{{Sel: "b"}}, false
	case 4:
		return []c05Owner{{Obj: pod}}, false
	case 5:
		return []c05Owner{{Obj: pod, ObjNs: c05Nss[g.rng.Intn(2)]}}, false
	case 6:
		return []c05Owner{{Ctrl: "rs1"}}, false
	case 7:
		return []c05Owner{{Ctrl: "rs2", CtrlNs: c05Nss[g.rng.Intn(2)]}}, false
	case 8:
		return []c05Owner{{Sel: "a", Ctrl: "rs1"}}, false
	case 9:
		return []c05Owner{{Sel: "b"}, {Obj: pod}}, false
	case 10:
		return []c05Owner{{Sel: "a"}, {Sel: "b"}}, false
	case 11:
		return []c05Owner{{Sel: "a"}}, true // one good term and one unparsable term
	case 12, 13: // a controller in ONE namespace: the homonymous controller of the other namespace does not own it
		return []c05Owner{{Ctrl: "rs1", CtrlNs: c05Nss[g.rng.Intn(2)]}}, false
	case 14:
		return []c05Owner{{Sel: "a", Ctrl: "rs1", CtrlNs: c05Nss[g.rng.Intn(2)]}}, false
	case 15:
		return []c05Owner{{Ctrl: "rs1", CtrlNs: "ns1"}, {Ctrl: "rs2", CtrlNs: "ns2"}}, false
	default:
		return []c05Owner{{}}, false

	}
}

func (g *c05Gen) spec(o *c05Op) {
	o.Policy = []string{"Default", "Aligned", "Restricted", "Restricted"}[g.rng.Intn(4)]
	o.Once = g.rng.Intn(3) == 0
	o.Alloc = g.vec(3, true)
	o.Ropts = nil
	if g.rng.Intn(3) == 0 {
		o.Ropts = [][]string{{"cpu"}, {"memory"}, {"cpu", "memory"}, {"gpu"}}[g.rng.Intn(4)]
	}
	o.Reserved = c05Vec{}
	if g.rng.Intn(4) == 0 {
		o.Reserved = g.vec(2, false)
	}
	o.Owners, o.Bad = g.owners()
}

func (g *c05Gen) emit(o c05Op) { g.out = append(g.out, o) }

// set by the C19 driver only: histories are cut by restarts (C05's own histories contain none)
var c05Restarts bool

// C19: the scheduler restarts; the binding cycles in flight die with the process
func (g *c05Gen) maybeRestart() {
	if !c05Restarts || len(g.out) == 0 || g.rng.Intn(10) != 0 {
		return
	}
	g.asm, g.pasm = map[string]string{}, map[string]string{}
	g.emit(c05Op{Op: "restart", Variant: g.rng.Intn(1 << 20)})
}

func (g *c05Gen) robj(op string, src *c05Op) c05Op {
	o := *src
	o.Op = op
	return o
}

// the two listeners of the reservation informer (the plugin's handler and the scheduler-wide handler, which calls
// Plugin.DeleteReservation) run in separate goroutines: per event either order is possible
func (g *c05Gen) both(a, b *c05Op) {
	if a != nil && b != nil && g.rng.Intn(2) == 0 {
		a, b = b, a
	}
	if a != nil {
		g.emit(*a)
	}
	if b != nil {
		g.emit(*b)
	}
}

func (g *c05Gen) reservationStep() {
	u := fmt.Sprintf("r%d", 1+g.rng.Intn(g.nR))
	cur := g.api[u]
	if n, ok := g.asm[u]; ok && cur == nil { // the object vanished during the binding cycle: Unreserve cleans up with a stub
		delete(g.asm, u)
		g.emit(c05Op{Op: "rForget", R: u, Node: n, Phase: "Pending", Policy: "Default", Alloc: c05Vec{}, Reserved: c05Vec{}})
		return
	}
	if cur == nil {
		o := &c05Op{R: u, Phase: "Pending"}
		g.spec(o)
		g.api[u] = o
		if g.rng.Intn(2) == 0 { // a reservation that is already available when this scheduler first sees it
			o.Phase, o.Node = "Available", c05Nodes[g.rng.Intn(2)]
		}
		g.emit(g.robj("rAdd", o))
		return
	}
	if n, ok := g.asm[u]; ok { // binding cycle of the reserve pod ends
		delete(g.asm, u)
		asm := *cur
		asm.Node = n
		if g.rng.Intn(3) > 0 && cur.Phase == "Pending" {
			cur.Phase, cur.Node = "Available", n
			g.emit(g.robj("rUpdate", cur))
		} else {
			g.emit(g.robj("rForget", &asm))
		}
		return
	}
	switch k := g.rng.Intn(15); {
	case cur.Phase == "Pending" && k < 8: // Reserve of the reserve pod
		n := c05Nodes[g.rng.Intn(2)]
		g.asm[u] = n
		asm := *cur
		asm.Node = n
		g.emit(g.robj("rAssume", &asm))
	case k < 4: // spec / annotation / status.allocatable change, same phase and node
		switch g.rng.Intn(6) {
		case 0:
			cur.Owners, cur.Bad = g.owners()
		case 1:
			cur.Ropts = [][]string{nil, {"cpu"}, {"memory"}, {"cpu", "memory"}}[g.rng.Intn(4)]
		case 2:
			cur.Alloc = g.vec(3, true)
		case 3:
			cur.Policy = []string{"Default", "Aligned", "Restricted"}[g.rng.Intn(3)]
		case 4:
			cur.Reserved = g.vec(2, false)
		default:
			cur.Once = !cur.Once
		}
		g.emit(g.robj("rUpdate", cur))
	case k == 4 && g.rng.Intn(2) == 0: // resync
		g.emit(g.robj("rUpdate", cur))
	case k == 4 && !cur.Term: // deletion timestamp set (finalizer pending)
		cur.Term = true
		g.emit(g.robj("rUpdate", cur))
	case k < 7 && (cur.Phase == "Available" || cur.Phase == "Pending"): // expires / succeeds
		old := *cur
		cur.Phase = []string{"Failed", "Succeeded"}[g.rng.Intn(2)]
		upd := g.robj("rUpdate", cur)
		var del *c05Op
		if old.Phase == "Available" {
			d := g.robj("rCacheDelete", &old)
			del = &d
		}
		g.both(&upd, del)
	case k == 7 && cur.Phase == "Available": // available -> unassigned (roll-back); the plugin's handler ignores it
		old := *cur
		cur.Phase, cur.Node = "Pending", ""
		upd := g.robj("rUpdate", cur)
		del := g.robj("rCacheDelete", &old)
		g.both(&upd, &del)
	case k == 8 && cur.Phase == "Available" && g.ext: // extended: same uid re-bound to the other node
		old := *cur
		if cur.Node == "n1" {
			cur.Node = "n2"
		} else {
			cur.Node = "n1"
		}
		upd := g.robj("rUpdate", cur)
		upd.Tag = "migrate"
		del := g.robj("rCacheDelete", &old)
		del.Tag = "migrate"
		g.both(&upd, &del)
	case k >= 9 && k < 11: // object deleted
		delete(g.api, u)
		d := g.robj("rDelete", cur)
		var del *c05Op
		if cur.Node != "" {
			x := g.robj("rCacheDelete", cur)
			del = &x
		}
		g.both(&d, del)
	default:
		g.emit(g.robj("rUpdate", cur))
	}
}

func (g *c05Gen) podObj(id string) *c05PodObj {
	i := int(id[1] - '1')
	return &c05PodObj{Pod: id, Ns: c05Nss[i%2], App: c05Apps[(i/2)%2], Ctrl: c05Ctrls[i%4], Req: g.vec(3, false)}
}

// replaced: the pod named id was deleted and re-created (StatefulSet pod) and a re-list merged both into ONE update event:
// the old and the new object are different pods (same namespace / name, different uids). The new pod is bound, mostly
// running (sometimes already terminated) and carries reservation ra ("" = none); the old pod is gone.
func (g *c05Gen) replaced(id string, ra string) {
	cur := g.pods[id]
	old := *cur
	g.gen++
	cur.Name, cur.Pod = cur.name(), fmt.Sprintf("%s.%d", cur.name(), g.gen)
	cur.Ra, cur.Dead = ra, false
	if g.rng.Intn(4) == 0 {
		// the re-created pod is already terminated when the merged update arrives: both pods hold nothing any more
		cur.Dead = true
	}
	if g.rng.Intn(2) == 0 {
		cur.Req = g.vec(3, false)
	}
	if ra != "" {
		cur.PNode = g.nodeOf(ra)
	}
	g.emit(c05Op{Op: "podUpdate", c05PodObj: *cur, Old: &old})
}

func (g *c05Gen) anyR() string { return fmt.Sprintf("r%d", 1+g.rng.Intn(g.nR)) }

// likelyR prefers a reservation the cache probably holds (available or assumed)
func (g *c05Gen) likelyR() string {
	var c []string
	for i := 1; i <= g.nR; i++ {
		u := fmt.Sprintf("r%d", i)
		if r := g.api[u]; (r != nil && r.Phase == "Available") || g.asm[u] != "" {
			c = append(c, u)
		}
	}
	if len(c) == 0 || g.rng.Intn(5) == 0 {
		return g.anyR()
	}
	return c[g.rng.Intn(len(c))]
}

func (g *c05Gen) nodeOf(u string) string {
	if r := g.api[u]; r != nil && r.Node != "" {
		return r.Node
	}
	if n := g.asm[u]; n != "" {
		return n
	}
	return c05Nodes[g.rng.Intn(2)]
}

func (g *c05Gen) podStep() {
	id := fmt.Sprintf("p%d", 1+g.rng.Intn(g.nP))
	cur := g.pods[id]
	if u, ok := g.pasm[id]; ok && cur == nil { // the pod vanished during the binding cycle: Unreserve
		delete(g.pasm, id)
		g.emit(c05Op{Op: "forget", R: u, c05PodObj: *g.podObj(id)})
		return
	}
	if cur == nil {
		cur = g.podObj(id)
		g.pods[id] = cur
		if g.rng.Intn(3) == 0 { // first seen already bound (other scheduler / restart), maybe holding a reservation
			cur.PNode = c05Nodes[g.rng.Intn(2)]
			if g.rng.Intn(4) > 0 {
				cur.Ra = g.likelyR()
				cur.PNode = g.nodeOf(cur.Ra)
			}
		}
		g.emit(c05Op{Op: "podAdd", c05PodObj: *cur})
		return
	}
	if u, ok := g.pasm[id]; ok { // binding cycle ends
		delete(g.pasm, id)
		if g.rng.Intn(3) > 0 {
			old := *cur
			cur.Ra = u
			cur.PNode = "n1"
			if r := g.api[u]; r != nil && r.Node != "" {
				cur.PNode = r.Node
			}
			g.emit(c05Op{Op: "podUpdate", c05PodObj: *cur, Old: &old})
		} else {
			g.emit(c05Op{Op: "forget", R: u, c05PodObj: *cur})
		}
		return
	}
	switch k := g.rng.Intn(10); {
	case cur.PNode == "" && k < 6: // Reserve on some reservation (the generator does not know which would be nominated)
		u := g.likelyR()
		g.pasm[id] = u
		g.emit(c05Op{Op: "assume", R: u, c05PodObj: *cur})
	case cur.PNode != "" && k < 2: // in-place resize
		old := *cur
		cur.Req = g.vec(3, false)
		g.emit(c05Op{Op: "podUpdate", c05PodObj: *cur, Old: &old})
	case cur.PNode != "" && k == 2: // annotation re-pointed to another reservation / removed
		old := *cur
		cur.Ra = []string{"", g.likelyR(), g.likelyR()}[g.rng.Intn(3)]
		g.emit(c05Op{Op: "podUpdate", c05PodObj: *cur, Old: &old})
	case cur.PNode != "" && k == 3: // resync
		old := *cur
		g.emit(c05Op{Op: "podUpdate", c05PodObj: *cur, Old: &old})
	case cur.PNode != "" && k == 4 && !cur.Dead: // completes
		old := *cur
		cur.Dead = true
		g.emit(c05Op{Op: "podUpdate", c05PodObj: *cur, Old: &old})
	case k == 5 && cur.PNode != "": // duplicate add of a known object
		g.emit(c05Op{Op: "podAdd", c05PodObj: *cur})
	case k == 6 && cur.PNode != "": // deleted and re-created under the same name, seen as one update: same or another reservation
		g.replaced(id, []string{cur.Ra, cur.Ra, g.likelyR(), ""}[g.rng.Intn(4)])
	case k >= 7:
		delete(g.pods, id)
		g.emit(c05Op{Op: "podDelete", c05PodObj: *cur})
	default:
		old := *cur
		g.emit(c05Op{Op: "podUpdate", c05PodObj: *cur, Old: &old})
	}
}

func (g *c05Gen) queryStep() {
	id := fmt.Sprintf("p%d", 1+g.rng.Intn(g.nP))
	p := g.pods[id]
	if p == nil || p.PNode != "" {
		p = g.podObj(id)
	}
	q := *p
	q.PNode, q.Ra, q.Dead = "", "", false
	aff := ""
	switch g.rng.Intn(4) {
	case 0, 1:
		aff = "sel"
	case 2:
		aff = "name:" + g.likelyR()
	}
	switch g.rng.Intn(4) {
	case 0:
		pre := c05Vec{}
		if g.rng.Intn(2) == 0 {
			pre = g.vec(3, true)
		}
		g.emit(c05Op{Op: "fit", R: g.likelyR(), Pre: pre, c05PodObj: q})
	case 1:
		g.emit(c05Op{Op: "match", Aff: aff, c05PodObj: q})
	default:
		g.emit(c05Op{Op: "nominate", Aff: aff, Node: g.nodeOf(g.likelyR()), c05PodObj: q})
	}
}

func c05Random(rng *rand.Rand, n int, big, ext bool) []c05Op {
	g := &c05Gen{rng: rng, big: big, ext: ext, api: map[string]*c05Op{}, asm: map[string]string{}, pods: map[string]*c05PodObj{}, pasm: map[string]string{}, nR: 3, nP: 4}
	for len(g.out) < n {
		g.maybeRestart()
		switch k := g.rng.Intn(10); {
		case k < 4:
			g.reservationStep()
		case k < 7:
			g.podStep()
		default:
			g.queryStep()
		}
	}
	return g.out
}

// directed random histories for (L): one available reservation whose reserved dimension set keeps changing
// (restricted options, policy, status.allocatable) while pods are assigned, resized, moved and released
func c05LedgerScenario(rng *rand.Rand, big bool) []c05Op {
	g := &c05Gen{rng: rng, big: big, api: map[string]*c05Op{}, asm: map[string]string{}, pods: map[string]*c05PodObj{}, pasm: map[string]string{}, nR: 2, nP: 4}
	dims := func() c05Vec {
		v := g.vec(3, true)
		if g.rng.Intn(3) == 0 {
			v = c05Vec{"cpu": g.q(3), "memory": g.q(3)}
		}
		return v
	}
	ropts := func() []string {
		return [][]string{nil, {"cpu"}, {"memory"}, {"cpu", "memory"}, {"pods"}}[g.rng.Intn(5)]
	}
	pol := func() string { return []string{"Restricted", "Restricted", "Aligned", "Default"}[g.rng.Intn(4)] }
	for i := 1; i <= 2; i++ {
		r := &c05Op{R: fmt.Sprintf("r%d", i), Node: "n1", Phase: "Available", Policy: pol(), Alloc: dims(), Ropts: ropts(), Reserved: c05Vec{}, Owners: []c05Owner{{}}}
		g.api[r.R] = r
		g.emit(g.robj("rAdd", r))
	}
	for len(g.out) < 16 {
		g.maybeRestart()
		id := fmt.Sprintf("p%d", 1+g.rng.Intn(g.nP))
		cur := g.pods[id]
		u := fmt.Sprintf("r%d", 1+g.rng.Intn(2))
		switch k := g.rng.Intn(10); {
		case cur == nil && k < 5: // first seen bound and holding the reservation
			cur = g.podObj(id)
			cur.PNode, cur.Ra = "n1", u
			g.pods[id] = cur
			g.emit(c05Op{Op: "podAdd", c05PodObj: *cur})
		case cur == nil: // scheduled here: Reserve, then the bind is observed
			cur = g.podObj(id)
			g.pods[id] = cur
			g.emit(c05Op{Op: "assume", R: u, c05PodObj: *cur})
			old := *cur
			cur.PNode, cur.Ra = "n1", u
			g.emit(c05Op{Op: "podUpdate", c05PodObj: *cur, Old: &old})
		case k < 4: // the reserved dimension set changes
			r := g.api[u]
			switch g.rng.Intn(3) {
			case 0:
				r.Ropts = ropts()
			case 1:
				r.Alloc = dims()
			default:
				r.Policy = pol()
			}
			g.emit(g.robj("rUpdate", r))
		case k == 4: // resize
			old := *cur
			cur.Req = g.vec(3, false)
			g.emit(c05Op{Op: "podUpdate", c05PodObj: *cur, Old: &old})
		case k == 5: // moved to the other reservation
			old := *cur
			cur.Ra = u
			g.emit(c05Op{Op: "podUpdate", c05PodObj: *cur, Old: &old})
		case k == 6:
			delete(g.pods, id)
			g.emit(c05Op{Op: "podDelete", c05PodObj: *cur})
		case k == 7: // re-created under the same name, seen as one update: stays on its reservation or takes the other one
			g.replaced(id, []string{cur.Ra, cur.Ra, u}[g.rng.Intn(3)])
		default:
			q := g.podObj("p4")
			g.emit(c05Op{Op: "fit", R: u, Pre: c05Vec{}, c05PodObj: *q})
		}
	}
	return g.out
}

// directed random histories for (O) / (M): allocate-once reservations on one node, a first owner takes one, other
// pods (with and without reservation affinity) ask for a nomination before and after the reservation is refreshed
func c05OnceScenario(rng *rand.Rand) []c05Op {
	g := &c05Gen{rng: rng, api: map[string]*c05Op{}, asm: map[string]string{}, pods: map[string]*c05PodObj{}, pasm: map[string]string{}, nR: 2, nP: 4}
	n := c05Nodes[g.rng.Intn(2)]
	nres := 1 + g.rng.Intn(2)
	for i := 1; i <= nres; i++ {
		r := &c05Op{R: fmt.Sprintf("r%d", i), Node: n, Phase: "Available", Policy: []string{"Default", "Aligned", "Restricted"}[g.rng.Intn(3)], Once: g.rng.Intn(4) > 0,
			Alloc: c05Vec{"cpu": 3, "memory": 3}, Reserved: c05Vec{}}
		r.Owners, r.Bad = g.owners()
		if g.rng.Intn(2) == 0 {
			r.Owners, r.Bad = []c05Owner{{}}, false
		}
		g.api[r.R] = r
		g.emit(g.robj("rAdd", r))
	}
	ask := func() {
		q := g.podObj(fmt.Sprintf("p%d", 1+g.rng.Intn(g.nP)))
		q.Req = c05Vec{"cpu": 1}
		aff := []string{"", "sel", "sel", "name:r1", "name:r2"}[g.rng.Intn(5)]
		g.emit(c05Op{Op: "nominate", Aff: aff, Node: n, c05PodObj: *q})
	}
	ask()
	for len(g.out) < 14 {
		g.maybeRestart()
		id := fmt.Sprintf("p%d", 1+g.rng.Intn(g.nP))
		u := fmt.Sprintf("r%d", 1+g.rng.Intn(nres))
		cur := g.pods[id]
		switch k := g.rng.Intn(8); {
		case cur == nil && k < 3:
			cur = g.podObj(id)
			cur.Req = c05Vec{"cpu": 1}
			g.pods[id] = cur
			g.pasm[id] = u
			g.emit(c05Op{Op: "assume", R: u, c05PodObj: *cur})
		case cur == nil && k == 3:
			cur = g.podObj(id)
			cur.Req = c05Vec{"cpu": 1}
			cur.PNode, cur.Ra = n, u
			g.pods[id] = cur
			g.emit(c05Op{Op: "podAdd", c05PodObj: *cur})
		case cur != nil && g.pasm[id] != "" && k < 3: // bind observed
			old := *cur
			cur.PNode, cur.Ra = n, g.pasm[id]
			delete(g.pasm, id)
			g.emit(c05Op{Op: "podUpdate", c05PodObj: *cur, Old: &old})
		case cur != nil && g.pasm[id] != "" && k == 3: // bind failed
			g.emit(c05Op{Op: "forget", R: g.pasm[id], c05PodObj: *cur})
			delete(g.pasm, id)
			delete(g.pods, id)
		case cur != nil && g.pasm[id] == "" && k == 4:
			delete(g.pods, id)
			g.emit(c05Op{Op: "podDelete", c05PodObj: *cur})
		case k == 5: // status update / resync of the reservation (refreshes the indexes)
			g.emit(g.robj("rUpdate", g.api[u]))
		default:
			ask()
		}
	}
	ask()
	return g.out
}

// directed random histories for (F) at NOMINATION: one (sometimes two) reservations on one node, mostly Restricted and
// nearly full; pods with and without a reservation affinity ask for a nomination. The node itself always has room, so
// the Filter phase lets a pod without affinity through on the node alone - the nomination must still respect what the
// restricted reservation has left.
func c05NominateFitScenario(rng *rand.Rand) []c05Op {
	g := &c05Gen{rng: rng, api: map[string]*c05Op{}, asm: map[string]string{}, pods: map[string]*c05PodObj{}, pasm: map[string]string{}, nR: 2, nP: 4}
	n := c05Nodes[g.rng.Intn(2)]
	nres := 1
	if g.rng.Intn(3) == 0 {
		nres = 2
	}
	for i := 1; i <= nres; i++ {
		r := &c05Op{R: fmt.Sprintf("r%d", i), Node: n, Phase: "Available", Policy: []string{"Restricted", "Restricted", "Restricted", "Aligned", "Default"}[g.rng.Intn(5)],
			Alloc: c05Vec{"cpu": int64(2 + g.rng.Intn(3)), "memory": int64(2 + g.rng.Intn(3))}, Reserved: c05Vec{}, Owners: []c05Owner{{}}}
		switch g.rng.Intn(6) {
		case 0:
			r.Ropts = []string{"cpu"}
		case 1:
			r.Alloc = c05Vec{"cpu": int64(2 + g.rng.Intn(3))}
		case 2:
			r.Alloc["pods"] = int64(1 + g.rng.Intn(2))
		case 3:
			r.Reserved = c05Vec{"cpu": 1}
		}
		g.api[r.R] = r
		g.emit(g.robj("rAdd", r))
	}
	ask := func() {
		q := g.podObj(fmt.Sprintf("p%d", 1+g.rng.Intn(g.nP)))
		q.Pod = "q" + q.Pod[1:] // a pod that holds nothing
		q.Name = ""
		q.Req = c05Vec{"cpu": int64(1 + g.rng.Intn(3))}
		if g.rng.Intn(3) == 0 {
			q.Req["memory"] = int64(g.rng.Intn(4))
		}
		aff := []string{"", "", "", "sel", "name:r1"}[g.rng.Intn(5)]
		g.emit(c05Op{Op: "nominate", Aff: aff, Node: n, c05PodObj: *q})
	}
	for len(g.out) < 16 {
		g.maybeRestart()
		id := fmt.Sprintf("p%d", 1+g.rng.Intn(g.nP))
		u := fmt.Sprintf("r%d", 1+g.rng.Intn(nres))
		cur := g.pods[id]
		switch k := g.rng.Intn(9); {
		case cur == nil && k < 4: // an owner takes a part of the reservation
			cur = g.podObj(id)
			cur.Req = c05Vec{"cpu": int64(1 + g.rng.Intn(2)), "memory": int64(g.rng.Intn(3))}
			cur.PNode, cur.Ra = n, u
			g.pods[id] = cur
			g.emit(c05Op{Op: "podAdd", c05PodObj: *cur})
		case cur != nil && k == 4:
			delete(g.pods, id)
			g.emit(c05Op{Op: "podDelete", c05PodObj: *cur})
		case cur != nil && k == 5:
			g.replaced(id, cur.Ra)
		default:
			ask()
		}
	}
	ask()
	ask()
	return g.out
}

// the pure fit check over the full small grid: per dimension (allocatable, reserved, allocated) fix the state, then
// every (preemptible, request) pair is presented; plus the pod-count rule
func c05FitGrid(emit func([]c05Op), max int64) {
	pod := func(id string, req c05Vec) c05PodObj { return c05PodObj{Pod: id, Ns: "ns1", App: "a", Req: req} }
	for _, dim := range []string{"cpu", "memory"} {
		other := map[string]string{"cpu": "memory", "memory": "cpu"}[dim]
		for a := int64(0); a <= max; a++ {
			for r := int64(0); r <= max; r++ {
				for u := int64(0); u <= max; u++ {
					for variant := 0; variant < 2; variant++ {
						ro := c05Op{Op: "rAdd", R: "r1", Node: "n1", Phase: "Available", Policy: "Restricted", Alloc: c05Vec{dim: a}, Reserved: c05Vec{}, Owners: []c05Owner{{}}}
						if r > 0 || variant == 1 {
							ro.Reserved = c05Vec{dim: r}
						}
						if variant == 1 { // the other dimension is reserved too, but not restricted
							ro.Alloc[other] = 1
							ro.Ropts = []string{dim}
						}
						s := []c05Op{ro}
						if u > 0 || variant == 1 {
							p := pod("p1", c05Vec{dim: u, other: 2})
							p.PNode, p.Ra = "n1", "r1"
							s = append(s, c05Op{Op: "podAdd", c05PodObj: p})
						}
						for p := int64(0); p <= max; p++ {
							for q := int64(0); q <= max; q++ {
								pre := c05Vec{}
								if p > 0 || variant == 1 {
									pre[dim] = p
								}
								req := c05Vec{dim: q}
								if variant == 1 {
									req[other] = 3
								}
								s = append(s, c05Op{Op: "fit", R: "r1", Pre: pre, c05PodObj: pod("p9", req)})
							}
						}
						emit(s)
					}
				}
			}
		}
	}
	// pod-count rule: reservation reserving `m` pod slots, k pods assigned, j of them preemptible
	for m := int64(0); m <= max; m++ {
		for k := 0; k <= int(max); k++ {
			s := []c05Op{{Op: "rAdd", R: "r1", Node: "n1", Phase: "Available", Policy: "Restricted", Alloc: c05Vec{"cpu": 3, "pods": m}, Reserved: c05Vec{}, Owners: []c05Owner{{}}}}
			for i := 0; i < k; i++ {
				p := pod(fmt.Sprintf("p%d", i+1), c05Vec{"cpu": 0})
				p.PNode, p.Ra = "n1", "r1"
				s = append(s, c05Op{Op: "podAdd", c05PodObj: p})
			}
			for j := int64(0); j <= max; j++ {
				pre := c05Vec{}
				if j > 0 {
					pre["pods"] = j
				}
				s = append(s, c05Op{Op: "fit", R: "r1", Pre: pre, c05PodObj: pod("p9", c05Vec{"cpu": 1})})
				s = append(s, c05Op{Op: "fit", R: "r1", Pre: pre, c05PodObj: pod("p9", c05Vec{})})
			}
			emit(s)
		}
	}
}

// two-dimensional fit cases sampled at random (both dimensions restricted)
func c05FitRandom(rng *rand.Rand, emit func([]c05Op), n int, max int64) {
	v := func() c05Vec { return c05Vec{"cpu": rng.Int63n(max + 1), "memory": rng.Int63n(max + 1)} }
	for i := 0; i < n; i++ {
		s := []c05Op{{Op: "rAdd", R: "r1", Node: "n1", Phase: "Available", Policy: "Restricted", Alloc: v(), Reserved: v(), Owners: []c05Owner{{}}}}
		for k := rng.Intn(3); k > 0; k-- {
			p := c05PodObj{Pod: fmt.Sprintf("p%d", k), Ns: "ns1", App: "a", Req: v(), PNode: "n1", Ra: "r1"}
			s = append(s, c05Op{Op: "podAdd", c05PodObj: p})
		}
		for k := 0; k < 12; k++ {
			pre := c05Vec{}
			if rng.Intn(2) == 0 {
				pre = v()
			}
			s = append(s, c05Op{Op: "fit", R: "r1", Pre: pre, c05PodObj: c05PodObj{Pod: "p9", Ns: "ns1", App: "a", Req: v()}})
		}
		emit(s)
	}
}

func TestVerifC05(t *testing.T) {
	if !vu.Enabled() {
		t.Skip("verification harness: VERIF_OUT not set")
	}
	rec := vu.NewRecorder("")
	defer rec.Close()
	w := c05NewWorld(t)
	run := func(s []c05Op) { c05Run(w, rec, s) }
	path := vu.ScriptPath()
	if vu.ReplayPath() != "" {
		path = vu.ReplayPath()
	}
	for _, raw := range vu.ReadScripts(path) {
		var script []c05Op
		if err := json.Unmarshal(raw, &script); err != nil {
			t.Fatal(err)
		}
		run(script)
	}
	if vu.ReplayPath() != "" {
		return
	}
	c05FitGrid(run, 3)
	n, length, nfit := 120, 40, 100
	if vu.Thorough() {
		n, length, nfit = 1500, 60, 1500
	}
	rng := vu.Rand(5)
	c05FitRandom(rng, run, nfit, 3)
	c05FitRandom(rng, run, nfit/2, 1000000)
	for i := 0; i < n; i++ {
		run(c05Random(rng, length, i%4 == 3, vu.EnvInt("VERIF_C05_EXT", 0) == 1))
	}
	for i := 0; i < n; i++ {
		run(c05LedgerScenario(rng, i%3 == 2))
		run(c05OnceScenario(rng))
		run(c05NominateFitScenario(rng))
	}
	t.Logf("C05: %d segments, %d events; rAssume via Plugin.Reserve %d, direct %d", rec.Segments(), rec.Events(), c05ViaPlugin, c05Direct)
}
