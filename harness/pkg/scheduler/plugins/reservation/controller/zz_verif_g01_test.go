package controller

// Verification harness for G01 (growth check: the reservation controller's phase machine).
// Injected by `go test -overlay`; /repo is untouched.
//
// The REAL Controller (New(..) of this package) runs over the package's own fixtures: kube + koordinator fake
// clientsets ("the API server") and un-started shared informer factories whose indexers the harness keeps equal to
// the API server after every step, calling the controller's REAL event handlers (onReservationAdd/Update/Delete,
// onPodAdd/Update/Delete, onNodeDelete) for every difference - a deterministic informer without lag. What the
// handlers put into the REAL work queue is drained after every step and logged (enq). sync(key) and
// gcReservations() are called directly; the n-th API write of such a call can be made to fail (reactor on both
// clientsets). A restart builds a new Controller + factories over the same API server and re-delivers every object.
//
// The controller reads the wall clock (time.Now / time.Since / metav1.Now). A logical tick is gH = 1000h: "the clock
// advances by one tick" is executed by shifting every timestamp the controller reads (creationTimestamp, spec.expires,
// condition times) back by gH, which is the same thing for code that only looks at differences; TTL k is k*gH+gH/2,
// so run times of minutes cannot move a comparison across a tick.
//
// A segment is {reset, steps}. After every step the harness logs the reservations, pods and nodes AS READ FROM THE
// API SERVER (field reads only). There is no oracle here: TLC decides (ReservationControllerTrace.tla).

import (
	"context"
	"encoding/json"
	"flag"
	"fmt"
	"io"
	"math"
	"math/rand"
	"os"
	"reflect"
	"sort"
	"strconv"
	"strings"
	"testing"
	"time"

	corev1 "k8s.io/api/core/v1"
	apierrors "k8s.io/apimachinery/pkg/api/errors"
	"k8s.io/apimachinery/pkg/api/resource"
	metav1 "k8s.io/apimachinery/pkg/apis/meta/v1"
	"k8s.io/apimachinery/pkg/runtime"
	"k8s.io/apimachinery/pkg/runtime/schema"
	"k8s.io/apimachinery/pkg/types"
	k8sfeature "k8s.io/apiserver/pkg/util/feature"
	"k8s.io/client-go/informers"
	kubefake "k8s.io/client-go/kubernetes/fake"
	clienttesting "k8s.io/client-go/testing"
	"k8s.io/client-go/tools/cache"
	"k8s.io/component-base/featuregate"
	"k8s.io/klog/v2"

	apiext "github.com/koordinator-sh/koordinator/apis/extension"
	schedulingv1alpha1 "github.com/koordinator-sh/koordinator/apis/scheduling/v1alpha1"
	koordfake "github.com/koordinator-sh/koordinator/pkg/client/clientset/versioned/fake"
	koordinformers "github.com/koordinator-sh/koordinator/pkg/client/informers/externalversions"
	"github.com/koordinator-sh/koordinator/pkg/features"
	"github.com/koordinator-sh/koordinator/pkg/scheduler/apis/config"
	"github.com/koordinator-sh/koordinator/pkg/scheduler/frameworkext/indexer"
	reservationutil "github.com/koordinator-sh/koordinator/pkg/util/reservation"
	vu "github.com/koordinator-sh/koordinator/pkg/verifutil"
)

const (
	g01H      = 1000 * time.Hour
	g01NS     = "default"
	g01MaxGen = 2
	g01MaxNow = 6
)

var (
	g01Nodes  = []string{"n1", "n2"}
	g01RNames = []string{"r1", "r2"}
	g01PNames = []string{"p1", "p2", "p3"}
)

type g01Step struct {
	Op     string            `json:"op"`
	Gate   bool              `json:"gate,omitempty"`
	Gcd    int               `json:"gcd,omitempty"`
	Preq   map[string]g01Req `json:"preq,omitempty"`
	Nodes  []string          `json:"nodes,omitempty"`
	R      string            `json:"r,omitempty"`
	G      int               `json:"g,omitempty"`
	P      string            `json:"p,omitempty"`
	N      string            `json:"n,omitempty"`
	K      string            `json:"k,omitempty"`
	HasTtl bool              `json:"hasTtl,omitempty"`
	Ttl    int               `json:"ttl,omitempty"`
	HasExp bool              `json:"hasExp,omitempty"`
	Exp    int               `json:"exp,omitempty"`
	Once   bool              `json:"once,omitempty"`
	Dims   []string          `json:"dims,omitempty"`
	Fail   int               `json:"fail,omitempty"`
	Ek     string            `json:"ek,omitempty"`
	How    string            `json:"how,omitempty"`
}

type g01Req struct {
	Cpu int `json:"cpu"`
	Mem int `json:"mem"`
}

type g01World struct {
	rec   *vu.Recorder
	kube  *kubefake.Clientset
	koord *koordfake.Clientset
	c     *Controller
	podIx cache.Indexer
	nodIx cache.Indexer
	resIx cache.Indexer

	now  int
	gate bool
	gcd  int
	preq map[string]g01Req
	rgen map[string]int
	pgen map[string]int
	used map[string]bool

	inCtl  bool
	wcount int
	failAt int
	failEk string
	nhit   int

	st *g01Stats
}

type g01Stats struct {
	Segments int            `json:"segments"`
	Ops      map[string]int `json:"ops"`
	Skipped  int            `json:"skipped"`
	Branch   map[string]int `json:"branch"`
}

func g01Quiet() {
	fs := flag.NewFlagSet("klog", flag.ContinueOnError)
	klog.InitFlags(fs)
	_ = fs.Set("logtostderr", "false")
	_ = fs.Set("stderrthreshold", "FATAL")
	klog.SetOutput(io.Discard)
}

func g01Uid(name string, gen int) string { return name + "-" + strconv.Itoa(gen) }
func g01GenOf(uid types.UID) int {
	s := string(uid)
	i := strings.LastIndex(s, "-")
	if i < 0 {
		return 0
	}
	g, _ := strconv.Atoi(s[i+1:])
	return g
}
func g01NameOf(uid string) string {
	i := strings.LastIndex(uid, "-")
	if i < 0 {
		return uid
	}
	return uid[:i]
}

// ---------------------------------------------------------------------------------------------- world
func g01NewWorld(rec *vu.Recorder, st *g01Stats, cfg g01Step) *g01World {
	w := &g01World{rec: rec, st: st, gate: cfg.Gate, gcd: cfg.Gcd, preq: cfg.Preq,
		rgen: map[string]int{}, pgen: map[string]int{}, used: map[string]bool{}}
	w.kube = kubefake.NewSimpleClientset()
	w.koord = koordfake.NewSimpleClientset()
	react := func(action clienttesting.Action) (bool, runtime.Object, error) {
		if !w.inCtl {
			return false, nil, nil
		}
		switch action.GetVerb() {
		case "create", "update", "patch", "delete":
		default:
			return false, nil, nil
		}
		w.wcount++
		if w.failAt > 0 && w.wcount == w.failAt {
			w.nhit++
			gr := schema.GroupResource{Group: action.GetResource().Group, Resource: action.GetResource().Resource}
			if w.failEk == "conflict" {
				return true, nil, apierrors.NewConflict(gr, "x", fmt.Errorf("injected: the object has been modified"))
			}
			return true, nil, apierrors.NewServerTimeout(gr, action.GetVerb(), 1)
		}
		return false, nil, nil
	}
	w.kube.PrependReactor("*", "*", react)
	w.koord.PrependReactor("*", "*", react)
	if err := k8sfeature.DefaultFeatureGate.(featuregate.MutableFeatureGate).Set(
		fmt.Sprintf("%s=%v", features.CleanExpiredReservationAllocated, w.gate)); err != nil {
		panic(err)
	}
	for _, n := range cfg.Nodes {
		w.mustNode(n)
	}
	w.build()
	return w
}

func (w *g01World) mustNode(n string) {
	_, err := w.kube.CoreV1().Nodes().Create(context.TODO(), &corev1.Node{ObjectMeta: metav1.ObjectMeta{Name: n}}, metav1.CreateOptions{})
	if err != nil {
		panic(err)
	}
}

// build constructs a controller incarnation the way the package's tests do and performs the informers' initial list.
func (w *g01World) build() {
	kf := informers.NewSharedInformerFactory(w.kube, 0)
	kof := koordinformers.NewSharedInformerFactory(w.koord, 0)
	if err := indexer.AddIndexers(kof); err != nil {
		panic(err)
	}
	gcSeconds := int64((time.Duration(w.gcd)*g01H + g01H/2) / time.Second)
	w.c = New(kf, kof, w.kube, w.koord, &config.ReservationArgs{GCDurationSeconds: gcSeconds})
	w.podIx = kf.Core().V1().Pods().Informer().GetIndexer()
	w.nodIx = kf.Core().V1().Nodes().Informer().GetIndexer()
	w.resIx = kof.Scheduling().V1alpha1().Reservations().Informer().GetIndexer()
	w.deliver()
}

func (w *g01World) apiReservations() []*schedulingv1alpha1.Reservation {
	l, err := w.koord.SchedulingV1alpha1().Reservations().List(context.TODO(), metav1.ListOptions{})
	if err != nil {
		panic(err)
	}
	out := make([]*schedulingv1alpha1.Reservation, 0, len(l.Items))
	for i := range l.Items {
		out = append(out, &l.Items[i])
	}
	sort.Slice(out, func(i, j int) bool { return out[i].Name < out[j].Name })
	return out
}

func (w *g01World) apiPods() []*corev1.Pod {
	l, err := w.kube.CoreV1().Pods(g01NS).List(context.TODO(), metav1.ListOptions{})
	if err != nil {
		panic(err)
	}
	out := make([]*corev1.Pod, 0, len(l.Items))
	for i := range l.Items {
		out = append(out, &l.Items[i])
	}
	sort.Slice(out, func(i, j int) bool { return out[i].Name < out[j].Name })
	return out
}

func (w *g01World) apiNodes() []*corev1.Node {
	l, err := w.kube.CoreV1().Nodes().List(context.TODO(), metav1.ListOptions{})
	if err != nil {
		panic(err)
	}
	out := make([]*corev1.Node, 0, len(l.Items))
	for i := range l.Items {
		out = append(out, &l.Items[i])
	}
	sort.Slice(out, func(i, j int) bool { return out[i].Name < out[j].Name })
	return out
}

// deliver makes the informer caches equal to the API server and calls the controller's event handlers for every
// difference (reservations, then pods, then nodes; sorted by name).
func (w *g01World) deliver() {
	seen := map[string]bool{}
	for _, r := range w.apiReservations() {
		seen[r.Name] = true
		old, ok, _ := w.resIx.GetByKey(r.Name)
		if ok && old.(*schedulingv1alpha1.Reservation).UID != r.UID {
			_ = w.resIx.Delete(old)
			w.c.onReservationDelete(old)
			ok = false
		}
		if !ok {
			_ = w.resIx.Add(r)
			w.c.onReservationAdd(r)
		} else if !reflect.DeepEqual(old, r) {
			_ = w.resIx.Update(r)
			w.c.onReservationUpdate(old, r)
		}
	}
	for _, o := range w.resIx.List() {
		if r := o.(*schedulingv1alpha1.Reservation); !seen[r.Name] {
			_ = w.resIx.Delete(r)
			w.c.onReservationDelete(r)
		}
	}
	seen = map[string]bool{}
	for _, p := range w.apiPods() {
		seen[p.Name] = true
		key := p.Namespace + "/" + p.Name
		old, ok, _ := w.podIx.GetByKey(key)
		if ok && old.(*corev1.Pod).UID != p.UID {
			_ = w.podIx.Delete(old)
			w.c.onPodDelete(old)
			ok = false
		}
		if !ok {
			_ = w.podIx.Add(p)
			w.c.onPodAdd(p)
		} else if !reflect.DeepEqual(old, p) {
			_ = w.podIx.Update(p)
			w.c.onPodUpdate(old, p)
		}
	}
	olds := w.podIx.List()
	sort.Slice(olds, func(i, j int) bool { return olds[i].(*corev1.Pod).Name < olds[j].(*corev1.Pod).Name })
	for _, o := range olds {
		if p := o.(*corev1.Pod); !seen[p.Name] {
			_ = w.podIx.Delete(p)
			w.c.onPodDelete(p)
		}
	}
	seen = map[string]bool{}
	for _, n := range w.apiNodes() {
		seen[n.Name] = true
		if _, ok, _ := w.nodIx.GetByKey(n.Name); !ok {
			_ = w.nodIx.Add(n)
		}
	}
	oldn := w.nodIx.List()
	sort.Slice(oldn, func(i, j int) bool { return oldn[i].(*corev1.Node).Name < oldn[j].(*corev1.Node).Name })
	for _, o := range oldn {
		if n := o.(*corev1.Node); !seen[n.Name] {
			_ = w.nodIx.Delete(n)
			w.c.onNodeDelete(n)
		}
	}
}

// drain empties the REAL work queue; returns the uids of the keys the handlers had put there (sorted, distinct).
func (w *g01World) drain() []string {
	set := map[string]bool{}
	for w.c.queue.Len() > 0 {
		item, shutdown := w.c.queue.Get()
		if shutdown {
			break
		}
		_, uid, err := parseReservationKey(item.(string))
		if err == nil {
			set[string(uid)] = true
		}
		w.c.queue.Done(item)
		w.c.queue.Forget(item)
	}
	out := make([]string, 0, len(set))
	for k := range set {
		out = append(out, k)
	}
	sort.Strings(out)
	return out
}

// ---------------------------------------------------------------------------------------------- projection
func (w *g01World) tickOf(t time.Time) int {
	return w.now - int(math.Round(float64(time.Since(t))/float64(g01H)))
}

func (w *g01World) obs() vu.Ev {
	rs := vu.Ev{}
	for _, n := range g01RNames {
		rs[n] = vu.Ev{"exists": false}
	}
	for _, r := range w.apiReservations() {
		x := vu.Ev{"exists": true, "gen": g01GenOf(r.UID), "created": w.tickOf(r.CreationTimestamp.Time),
			"hasTtl": r.Spec.TTL != nil, "ttl": 0, "hasExp": r.Spec.Expires != nil, "exp": 0,
			"once": apiext.IsReservationAllocateOnce(r), "phase": string(r.Status.Phase), "node": r.Status.NodeName}
		if r.Spec.TTL != nil {
			x["ttl"] = int(r.Spec.TTL.Duration / g01H)
		}
		if r.Spec.Expires != nil {
			x["exp"] = w.now + int(math.Floor(float64(time.Until(r.Spec.Expires.Time))/float64(g01H)))
		}
		dims := []string{}
		if _, ok := r.Status.Allocatable[corev1.ResourceCPU]; ok {
			dims = append(dims, "cpu")
		}
		if _, ok := r.Status.Allocatable[corev1.ResourceMemory]; ok {
			dims = append(dims, "mem")
		}
		if r.Status.Allocatable == nil { // not scheduled yet: what SetReservationAvailable will copy from the template
			req := reservationutil.ReservationRequests(r)
			if _, ok := req[corev1.ResourceCPU]; ok {
				dims = append(dims, "cpu")
			}
			if _, ok := req[corev1.ResourceMemory]; ok {
				dims = append(dims, "mem")
			}
		}
		x["dims"] = dims
		owners := []string{}
		for _, o := range r.Status.CurrentOwners {
			owners = append(owners, string(o.UID))
		}
		sort.Strings(owners)
		x["owners"] = owners
		cpu := r.Status.Allocated[corev1.ResourceCPU]
		mem := r.Status.Allocated[corev1.ResourceMemory]
		x["alloc"] = vu.Ev{"cpu": int(cpu.Value()), "mem": int(mem.Value() >> 30)}
		ready, nready, rtt, rpt, sched := "none", 0, 0, 0, "none"
		for _, c := range r.Status.Conditions {
			switch c.Type {
			case schedulingv1alpha1.ReservationConditionReady:
				if nready == 0 {
					ready = string(c.Status) + ":" + c.Reason
					rtt, rpt = w.tickOf(c.LastTransitionTime.Time), w.tickOf(c.LastProbeTime.Time)
				}
				nready++
			case schedulingv1alpha1.ReservationConditionScheduled:
				sched = string(c.Status)
			}
		}
		x["ready"], x["nready"], x["rtt"], x["rpt"], x["sched"] = ready, nready, rtt, rpt, sched
		rs[r.Name] = x
	}
	pods := vu.Ev{}
	for _, n := range g01PNames {
		pods[n] = vu.Ev{"exists": false}
	}
	for _, p := range w.apiPods() {
		ra := ""
		if a, err := apiext.GetReservationAllocated(p); err == nil && a != nil {
			ra = string(a.UID)
		}
		pods[p.Name] = vu.Ev{"exists": true, "gen": g01GenOf(p.UID), "node": p.Spec.NodeName,
			"term": p.Status.Phase == corev1.PodSucceeded || p.Status.Phase == corev1.PodFailed, "ra": ra}
	}
	nodes := []string{}
	for _, n := range w.apiNodes() {
		nodes = append(nodes, n.Name)
	}
	return vu.Ev{"now": w.now, "nodes": nodes, "rs": rs, "pods": pods}
}

// ---------------------------------------------------------------------------------------------- reads used to steer
func (w *g01World) getR(name string) *schedulingv1alpha1.Reservation {
	r, err := w.koord.SchedulingV1alpha1().Reservations().Get(context.TODO(), name, metav1.GetOptions{})
	if err != nil {
		return nil
	}
	return r
}
func (w *g01World) getP(name string) *corev1.Pod {
	p, err := w.kube.CoreV1().Pods(g01NS).Get(context.TODO(), name, metav1.GetOptions{})
	if err != nil {
		return nil
	}
	return p
}
func (w *g01World) hasNode(n string) bool {
	_, err := w.kube.CoreV1().Nodes().Get(context.TODO(), n, metav1.GetOptions{})
	return err == nil
}

// raChoice: "" or the uid of a reservation the scheduler may hand to a pod bound to node n
func (w *g01World) raChoice(n string) []string {
	out := []string{""}
	if n == "" {
		return out
	}
	for _, r := range w.apiReservations() {
		if r.Status.NodeName == n && !(apiext.IsReservationAllocateOnce(r) && w.used[string(r.UID)]) {
			out = append(out, string(r.UID))
		}
	}
	return out
}

// annotated counts the bound pods whose reservation-allocated annotation names uid
func (w *g01World) annotated(uid string) int {
	n := 0
	for _, p := range w.apiPods() {
		if a, err := apiext.GetReservationAllocated(p); err == nil && a != nil && string(a.UID) == uid && p.Spec.NodeName != "" {
			n++
		}
	}
	return n
}

func g01In(xs []string, x string) bool {
	for _, y := range xs {
		if x == y {
			return true
		}
	}
	return false
}

// ---------------------------------------------------------------------------------------------- steps
func (w *g01World) emit(s g01Step, extra vu.Ev) {
	b, _ := json.Marshal(s)
	e := vu.Ev{}
	_ = json.Unmarshal(b, &e)
	// the trace spec reads these keys of every event that has them in its vocabulary; omitempty dropped the zero values
	switch s.Op {
	case "createR":
		e["hasTtl"], e["ttl"], e["hasExp"], e["exp"], e["once"] = s.HasTtl, s.Ttl, s.HasExp, s.Exp, s.Once
	case "sync":
		e["g"], e["fail"] = s.G, s.Fail
	case "gc":
		e["fail"] = s.Fail
	case "addPod", "bindPod":
		e["n"], e["k"] = s.N, s.K
	}
	for k, v := range extra {
		e[k] = v
	}
	e["obs"] = w.obs()
	w.rec.Emit(e)
	w.st.Ops[s.Op]++
}

func (w *g01World) skip(s g01Step, why string) {
	w.rec.Emit(vu.Ev{"op": "skip", "what": s.Op, "why": why})
	w.st.Skipped++
}

func (w *g01World) markUsed(k string) {
	if k == "" {
		return
	}
	if r := w.getR(g01NameOf(k)); r != nil && string(r.UID) == k && apiext.IsReservationAllocateOnce(r) {
		w.used[k] = true
	}
}

func (w *g01World) ctl(fail int, ek string, f func()) (panicked bool) {
	w.inCtl, w.wcount, w.failAt, w.failEk, w.nhit = true, 0, fail, ek, 0
	panicked, _ = vu.Protect(f)
	w.inCtl = false
	return
}

func (w *g01World) apply(s g01Step) {
	ctx := context.TODO()
	rc := w.koord.SchedulingV1alpha1().Reservations()
	pc := w.kube.CoreV1().Pods(g01NS)
	switch s.Op {
	case "createR":
		if w.getR(s.R) != nil || w.rgen[s.R] >= g01MaxGen || !g01In(g01RNames, s.R) {
			w.skip(s, "illegal")
			return
		}
		w.rgen[s.R]++
		req := corev1.ResourceList{}
		for _, d := range s.Dims {
			if d == "cpu" {
				req[corev1.ResourceCPU] = resource.MustParse("8")
			} else if d == "mem" {
				req[corev1.ResourceMemory] = resource.MustParse("8Gi")
			}
		}
		once := s.Once
		r := &schedulingv1alpha1.Reservation{
			ObjectMeta: metav1.ObjectMeta{Name: s.R, UID: types.UID(g01Uid(s.R, w.rgen[s.R])), CreationTimestamp: metav1.NewTime(time.Now())},
			Spec: schedulingv1alpha1.ReservationSpec{
				Template: &corev1.PodTemplateSpec{Spec: corev1.PodSpec{Containers: []corev1.Container{{Name: "c",
					Resources: corev1.ResourceRequirements{Requests: req}}}}},
				Owners:       []schedulingv1alpha1.ReservationOwner{{Object: &corev1.ObjectReference{Namespace: g01NS}}},
				AllocateOnce: &once,
			},
			Status: schedulingv1alpha1.ReservationStatus{Phase: schedulingv1alpha1.ReservationPending},
		}
		if s.HasTtl {
			d := time.Duration(0)
			if s.Ttl > 0 {
				d = time.Duration(s.Ttl)*g01H + g01H/2
			}
			r.Spec.TTL = &metav1.Duration{Duration: d}
		}
		if s.HasExp {
			r.Spec.Expires = &metav1.Time{Time: time.Now().Add(time.Duration(s.Exp-w.now)*g01H + g01H/2)}
		}
		if _, err := rc.Create(ctx, r, metav1.CreateOptions{}); err != nil {
			panic(err)
		}
	case "unsched":
		r := w.getR(s.R)
		if r == nil || r.Status.Phase != schedulingv1alpha1.ReservationPending || r.Status.NodeName != "" {
			w.skip(s, "illegal")
			return
		}
		reservationutil.SetReservationUnschedulable(r, "0/2 nodes are available")
		if _, err := rc.UpdateStatus(ctx, r, metav1.UpdateOptions{}); err != nil {
			panic(err)
		}
	case "schedule":
		r := w.getR(s.R)
		if r == nil || r.Status.Phase != schedulingv1alpha1.ReservationPending || r.Status.NodeName != "" || !w.hasNode(s.N) {
			w.skip(s, "illegal")
			return
		}
		if err := reservationutil.SetReservationAvailable(r, s.N); err != nil { // what the scheduler's Bind does
			panic(err)
		}
		if _, err := rc.UpdateStatus(ctx, r, metav1.UpdateOptions{}); err != nil {
			panic(err)
		}
	case "deleteR":
		if w.getR(s.R) == nil {
			w.skip(s, "illegal")
			return
		}
		if err := rc.Delete(ctx, s.R, metav1.DeleteOptions{}); err != nil {
			panic(err)
		}
	case "addPod":
		if w.getP(s.P) != nil || w.pgen[s.P] >= g01MaxGen || !g01In(g01PNames, s.P) || (s.N != "" && !w.hasNode(s.N)) || !g01In(w.raChoice(s.N), s.K) {
			w.skip(s, "illegal")
			return
		}
		w.pgen[s.P]++
		q := w.preq[s.P]
		req := corev1.ResourceList{}
		if q.Cpu > 0 {
			req[corev1.ResourceCPU] = *resource.NewQuantity(int64(q.Cpu), resource.DecimalSI)
		}
		if q.Mem > 0 {
			req[corev1.ResourceMemory] = *resource.NewQuantity(int64(q.Mem)<<30, resource.BinarySI)
		}
		p := &corev1.Pod{
			ObjectMeta: metav1.ObjectMeta{Namespace: g01NS, Name: s.P, UID: types.UID(g01Uid(s.P, w.pgen[s.P]))},
			Spec: corev1.PodSpec{NodeName: s.N, Containers: []corev1.Container{{Name: "c",
				Resources: corev1.ResourceRequirements{Requests: req}}}},
			Status: corev1.PodStatus{Phase: corev1.PodPending},
		}
		if s.N != "" {
			p.Status.Phase = corev1.PodRunning
		}
		if s.K != "" {
			apiext.SetReservationAllocated(p, &metav1.ObjectMeta{Name: g01NameOf(s.K), UID: types.UID(s.K)})
			w.markUsed(s.K)
		}
		if _, err := pc.Create(ctx, p, metav1.CreateOptions{}); err != nil {
			panic(err)
		}
	case "bindPod":
		p := w.getP(s.P)
		if p == nil || p.Spec.NodeName != "" || !w.hasNode(s.N) || !g01In(w.raChoice(s.N), s.K) {
			w.skip(s, "illegal")
			return
		}
		p.Spec.NodeName = s.N
		p.Status.Phase = corev1.PodRunning
		if s.K != "" {
			apiext.SetReservationAllocated(p, &metav1.ObjectMeta{Name: g01NameOf(s.K), UID: types.UID(s.K)})
			w.markUsed(s.K)
		}
		if _, err := pc.Update(ctx, p, metav1.UpdateOptions{}); err != nil {
			panic(err)
		}
	case "termPod":
		p := w.getP(s.P)
		if p == nil || p.Spec.NodeName == "" || p.Status.Phase == corev1.PodSucceeded || p.Status.Phase == corev1.PodFailed {
			w.skip(s, "illegal")
			return
		}
		p.Status.Phase = corev1.PodSucceeded
		if s.How == "failed" {
			p.Status.Phase = corev1.PodFailed
		}
		if _, err := pc.Update(ctx, p, metav1.UpdateOptions{}); err != nil {
			panic(err)
		}
	case "delPod":
		if w.getP(s.P) == nil {
			w.skip(s, "illegal")
			return
		}
		if err := pc.Delete(ctx, s.P, metav1.DeleteOptions{}); err != nil {
			panic(err)
		}
	case "delNode":
		if !w.hasNode(s.N) {
			w.skip(s, "illegal")
			return
		}
		if err := w.kube.CoreV1().Nodes().Delete(ctx, s.N, metav1.DeleteOptions{}); err != nil {
			panic(err)
		}
	case "addNode":
		if w.hasNode(s.N) || !g01In(g01Nodes, s.N) {
			w.skip(s, "illegal")
			return
		}
		w.mustNode(s.N)
	case "tick":
		if w.now >= g01MaxNow {
			w.skip(s, "clock bound")
			return
		}
		w.now++
		for _, r := range w.apiReservations() {
			r.CreationTimestamp = metav1.NewTime(r.CreationTimestamp.Add(-g01H))
			if r.Spec.Expires != nil {
				r.Spec.Expires = &metav1.Time{Time: r.Spec.Expires.Add(-g01H)}
			}
			for i := range r.Status.Conditions {
				c := &r.Status.Conditions[i]
				c.LastProbeTime = metav1.NewTime(c.LastProbeTime.Add(-g01H))
				c.LastTransitionTime = metav1.NewTime(c.LastTransitionTime.Add(-g01H))
			}
			if _, err := rc.Update(ctx, r, metav1.UpdateOptions{}); err != nil {
				panic(err)
			}
			_ = w.resIx.Update(r) // time passing is not an API event: no handler call
		}
	case "restart":
		w.c.queue.ShutDown()
		w.build()
		w.emit(s, vu.Ev{"enq": w.drain()})
		return
	case "sync":
		if !g01In(g01RNames, s.R) || s.G < 1 || s.G > g01MaxGen {
			w.skip(s, "illegal")
			return
		}
		var res result
		var err error
		before := w.getR(s.R)
		panicked := w.ctl(s.Fail, s.Ek, func() { res, err = w.c.sync(s.R + "/" + g01Uid(s.R, s.G)) })
		w.deliver()
		enq := w.drain()
		w.emit(s, vu.Ev{"err": err != nil, "timer": res.requeueAfter > 0 || res.requeue, "nw": w.wcount,
			"hit": w.nhit > 0, "nhit": w.nhit, "panic": panicked, "enq": enq})
		w.branch(before, s, err != nil)
		return
	case "gc":
		nb := len(w.apiReservations())
		panicked := w.ctl(s.Fail, s.Ek, func() { w.c.gcReservations() })
		w.deliver()
		enq := w.drain()
		w.emit(s, vu.Ev{"nw": w.wcount, "nhit": w.nhit, "panic": panicked, "enq": enq})
		if d := nb - len(w.apiReservations()); d > 0 {
			w.st.Branch["gc:deleted"] += d
		} else if w.nhit > 0 {
			w.st.Branch["gc:delete-failed"]++
		} else {
			w.st.Branch["gc:nothing"]++
		}
		return
	default:
		panic("g01: unknown op " + s.Op)
	}
	w.deliver()
	w.emit(s, vu.Ev{"enq": w.drain()})
}

// branch statistics (coverage report only, never judged)
func (w *g01World) branch(before *schedulingv1alpha1.Reservation, s g01Step, failed bool) {
	b := "sync:"
	after := w.getR(s.R)
	switch {
	case before == nil && w.wcount > 0:
		b += "deleted-cleaned-pods"
	case before == nil:
		b += "deleted-noop"
	case reservationutil.IsReservationFailed(before) || reservationutil.IsReservationSucceeded(before):
		b += "terminal-skip"
	case failed:
		b += "write-failed"
	case after != nil && reservationutil.IsReservationFailed(after):
		if before.Status.NodeName == "" {
			b += "pending->Failed"
		} else if !w.hasNode(before.Status.NodeName) {
			b += "node-gone->Failed"
		} else {
			b += "expired->Failed"
		}
	case after != nil && reservationutil.IsReservationSucceeded(after):
		b += "once->Succeeded"
	case w.wcount > 0:
		b += fmt.Sprintf("owners-updated(%d)", len(after.Status.CurrentOwners))
	case before.Status.NodeName == "":
		b += "pending-noop"
	default:
		b += "in-sync-noop"
	}
	w.st.Branch[b]++
}

// ---------------------------------------------------------------------------------------------- generation
var g01Specs = []g01Step{
	{HasTtl: true, Ttl: 1, Once: true, Dims: []string{"cpu"}},
	{HasTtl: true, Ttl: 0, Once: false, Dims: []string{"cpu", "mem"}},
	{HasExp: true, Exp: 2, Once: false, Dims: []string{"cpu"}},
	{HasTtl: true, Ttl: 2, Once: false, Dims: []string{"cpu", "mem"}},
	{HasTtl: true, Ttl: 0, Once: true, Dims: []string{"cpu"}},
	{HasExp: true, Exp: 1, Once: true, Dims: []string{"cpu", "mem"}},
	// both set (the API calls them mutually exclusive; the CRD default ttl=24h makes it the common case with `expires`)
	{HasTtl: true, Ttl: 2, HasExp: true, Exp: 1, Once: false, Dims: []string{"cpu"}},
	{HasTtl: true, Ttl: 1, HasExp: true, Exp: 3, Once: true, Dims: []string{"cpu", "mem"}},
	{HasTtl: true, Ttl: 0, HasExp: true, Exp: 1, Once: false, Dims: []string{"cpu"}},
}

func g01Reset(rng *rand.Rand) g01Step {
	cfg := g01Step{Op: "reset", Gate: rng.Intn(3) == 0, Gcd: rng.Intn(2), Preq: map[string]g01Req{}, Nodes: []string{"n1", "n2"}}
	for _, p := range g01PNames {
		cfg.Preq[p] = g01Req{Cpu: 1 + rng.Intn(2), Mem: rng.Intn(3)}
	}
	if rng.Intn(6) == 0 {
		cfg.Nodes = []string{"n1"}
	}
	return cfg
}

// next picks a step that is legal in the REAL state (steering only; what the controller does with it is TLC's business)
func (w *g01World) next(rng *rand.Rand) g01Step {
	type cand struct {
		w int
		s g01Step
	}
	var cs []cand
	add := func(wt int, s g01Step) {
		if wt > 0 {
			cs = append(cs, cand{wt, s})
		}
	}
	eks := []string{"conflict", "timeout"}
	nodes := []string{}
	for _, n := range g01Nodes {
		if w.hasNode(n) {
			nodes = append(nodes, n)
			add(1, g01Step{Op: "delNode", N: n})
		} else {
			add(3, g01Step{Op: "addNode", N: n})
		}
	}
	nexist := 0
	for _, r := range g01RNames {
		cur := w.getR(r)
		if cur == nil {
			if w.rgen[r] > 0 {
				add(1, g01Step{Op: "sync", R: r, G: w.rgen[r]})
				if w.gate {
					add(2, g01Step{Op: "sync", R: r, G: 1 + rng.Intn(w.rgen[r])})
					add(1, g01Step{Op: "sync", R: r, G: w.rgen[r], Fail: 1 + rng.Intn(2), Ek: eks[rng.Intn(2)]})
					// pods still carrying the deleted incarnation's annotation: the clean-up path, with and without a failing patch
					if left := w.annotated(g01Uid(r, w.rgen[r])); left > 0 {
						add(4*left, g01Step{Op: "sync", R: r, G: w.rgen[r], Fail: 1 + rng.Intn(left), Ek: eks[rng.Intn(2)]})
						add(3, g01Step{Op: "sync", R: r, G: w.rgen[r]})
					}
				}
			}
			if w.rgen[r] < g01MaxGen {
				s := g01Specs[rng.Intn(len(g01Specs))]
				s.Op, s.R = "createR", r
				if s.HasExp {
					s.Exp += w.now
				}
				add(5, s)
			}
			continue
		}
		nexist++
		g := g01GenOf(cur.UID)
		add(9, g01Step{Op: "sync", R: r, G: g})
		add(2, g01Step{Op: "sync", R: r, G: g, Fail: 1, Ek: eks[rng.Intn(2)]})
		if g > 1 {
			add(1, g01Step{Op: "sync", R: r, G: g - 1})
		}
		terminal := reservationutil.IsReservationFailed(cur) || reservationutil.IsReservationSucceeded(cur)
		if terminal {
			add(2, g01Step{Op: "deleteR", R: r})
		} else {
			add(1, g01Step{Op: "deleteR", R: r})
		}
		if w.gate && w.annotated(string(cur.UID)) >= 2 {
			add(5, g01Step{Op: "deleteR", R: r})
		}
		if cur.Status.Phase == schedulingv1alpha1.ReservationPending && cur.Status.NodeName == "" {
			add(2, g01Step{Op: "unsched", R: r})
			for _, n := range nodes {
				add(6, g01Step{Op: "schedule", R: r, N: n})
			}
		}
	}
	if nexist == 0 {
		for i := range cs {
			if cs[i].s.Op == "createR" {
				cs[i].w *= 4
			}
		}
	}
	for _, p := range g01PNames {
		cur := w.getP(p)
		switch {
		case cur == nil:
			if w.pgen[p] >= g01MaxGen {
				continue
			}
			add(1, g01Step{Op: "addPod", P: p})
			for _, n := range nodes {
				for _, k := range w.raChoice(n) {
					if k == "" {
						add(1, g01Step{Op: "addPod", P: p, N: n})
					} else {
						add(6, g01Step{Op: "addPod", P: p, N: n, K: k})
					}
				}
			}
		case cur.Spec.NodeName == "":
			for _, n := range nodes {
				for _, k := range w.raChoice(n) {
					add(3, g01Step{Op: "bindPod", P: p, N: n, K: k})
				}
			}
			add(1, g01Step{Op: "delPod", P: p})
		case cur.Status.Phase == corev1.PodRunning:
			add(2, g01Step{Op: "termPod", P: p, How: []string{"succeeded", "failed"}[rng.Intn(2)]})
			add(2, g01Step{Op: "delPod", P: p})
		default:
			add(3, g01Step{Op: "delPod", P: p})
		}
	}
	if w.now < g01MaxNow {
		add(9, g01Step{Op: "tick"})
	}
	add(4, g01Step{Op: "gc"})
	add(1, g01Step{Op: "gc", Fail: 1 + rng.Intn(2), Ek: eks[rng.Intn(2)]})
	add(2, g01Step{Op: "restart"})
	tot := 0
	for _, c := range cs {
		tot += c.w
	}
	x := rng.Intn(tot)
	for _, c := range cs {
		if x < c.w {
			return c.s
		}
		x -= c.w
	}
	return g01Step{Op: "restart"}
}

func g01RunScript(rec *vu.Recorder, st *g01Stats, steps []g01Step) {
	if len(steps) == 0 || steps[0].Op != "reset" {
		return
	}
	cfg := steps[0]
	rec.Reset(vu.Ev{"gate": cfg.Gate, "gcd": cfg.Gcd, "preq": cfg.Preq, "nodes": cfg.Nodes})
	st.Segments++
	w := g01NewWorld(rec, st, cfg)
	defer w.c.queue.ShutDown()
	for _, s := range steps[1:] {
		if s.Op == "skip" {
			continue
		}
		w.apply(s)
	}
}

func TestVerifG01(t *testing.T) {
	if !vu.Enabled() {
		t.Skip("VERIF_OUT not set")
	}
	g01Quiet()
	rec := vu.NewRecorder("")
	defer rec.Close()
	st := &g01Stats{Ops: map[string]int{}, Branch: map[string]int{}}
	defer func() {
		_ = k8sfeature.DefaultFeatureGate.(featuregate.MutableFeatureGate).Set(
			fmt.Sprintf("%s=false", features.CleanExpiredReservationAllocated))
		if b, err := json.MarshalIndent(st, "", " "); err == nil {
			_ = os.WriteFile(os.Getenv("VERIF_OUT")+".stats.json", b, 0o644)
			t.Logf("G01 stats: %s", b)
		}
	}()

	run := func(raw json.RawMessage) {
		var steps []g01Step
		if err := json.Unmarshal(raw, &steps); err != nil {
			t.Fatalf("bad script: %v", err)
		}
		g01RunScript(rec, st, steps)
	}
	if rp := vu.ReplayPath(); rp != "" {
		for _, raw := range vu.ReadScripts(rp) {
			run(raw)
		}
		return
	}
	// 1. schedules generated by TLC from the model (Gen_ReservationController)
	for _, raw := range vu.ReadScripts(vu.ScriptPath()) {
		run(raw)
	}
	// 2. seeded random schedules steered by the real state
	nseg, nstep := 350, 36
	if vu.Thorough() {
		nseg, nstep = 3000, 48
	}
	nseg = vu.EnvInt("VERIF_G01_SEGMENTS", nseg)
	for i := 0; i < nseg; i++ {
		rng := vu.Rand(int64(7000 + i))
		cfg := g01Reset(rng)
		rec.Reset(vu.Ev{"gate": cfg.Gate, "gcd": cfg.Gcd, "preq": cfg.Preq, "nodes": cfg.Nodes})
		st.Segments++
		w := g01NewWorld(rec, st, cfg)
		for j := 0; j < nstep; j++ {
			w.apply(w.next(rng))
		}
		w.c.queue.ShutDown()
	}
}
