package reservation

// Verification harness for C19 / reservation part (injected by `go test -overlay`; builds on the C05 executor).
//
// The executor remembers the objects the API server holds: an informer event delivers the current API object, so the
// object carried by the LAST rAdd / rUpdate (podAdd / podUpdate) of a uid is what survives a restart; rDelete /
// podDelete remove it. Reserve / Unreserve (rAssume rForget assume forget) only touch the scheduler's memory.
//
// restart: for every bound pod that the live cache holds as assigned to a reservation, the assignment is persisted on
// the pod object by the REAL binding-cycle code (Plugin.PreBind with the cycle state Reserve leaves behind ->
// apiext.SetReservationAllocated); all other pod objects and the Reservation objects (status as last written) are
// what the API server holds. Then the plugin gets an empty cache and nominator (c05World.Fresh) and the cache is
// rebuilt ONLY through the real informer handlers (reservationEventHandler.OnAdd/OnUpdate, podEventHandler.OnAdd/
// OnUpdate) in an arbitrary interleaving - the reservation informer and the pod informer are started together and
// deliver independently (cmd/koord-scheduler/app/server.go, step 3), so a pod may arrive before or after the
// reservation it is assigned to -, with duplicate adds and updates carrying the same object.
// The C05 executor logs the projection of the fresh cache; TLC decides (ReservationTrace!TRestart). No oracle here.

import (
	"context"
	"encoding/json"
	"fmt"
	"math/rand"
	"sort"
	"strings"
	"testing"

	corev1 "k8s.io/api/core/v1"
	"k8s.io/apimachinery/pkg/types"
	"k8s.io/kubernetes/pkg/scheduler/framework"

	schedulingv1alpha1 "github.com/koordinator-sh/koordinator/apis/scheduling/v1alpha1"
	vu "github.com/koordinator-sh/koordinator/pkg/verifutil"
)

var c19Stats = map[string]int{}

// c19Track keeps the API server's copy of every object up to date (called for every operation, before it is executed)
func (w *c05World) c19Track(o *c05Op) {
	if w.apiR == nil {
		w.apiR, w.apiP = map[string]*c05Op{}, map[string]*c05PodObj{}
	}
	switch o.Op {
	case "rAdd", "rUpdate":
		cp := *o
		w.apiR[o.R] = &cp
	case "rDelete":
		delete(w.apiR, o.R)
	case "podAdd", "podUpdate":
		if o.Op == "podUpdate" && o.Old != nil && o.Old.Pod != o.Pod {
			delete(w.apiP, o.Old.Pod) // the update replaces the old pod by a re-created one: the old object is gone
		}
		cp := o.c05PodObj
		w.apiP[o.Pod] = &cp
	case "podDelete":
		delete(w.apiP, o.Pod)
	}
}

type c19Token struct {
	res  bool // reservation (else pod)
	id   string
	kind int // 0 add, 1 duplicate add, 2 update carrying the same object
}

func (w *c05World) c19Restart(o *c05Op) vu.Ev {
	ctx := context.TODO()
	rids := make([]string, 0, len(w.apiR))
	for u := range w.apiR {
		rids = append(rids, u)
	}
	sort.Strings(rids)
	pids := make([]string, 0, len(w.apiP))
	for p := range w.apiP {
		pids = append(pids, p)
	}
	sort.Strings(pids)

	// ---- persist: what the binding cycle wrote on every bound pod the live cache holds as assigned to a reservation
	pods := map[string]*corev1.Pod{}
	persisted := 0
	for _, id := range pids {
		p := w.apiP[id]
		pods[id] = c05Pod(p, "") // the object as the API server holds it
		if p.PNode == "" || p.Ra == "" {
			continue
		}
		ri := w.cache.getReservationInfoByUID(types.UID(p.Ra)) // a copy, read under the cache's lock
		if ri == nil {
			continue
		}
		if _, holds := ri.AssignedPods[types.UID(p.Pod)]; !holds {
			continue
		}
		bare := *p
		bare.Ra = ""
		pod := c05Pod(&bare, "")
		cs := framework.NewCycleState()
		cs.Write(stateKey, &stateData{assumed: ri.Clone()}) // what Reserve leaves for the binding cycle
		if st := w.pl.PreBind(ctx, cs, pod, p.PNode); !st.IsSuccess() {
			panic("c05: PreBind: " + st.Message())
		}
		pods[id] = pod
		persisted++
	}
	// what lived only in the scheduler's memory (field reads, for the statistics only)
	droppedPods, droppedRes := 0, 0
	w.cache.lock.RLock()
	for uid, ri := range w.cache.reservationInfos {
		if r := w.apiR[string(uid)]; r == nil || r.Node == "" {
			droppedRes++
		}
		for puid := range ri.AssignedPods {
			if p := w.apiP[string(puid)]; p == nil || p.PNode == "" || p.Ra != string(uid) {
				droppedPods++
			}
		}
	}
	w.cache.lock.RUnlock()
	reservations := map[string]*schedulingv1alpha1.Reservation{}
	for _, u := range rids {
		reservations[u] = c05Reservation(w.apiR[u])
	}

	// ---- restart: empty cache and nominator, fed only through the informer handlers
	w.Fresh()
	rng := rand.New(rand.NewSource(int64(o.Variant)))
	var toks []c19Token
	add := func(res bool, id string) {
		toks = append(toks, c19Token{res, id, 0})
		switch rng.Intn(4) {
		case 0:
			toks = append(toks, c19Token{res, id, 1})
		case 1:
			toks = append(toks, c19Token{res, id, 2})
		case 2:
			toks = append(toks, c19Token{res, id, 2}, c19Token{res, id, 1})
		}
	}
	for _, u := range rids {
		add(true, u)
	}
	for _, p := range pids {
		add(false, p)
	}
	rng.Shuffle(len(toks), func(i, j int) { toks[i], toks[j] = toks[j], toks[i] })
	mode := "mixed"
	switch rng.Intn(4) { // the two extreme orders often: every reservation before every pod / every pod before every reservation
	case 0:
		mode = "reservationsFirst"
		sort.SliceStable(toks, func(i, j int) bool { return toks[i].res && !toks[j].res })
	case 1:
		mode = "podsFirst"
		sort.SliceStable(toks, func(i, j int) bool { return !toks[i].res && toks[j].res })
	}
	seenR, seenP := map[string]bool{}, map[string]bool{}
	dups, updates, podFirst, resFirst := 0, 0, 0, 0
	for _, tk := range toks {
		kind := tk.kind
		seen := seenP
		if tk.res {
			seen = seenR
		}
		if !seen[tk.id] {
			kind = 0     // whatever comes first for an object is its add event
			if !tk.res { // a persisted assignment to a reservation the API server holds as usable: which of the two came first?
				p := w.apiP[tk.id]
				if r := w.apiR[p.Ra]; p.PNode != "" && !p.Dead && p.Ra != "" && r != nil && r.Node != "" && (r.Phase == "Available" || r.Phase == "Waiting") {
					if seenR[p.Ra] {
						resFirst++
					} else {
						podFirst++
					}
				}
			}
		} else if kind == 0 {
			kind = 1 + rng.Intn(2)
		}
		seen[tk.id] = true
		switch {
		case tk.res && kind == 0:
			w.lastR[tk.id] = reservations[tk.id]
			w.rh.OnAdd(reservations[tk.id], true)
		case tk.res && kind == 1:
			w.rh.OnAdd(reservations[tk.id].DeepCopy(), true)
			dups++
		case tk.res:
			w.rh.OnUpdate(reservations[tk.id], reservations[tk.id].DeepCopy())
			updates++
		case kind == 0:
			w.ph.OnAdd(pods[tk.id], true)
		case kind == 1:
			w.ph.OnAdd(pods[tk.id].DeepCopy(), true)
			dups++
		default:
			w.ph.OnUpdate(pods[tk.id], pods[tk.id].DeepCopy())
			updates++
		}
	}
	c19Stats["restart"]++
	c19Stats["mode."+mode]++
	c19Stats["dupAdds"] += dups
	c19Stats["sameUpdates"] += updates
	c19Stats["persistedAssignments"] += persisted
	c19Stats["assignment.podBeforeReservation"] += podFirst
	c19Stats["assignment.reservationBeforePod"] += resFirst
	if persisted > 0 {
		c19Stats["restart.persisted>0"]++
	}
	if droppedPods > 0 {
		c19Stats["restart.droppedAssumedPods>0"]++
	}
	if droppedRes > 0 {
		c19Stats["restart.droppedUnboundReservations>0"]++
	}
	if podFirst > 0 {
		c19Stats["restart.podBeforeReservation>0"]++
	}
	return vu.Ev{"persisted": persisted, "droppedPods": droppedPods, "droppedRes": droppedRes, "reservations": len(rids), "pods": len(pids),
		"mode": mode, "podFirst": podFirst, "resFirst": resFirst, "dups": dups, "updates": updates}
}

func TestVerifC19Reservation(t *testing.T) {
	if !vu.Enabled() {
		t.Skip("verification harness: VERIF_OUT not set")
	}
	rec := vu.NewRecorder("")
	defer rec.Close()
	w := c05NewWorld(t)
	if vu.ReplayPath() != "" {
		for _, raw := range vu.ReadScripts(vu.ReplayPath()) {
			var script []c05Op
			if err := json.Unmarshal(raw, &script); err != nil {
				t.Fatal(err)
			}
			c05Run(w, rec, script)
		}
		return
	}
	c05Restarts = true
	defer func() { c05Restarts = false }()
	n, length := 150, 40
	if vu.Thorough() {
		n, length = 2000, 60
	}
	n = vu.EnvInt("VERIF_C19_N", n)
	rng := vu.Rand(195)
	for i := 0; i < n; i++ {
		c05Run(w, rec, c05Random(rng, length, i%4 == 3, false))
	}
	for i := 0; i < n/2; i++ {
		c05Run(w, rec, c05LedgerScenario(rng, i%3 == 2))
		c05Run(w, rec, c05OnceScenario(rng))
	}
	for i := 0; i < n/3; i++ {
		c05Run(w, rec, c05NominateFitScenario(rng))
	}
	keys := make([]string, 0, len(c19Stats))
	for k := range c19Stats {
		keys = append(keys, k)
	}
	sort.Strings(keys)
	var sb strings.Builder
	for _, k := range keys {
		fmt.Fprintf(&sb, " %s=%d", k, c19Stats[k])
	}
	t.Logf("C19 reservation: %d segments, %d events;%s", rec.Segments(), rec.Events(), sb.String())
}
