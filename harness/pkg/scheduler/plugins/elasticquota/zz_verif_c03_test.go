package elasticquota

// Verification harness for C03 (injected by `go test -overlay`). Executor + recorder: closed-loop
// histories through the real Plugin (PreFilter, Reserve, Unreserve, pod / quota / node handlers);
// logs each verdict with the limits in force. No oracle here.

import (
	"context"
	"encoding/json"
	"fmt"
	"math/rand"
	"sort"
	"strings"
	"testing"
	"time"

	corev1 "k8s.io/api/core/v1"
	"k8s.io/apimachinery/pkg/api/resource"
	metav1 "k8s.io/apimachinery/pkg/apis/meta/v1"
	"k8s.io/apimachinery/pkg/types"
	"k8s.io/kubernetes/pkg/scheduler/framework"

	"github.com/koordinator-sh/koordinator/apis/extension"
	"github.com/koordinator-sh/koordinator/apis/thirdparty/scheduler-plugins/pkg/apis/scheduling/v1alpha1"
	"github.com/koordinator-sh/koordinator/pkg/scheduler/apis/config"
	"github.com/koordinator-sh/koordinator/pkg/scheduler/plugins/elasticquota/core"
	vu "github.com/koordinator-sh/koordinator/pkg/verifutil"
)

type c03Op struct {
	Op       string           `json:"op"`
	Name     string           `json:"name,omitempty"`
	Parent   string           `json:"parent,omitempty"`
	IsParent bool             `json:"isParent,omitempty"`
	Lent     bool             `json:"lent,omitempty"`
	Min      map[string]int64 `json:"min,omitempty"`
	Max      map[string]int64 `json:"max,omitempty"`
	Pod      string           `json:"pod,omitempty"`
	Q        string           `json:"q,omitempty"`
	Req      map[string]int64 `json:"req,omitempty"`
	Np       bool             `json:"np,omitempty"`
	Bound    bool             `json:"bound,omitempty"`
	Term     bool             `json:"term,omitempty"` // podUpdate: the pod has finished (Succeeded / Failed); it keeps counting until it is deleted
	Delta    map[string]int64 `json:"delta,omitempty"`
	Runtime  bool             `json:"runtime,omitempty"`
	CheckPar bool             `json:"checkParent,omitempty"`
	Scale    bool             `json:"scale,omitempty"`
	Dims     []string         `json:"dims,omitempty"` // dimensions the quota declares (nil = all)
}

var c03Dims = []string{"cpu", "memory", "gpu"}

func c03Name(d string) corev1.ResourceName {
	if d == "gpu" {
		return "nvidia.com/gpu"
	}
	return corev1.ResourceName(d)
}

// resource list over the given dimensions only (nil = all)
func c03RLd(m map[string]int64, dims []string) corev1.ResourceList {
	if dims == nil {
		dims = c03Dims
	}
	rl := corev1.ResourceList{}
	for _, d := range dims {
		rl[c03Name(d)] = *resource.NewQuantity(m[d], resource.DecimalSI)
	}
	return rl
}

func c03RL(m map[string]int64) corev1.ResourceList { return c03RLd(m, nil) }

// node capacity: the cpu amount of a "node" op is in MILLI-cores (the cluster total may change by a fraction of a core)
func c03NodeRL(m map[string]int64, dims []string) corev1.ResourceList {
	rl := c03RLd(m, dims)
	rl[corev1.ResourceCPU] = *resource.NewMilliQuantity(m["cpu"], resource.DecimalSI)
	return rl
}

func c03Milli(rng *rand.Rand, m map[string]int64) map[string]int64 {
	m["cpu"] *= 1000
	if rng.Intn(2) == 0 {
		m["cpu"] += int64(rng.Intn(1000))
	}
	return m
}

func c03V(m map[string]int64) map[string]int64 {
	out := map[string]int64{}
	for _, d := range c03Dims {
		out[d] = m[d]
	}
	return out
}

// calculator units: milli-CPU, bytes
func c03Units(rl corev1.ResourceList) map[string]int64 {
	out := map[string]int64{}
	for _, d := range c03Dims {
		q := rl[c03Name(d)]
		if d == "cpu" {
			out[d] = q.MilliValue()
		} else {
			out[d] = q.Value()
		}
	}
	return out
}

func c03Quota(o c03Op) *v1alpha1.ElasticQuota {
	q := &v1alpha1.ElasticQuota{
		ObjectMeta: metav1.ObjectMeta{Name: o.Name, Namespace: "ns", Annotations: map[string]string{}, Labels: map[string]string{}},
		Spec:       v1alpha1.ElasticQuotaSpec{Max: c03RLd(o.Max, o.Dims), Min: c03RLd(o.Min, o.Dims)},
	}
	q.Labels[extension.LabelQuotaParent] = o.Parent
	q.Labels[extension.LabelAllowLentResource] = map[bool]string{true: "true", false: "false"}[o.Lent]
	q.Labels[extension.LabelQuotaIsParent] = map[bool]string{true: "true", false: "false"}[o.IsParent]
	return q
}

var c03RV int

func c03Pod(id, quota string, req map[string]int64, np, bound bool, term ...bool) *corev1.Pod {
	c03RV++
	p := &corev1.Pod{
		ObjectMeta: metav1.ObjectMeta{Name: id, Namespace: "ns", UID: types.UID(id), ResourceVersion: fmt.Sprint(c03RV),
			Labels: map[string]string{extension.LabelQuotaName: quota}},
		Spec: corev1.PodSpec{Containers: []corev1.Container{{Name: "c", Resources: corev1.ResourceRequirements{Requests: c03RL(req)}}}},
	}
	if np {
		p.Labels[extension.LabelPreemptible] = "false"
	}
	if bound {
		p.Spec.NodeName = "n1"
		p.Status.Phase = corev1.PodRunning
		if strings.HasSuffix(id, "1") || strings.HasSuffix(id, "4") {
			// some pods are being deleted gracefully while they run (deletionTimestamp ahead, a finalizer): they hold their
			// resources like any other running pod until the object goes away
			ts := metav1.NewTime(time.Date(2100, 1, 1, 0, 0, 0, 0, time.UTC))
			p.DeletionTimestamp, p.Finalizers = &ts, []string{"verif/keep"}
		}
	}
	if len(term) > 0 && term[0] { // a finished pod: still an object with a node name, counted until it is deleted
		p.Spec.NodeName = "n1"
		p.Status.Phase = []corev1.PodPhase{corev1.PodSucceeded, corev1.PodFailed}[len(id)%2]
	}
	return p
}

// levels of the runtime calculators on the path root -> name (same projection as the C02 harness,
// through exported accessors only where possible; calculators are reached via the summary API)
func c03Levels(gp *Plugin, name string) ([]vu.Ev, map[string]map[string]int64) {
	mgr := gp.groupQuotaManager
	limits := map[string]map[string]int64{}
	var path []*core.QuotaInfo
	for n := name; n != extension.RootQuotaName && n != ""; {
		qi := mgr.GetQuotaInfoByName(n)
		if qi == nil {
			break
		}
		path = append([]*core.QuotaInfo{qi}, path...)
		n = qi.ParentName
	}
	levels := []vu.Ev{}
	for _, qi := range path {
		limits[qi.Name] = c03Units(qi.GetRuntime())
		lv := core.VerifLevel(mgr, qi.Name, qi.ParentName, c03Dims)
		levels = append(levels, lv)
	}
	return levels, limits
}

func c03Run(t *testing.T, rec *vu.Recorder, script []c03Op) {
	if len(script) == 0 || script[0].Op != "reset" {
		panic("script must start with reset")
	}
	// min-quota scaling (float arithmetic, refreshed lazily per path; the plugin's default) is on in every other segment:
	// the spec then takes the scaled mins in force from the logged calculator levels (bounded by the declared mins)
	scale := script[0].Scale
	suit := newPluginTestSuit(t, nil, func(a *config.ElasticQuotaArgs) { a.EnableMinQuotaScale = scale })
	gp := suit.createPlugin(t).(*Plugin)
	gp.pluginArgs.EnableRuntimeQuota = script[0].Runtime
	gp.pluginArgs.EnableCheckParentQuota = script[0].CheckPar
	rec.Reset(vu.Ev{"runtime": script[0].Runtime, "checkParent": script[0].CheckPar, "scale": scale})
	quotas := map[string]*v1alpha1.ElasticQuota{}
	pods := map[string]*corev1.Pod{}
	nodeSeq := 0
	ctx := context.TODO()
	for _, o := range script[1:] {
		ev := vu.Ev{"op": o.Op}
		switch o.Op {
		case "node":
			nodeSeq++
			n := &corev1.Node{ObjectMeta: metav1.ObjectMeta{Name: fmt.Sprintf("node%d", nodeSeq)}, Status: corev1.NodeStatus{Allocatable: c03NodeRL(o.Delta, nil)}}
			gp.OnNodeAdd(n)
			ev["delta"] = c03V(o.Delta)
		case "quota":
			q := c03Quota(o)
			if old, ok := quotas[o.Name]; ok {
				gp.OnQuotaUpdate(old, q)
			} else {
				gp.OnQuotaAdd(q)
			}
			quotas[o.Name] = q
			ev["name"], ev["parent"], ev["isParent"], ev["lent"], ev["min"], ev["max"] = o.Name, o.Parent, o.IsParent, o.Lent, c03V(o.Min), c03V(o.Max)
			dims := o.Dims
			if dims == nil {
				dims = c03Dims
			}
			ev["dims"] = dims
		case "podAdd":
			p := c03Pod(o.Pod, o.Q, o.Req, o.Np, false)
			pods[o.Pod] = p
			gp.OnPodAdd(p)
			ev["pod"], ev["q"], ev["req"], ev["np"], ev["bound"] = o.Pod, o.Q, c03V(o.Req), o.Np, false
		case "podUpdate":
			old := pods[o.Pod]
			p := c03Pod(o.Pod, o.Q, o.Req, o.Np, o.Bound, o.Term)
			pods[o.Pod] = p
			gp.OnPodUpdate(old, p)
			ev["pod"], ev["q"], ev["req"], ev["np"], ev["bound"] = o.Pod, o.Q, c03V(o.Req), o.Np, o.Bound
			if o.Term {
				ev["term"] = true
			}
		case "podDelete":
			old := pods[o.Pod]
			delete(pods, o.Pod)
			gp.OnPodDelete(old)
			ev["pod"] = o.Pod
		case "unreserve":
			gp.Unreserve(ctx, framework.NewCycleState(), pods[o.Pod], "n1")
			ev["pod"] = o.Pod
		case "admit":
			p := pods[o.Pod]
			state := framework.NewCycleState()
			_, st := gp.PreFilter(ctx, state, p, nil)
			ev["pod"] = o.Pod
			ev["code"] = st.Code().String()
			pfs, err := getPostFilterState(state)
			if err != nil {
				panic(err)
			}
			ev["usedLimit"] = c03Units(pfs.usedLimit)
			quotaName := p.Labels[extension.LabelQuotaName]
			levels, limits := c03Levels(gp, quotaName)
			ev["limits"] = limits
			if script[0].Runtime {
				ev["levels"] = levels
			}
			if st.IsSuccess() {
				gp.Reserve(ctx, state, p, "n1")
			}
		default:
			panic("unknown op " + o.Op)
		}
		rec.Emit(ev)
	}
}

// ---- seeded random closed-loop driver ----
func c03Random(rng *rand.Rand, n int, runtime, checkParent, scale bool) []c03Op {
	out := []c03Op{{Op: "reset", Runtime: runtime, CheckPar: checkParent, Scale: scale}}
	vec := func(max int64) map[string]int64 {
		return map[string]int64{"cpu": rng.Int63n(max + 1), "memory": rng.Int63n(max + 1), "gpu": rng.Int63n(max/2 + 1)}
	}
	mask := func(m map[string]int64, dims []string) map[string]int64 {
		out := map[string]int64{"cpu": 0, "memory": 0, "gpu": 0}
		for _, d := range dims {
			out[d] = m[d]
		}
		return out
	}
	out = append(out, c03Op{Op: "node", Delta: c03Milli(rng, map[string]int64{"cpu": int64(4 + rng.Intn(20)), "memory": int64(4 + rng.Intn(20)), "gpu": int64(rng.Intn(8))})})
	type qs struct {
		op c03Op
	}
	quotas := map[string]c03Op{}
	type ps struct {
		q        string
		assigned bool // shadow, steers generation only
		last     c03Op
	}
	pods := map[string]*ps{}
	names := []string{"a", "b", "c", "d", "e"}
	sortedQ := func() []string {
		s := []string{}
		for k := range quotas {
			s = append(s, k)
		}
		sort.Strings(s)
		return s
	}
	if rng.Intn(3) == 0 {
		dims := []string{"cpu", "memory"}
		gmax := map[string]int64{"cpu": int64(8 + rng.Intn(6)), "memory": int64(8 + rng.Intn(6)), "gpu": 0}
		amin := map[string]int64{"cpu": int64(1 + rng.Intn(4)), "memory": int64(1 + rng.Intn(4)), "gpu": 0}
		for _, o := range []c03Op{
			{Op: "quota", Name: "a", Parent: extension.RootQuotaName, IsParent: true, Lent: true, Min: amin, Max: gmax, Dims: dims},
			{Op: "quota", Name: "b", Parent: "a", IsParent: true, Lent: true, Min: amin, Max: gmax, Dims: dims},
			{Op: "quota", Name: "c", Parent: "b", IsParent: false, Lent: true, Min: mask(vec(3), dims), Max: gmax, Dims: dims},
			{Op: "quota", Name: "d", Parent: "a", IsParent: false, Lent: true, Min: map[string]int64{"cpu": 0, "memory": 0, "gpu": 0}, Max: gmax, Dims: dims},
		} {
			quotas[o.Name] = o
			out = append(out, o)
		}
	}
	for len(out) < n {
		k := rng.Intn(20)
		switch {
		case len(quotas) < 2 || k < 3:
			name := names[rng.Intn(len(names))]
			old, live := quotas[name]
			o := c03Op{Op: "quota", Name: name, Parent: extension.RootQuotaName, IsParent: rng.Intn(3) == 0, Lent: rng.Intn(2) == 0, Max: vec(12)}
			o.Min = map[string]int64{"cpu": rng.Int63n(o.Max["cpu"] + 1), "memory": rng.Int63n(o.Max["memory"] + 1), "gpu": rng.Int63n(o.Max["gpu"] + 1)}
			if rng.Intn(2) == 0 {
				o.Min = map[string]int64{"cpu": 0, "memory": 0, "gpu": 0}
			}
			// the dimensions a group declares: fixed per top-level tree (the webhook makes them agree along a tree)
			o.Dims = []string{"cpu", "memory"}
			if rng.Intn(2) == 0 {
				o.Dims = []string{"cpu", "memory", "gpu"}
			}
			if live {
				o.Parent, o.IsParent, o.Dims = old.Parent, old.IsParent, old.Dims // no re-parenting / isParent flips in the closed loop
			} else {
				var cands []string
				for _, q := range sortedQ() {
					if quotas[q].IsParent {
						cands = append(cands, q)
					}
				}
				if len(cands) > 0 && rng.Intn(2) == 0 {
					o.Parent = cands[rng.Intn(len(cands))]
					o.Dims = quotas[o.Parent].Dims
				}
			}
			o.Min, o.Max = mask(o.Min, o.Dims), mask(o.Max, o.Dims)
			quotas[name] = o
			out = append(out, o)
		case k == 3:
			out = append(out, c03Op{Op: "node", Delta: c03Milli(rng, vec(5))})
		default:
			id := fmt.Sprintf("p%d", rng.Intn(9))
			p, ok := pods[id]
			qsl := sortedQ()
			switch {
			case !ok:
				q := qsl[rng.Intn(len(qsl))]
				o := c03Op{Op: "podAdd", Pod: id, Q: q, Req: vec(5), Np: rng.Intn(4) == 0}
				pods[id] = &ps{q: q, last: o}
				out = append(out, o)
			case rng.Intn(6) == 0:
				// informer update of the pod object: only the preemptible label flips / the pod finishes / the request changes
				o := c03Op{Op: "podUpdate", Pod: id, Q: p.q, Req: p.last.Req, Np: p.last.Np, Bound: p.last.Bound}
				switch rng.Intn(3) {
				case 0:
					o.Np = !o.Np
				case 1:
					o.Term, o.Bound = true, false
				default:
					if !p.assigned { // closed loop: what a group uses only grows through admissions
						o.Req = vec(5)
					}
				}
				p.last = o
				out = append(out, o)
			case !p.assigned && rng.Intn(4) > 0:
				out = append(out, c03Op{Op: "admit", Pod: id})
				p.assigned = true // unknown to the generator; "maybe assigned" from now on
			case rng.Intn(3) == 0:
				delete(pods, id)
				out = append(out, c03Op{Op: "podDelete", Pod: id})
			default:
				out = append(out, c03Op{Op: "unreserve", Pod: id})
				p.assigned = false
			}
		}
	}
	return out
}

func TestVerifC03(t *testing.T) {
	if !vu.Enabled() {
		t.Skip("verification harness: VERIF_OUT not set")
	}
	setLoglevel("0")
	rec := vu.NewRecorder("")
	defer rec.Close()
	if vu.ReplayPath() != "" {
		for _, raw := range vu.ReadScripts(vu.ReplayPath()) {
			var script []c03Op
			if err := json.Unmarshal(raw, &script); err != nil {
				t.Fatal(err)
			}
			c03Run(t, rec, script)
		}
		return
	}
	n, length := 220, 45
	if vu.Thorough() {
		n, length = 1200, 70
	}
	rng := vu.Rand(3)
	for i := 0; i < n; i++ {
		c03Run(t, rec, c03Random(rng, length, i%2 == 0, (i/2)%2 == 0, (i/4)%2 == 1))
	}
	t.Logf("C03: %d segments, %d events", rec.Segments(), rec.Events())
}
