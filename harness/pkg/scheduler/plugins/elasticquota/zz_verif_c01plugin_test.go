package elasticquota

// Verification harness for C01 at the plugin level (growth beyond the core manager; injected by `go test -overlay`).
// Pod / quota events go through the real Plugin handlers (label -> group routing with the default group), Reserve /
// Unreserve and the periodic migrateDefaultQuotaGroupsPod cycle; after every event the reported figures of every group
// (default group included) are logged. No oracle here; TLC validates against specs/Quota/QuotaPluginTrace.tla.

import (
	"context"
	"encoding/json"
	"fmt"
	"math/rand"
	"sort"
	"strings"
	"testing"

	corev1 "k8s.io/api/core/v1"
	"k8s.io/kubernetes/pkg/scheduler/framework"

	"github.com/koordinator-sh/koordinator/apis/extension"
	"github.com/koordinator-sh/koordinator/apis/thirdparty/scheduler-plugins/pkg/apis/scheduling/v1alpha1"
	"github.com/koordinator-sh/koordinator/pkg/scheduler/apis/config"
	vu "github.com/koordinator-sh/koordinator/pkg/verifutil"
)

type c01pOp struct {
	Op       string           `json:"op"`
	Name     string           `json:"name,omitempty"`
	Parent   string           `json:"parent,omitempty"`
	IsParent bool             `json:"isParent,omitempty"`
	Lent     bool             `json:"lent,omitempty"`
	Min      map[string]int64 `json:"min,omitempty"`
	Max      map[string]int64 `json:"max,omitempty"`
	Pod      string           `json:"pod,omitempty"`
	Label    string           `json:"label,omitempty"`
	Req      map[string]int64 `json:"req,omitempty"`
	Np       bool             `json:"np,omitempty"`
	Bound    bool             `json:"bound,omitempty"`
	Term     bool             `json:"term,omitempty"` // the pod has finished: node name kept, phase Succeeded / Failed; counted until deleted
	Delta    map[string]int64 `json:"delta,omitempty"`
}

var c01pDims = []string{"cpu", "memory"}

func c01pVec(rl corev1.ResourceList) map[string]int64 {
	m := map[string]int64{}
	for _, d := range c01pDims {
		q := rl[corev1.ResourceName(d)]
		m[d] = q.Value()
	}
	return m
}

func c01pV(m map[string]int64) map[string]int64 {
	out := map[string]int64{}
	for _, d := range c01pDims {
		out[d] = m[d]
	}
	return out
}

func c01pObs(gp *Plugin) map[string]interface{} {
	out := map[string]interface{}{}
	for name, s := range gp.groupQuotaManager.GetQuotaSummaries(true) {
		if name == extension.SystemQuotaName {
			continue
		}
		pods := map[string]bool{}
		for k, pi := range s.PodCache {
			pods[strings.TrimPrefix(k, "ns/")] = pi.IsAssigned
		}
		out[name] = vu.Ev{
			"fig": vu.Ev{
				"used": c01pVec(s.Used), "request": c01pVec(s.Request), "childRequest": c01pVec(s.ChildRequest),
				"selfUsed": c01pVec(s.SelfUsed), "selfRequest": c01pVec(s.SelfRequest),
				"npUsed": c01pVec(s.NonPreemptibleUsed), "npRequest": c01pVec(s.NonPreemptibleRequest),
				"selfNpUsed": c01pVec(s.SelfNonPreemptibleUsed), "selfNpRequest": c01pVec(s.SelfNonPreemptibleRequest),
			},
			"pods": pods,
		}
	}
	return out
}

func c01pRun(t *testing.T, rec *vu.Recorder, script []c01pOp) {
	suit := newPluginTestSuit(t, nil, func(a *config.ElasticQuotaArgs) { a.EnableMinQuotaScale = false })
	gp := suit.createPlugin(t).(*Plugin)
	rec.Reset(nil)
	quotas := map[string]*v1alpha1.ElasticQuota{}
	pods := map[string]*corev1.Pod{}
	ctx := context.TODO()
	nodeSeq := 0
	for _, o := range script {
		if o.Op == "reset" {
			continue
		}
		ev := vu.Ev{"op": o.Op}
		switch o.Op {
		case "node":
			nodeSeq++
			n := &corev1.Node{Status: corev1.NodeStatus{Allocatable: c03NodeRL(o.Delta, c01pDims)}}
			n.Name = fmt.Sprintf("node%d", nodeSeq)
			gp.OnNodeAdd(n)
			ev["delta"] = c01pV(o.Delta)
		case "quota":
			q := c03Quota(c03Op{Name: o.Name, Parent: o.Parent, IsParent: o.IsParent, Lent: o.Lent, Min: o.Min, Max: o.Max, Dims: c01pDims})
			if old, ok := quotas[o.Name]; ok {
				gp.OnQuotaUpdate(old, q)
			} else {
				gp.OnQuotaAdd(q)
			}
			quotas[o.Name] = q
			ev["name"], ev["parent"], ev["isParent"], ev["lent"], ev["min"], ev["max"] = o.Name, o.Parent, o.IsParent, o.Lent, c01pV(o.Min), c01pV(o.Max)
		case "quotaDelete":
			if q, ok := quotas[o.Name]; ok {
				gp.OnQuotaDelete(q)
				delete(quotas, o.Name)
			}
			ev["name"] = o.Name
		case "podSet":
			p := c03Pod(o.Pod, o.Label, o.Req, o.Np, o.Bound, o.Term)
			if old, ok := pods[o.Pod]; ok {
				gp.OnPodUpdate(old, p)
			} else {
				gp.OnPodAdd(p)
			}
			pods[o.Pod] = p
			ev["pod"], ev["label"], ev["req"], ev["np"], ev["bound"] = o.Pod, o.Label, c01pV(o.Req), o.Np, o.Bound
			if o.Term {
				ev["term"] = true
			}
		case "podDelete":
			if old, ok := pods[o.Pod]; ok {
				gp.OnPodDelete(old)
				delete(pods, o.Pod)
			}
			ev["pod"] = o.Pod
		case "reserve":
			if p, ok := pods[o.Pod]; ok {
				gp.Reserve(ctx, framework.NewCycleState(), p, "n1")
			}
			ev["pod"] = o.Pod
		case "unreserve":
			if p, ok := pods[o.Pod]; ok {
				gp.Unreserve(ctx, framework.NewCycleState(), p, "n1")
			}
			ev["pod"] = o.Pod
		case "migrateCycle":
			gp.migrateDefaultQuotaGroupsPod()
		default:
			panic("unknown op " + o.Op)
		}
		ev["obs"] = c01pObs(gp)
		rec.Emit(ev)
	}
}

func c01pRandom(rng *rand.Rand, n int) []c01pOp {
	names := []string{"a", "b", "c", "d"}
	type qs struct {
		parent   string
		isParent bool
	}
	quotas := map[string]qs{}
	pods := map[string]string{} // pod -> label
	last := map[string]c01pOp{} // pod -> its last podSet
	bound := map[string]bool{}
	vec := func(max int64) map[string]int64 {
		return map[string]int64{"cpu": rng.Int63n(max + 1), "memory": rng.Int63n(max + 1)}
	}
	hasKids := func(n string) bool {
		for _, q := range quotas {
			if q.parent == n {
				return true
			}
		}
		return false
	}
	var out []c01pOp
	for len(out) < n {
		k := rng.Intn(20)
		switch {
		case k < 3:
			name := names[rng.Intn(len(names))]
			old, live := quotas[name]
			if live && rng.Intn(3) == 0 && !hasKids(name) {
				delete(quotas, name)
				out = append(out, c01pOp{Op: "quotaDelete", Name: name})
				continue
			}
			o := c01pOp{Op: "quota", Name: name, Parent: extension.RootQuotaName, IsParent: false, Lent: rng.Intn(2) == 0, Max: vec(12)}
			o.Min = map[string]int64{"cpu": rng.Int63n(o.Max["cpu"] + 1), "memory": rng.Int63n(o.Max["memory"] + 1)}
			if live {
				o.Parent, o.IsParent = old.parent, old.isParent
			}
			quotas[name] = qs{parent: o.Parent, isParent: o.IsParent}
			out = append(out, o)
		case k == 3:
			out = append(out, c01pOp{Op: "node", Delta: c03Milli(rng, vec(6))})
		case k < 7:
			out = append(out, c01pOp{Op: "migrateCycle"})
		default:
			id := fmt.Sprintf("p%d", rng.Intn(7))
			label, known := pods[id]
			switch {
			case !known || rng.Intn(3) == 0:
				if !known || rng.Intn(4) == 0 {
					label = names[rng.Intn(len(names))] // the group may not exist (yet)
				}
				b := bound[id] || rng.Intn(4) == 0
				bound[id] = b
				pods[id] = label
				o := c01pOp{Op: "podSet", Pod: id, Label: label, Req: vec(5), Np: rng.Intn(5) == 0, Bound: b}
				if l, had := last[id]; had && known && l.Label == label {
					switch rng.Intn(5) {
					case 0: // only the preemptible label flips
						o.Req, o.Np = l.Req, !l.Np
					case 1: // the pod finishes; it keeps counting until it is deleted
						o.Req, o.Np, o.Bound, o.Term = l.Req, l.Np, false, true
					}
				}
				last[id] = o
				out = append(out, o)
			case rng.Intn(4) == 0:
				delete(pods, id)
				delete(bound, id)
				delete(last, id)
				out = append(out, c01pOp{Op: "podDelete", Pod: id})
			case rng.Intn(2) == 0:
				out = append(out, c01pOp{Op: "reserve", Pod: id})
			default:
				out = append(out, c01pOp{Op: "unreserve", Pod: id})
			}
		}
	}
	out = append(out, c01pOp{Op: "migrateCycle"})
	return out
}

func TestVerifC01Plugin(t *testing.T) {
	if !vu.Enabled() {
		t.Skip("verification harness: VERIF_OUT not set")
	}
	setLoglevel("0")
	rec := vu.NewRecorder("")
	defer rec.Close()
	if vu.ReplayPath() != "" {
		for _, raw := range vu.ReadScripts(vu.ReplayPath()) {
			var script []c01pOp
			if err := json.Unmarshal(raw, &script); err != nil {
				t.Fatal(err)
			}
			c01pRun(t, rec, script)
		}
		return
	}
	n, length := 100, 45
	if vu.Thorough() {
		n, length = 1000, 70
	}
	rng := vu.Rand(101)
	for i := 0; i < n; i++ {
		c01pRun(t, rec, c01pRandom(rng, length))
	}
	_ = sort.Strings
	t.Logf("C01 plugin: %d segments, %d events", rec.Segments(), rec.Events())
}
