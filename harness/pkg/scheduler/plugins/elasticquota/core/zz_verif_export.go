//go:build verif

package core

// Verification-only accessor (compiled only under -tags verif through the harness overlay; this
// file does not exist in /repo): projection of one runtime-calculator level for the C03 harness,
// which lives in the parent package and cannot read the unexported calculator fields.

import (
	"sort"

	corev1 "k8s.io/api/core/v1"
)

func VerifLevel(gqm *GroupQuotaManager, name, parent string, dims []string) map[string]interface{} {
	gqm.hierarchyUpdateLock.RLock()
	defer gqm.hierarchyUpdateLock.RUnlock()
	calc := gqm.runtimeQuotaCalculatorMap[parent]
	total := map[string]int64{}
	sibs := map[string][]map[string]interface{}{}
	if calc != nil {
		calc.lock.Lock()
		defer calc.lock.Unlock()
	}
	for _, d := range dims {
		rn := corev1.ResourceName(d)
		if d == "gpu" {
			rn = "nvidia.com/gpu"
		}
		list := []map[string]interface{}{}
		if calc != nil {
			tq := calc.totalResource[rn]
			total[d] = getQuantityValue(tq, rn)
			if tree, ok := calc.quotaTree[rn]; ok {
				names := make([]string, 0, len(tree.quotaNodes))
				for n := range tree.quotaNodes {
					names = append(names, n)
				}
				sort.Strings(names)
				for _, n := range names {
					nd := tree.quotaNodes[n]
					list = append(list, map[string]interface{}{"name": n, "req": nd.request, "min": nd.min, "guar": nd.guarantee,
						"w": nd.sharedWeight, "lent": nd.allowLentResource, "rt": nd.runtimeQuota})
				}
			}
		}
		sibs[d] = list
	}
	return map[string]interface{}{"name": name, "parent": parent, "total": total, "sibs": sibs}
}
