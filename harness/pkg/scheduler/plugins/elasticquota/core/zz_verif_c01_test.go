package core

// Verification harness for C01 (injected by `go test -overlay`, see /verif/DESIGN.md).
// Executor + recorder: replays operation scripts on the real GroupQuotaManager and logs, after every
// operation, the projection of GetQuotaSummaries(true). No oracle here; TLC computes the expected figures.

import (
	"encoding/json"
	"fmt"
	"math/rand"
	"sort"
	"strings"
	"sync"
	"testing"
	"time"

	corev1 "k8s.io/api/core/v1"
	"k8s.io/apimachinery/pkg/api/resource"
	metav1 "k8s.io/apimachinery/pkg/apis/meta/v1"
	"k8s.io/apimachinery/pkg/types"

	"github.com/koordinator-sh/koordinator/apis/extension"
	"github.com/koordinator-sh/koordinator/apis/thirdparty/scheduler-plugins/pkg/apis/scheduling/v1alpha1"
	vu "github.com/koordinator-sh/koordinator/pkg/verifutil"
)

type c01Op struct {
	Op       string           `json:"op"`
	Name     string           `json:"name,omitempty"`
	Parent   string           `json:"parent,omitempty"`
	IsParent bool             `json:"isParent,omitempty"`
	Lent     bool             `json:"lent,omitempty"`
	Min      map[string]int64 `json:"min,omitempty"`
	Max      map[string]int64 `json:"max,omitempty"`
	Pod      string           `json:"pod,omitempty"`
	Q        string           `json:"q,omitempty"`
	Req      map[string]int64 `json:"req,omitempty"`
	Np       bool             `json:"np,omitempty"`
	Bound    bool             `json:"bound,omitempty"`
	Term     bool             `json:"term,omitempty"` // the object carries a node name but the pod has finished (Succeeded / Failed): it is not "bound" in the spec's sense
	In       string           `json:"in,omitempty"`
	Delta    map[string]int64 `json:"delta,omitempty"`
	Variant  int              `json:"variant,omitempty"`
	Weight   map[string]int64 `json:"weight,omitempty"`
	NoObs    bool             `json:"-"`
	Scale    bool             `json:"scale,omitempty"`
	Ops      []c01Op          `json:"ops,omitempty"`
	Lane     int              `json:"lane,omitempty"` // par: sub-operations of one lane (> 0) run in order on one goroutine; lane 0 = a goroutine of its own
}

var c01Dims = []string{"cpu", "memory"}

func c01RL(m map[string]int64) corev1.ResourceList {
	rl := corev1.ResourceList{}
	for _, d := range c01Dims {
		rl[corev1.ResourceName(d)] = *resource.NewQuantity(m[d], resource.DecimalSI)
	}
	return rl
}

// node capacity: the cpu amount of a "node" op is in MILLI-cores (the cluster total may change by a fraction of a core)
func c01NodeRL(m map[string]int64) corev1.ResourceList {
	rl := c01RL(m)
	rl[corev1.ResourceCPU] = *resource.NewMilliQuantity(m["cpu"], resource.DecimalSI)
	return rl
}

// c01Milli turns a whole-core node vector into the "node" op's units, often with a fraction of a core on top
func c01Milli(rng *rand.Rand, m map[string]int64) map[string]int64 {
	m["cpu"] *= 1000
	if rng.Intn(2) == 0 {
		m["cpu"] += int64(rng.Intn(1000))
	}
	return m
}

func c01Vec(rl corev1.ResourceList) map[string]int64 {
	m := map[string]int64{}
	for _, d := range c01Dims {
		q := rl[corev1.ResourceName(d)]
		m[d] = q.Value()
	}
	return m
}

func c01Quota(o c01Op) *v1alpha1.ElasticQuota {
	q := &v1alpha1.ElasticQuota{
		ObjectMeta: metav1.ObjectMeta{Name: o.Name, Annotations: map[string]string{}, Labels: map[string]string{}},
		Spec:       v1alpha1.ElasticQuotaSpec{Max: c01RL(o.Max), Min: c01RL(o.Min)},
	}
	q.Labels[extension.LabelQuotaParent] = o.Parent
	if o.Weight != nil {
		b, _ := json.Marshal(c01RL(o.Weight))
		q.Annotations[extension.AnnotationSharedWeight] = string(b)
	}
	q.Labels[extension.LabelAllowLentResource] = map[bool]string{true: "true", false: "false"}[o.Lent]
	q.Labels[extension.LabelQuotaIsParent] = map[bool]string{true: "true", false: "false"}[o.IsParent]
	return q
}

func c01Pod(id, quota string, req map[string]int64, np, bound bool, term ...bool) *corev1.Pod {
	p := &corev1.Pod{
		ObjectMeta: metav1.ObjectMeta{Name: id, Namespace: "ns", UID: types.UID(id), Labels: map[string]string{extension.LabelQuotaName: quota}},
		Spec:       corev1.PodSpec{Containers: []corev1.Container{{Name: "c", Resources: corev1.ResourceRequirements{Requests: c01RL(req)}}}},
	}
	if np {
		p.Labels[extension.LabelPreemptible] = "false"
	}
	if bound {
		p.Spec.NodeName = "n1"
		p.Status.Phase = corev1.PodRunning
		if strings.HasSuffix(id, "1") || strings.HasSuffix(id, "4") {
			// some pods are being deleted gracefully while they run (deletionTimestamp ahead, a finalizer): they hold their
			// resources like any other running pod until the object goes away
			ts := metav1.NewTime(time.Date(2100, 1, 1, 0, 0, 0, 0, time.UTC))
			p.DeletionTimestamp, p.Finalizers = &ts, []string{"verif/keep"}
		}
	}
	if len(term) > 0 && term[0] { // a finished pod: still an object with a node name, counted until it is deleted
		p.Spec.NodeName = "n1"
		p.Status.Phase = []corev1.PodPhase{corev1.PodSucceeded, corev1.PodFailed}[len(id)%2]
	}
	return p
}

// hook plugin used only as a gate at the point where Reserve / Unreserve call the hook plugins. ONE instance is
// installed per manager for its whole life (the manager's hook list is not safe to change while calls are in flight);
// a race op arms it for its pod and disarms it when its Reserve / Unreserve call has returned.
type c01RaceHook struct {
	mu    sync.Mutex
	armed map[string]func() // pod -> what to do at the gate (once)
	fired map[string]bool
}

func (h *c01RaceHook) arm(pod string, fire func()) {
	h.mu.Lock()
	defer h.mu.Unlock()
	h.armed[pod] = fire
	delete(h.fired, pod)
}

// disarm reports whether the gate was reached
func (h *c01RaceHook) disarm(pod string) bool {
	h.mu.Lock()
	defer h.mu.Unlock()
	delete(h.armed, pod)
	f := h.fired[pod]
	delete(h.fired, pod)
	return f
}

func (h *c01RaceHook) GetKey() string { return "verif-race" }
func (h *c01RaceHook) IsQuotaUpdated(oldQuotaInfo, newQuotaInfo *QuotaInfo, newQuota *v1alpha1.ElasticQuota) bool {
	return false
}
func (h *c01RaceHook) PreQuotaUpdate(oldQuotaInfo, newQuotaInfo *QuotaInfo, quota *v1alpha1.ElasticQuota, state *QuotaUpdateState) {
}
func (h *c01RaceHook) PostQuotaUpdate(oldQuotaInfo, newQuotaInfo *QuotaInfo, quota *v1alpha1.ElasticQuota, state *QuotaUpdateState) {
}
func (h *c01RaceHook) OnPodUpdated(quotaName string, oldPod, newPod *corev1.Pod) {
	p := newPod
	if p == nil {
		p = oldPod
	}
	if p == nil {
		return
	}
	h.mu.Lock()
	fire := h.armed[p.Name]
	if fire != nil {
		delete(h.armed, p.Name)
		h.fired[p.Name] = true
	}
	h.mu.Unlock()
	if fire != nil {
		fire()
	}
}
func (h *c01RaceHook) UpdateQuotaStatus(oldQuota, newQuota *v1alpha1.ElasticQuota) *v1alpha1.ElasticQuota {
	return nil
}
func (h *c01RaceHook) CheckPod(quotaName string, pod *corev1.Pod) error { return nil }

type c01PodRec struct {
	obj   *corev1.Pod
	quota string
}

type c01World struct {
	gqm    *GroupQuotaManager
	quotas map[string]*v1alpha1.ElasticQuota // "API server" objects (environment, not an oracle)
	pods   map[string]*c01PodRec
	mu     sync.Mutex
	noObs  bool // C02/C03 runs: figures are not logged (they are C01's business)
}

func c01NewManager() *GroupQuotaManager {
	big := corev1.ResourceList{
		corev1.ResourceCPU:    *resource.NewQuantity(1<<40, resource.DecimalSI),
		corev1.ResourceMemory: *resource.NewQuantity(1<<40, resource.DecimalSI),
	}
	g := NewGroupQuotaManager("", false, big, big)
	g.hookPlugins = append(g.hookPlugins, &c01RaceHook{armed: map[string]func(){}, fired: map[string]bool{}})
	return g
}

func c01HookOf(g *GroupQuotaManager) *c01RaceHook {
	for _, h := range g.hookPlugins {
		if r, ok := h.(*c01RaceHook); ok {
			return r
		}
	}
	panic("c01: race hook not installed")
}

// projection of the manager's reported figures onto the spec's derived operators
func c01Obs(gqm *GroupQuotaManager) map[string]interface{} {
	out := map[string]interface{}{}
	for name, s := range gqm.GetQuotaSummaries(true) {
		if name == extension.SystemQuotaName || name == extension.DefaultQuotaName {
			continue
		}
		pods := map[string]bool{}
		for k, pi := range s.PodCache {
			pods[strings.TrimPrefix(k, "ns/")] = pi.IsAssigned
		}
		out[name] = vu.Ev{
			"fig": vu.Ev{
				"used": c01Vec(s.Used), "request": c01Vec(s.Request), "childRequest": c01Vec(s.ChildRequest),
				"selfUsed": c01Vec(s.SelfUsed), "selfRequest": c01Vec(s.SelfRequest),
				"npUsed": c01Vec(s.NonPreemptibleUsed), "npRequest": c01Vec(s.NonPreemptibleRequest),
				"selfNpUsed": c01Vec(s.SelfNonPreemptibleUsed), "selfNpRequest": c01Vec(s.SelfNonPreemptibleRequest),
			},
			"pods": pods,
		}
	}
	// the root group is not reported by the summaries (an abstract entity) but its totals are maintained by the same
	// delta propagation: read in-package
	if root := gqm.getQuotaInfoByNameNoLock(extension.RootQuotaName); root != nil {
		root.lock.Lock()
		out[extension.RootQuotaName] = vu.Ev{"root": vu.Ev{
			"used": c01Vec(root.CalculateInfo.Used), "request": c01Vec(root.CalculateInfo.Request),
			"npUsed": c01Vec(root.CalculateInfo.NonPreemptibleUsed), "npRequest": c01Vec(root.CalculateInfo.NonPreemptibleRequest)}}
		root.lock.Unlock()
	}
	return out
}

func (w *c01World) apply(o c01Op) {
	switch o.Op {
	case "quota":
		q := c01Quota(o)
		w.mu.Lock()
		w.quotas[o.Name] = q
		w.mu.Unlock()
		if err := w.gqm.UpdateQuota(q); err != nil {
			panic(err)
		}
	case "quotaDelete":
		w.mu.Lock()
		q := w.quotas[o.Name]
		delete(w.quotas, o.Name)
		for id, pr := range w.pods {
			if pr.quota == o.Name {
				delete(w.pods, id)
			}
		}
		w.mu.Unlock()
		if q != nil {
			w.gqm.DeleteQuota(q)
		}
	case "podAdd":
		p := c01Pod(o.Pod, o.Q, o.Req, o.Np, o.Bound, o.Term)
		w.mu.Lock()
		w.pods[o.Pod] = &c01PodRec{obj: p, quota: o.Q}
		w.mu.Unlock()
		w.gqm.OnPodAdd(o.Q, p)
	case "podUpdate":
		w.mu.Lock()
		old := w.pods[o.Pod]
		np := c01Pod(o.Pod, o.Q, o.Req, o.Np, o.Bound, o.Term)
		w.pods[o.Pod] = &c01PodRec{obj: np, quota: o.Q}
		w.mu.Unlock()
		w.gqm.OnPodUpdate(o.Q, old.quota, np, old.obj)
	case "podDelete":
		w.mu.Lock()
		old := w.pods[o.Pod]
		delete(w.pods, o.Pod)
		w.mu.Unlock()
		w.gqm.OnPodDelete(old.quota, old.obj)
	case "reserve":
		w.mu.Lock()
		old := w.pods[o.Pod]
		w.mu.Unlock()
		w.gqm.ReservePod(old.quota, old.obj)
	case "unreserve":
		w.mu.Lock()
		old := w.pods[o.Pod]
		w.mu.Unlock()
		w.gqm.UnreservePod(old.quota, old.obj)
	case "migrate":
		w.mu.Lock()
		old := w.pods[o.Pod]
		out := old.quota
		old.quota = o.In
		w.mu.Unlock()
		w.gqm.MigratePod(old.obj, out, o.In)
	case "raceDelete":
		// Reserve / Unreserve of a pod racing the informer's DELETE of the SAME pod: the delete is attempted from
		// another goroutine at the point inside Reserve/Unreserve where the hook plugins are called (after the assigned
		// flag was flipped, before used is updated). Whatever the outcome of the race, both calls complete and the pod is gone.
		w.mu.Lock()
		old := w.pods[o.Pod]
		delete(w.pods, o.Pod)
		w.mu.Unlock()
		done := make(chan struct{})
		hook := c01HookOf(w.gqm)
		hook.arm(o.Pod, func() {
			go func() {
				w.gqm.OnPodDelete(old.quota, old.obj)
				close(done)
			}()
			select {
			case <-done:
			case <-time.After(40 * time.Millisecond): // the delete is (correctly) excluded until the call returns
			}
		})
		if o.Variant%2 == 0 {
			w.gqm.ReservePod(old.quota, old.obj)
		} else {
			w.gqm.UnreservePod(old.quota, old.obj)
		}
		if !hook.disarm(o.Pod) {
			// the call was a no-op (already / not assigned): deliver the delete normally
			w.gqm.OnPodDelete(old.quota, old.obj)
		} else {
			<-done
		}
	case "resetAll":
		w.gqm.ResetQuota()
	case "node":
		w.gqm.UpdateClusterTotalResource(c01NodeRL(o.Delta))
	default:
		panic("unknown op " + o.Op)
	}
}

// a fresh manager fed only the final objects (quotas, pods; bound <=> currently assigned)
func (w *c01World) fresh(variant int) *GroupQuotaManager {
	g := c01NewManager()
	names := make([]string, 0, len(w.quotas))
	for n := range w.quotas {
		names = append(names, n)
	}
	sort.Strings(names)
	if variant%2 == 0 {
		// bulk path (as ReplaceQuotas does): load all quota infos, then rebuild the tree
		for _, n := range names {
			g.UpdateQuotaInfo(w.quotas[n])
		}
		g.ResetQuota()
	} else {
		// informer path: quota add events, parents before children
		done := map[string]bool{extension.RootQuotaName: true}
		for len(done) <= len(names) {
			progressed := false
			for _, n := range names {
				if !done[n] && done[w.quotas[n].Labels[extension.LabelQuotaParent]] {
					g.UpdateQuota(w.quotas[n])
					done[n] = true
					progressed = true
				}
			}
			if !progressed {
				break
			}
		}
	}
	assigned := map[string]bool{}
	for _, s := range w.gqm.GetQuotaSummaries(true) {
		for k, pi := range s.PodCache {
			assigned[strings.TrimPrefix(k, "ns/")] = pi.IsAssigned
		}
	}
	ids := make([]string, 0, len(w.pods))
	for id := range w.pods {
		ids = append(ids, id)
	}
	sort.Strings(ids)
	for _, id := range ids {
		pr := w.pods[id]
		p := pr.obj.DeepCopy()
		p.Labels[extension.LabelQuotaName] = pr.quota
		if assigned[id] {
			p.Spec.NodeName = "n1"
			p.Status.Phase = corev1.PodRunning
		} else {
			p.Spec.NodeName = ""
		}
		g.OnPodAdd(pr.quota, p)
	}
	return g
}

// restart: a fresh manager rebuilt ONLY through the informer paths from the surviving objects. Pods arrive in a
// variant-dependent order, some of them twice (duplicate add) and some followed by an update carrying the same
// allocation; a pod is assigned afterwards iff its object carries a node name (OnPodAdd fail-over branch).
func (w *c01World) restart(variant int) *GroupQuotaManager {
	g := c01NewManager()
	names := make([]string, 0, len(w.quotas))
	for n := range w.quotas {
		names = append(names, n)
	}
	sort.Strings(names)
	if variant%2 == 0 {
		for _, n := range names {
			g.UpdateQuotaInfo(w.quotas[n])
		}
		g.ResetQuota()
	} else {
		done := map[string]bool{extension.RootQuotaName: true}
		for len(done) <= len(names) {
			progressed := false
			for _, n := range names {
				if !done[n] && done[w.quotas[n].Labels[extension.LabelQuotaParent]] {
					g.UpdateQuota(w.quotas[n])
					done[n] = true
					progressed = true
				}
			}
			if !progressed {
				break
			}
		}
	}
	ids := make([]string, 0, len(w.pods))
	for id := range w.pods {
		ids = append(ids, id)
	}
	sort.Strings(ids)
	rng := rand.New(rand.NewSource(int64(variant)*7919 + int64(len(ids))))
	rng.Shuffle(len(ids), func(i, j int) { ids[i], ids[j] = ids[j], ids[i] })
	for _, id := range ids {
		pr := w.pods[id]
		p := pr.obj.DeepCopy()
		p.Labels[extension.LabelQuotaName] = pr.quota
		g.OnPodAdd(pr.quota, p)
		switch rng.Intn(3) {
		case 0:
			g.OnPodAdd(pr.quota, p.DeepCopy()) // duplicate add
		case 1:
			g.OnPodUpdate(pr.quota, pr.quota, p.DeepCopy(), p) // update carrying the same allocation
		}
		pr.obj = p
	}
	return g
}

func c01V(m map[string]int64) map[string]int64 {
	out := map[string]int64{}
	for _, d := range c01Dims {
		out[d] = m[d]
	}
	return out
}

// the event echoes the operation with every argument written out (a trace is also a script)
func c01Event(o c01Op) vu.Ev {
	ev := vu.Ev{"op": o.Op}
	switch o.Op {
	case "quota":
		ev["name"], ev["parent"], ev["isParent"], ev["lent"], ev["min"], ev["max"] = o.Name, o.Parent, o.IsParent, o.Lent, c01V(o.Min), c01V(o.Max)
		if o.Weight != nil {
			ev["weight"] = c01V(o.Weight)
		}
	case "refresh":
		ev["name"] = o.Name
	case "quotaDelete":
		ev["name"] = o.Name
	case "podAdd", "podUpdate":
		ev["pod"], ev["q"], ev["req"], ev["np"], ev["bound"] = o.Pod, o.Q, c01V(o.Req), o.Np, o.Bound
		if o.Term {
			ev["term"] = true
		}
	case "podDelete", "reserve", "unreserve":
		ev["pod"] = o.Pod
	case "raceDelete":
		ev["pod"], ev["variant"] = o.Pod, o.Variant
	case "migrate":
		ev["pod"], ev["in"] = o.Pod, o.In
	case "node":
		ev["delta"] = c01V(o.Delta)
	case "rebuild", "restart":
		ev["variant"] = o.Variant
	case "par":
		subs := []vu.Ev{}
		for _, s := range o.Ops {
			se := c01Event(s)
			if s.Lane != 0 {
				se["lane"] = s.Lane
			}
			subs = append(subs, se)
		}
		ev["ops"] = subs
	}
	return ev
}

func c01Run(rec *vu.Recorder, script []c01Op) { c01RunOpt(rec, script, false) }

func c01RunOpt(rec *vu.Recorder, script []c01Op, noObs bool) {
	w := &c01World{gqm: c01NewManager(), quotas: map[string]*v1alpha1.ElasticQuota{}, pods: map[string]*c01PodRec{}, noObs: noObs}
	scale := len(script) > 0 && script[0].Op == "reset" && script[0].Scale
	if scale {
		w.gqm.setScaleMinQuotaEnabled(true)
	}
	rec.Reset(vu.Ev{"scale": scale})
	for _, o := range script {
		if o.Op == "reset" {
			continue
		}
		ev := c01Event(o)
		switch o.Op {
		case "restart":
			// C19: the live manager is dropped; a fresh one is fed only the persisted objects
			w.gqm = w.restart(o.Variant)
			ev["variant"] = o.Variant
			ev["obs"] = c01Obs(w.gqm)
		case "refresh":
			c02Refresh(w.gqm, o.Name, ev)
		case "rebuild":
			ev["obs"] = c01Obs(w.fresh(o.Variant))
		case "par":
			var wg sync.WaitGroup
			lanes := map[int][]c01Op{}
			var order []int
			for _, sub := range o.Ops {
				if sub.Lane == 0 {
					wg.Add(1)
					go func(s c01Op) {
						defer wg.Done()
						w.apply(s)
					}(sub)
					continue
				}
				if _, seen := lanes[sub.Lane]; !seen {
					order = append(order, sub.Lane)
				}
				lanes[sub.Lane] = append(lanes[sub.Lane], sub)
			}
			start := make(chan struct{})
			for _, l := range order {
				wg.Add(1)
				go func(ops []c01Op) {
					defer wg.Done()
					<-start
					for _, s := range ops {
						w.apply(s)
					}
				}(lanes[l])
			}
			close(start)
			wg.Wait()
			ev["obs"] = c01Obs(w.gqm)
		default:
			w.apply(o)
			if !w.noObs {
				ev["obs"] = c01Obs(w.gqm)
			}
		}
		rec.Emit(ev)
	}
}

// ---- seeded random driver (larger magnitudes, two dimensions, non-preemptible pods, concurrency) ----
type c01Gen struct {
	rng    *rand.Rand
	quotas map[string]c01Op
	pods   map[string]string // pod -> quota (shadow only steers generation)
	last   map[string]c01Op  // pod -> its last podAdd / podUpdate
	nq, np int
	big    bool
	races  int // how many same-pod reserve/unreserve-vs-delete races may still be generated (each costs ~40 ms)
}

func (g *c01Gen) vec(max int64) map[string]int64 {
	return map[string]int64{"cpu": g.rng.Int63n(max + 1), "memory": g.rng.Int63n(max + 1)}
}

func (g *c01Gen) isAncestorOrSelf(a, n string) bool {
	for i := 0; i < 50; i++ {
		if n == a {
			return true
		}
		q, ok := g.quotas[n]
		if !ok {
			return false
		}
		n = q.Parent
	}
	return true
}

func (g *c01Gen) hasKids(n string) bool {
	for _, q := range g.quotas {
		if q.Parent == n {
			return true
		}
	}
	return false
}

func (g *c01Gen) hasPods(n string) bool {
	for _, q := range g.pods {
		if q == n {
			return true
		}
	}
	return false
}

func (g *c01Gen) sortedQuotas() []string {
	s := make([]string, 0, len(g.quotas))
	for n := range g.quotas {
		s = append(s, n)
	}
	sort.Strings(s)
	return s
}

func (g *c01Gen) sortedPods() []string {
	s := make([]string, 0, len(g.pods))
	for n := range g.pods {
		s = append(s, n)
	}
	sort.Strings(s)
	return s
}

func (g *c01Gen) podOp(forPod string) (c01Op, bool) {
	o, ok := g.podOp0(forPod)
	if g.last == nil {
		g.last = map[string]c01Op{}
	}
	switch {
	case ok && (o.Op == "podAdd" || o.Op == "podUpdate"):
		g.last[forPod] = o
	case ok && o.Op == "migrate":
		if l, has := g.last[forPod]; has {
			l.Q = o.In
			g.last[forPod] = l
		}
	case ok && (o.Op == "podDelete" || o.Op == "raceDelete"):
		delete(g.last, forPod)
	}
	return o, ok
}

func (g *c01Gen) podOp0(forPod string) (c01Op, bool) {
	scale := int64(8)
	if g.big {
		scale = 1000000
	}
	qs := g.sortedQuotas()
	if len(qs) == 0 {
		return c01Op{}, false
	}
	q := qs[g.rng.Intn(len(qs))]
	if _, ok := g.pods[forPod]; !ok {
		g.pods[forPod] = q
		return c01Op{Op: "podAdd", Pod: forPod, Q: q, Req: g.vec(scale), Np: g.rng.Intn(4) == 0, Bound: g.rng.Intn(3) == 0}, true
	}
	switch g.rng.Intn(7) {
	case 0:
		delete(g.pods, forPod)
		if g.races > 0 && g.rng.Intn(3) == 0 {
			g.races--
			return c01Op{Op: "raceDelete", Pod: forPod, Variant: g.rng.Intn(2)}, true
		}
		return c01Op{Op: "podDelete", Pod: forPod}, true
	case 1:
		return c01Op{Op: "reserve", Pod: forPod}, true
	case 2:
		return c01Op{Op: "unreserve", Pod: forPod}, true
	case 3:
		if q == g.pods[forPod] {
			return c01Op{Op: "reserve", Pod: forPod}, true
		}
		g.pods[forPod] = q
		return c01Op{Op: "migrate", Pod: forPod, In: q}, true
	case 4:
		// quota label change
		g.pods[forPod] = q
		return c01Op{Op: "podUpdate", Pod: forPod, Q: q, Req: g.vec(scale), Np: g.rng.Intn(4) == 0, Bound: g.rng.Intn(3) == 0}, true
	default:
		if l, ok := g.last[forPod]; ok && l.Q == g.pods[forPod] {
			switch g.rng.Intn(6) {
			case 0: // only the preemptible label flips, same request
				return c01Op{Op: "podUpdate", Pod: forPod, Q: l.Q, Req: l.Req, Np: !l.Np, Bound: l.Bound}, true
			case 1: // the pod finishes (Succeeded / Failed): it keeps counting until it is deleted
				return c01Op{Op: "podUpdate", Pod: forPod, Q: l.Q, Req: l.Req, Np: l.Np, Term: true}, true
			}
		}
		return c01Op{Op: "podUpdate", Pod: forPod, Q: g.pods[forPod], Req: g.vec(scale), Np: g.rng.Intn(4) == 0, Bound: g.rng.Intn(3) == 0}, true
	}
}

func (g *c01Gen) quotaOp() (c01Op, bool) {
	scale := int64(10)
	if g.big {
		scale = 2000000
	}
	name := string(rune('a' + g.rng.Intn(g.nq)))
	old, live := g.quotas[name]
	if live && g.rng.Intn(6) == 0 && !g.hasKids(name) {
		delete(g.quotas, name)
		for p, q := range g.pods {
			if q == name {
				delete(g.pods, p)
			}
		}
		return c01Op{Op: "quotaDelete", Name: name}, true
	}
	parent := extension.RootQuotaName
	var cands []string
	for _, n := range g.sortedQuotas() {
		if g.quotas[n].IsParent && !g.isAncestorOrSelf(name, n) {
			cands = append(cands, n)
		}
	}
	if live && g.rng.Intn(2) == 0 {
		parent = old.Parent // keep the parent: exercises the min/max/lent paths
	} else if len(cands) > 0 && g.rng.Intn(3) > 0 {
		parent = cands[g.rng.Intn(len(cands))]
	}
	o := c01Op{Op: "quota", Name: name, Parent: parent, IsParent: g.rng.Intn(2) == 0, Lent: g.rng.Intn(2) == 0,
		Max: g.vec(scale), Min: map[string]int64{"cpu": 0, "memory": 0}}
	if g.rng.Intn(2) == 0 {
		o.Min = map[string]int64{"cpu": g.rng.Int63n(o.Max["cpu"] + 1), "memory": g.rng.Int63n(o.Max["memory"] + 1)}
	}
	if live {
		if g.hasKids(name) {
			o.IsParent = true
		} else if g.hasPods(name) && !old.IsParent {
			o.IsParent = false
		}
	}
	g.quotas[name] = o
	return o, true
}

func c01Random(rng *rand.Rand, n int, big bool, conc bool) []c01Op {
	g := &c01Gen{rng: rng, quotas: map[string]c01Op{}, pods: map[string]string{}, nq: 5, np: 8, big: big, races: 2}
	var out []c01Op
	for len(out) < n {
		k := rng.Intn(20)
		switch {
		case len(g.quotas) == 0 || k < 5:
			if o, ok := g.quotaOp(); ok {
				out = append(out, o)
			}
		case k == 5:
			out = append(out, c01Op{Op: "resetAll"})
		case k == 6:
			out = append(out, c01Op{Op: "rebuild", Variant: rng.Intn(2)})
		case k == 7:
			out = append(out, c01Op{Op: "node", Delta: c01Milli(g.rng, g.vec(100))})
		case conc && k < 11:
			// concurrent batch: pod operations on distinct pods issued from separate goroutines
			var ops []c01Op
			perm := rng.Perm(g.np)
			for _, pi := range perm[:2+rng.Intn(g.np-2)] {
				if o, ok := g.podOp("p" + string(rune('0'+pi))); ok {
					ops = append(ops, o)
				}
			}
			if len(ops) > 0 {
				out = append(out, c01Op{Op: "par", Ops: ops})
			}
		default:
			if o, ok := g.podOp("p" + string(rune('0'+rng.Intn(g.np)))); ok {
				out = append(out, o)
			}
		}
	}
	return out
}

func TestVerifC01(t *testing.T) {
	if !vu.Enabled() {
		t.Skip("verification harness: VERIF_OUT not set")
	}
	rec := vu.NewRecorder("")
	defer rec.Close()
	path := vu.ScriptPath()
	if vu.ReplayPath() != "" {
		path = vu.ReplayPath()
	}
	for _, raw := range vu.ReadScripts(path) {
		var script []c01Op
		if err := json.Unmarshal(raw, &script); err != nil {
			t.Fatal(err)
		}
		c01Run(rec, script)
	}
	if vu.ReplayPath() != "" {
		return
	}
	n, length := 150, 40
	if vu.Thorough() {
		n, length = 1500, 80
	}
	rng := vu.Rand(1)
	for i := 0; i < n; i++ {
		c01Run(rec, c01Random(rng, length, i%2 == 1, i%3 == 2))
	}
	// storms: one goroutine per top-level group runs a whole pod life (add, reserve, resize, unreserve, reserve, delete,
	// several pods) on the pods of its own group, all groups at once; the groups share only the root
	nstorm := 25
	if vu.Thorough() {
		nstorm = 300
	}
	for i := 0; i < nstorm; i++ {
		c01Run(rec, c01Storm(rng))
	}
	t.Logf("C01: %d segments, %d events", rec.Segments(), rec.Events())
}

func c01Storm(rng *rand.Rand) []c01Op {
	var out []c01Op
	groups := []string{"a", "b", "c", "d", "e", "f", "g", "h"}[:4+rng.Intn(5)]
	for _, g := range groups {
		mx := map[string]int64{"cpu": 50 + rng.Int63n(50), "memory": 50 + rng.Int63n(50)}
		out = append(out, c01Op{Op: "quota", Name: g, Parent: extension.RootQuotaName, Lent: rng.Intn(2) == 0,
			Min: map[string]int64{"cpu": rng.Int63n(20), "memory": rng.Int63n(20)}, Max: mx})
	}
	vec := func() map[string]int64 {
		return map[string]int64{"cpu": 1 + rng.Int63n(9), "memory": 1 + rng.Int63n(9)}
	}
	for round := 0; round < 3; round++ {
		par := c01Op{Op: "par"}
		for li, g := range groups {
			for k := 0; k < 3; k++ {
				pod := fmt.Sprintf("%s%d", g, k)
				np := rng.Intn(4) == 0
				life := []c01Op{
					{Op: "podAdd", Pod: pod, Q: g, Req: vec(), Np: np},
					{Op: "reserve", Pod: pod},
					{Op: "podUpdate", Pod: pod, Q: g, Req: vec(), Np: np},
					{Op: "unreserve", Pod: pod},
					{Op: "reserve", Pod: pod},
					{Op: "podUpdate", Pod: pod, Q: g, Req: vec(), Np: np, Bound: true},
				}
				if round < 2 || rng.Intn(2) == 0 {
					life = append(life, c01Op{Op: "podDelete", Pod: pod})
				}
				for _, o := range life {
					o.Lane = li + 1
					par.Ops = append(par.Ops, o)
				}
			}
		}
		out = append(out, par)
		if round == 1 {
			out = append(out, c01Op{Op: "rebuild", Variant: rng.Intn(2)})
		}
	}
	// pods left over from the last round are deleted one by one
	return out
}

// ---- C19, quota part: allocation histories cut by restarts ----
func c19QuotaScript(rng *rand.Rand, n int) []c01Op {
	g := &c01Gen{rng: rng, quotas: map[string]c01Op{}, pods: map[string]string{}, nq: 5, np: 8, big: rng.Intn(2) == 0}
	bound := map[string]bool{} // once an object carries a node name it keeps it (legal informer histories)
	var out []c01Op
	for len(out) < n {
		k := rng.Intn(20)
		switch {
		case len(g.quotas) == 0 || k < 4:
			if o, ok := g.quotaOp(); ok {
				if o.Op == "quotaDelete" {
					for p, q := range bound {
						_ = q
						if _, alive := g.pods[p]; !alive {
							delete(bound, p)
						}
					}
				}
				out = append(out, o)
			}
		case k < 7:
			out = append(out, c01Op{Op: "restart", Variant: rng.Intn(8)})
		default:
			id := "p" + string(rune('0'+rng.Intn(g.np)))
			if o, ok := g.podOp(id); ok {
				switch o.Op {
				case "podAdd", "podUpdate":
					if bound[id] && !o.Term { // a finished pod keeps its node name but is not "bound" in the spec's sense
						o.Bound = true
					}
					bound[id] = o.Bound || o.Term
				case "podDelete":
					delete(bound, id)
				}
				out = append(out, o)
			}
		}
	}
	out = append(out, c01Op{Op: "restart", Variant: rng.Intn(8)})
	return out
}

func TestVerifC19Quota(t *testing.T) {
	if !vu.Enabled() {
		t.Skip("verification harness: VERIF_OUT not set")
	}
	rec := vu.NewRecorder("")
	defer rec.Close()
	if vu.ReplayPath() != "" {
		for _, raw := range vu.ReadScripts(vu.ReplayPath()) {
			var script []c01Op
			if err := json.Unmarshal(raw, &script); err != nil {
				t.Fatal(err)
			}
			c01Run(rec, script)
		}
		return
	}
	n, length := 150, 40
	if vu.Thorough() {
		n, length = 2000, 70
	}
	rng := vu.Rand(19)
	for i := 0; i < n; i++ {
		c01Run(rec, c19QuotaScript(rng, length))
	}
	t.Logf("C19 quota: %d segments, %d events", rec.Segments(), rec.Events())
}
