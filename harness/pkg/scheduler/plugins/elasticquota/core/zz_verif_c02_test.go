package core

// Verification harness for C02 (injected by `go test -overlay`). Executor + recorder only:
// feeds sibling sets to the real quotaTree.redistribution in several insertion orders and logs the
// runtime quotas; TLC checks the relational predicates of specs/Quota/RuntimeShare.tla.

import (
	"encoding/json"
	"fmt"
	"math/rand"
	"sort"
	"testing"

	corev1 "k8s.io/api/core/v1"

	"github.com/koordinator-sh/koordinator/apis/extension"

	vu "github.com/koordinator-sh/koordinator/pkg/verifutil"
)

type c02Node struct {
	Name string `json:"name"`
	Req  int64  `json:"req"`
	Min  int64  `json:"min"`
	Guar int64  `json:"guar"`
	W    int64  `json:"w"`
	Lent bool   `json:"lent"`
}

func c02RunOnce(nodes []c02Node, total int64, order []int) []int64 {
	qt := NewQuotaTree()
	for _, i := range order {
		n := nodes[i]
		qt.insert(n.Name, n.W, n.Req, n.Min, n.Guar, n.Lent)
	}
	qt.redistribution(total)
	out := make([]int64, len(nodes))
	for i, n := range nodes {
		_, qn := qt.find(n.Name)
		out[i] = qn.runtimeQuota
	}
	return out
}

func c02Case(rec *vu.Recorder, rng *rand.Rand, nodes []c02Node, total int64) {
	rec.Reset(vu.Ev{"nodes": nodes, "total": total})
	n := len(nodes)
	var runs [][]int64
	fwd := make([]int, n)
	rev := make([]int, n)
	for i := range fwd {
		fwd[i], rev[i] = i, n-1-i
	}
	runs = append(runs, c02RunOnce(nodes, total, fwd), c02RunOnce(nodes, total, rev))
	// Go map iteration order is randomized per map: repeat with shuffled insertion orders
	for k := 0; k < 3; k++ {
		runs = append(runs, c02RunOnce(nodes, total, rng.Perm(n)))
	}
	rec.Emit(vu.Ev{"op": "share", "runs": runs})
}

// 64-bit-scale inputs (memory in bytes): the exact amounts run through the real code, the log carries them in units of
// c02Unit (floor division, also for negative results) because TLC's integers are 32 bit wide
const c02Unit = int64(1) << 20

func c02Floor(v int64) int64 {
	q := v / c02Unit
	if v%c02Unit != 0 && v < 0 {
		q--
	}
	return q
}

func c02CaseCoarse(rec *vu.Recorder, rng *rand.Rand, nodes []c02Node, total int64) {
	type cn struct {
		Name string `json:"name"`
		Req  int64  `json:"req"`
		Min  int64  `json:"min"`
		Guar int64  `json:"guar"`
		Lent bool   `json:"lent"`
		WPos bool   `json:"wpos"`
	}
	cns := make([]cn, len(nodes))
	for i, n := range nodes {
		cns[i] = cn{Name: n.Name, Req: c02Floor(n.Req), Min: c02Floor(n.Min), Guar: c02Floor(n.Guar), Lent: n.Lent, WPos: n.W > 0}
	}
	exact, _ := json.Marshal(vu.Ev{"nodes": nodes, "total": total}) // as a string: 64-bit values are not for TLC
	rec.Reset(vu.Ev{"nodes": cns, "total": c02Floor(total), "unit": c02Unit, "exact": string(exact)})
	n := len(nodes)
	var runs [][]int64
	orders := [][]int{make([]int, n), make([]int, n), rng.Perm(n), rng.Perm(n)}
	for i := 0; i < n; i++ {
		orders[0][i], orders[1][i] = i, n-1-i
	}
	for _, o := range orders {
		r := c02RunOnce(nodes, total, o)
		for i := range r {
			r[i] = c02Floor(r[i])
		}
		runs = append(runs, r)
	}
	rec.Emit(vu.Ev{"op": "shareCoarse", "runs": runs})
}

func c02Name(i int) string { return fmt.Sprintf("q%02d", i) }

func TestVerifC02(t *testing.T) {
	if !vu.Enabled() {
		t.Skip("verification harness: VERIF_OUT not set")
	}
	rec := vu.NewRecorder("")
	defer rec.Close()
	rng := vu.Rand(2)
	// (a) exhaustive small table: n <= 2 (quick) / sampled n = 3 (thorough) over a tiny value menu
	reqs := []int64{0, 1, 3, 5}
	mins := []int64{0, 2}
	guars := []int64{0, 3}
	ws := []int64{0, 1, 2}
	var menu []c02Node
	for _, r := range reqs {
		for _, m := range mins {
			for _, g := range guars {
				for _, w := range ws {
					for _, l := range []bool{false, true} {
						menu = append(menu, c02Node{Req: r, Min: m, Guar: g, W: w, Lent: l})
					}
				}
			}
		}
	}
	totals := []int64{0, 1, 2, 3, 4, 5, 6, 7, 8, 9}
	stride := 7
	if vu.Thorough() {
		stride = 1
	}
	k := 0
	for _, a := range menu {
		for _, tt := range totals {
			if k++; k%stride == 0 {
				a1 := a
				a1.Name = c02Name(1)
				c02Case(rec, rng, []c02Node{a1}, tt)
			}
		}
	}
	for _, a := range menu {
		for _, b := range menu {
			for _, tt := range totals {
				if k++; k%(stride*5) == 0 {
					a1, b1 := a, b
					a1.Name, b1.Name = c02Name(1), c02Name(2)
					c02Case(rec, rng, []c02Node{a1, b1}, tt)
				}
			}
		}
	}
	// (b) seeded random: up to 8 siblings, values up to 30000 (w*T stays below 2^31 for TLC)
	nrand := 1500
	if vu.Thorough() {
		nrand = 20000
	}
	for c := 0; c < nrand; c++ {
		n := 1 + rng.Intn(8)
		scale := []int64{6, 40, 1000, 30000}[rng.Intn(4)]
		nodes := make([]c02Node, n)
		var sumMin, sumReq int64
		for i := range nodes {
			nd := c02Node{Name: c02Name(i + 1), Req: rng.Int63n(scale + 1), Min: rng.Int63n(scale/2 + 1), W: rng.Int63n(scale + 1), Lent: rng.Intn(2) == 0}
			switch rng.Intn(5) {
			case 0:
				nd.W = 0
			case 1:
				nd.W = 1 + rng.Int63n(3)
			}
			if rng.Intn(4) == 0 {
				nd.Guar = rng.Int63n(scale/2 + 1)
			}
			if rng.Intn(6) == 0 {
				nd.Req = nd.Min // boundary request == min
			}
			nodes[i] = nd
			sumMin += nd.Min
			sumReq += nd.Req
		}
		var total int64
		switch rng.Intn(4) {
		case 0:
			total = rng.Int63n(sumMin + 1) // below the sum of minimums
		case 1:
			total = sumMin + rng.Int63n(sumReq+1)
		case 2:
			total = sumReq + rng.Int63n(scale+1)
		default:
			total = rng.Int63n(scale*int64(n) + 1)
		}
		if total > 30000 {
			total = 30000
		}
		c02Case(rec, rng, nodes, total)
	}
	// (c) 64-bit-scale memory values: weights up to 2^35, amounts up to 2^37 bytes; the products weight * left-over
	// range over 2^57 .. 2^68, across the 2^63 and 2^64 boundaries of the 128-bit arithmetic
	nbig := 600
	if vu.Thorough() {
		nbig = 10000
	}
	pow := func(lo, hi int) int64 {
		return (int64(1) << uint(lo+rng.Intn(hi-lo+1))) + rng.Int63n(int64(1)<<uint(lo))
	}
	for c := 0; c < nbig; c++ {
		n := 2 + rng.Intn(5)
		nodes := make([]c02Node, n)
		var sumMin, sumReq int64
		for i := range nodes {
			nd := c02Node{Name: c02Name(i + 1), Req: pow(28, 36), Min: pow(24, 33), W: pow(30, 35), Lent: rng.Intn(2) == 0}
			switch rng.Intn(6) {
			case 0:
				nd.W = 0
			case 1:
				nd.Min = 0
			case 2:
				nd.Req = nd.Min
			}
			if rng.Intn(5) == 0 {
				nd.Guar = pow(24, 33)
			}
			nodes[i] = nd
			sumMin += nd.Min
			sumReq += nd.Req
		}
		var total int64
		switch rng.Intn(4) {
		case 0:
			total = rng.Int63n(sumMin + 1)
		case 1:
			total = sumMin + pow(27, 33) // a left-over of 2^27 .. 2^34 to share by weight
		case 2:
			total = sumMin + rng.Int63n(sumReq+1)
		default:
			total = sumReq + pow(20, 30)
		}
		c02CaseCoarse(rec, rng, nodes, total)
	}
	t.Logf("C02: %d segments, %d events", rec.Segments(), rec.Events())
}

// ---- multi-level trees: RefreshRuntime on a GroupQuotaManager driven by the C01 executor ----

// c02Refresh calls the real RefreshRuntime(name) and logs, for every level on the path root -> name and every
// dimension, the actual inputs (sibling nodes, total) and outputs (runtime) of the parent's calculator.
func c02Refresh(gqm *GroupQuotaManager, name string, ev vu.Ev) {
	res := gqm.RefreshRuntime(name)
	result := map[string]int64{}
	for _, d := range c01Dims {
		q := res[corev1.ResourceName(d)]
		result[d] = getQuantityValue(q, corev1.ResourceName(d))
	}
	ev["result"] = result
	gqm.hierarchyUpdateLock.RLock()
	defer gqm.hierarchyUpdateLock.RUnlock()
	path := gqm.getCurToAllParentGroupQuotaInfoNoLock(name)
	levels := []vu.Ev{}
	for i := len(path) - 1; i >= 0; i-- {
		qi := path[i]
		if qi.Name == extension.RootQuotaName {
			continue
		}
		calc := gqm.runtimeQuotaCalculatorMap[qi.ParentName]
		calc.lock.Lock()
		total := map[string]int64{}
		sibs := map[string][]vu.Ev{}
		for _, d := range c01Dims {
			rn := corev1.ResourceName(d)
			tq := calc.totalResource[rn]
			total[d] = getQuantityValue(tq, rn)
			list := []vu.Ev{}
			if tree, ok := calc.quotaTree[rn]; ok {
				names := make([]string, 0, len(tree.quotaNodes))
				for n := range tree.quotaNodes {
					names = append(names, n)
				}
				sort.Strings(names)
				for _, n := range names {
					nd := tree.quotaNodes[n]
					list = append(list, vu.Ev{"name": n, "req": nd.request, "min": nd.min, "guar": nd.guarantee, "w": nd.sharedWeight,
						"lent": nd.allowLentResource, "rt": nd.runtimeQuota})
				}
			}
			sibs[d] = list
		}
		calc.lock.Unlock()
		levels = append(levels, vu.Ev{"name": qi.Name, "parent": qi.ParentName, "total": total, "sibs": sibs})
	}
	ev["levels"] = levels
}

func c02TreeScript(rng *rand.Rand, n int) []c01Op {
	g := &c01Gen{rng: rng, quotas: map[string]c01Op{}, pods: map[string]string{}, nq: 6, np: 8, big: false}
	var out []c01Op
	out = append(out, c01Op{Op: "node", Delta: c01Milli(rng, map[string]int64{"cpu": int64(5 + rng.Intn(25)), "memory": int64(5 + rng.Intn(25))})})
	for len(out) < n {
		k := rng.Intn(20)
		switch {
		case len(g.quotas) < 2 || k < 5:
			if o, ok := g.quotaOp(); ok {
				if rng.Intn(2) == 0 {
					o.Weight = map[string]int64{"cpu": int64(rng.Intn(6)), "memory": int64(rng.Intn(6))}
					if o.Weight["cpu"] == 0 && o.Weight["memory"] == 0 {
						o.Weight = nil // an all-zero weight annotation falls back to max in the API helper
					}
				}
				out = append(out, o)
			}
		case k == 5:
			out = append(out, c01Op{Op: "node", Delta: c01Milli(rng, map[string]int64{"cpu": int64(rng.Intn(6)), "memory": int64(rng.Intn(6))})})
		case k == 6:
			out = append(out, c01Op{Op: "resetAll"})
		case k < 12:
			qs := g.sortedQuotas()
			out = append(out, c01Op{Op: "refresh", Name: qs[rng.Intn(len(qs))]})
		default:
			if o, ok := g.podOp("p" + string(rune('0'+rng.Intn(g.np)))); ok {
				out = append(out, o)
			}
		}
	}
	// refresh every group at the end
	for _, q := range g.sortedQuotas() {
		out = append(out, c01Op{Op: "refresh", Name: q})
	}
	return out
}

func TestVerifC02Tree(t *testing.T) {
	if !vu.Enabled() {
		t.Skip("verification harness: VERIF_OUT not set")
	}
	rec := vu.NewRecorder("")
	defer rec.Close()
	if vu.ReplayPath() != "" {
		for _, raw := range vu.ReadScripts(vu.ReplayPath()) {
			var script []c01Op
			if err := json.Unmarshal(raw, &script); err != nil {
				t.Fatal(err)
			}
			c01RunOpt(rec, script, true)
		}
		return
	}
	n, length := 200, 40
	if vu.Thorough() {
		n, length = 2500, 60
	}
	rng := vu.Rand(22)
	for i := 0; i < n; i++ {
		// every other segment with min-quota scaling enabled (the plugin's default)
		script := append([]c01Op{{Op: "reset", Scale: i%2 == 1}}, c02TreeScript(rng, length)...)
		c01RunOpt(rec, script, true)
	}
	t.Logf("C02 tree: %d segments, %d events", rec.Segments(), rec.Events())
}
