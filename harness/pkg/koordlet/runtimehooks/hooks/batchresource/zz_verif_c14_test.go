package batchresource

// Verification harness for C14 (injected by `go test -overlay`). Executor + recorder only.
//
// One segment = one pod and one agent (plugin) instance. The reset event carries the pod (container list with the
// declared batch-cpu request / batch-cpu limit / batch-memory limit, the way the pod is marked, the extended-resource-spec
// annotation it carries BEFORE admission, if any) and the configuration delivered before the first event; the events are
//   admit : the real corev1.Pod goes through the real pod mutating webhook (mutating.PodMutatingHandler.Handle, Create) -
//           that is what writes / rewrites the extended-resource-spec annotation the hook reads the amounts from;
//   node  : a Node object (cpu-normalization-ratio annotation valid / absent / malformed) goes through the real
//           parseRuleForNodeMeta of the segment's plugin;
//   slo   : a NodeSLO goes through the real parseRuleForNodeSLO;
//   conts : ContainerContext of every container built with the real protocol constructors (FromProxy, FromNri or
//           FromReconciler, per event) from the ADMITTED pod, real container-level hook functions, Response.Resources logged;
//   hook  : the same at the pod level (PodContext).
// Expected values are computed only by TLC (specs/BatchCgroup/BatchCgroupTrace.tla).

import (
	"context"
	"encoding/json"
	"fmt"
	"math/rand"
	"sort"
	"testing"

	nriapi "github.com/containerd/nri/pkg/api"
	jsonpatch "github.com/evanphx/json-patch"
	admissionv1 "k8s.io/api/admission/v1"
	corev1 "k8s.io/api/core/v1"
	"k8s.io/apimachinery/pkg/api/resource"
	metav1 "k8s.io/apimachinery/pkg/apis/meta/v1"
	"k8s.io/apimachinery/pkg/runtime"
	"k8s.io/apimachinery/pkg/types"
	clientgoscheme "k8s.io/client-go/kubernetes/scheme"
	"k8s.io/utils/ptr"
	"sigs.k8s.io/controller-runtime/pkg/client/fake"
	"sigs.k8s.io/controller-runtime/pkg/webhook/admission"

	configv1alpha1 "github.com/koordinator-sh/koordinator/apis/config/v1alpha1"
	apiext "github.com/koordinator-sh/koordinator/apis/extension"
	runtimeapi "github.com/koordinator-sh/koordinator/apis/runtime/v1alpha1"
	slov1alpha1 "github.com/koordinator-sh/koordinator/apis/slo/v1alpha1"
	"github.com/koordinator-sh/koordinator/pkg/koordlet/runtimehooks/protocol"
	"github.com/koordinator-sh/koordinator/pkg/koordlet/statesinformer"
	"github.com/koordinator-sh/koordinator/pkg/webhook/pod/mutating"

	vu "github.com/koordinator-sh/koordinator/pkg/verifutil"
)

const c14Absent = int64(-1)

type c14Cont struct {
	Name string `json:"name"`
	Req  int64  `json:"req"` // batch-cpu request, milli-cores; -1 = not declared
	Lim  int64  `json:"lim"` // batch-cpu limit, milli-cores; -1 = not declared
	Mem  int64  `json:"mem"` // batch-memory limit, bytes; -1 = not declared
}

// c14Pre is the extended-resource-spec annotation the pod carries when it reaches the webhook
type c14Pre struct {
	Kind string `json:"kind"` // none | equal | subset | superset-ghost | superset-sidecar | amounts | stale | empty | garbage (a label)
	Raw  string `json:"raw"`  // the annotation value (kind none: no annotation)
}

// c14Ev is one script event: op + arguments (what the executor reads)
type c14Ev struct {
	Op string `json:"op"`
	// reset
	Containers []c14Cont `json:"containers,omitempty"`
	Mark       string    `json:"mark,omitempty"` // label | annotation | ls | none
	Pre        *c14Pre   `json:"pre,omitempty"`
	Cfs        bool      `json:"cfs,omitempty"`     // CFS quota enabled before the first event
	CfsSrc     string    `json:"cfs_src,omitempty"` // how: default (rule never parsed) | policy (NodeSLO cpu suppress policy)
	// reset (ratio delivered before the first event; rnum = 0: annotation absent) and node (kind valid)
	Rnum int64 `json:"rnum,omitempty"`
	Rden int64 `json:"rden,omitempty"`
	// node
	Kind  string `json:"kind,omitempty"`  // valid | none | invalid
	Raw   string `json:"raw,omitempty"`   // kind invalid: the annotation value
	Other bool   `json:"other,omitempty"` // kind none: the node carries other annotations (else a nil map)
	// slo
	Enable bool   `json:"enable,omitempty"`
	Policy string `json:"policy,omitempty"` // cpuset | cfsQuota | "" (strategy absent)
	// conts, hook (and, in segments recorded before the events existed, reset)
	Mode string `json:"mode,omitempty"` // proxy | nri | reconciler
}

type c14Seg struct {
	reset c14Ev
	ops   []c14Ev
}

type c14Runner struct {
	t       *testing.T
	rec     *vu.Recorder
	handler *mutating.PodMutatingHandler
	stats   map[string]int
}

func newC14Runner(t *testing.T, rec *vu.Recorder) *c14Runner {
	// the webhook lists ClusterColocationProfiles (none exist here) before it writes the extended-resource-spec
	sch := runtime.NewScheme()
	_ = clientgoscheme.AddToScheme(sch)
	_ = configv1alpha1.AddToScheme(sch)
	return &c14Runner{t: t, rec: rec, stats: map[string]int{},
		handler: &mutating.PodMutatingHandler{
			Client:  fake.NewClientBuilder().WithScheme(sch).Build(),
			Decoder: admission.NewDecoder(sch),
		}}
}

func c14Pod(c *c14Ev) *corev1.Pod {
	pod := &corev1.Pod{
		TypeMeta:   metav1.TypeMeta{Kind: "Pod", APIVersion: "v1"},
		ObjectMeta: metav1.ObjectMeta{Namespace: "default", Name: "c14-pod", UID: types.UID("c14-uid")},
	}
	switch c.Mark {
	case "label":
		pod.Labels = map[string]string{apiext.LabelPodQoS: string(apiext.QoSBE)}
	case "annotation":
		pod.Annotations = map[string]string{apiext.LabelPodQoS: string(apiext.QoSBE)}
	case "ls":
		pod.Labels = map[string]string{apiext.LabelPodQoS: string(apiext.QoSLS)}
	case "none":
	default:
		panic("c14: unknown mark " + c.Mark)
	}
	if c.Pre != nil && c.Pre.Kind != "none" {
		if pod.Annotations == nil {
			pod.Annotations = map[string]string{}
		}
		pod.Annotations[apiext.AnnotationExtendedResourceSpec] = c.Pre.Raw
	}
	for _, cc := range c.Containers {
		ct := corev1.Container{Name: cc.Name, Image: "busybox"}
		if cc.Req != c14Absent {
			ct.Resources.Requests = corev1.ResourceList{apiext.BatchCPU: *resource.NewQuantity(cc.Req, resource.DecimalSI)}
		}
		if cc.Lim != c14Absent || cc.Mem != c14Absent {
			ct.Resources.Limits = corev1.ResourceList{}
			if cc.Lim != c14Absent {
				ct.Resources.Limits[apiext.BatchCPU] = *resource.NewQuantity(cc.Lim, resource.DecimalSI)
			}
			if cc.Mem != c14Absent {
				ct.Resources.Limits[apiext.BatchMemory] = *resource.NewQuantity(cc.Mem, resource.BinarySI)
			}
		}
		pod.Spec.Containers = append(pod.Spec.Containers, ct)
		// the status list is in another order than the spec list (the kubelet sorts it by its own key; nothing may rely
		// on positions agreeing): here reversed
		pod.Status.ContainerStatuses = append([]corev1.ContainerStatus{{
			Name: cc.Name, ContainerID: "containerd://" + cc.Name + "-id"}}, pod.Status.ContainerStatuses...)
	}
	return pod
}

// admit sends the pod through the real mutating webhook (Create); returns the mutated pod, or nil when it was refused.
func (r *c14Runner) admit(pod *corev1.Pod) (mutated *corev1.Pod, patched bool) {
	raw, err := json.Marshal(pod)
	if err != nil {
		r.t.Fatalf("c14: marshal pod: %v", err)
	}
	req := admission.Request{AdmissionRequest: admissionv1.AdmissionRequest{
		Resource:  metav1.GroupVersionResource{Group: "", Version: "v1", Resource: "pods"},
		Operation: admissionv1.Create,
		Namespace: pod.Namespace,
		Object:    runtime.RawExtension{Raw: raw},
	}}
	resp := r.handler.Handle(context.TODO(), req)
	if !resp.Allowed {
		return nil, false
	}
	out := raw
	if len(resp.Patches) > 0 {
		pb, err := json.Marshal(resp.Patches)
		if err != nil {
			r.t.Fatalf("c14: marshal patches: %v", err)
		}
		patch, err := jsonpatch.DecodePatch(pb)
		if err != nil {
			r.t.Fatalf("c14: decode patches: %v", err)
		}
		if out, err = patch.Apply(raw); err != nil {
			r.t.Fatalf("c14: apply patches: %v", err)
		}
		patched = true
	}
	mutated = &corev1.Pod{}
	if err := json.Unmarshal(out, mutated); err != nil {
		r.t.Fatalf("c14: unmarshal mutated pod: %v", err)
	}
	return mutated, patched
}

// c14Resized is the pod as the cgroup reconciler meets it after an in-place resize: the webhook wrote the
// extended-resource-spec annotation at CREATE and does nothing on UPDATE, so the annotation of a resized pod describes
// amounts the spec no longer declares. The reconciler path works from the pod SPEC (it has the object), so the stale
// annotation must make no difference there; every container named by the annotation gets other amounts in it.
func c14Resized(pod *corev1.Pod) *corev1.Pod {
	raw, ok := pod.Annotations[apiext.AnnotationExtendedResourceSpec]
	if !ok {
		return pod
	}
	var spec apiext.ExtendedResourceSpec
	if err := json.Unmarshal([]byte(raw), &spec); err != nil || len(spec.Containers) == 0 {
		return pod
	}
	stale := corev1.ResourceList{
		apiext.BatchCPU:    *resource.NewQuantity(7000, resource.DecimalSI),
		apiext.BatchMemory: *resource.NewQuantity(7<<30, resource.BinarySI),
	}
	for name := range spec.Containers {
		spec.Containers[name] = apiext.ExtendedResourceContainerSpec{Requests: stale.DeepCopy(), Limits: stale.DeepCopy()}
	}
	b, err := json.Marshal(&spec)
	if err != nil {
		return pod
	}
	out := pod.DeepCopy()
	out.Annotations[apiext.AnnotationExtendedResourceSpec] = string(b)
	return out
}

// c14Decoy: the plugin is a long-lived singleton that serves every pod of the node; before the pod of the segment it has
// already served another BE pod (no annotation, other amounts) on the reconciler path. Nothing of that may stick.
func c14Decoy(p *plugin) {
	big := corev1.ResourceList{
		apiext.BatchCPU:    *resource.NewQuantity(9000, resource.DecimalSI),
		apiext.BatchMemory: *resource.NewQuantity(9<<30, resource.BinarySI),
	}
	decoy := &corev1.Pod{
		ObjectMeta: metav1.ObjectMeta{Name: "decoy", Namespace: "default", UID: "decoy-uid", Labels: map[string]string{apiext.LabelPodQoS: string(apiext.QoSBE)}},
		Spec: corev1.PodSpec{Containers: []corev1.Container{{Name: "d", Resources: corev1.ResourceRequirements{Requests: big.DeepCopy(), Limits: big.DeepCopy()}}}},
	}
	meta := &statesinformer.PodMeta{Pod: decoy, CgroupDir: c14CgroupParent}
	podCtx := &protocol.PodContext{}
	podCtx.FromReconciler(meta)
	_ = p.SetPodCPUShares(podCtx)
	_ = p.SetPodCFSQuota(podCtx)
	_ = p.SetPodMemoryLimit(podCtx)
	cctx := &protocol.ContainerContext{}
	cctx.FromReconciler(meta, "d", false)
	_ = p.SetContainerCPUShares(cctx)
	_ = p.SetContainerCFSQuota(cctx)
	_ = p.SetContainerMemoryLimit(cctx)
}

// c14Plugin builds a fresh plugin and delivers the configuration of the reset event through the real rule parsers.
func c14Plugin(c *c14Ev) *plugin {
	p := newPlugin()
	switch {
	case c.Cfs && c.CfsSrc == "default": // rule never parsed: enabled by default
	case c.Cfs:
		p.parseRuleForNodeSLO(&slov1alpha1.NodeSLOSpec{ResourceUsedThresholdWithBE: &slov1alpha1.ResourceThresholdStrategy{
			Enable: ptr.To(true), CPUSuppressPolicy: slov1alpha1.CPUSetPolicy}})
	default: // disabled: BE cpu suppression works on the cfs quota of the BE tier
		p.parseRuleForNodeSLO(&slov1alpha1.NodeSLOSpec{ResourceUsedThresholdWithBE: &slov1alpha1.ResourceThresholdStrategy{
			Enable: ptr.To(true), CPUSuppressPolicy: slov1alpha1.CPUCfsQuotaPolicy}})
	}
	node := &corev1.Node{ObjectMeta: metav1.ObjectMeta{Name: "c14-node"}}
	if c.Rnum > 0 {
		// only ratios that are exact with two decimals are used (the annotation keeps two)
		apiext.SetCPUNormalizationRatio(node, float64(c.Rnum)/float64(c.Rden))
	}
	if c.Rnum > 0 || c.CfsSrc != "default" {
		if _, err := p.parseRuleForNodeMeta(node); err != nil {
			panic(fmt.Sprintf("c14: parseRuleForNodeMeta: %v", err))
		}
	}
	c14Decoy(p)
	return p
}

func c14Val(p *int64) vu.Ev {
	if p == nil {
		return vu.Ev{"set": false, "v": 0}
	}
	return vu.Ev{"set": true, "v": *p}
}

func c14Res(res *protocol.Resources) vu.Ev {
	return vu.Ev{"shares": c14Val(res.CPUShares), "quota": c14Val(res.CFSQuota), "mem": c14Val(res.MemoryLimit)}
}

const c14CgroupParent = "kubepods.slice/kubepods-besteffort.slice/kubepods-besteffort-podc14.slice"

type c14Errs []string

func (e *c14Errs) note(where string, err error) {
	if err != nil {
		*e = append(*e, where+": "+err.Error())
	}
}

func (e c14Errs) list() []string {
	if e == nil {
		return []string{}
	}
	return e
}

// doNode delivers a Node object to the real rule parser of the plugin.
func (r *c14Runner) doNode(p *plugin, op *c14Ev) {
	node := &corev1.Node{ObjectMeta: metav1.ObjectMeta{Name: "c14-node"}}
	switch op.Kind {
	case "valid":
		apiext.SetCPUNormalizationRatio(node, float64(op.Rnum)/float64(op.Rden))
	case "invalid":
		node.Annotations = map[string]string{apiext.AnnotationCPUNormalizationRatio: op.Raw}
	case "none":
		if op.Other {
			node.Annotations = map[string]string{"c14.verif/other": "x"}
		}
	default:
		panic("c14: unknown node kind " + op.Kind)
	}
	updated, err := p.parseRuleForNodeMeta(node)
	rden := op.Rden
	if rden == 0 {
		rden = 1
	}
	r.rec.Emit(vu.Ev{"op": "node", "kind": op.Kind, "rnum": op.Rnum, "rden": rden, "raw": op.Raw, "other": op.Other,
		"diag": vu.Ev{"updated": updated, "err": err != nil, "annotation": node.Annotations[apiext.AnnotationCPUNormalizationRatio]}})
	r.stats["node="+op.Kind]++
	if err != nil {
		r.stats["node-parse-error"]++
	}
}

// doSLO delivers a NodeSLO to the real rule parser of the plugin.
func (r *c14Runner) doSLO(p *plugin, op *c14Ev) {
	spec := &slov1alpha1.NodeSLOSpec{}
	switch op.Policy {
	case "":
	case "cpuset":
		spec.ResourceUsedThresholdWithBE = &slov1alpha1.ResourceThresholdStrategy{Enable: ptr.To(op.Enable), CPUSuppressPolicy: slov1alpha1.CPUSetPolicy}
	case "cfsQuota":
		spec.ResourceUsedThresholdWithBE = &slov1alpha1.ResourceThresholdStrategy{Enable: ptr.To(op.Enable), CPUSuppressPolicy: slov1alpha1.CPUCfsQuotaPolicy}
	default:
		panic("c14: unknown policy " + op.Policy)
	}
	updated, err := p.parseRuleForNodeSLO(spec)
	r.rec.Emit(vu.Ev{"op": "slo", "enable": op.Enable, "policy": op.Policy, "diag": vu.Ev{"updated": updated, "err": err != nil}})
	r.stats[fmt.Sprintf("slo=%s/%v", op.Policy, op.Enable)]++
}

// doConts runs the container-level hook for every container of the admitted pod.
func (r *c14Runner) doConts(p *plugin, pod *corev1.Pod, cs []c14Cont, mode string) {
	ctxs := make([]*protocol.ContainerContext, len(cs))
	var errs c14Errs
	switch mode {
	case "proxy":
		meta := &runtimeapi.PodSandboxMetadata{Name: pod.Name, Namespace: pod.Namespace, Uid: string(pod.UID)}
		for i, cc := range cs {
			ctxs[i] = &protocol.ContainerContext{}
			ctxs[i].FromProxy(&runtimeapi.ContainerResourceHookRequest{PodMeta: meta,
				ContainerMeta: &runtimeapi.ContainerMetadata{Name: cc.Name, Id: cc.Name + "-id"},
				PodLabels:     pod.Labels, PodAnnotations: pod.Annotations, PodCgroupParent: c14CgroupParent})
			errs.note(cc.Name, p.SetContainerResources(ctxs[i]))
		}
	case "nri":
		sandbox := c14Sandbox(pod)
		for i, cc := range cs {
			ctxs[i] = &protocol.ContainerContext{}
			ctxs[i].FromNri(sandbox, &nriapi.Container{Id: cc.Name + "-id", PodSandboxId: sandbox.Id, Name: cc.Name})
			errs.note(cc.Name, p.SetContainerResources(ctxs[i]))
		}
	case "reconciler":
		// the cgroup reconciler calls the per-file functions one by one
		podMeta := &statesinformer.PodMeta{Pod: c14Resized(pod), CgroupDir: c14CgroupParent}
		for i, cc := range cs {
			ctxs[i] = &protocol.ContainerContext{}
			ctxs[i].FromReconciler(podMeta, cc.Name, false)
			errs.note(cc.Name+" shares", p.SetContainerCPUShares(ctxs[i]))
			errs.note(cc.Name+" quota", p.SetContainerCFSQuota(ctxs[i]))
			errs.note(cc.Name+" mem", p.SetContainerMemoryLimit(ctxs[i]))
		}
	default:
		panic("c14: unknown mode " + mode)
	}
	conts := vu.Ev{}
	for i := range ctxs {
		conts[cs[i].Name] = c14Res(&ctxs[i].Response.Resources)
		if ctxs[i].Response.Resources.CFSQuota != nil {
			r.stats["container-injected"]++
		} else {
			r.stats["container-untouched"]++
		}
	}
	r.rec.Emit(vu.Ev{"op": "conts", "mode": mode, "obs": vu.Ev{"containers": conts}, "errors": errs.list()})
	r.stats["conts mode="+mode]++
}

func c14Sandbox(pod *corev1.Pod) *nriapi.PodSandbox {
	return &nriapi.PodSandbox{Id: "c14-sandbox", Name: pod.Name, Namespace: pod.Namespace, Uid: string(pod.UID),
		Labels: pod.Labels, Annotations: pod.Annotations,
		Linux: &nriapi.LinuxPodSandbox{CgroupParent: c14CgroupParent}}
}

// doHook runs the pod-level hook on the admitted pod.
func (r *c14Runner) doHook(p *plugin, pod *corev1.Pod, mode string) {
	podCtx := &protocol.PodContext{}
	var errs c14Errs
	switch mode {
	case "proxy":
		meta := &runtimeapi.PodSandboxMetadata{Name: pod.Name, Namespace: pod.Namespace, Uid: string(pod.UID)}
		podCtx.FromProxy(&runtimeapi.PodSandboxHookRequest{PodMeta: meta, Labels: pod.Labels, Annotations: pod.Annotations,
			CgroupParent: c14CgroupParent})
		errs.note("pod", p.SetPodResources(podCtx))
	case "nri":
		podCtx.FromNri(c14Sandbox(pod))
		errs.note("pod", p.SetPodResources(podCtx))
	case "reconciler":
		// the same plugin instance served this pod before its resize (same annotation, other amounts in the spec)
		before := c14Resized(pod).DeepCopy()
		for i := range before.Spec.Containers {
			big := corev1.ResourceList{
				apiext.BatchCPU:    *resource.NewQuantity(9000, resource.DecimalSI),
				apiext.BatchMemory: *resource.NewQuantity(9<<30, resource.BinarySI),
			}
			before.Spec.Containers[i].Resources = corev1.ResourceRequirements{Requests: big.DeepCopy(), Limits: big.DeepCopy()}
		}
		warm := &protocol.PodContext{}
		warm.FromReconciler(&statesinformer.PodMeta{Pod: before, CgroupDir: c14CgroupParent})
		_ = p.SetPodCPUShares(warm)
		_ = p.SetPodCFSQuota(warm)
		_ = p.SetPodMemoryLimit(warm)
		podCtx.FromReconciler(&statesinformer.PodMeta{Pod: c14Resized(pod), CgroupDir: c14CgroupParent})
		errs.note("pod shares", p.SetPodCPUShares(podCtx))
		errs.note("pod quota", p.SetPodCFSQuota(podCtx))
		errs.note("pod mem", p.SetPodMemoryLimit(podCtx))
	default:
		panic("c14: unknown mode " + mode)
	}
	_, hasAnno := pod.Annotations[apiext.AnnotationExtendedResourceSpec]
	r.rec.Emit(vu.Ev{"op": "hook", "mode": mode, "obs": vu.Ev{"pod": c14Res(&podCtx.Response.Resources)},
		"errors": errs.list(), "spec_annotation": hasAnno})
	r.stats["hook mode="+mode]++
	if q := podCtx.Response.Resources.CFSQuota; q != nil {
		if *q == -1 {
			r.stats["pod-quota-unlimited"]++
		} else {
			r.stats["pod-quota-limited"]++
		}
	} else {
		r.stats["pod-untouched"]++
	}
	if m := podCtx.Response.Resources.MemoryLimit; m != nil {
		if *m == -1 {
			r.stats["pod-mem-unlimited"]++
		} else {
			r.stats["pod-mem-limited"]++
		}
	}
}

// run executes one segment.
func (r *c14Runner) run(sg *c14Seg) {
	c := &sg.reset
	pre := c.Pre
	if pre == nil {
		pre = &c14Pre{Kind: "none"}
	}
	rden := c.Rden
	if rden == 0 {
		rden = 1
	}
	r.rec.Reset(vu.Ev{"containers": c.Containers, "mark": c.Mark, "pre": vu.Ev{"kind": pre.Kind, "raw": pre.Raw},
		"cfs": c.Cfs, "cfs_src": c.CfsSrc, "rnum": c.Rnum, "rden": rden})
	p := c14Plugin(c)
	ops := sg.ops
	if len(ops) == 0 { // a segment recorded as its reset event only: the pod is admitted and hooked once
		mode := c.Mode
		if mode == "" {
			mode = "proxy"
		}
		ops = []c14Ev{{Op: "admit"}, {Op: "conts", Mode: mode}, {Op: "hook", Mode: mode}}
	}
	var pod *corev1.Pod // the admitted pod
	tried := false
	for i := range ops {
		op := &ops[i]
		switch op.Op {
		case "admit":
			if tried {
				panic("c14: a pod is admitted once")
			}
			tried = true
			var patched bool
			pod, patched = r.admit(c14Pod(c))
			if pod == nil && pre.Kind != "garbage" {
				r.t.Fatalf("c14: the webhook refused a pod whose annotations are well-formed (pre=%s %q)", pre.Kind, pre.Raw)
			}
			anno := ""
			if pod != nil {
				anno = pod.Annotations[apiext.AnnotationExtendedResourceSpec]
			}
			r.rec.Emit(vu.Ev{"op": "admit", "obs": vu.Ev{"allowed": pod != nil}, "diag": vu.Ev{"patched": patched, "annotation": anno}})
			r.stats[fmt.Sprintf("admit pre=%s allowed=%v patched=%v", pre.Kind, pod != nil, patched)]++
		case "node":
			r.doNode(p, op)
		case "slo":
			r.doSLO(p, op)
		case "conts", "hook":
			if pod == nil { // refused (or not yet admitted): the pod does not reach the agent
				r.stats["skipped-"+op.Op+"-pod-not-admitted"]++
				continue
			}
			if op.Op == "conts" {
				r.doConts(p, pod, c.Containers, op.Mode)
			} else {
				r.doHook(p, pod, op.Mode)
			}
		default:
			panic("c14: unknown op " + op.Op)
		}
	}

	// generation statistics (non-vacuity report; not a judgement)
	r.stats["segments"]++
	r.stats["mark="+c.Mark]++
	r.stats[fmt.Sprintf("n=%d", len(c.Containers))]++
	declaring := 0
	for _, cc := range c.Containers {
		if cc.Req != c14Absent || cc.Lim != c14Absent || cc.Mem != c14Absent {
			declaring++
		}
	}
	switch {
	case declaring == 0:
		r.stats["pods-declaring-nothing"]++
	case declaring < len(c.Containers):
		r.stats["pods-mixed-declaring"]++
	default:
		r.stats["pods-all-declaring"]++
	}
}

// ---------------------------------------------------------------------------------------- case generation

var (
	c14CPUMenu = []int64{c14Absent, 0, 1, 999, 1000, 2500, 300000}
	c14MemMenu = []int64{c14Absent, 0, 1, 999, 1000, 2500, 1 << 28}
	// exact in binary and with two decimals, so that float64 division in the hook has no representation error
	c14Ratios      = [][2]int64{{0, 1}, {1, 1}, {3, 2}, {2, 1}}
	c14ExtraRatios = [][2]int64{{1, 2}, {5, 4}, {7, 4}, {3, 1}}
	c14Modes       = []string{"proxy", "nri", "reconciler"}
	c14Marks       = []string{"label", "annotation", "ls", "none"}
)

func c14Name(i int) string { return fmt.Sprintf("c%d", i) }

// c14Env picks configuration number k of the (cfs, ratio) table: cfs off (ratio irrelevant: none and 2.0),
// cfs on by default / by policy x ratios
func c14Env(c *c14Ev, k int) {
	type env struct {
		cfs bool
		src string
		r   [2]int64
	}
	envs := []env{
		{true, "default", c14Ratios[0]}, {true, "policy", c14Ratios[1]}, {true, "default", c14Ratios[2]}, {true, "policy", c14Ratios[3]},
		{false, "policy", c14Ratios[0]}, {true, "policy", c14Ratios[0]}, {true, "default", c14Ratios[3]}, {false, "policy", c14Ratios[3]},
		{true, "policy", c14Ratios[2]}, {true, "default", c14Ratios[1]},
	}
	e := envs[k%len(envs)]
	c.Cfs, c.CfsSrc, c.Rnum, c.Rden = e.cfs, e.src, e.r[0], e.r[1]
}

const c14NEnvs = 10

func c14Menu() []c14Cont {
	var out []c14Cont
	for _, rq := range c14CPUMenu {
		for _, lm := range c14CPUMenu {
			for _, mm := range c14MemMenu {
				out = append(out, c14Cont{Req: rq, Lim: lm, Mem: mm})
			}
		}
	}
	return out
}

func c14RandVal(rng *rand.Rand, menu []int64, max int64) int64 {
	switch rng.Intn(10) {
	case 0, 1, 2, 3, 4:
		return menu[rng.Intn(len(menu))]
	case 5:
		return 1 + rng.Int63n(20) // around the minimum clamps
	case 6, 7:
		return 1 + rng.Int63n(4000)
	default:
		return 1 + rng.Int63n(max)
	}
}

func c14Declares(cc c14Cont) bool { return cc.Req != c14Absent || cc.Lim != c14Absent || cc.Mem != c14Absent }

// c14Entry is the annotation entry that describes the amounts cc declares
func c14Entry(cc c14Cont) apiext.ExtendedResourceContainerSpec {
	e := apiext.ExtendedResourceContainerSpec{Requests: corev1.ResourceList{}, Limits: corev1.ResourceList{}}
	if cc.Req != c14Absent {
		e.Requests[apiext.BatchCPU] = *resource.NewQuantity(cc.Req, resource.DecimalSI)
	}
	if cc.Lim != c14Absent {
		e.Limits[apiext.BatchCPU] = *resource.NewQuantity(cc.Lim, resource.DecimalSI)
	}
	if cc.Mem != c14Absent {
		e.Limits[apiext.BatchMemory] = *resource.NewQuantity(cc.Mem, resource.BinarySI)
	}
	return e
}

var c14PreKinds = []string{"equal", "subset", "superset-ghost", "superset-sidecar", "amounts", "stale", "empty", "garbage"}

// c14MakePre builds the annotation a pod with containers cs carries before admission; nil when the kind does not apply
// to this pod (e.g. superset-sidecar needs a container that declares nothing). k varies the details.
func c14MakePre(cs []c14Cont, kind string, k int) *c14Pre {
	phantom := c14Cont{Req: 100, Lim: 100, Mem: 64 << 20} // a limited stale entry (as in a copied annotation)
	if k%3 == 1 {
		phantom = c14Cont{Req: 250, Lim: c14Absent, Mem: c14Absent}
	}
	spec := apiext.ExtendedResourceSpec{Containers: map[string]apiext.ExtendedResourceContainerSpec{}}
	var declaring []int
	for i, cc := range cs {
		if c14Declares(cc) {
			declaring = append(declaring, i)
			spec.Containers[cc.Name] = c14Entry(cc)
		}
	}
	switch kind {
	case "equal":
	case "subset":
		if len(declaring) == 0 {
			return nil
		}
		victim := cs[declaring[k%len(declaring)]]
		if len(declaring) > 1 && k%2 == 0 {
			delete(spec.Containers, victim.Name)
		} else { // the entry lost its limits
			e := spec.Containers[victim.Name]
			e.Limits = nil
			spec.Containers[victim.Name] = e
		}
	case "superset-ghost": // an entry for a container the pod does not have
		spec.Containers["ghost"] = c14Entry(phantom)
	case "superset-sidecar": // entries for the containers of the pod that declare nothing
		if len(declaring) == len(cs) {
			return nil
		}
		for _, cc := range cs {
			if !c14Declares(cc) {
				spec.Containers[cc.Name] = c14Entry(phantom)
			}
		}
	case "amounts": // the same entries with other amounts
		if len(declaring) == 0 {
			return nil
		}
		for _, i := range declaring {
			cc := cs[i]
			spec.Containers[cc.Name] = c14Entry(c14Cont{Req: 777, Lim: 1777 + int64(k%5), Mem: 12345})
		}
	case "stale": // somebody else's annotation
		spec.Containers = map[string]apiext.ExtendedResourceContainerSpec{"old-main": c14Entry(phantom), "old-side": c14Entry(c14Cont{Req: 10, Lim: 20, Mem: 30})}
	case "empty":
		return &c14Pre{Kind: kind, Raw: "{}"}
	case "garbage":
		return &c14Pre{Kind: kind, Raw: []string{"{not json", `{"containers": 5}`, `["c0"]`}[k%3]}
	default:
		panic("c14: unknown pre kind " + kind)
	}
	if len(spec.Containers) == 0 {
		spec.Containers = nil
	}
	raw, err := json.Marshal(spec)
	if err != nil {
		panic(err)
	}
	return &c14Pre{Kind: kind, Raw: string(raw)}
}

// deliveries of the configuration menu (family s)
func c14Deliveries() []c14Ev {
	return []c14Ev{
		{Op: "node", Kind: "none"},
		{Op: "node", Kind: "none", Other: true},
		{Op: "node", Kind: "valid", Rnum: 1, Rden: 2},
		{Op: "node", Kind: "valid", Rnum: 1, Rden: 1},
		{Op: "node", Kind: "valid", Rnum: 5, Rden: 4},
		{Op: "node", Kind: "valid", Rnum: 3, Rden: 2},
		{Op: "node", Kind: "valid", Rnum: 2, Rden: 1},
		{Op: "node", Kind: "invalid", Raw: "abc"},
		{Op: "node", Kind: "invalid", Raw: "0"},
		{Op: "node", Kind: "invalid", Raw: "-1.50"},
		{Op: "node", Kind: "invalid", Raw: ""},
		{Op: "slo", Policy: "cfsQuota", Enable: true},
		{Op: "slo", Policy: "cfsQuota", Enable: false},
		{Op: "slo", Policy: "cpuset", Enable: true},
		{Op: "slo", Policy: ""},
	}
}

func TestVerifC14(t *testing.T) {
	if !vu.Enabled() {
		t.Skip("verification harness: VERIF_OUT not set")
	}
	rec := vu.NewRecorder("")
	defer rec.Close()
	r := newC14Runner(t, rec)

	// replay: re-execute the given segment(s), event by event (op + arguments only)
	if rp := vu.ReplayPath(); rp != "" {
		for _, raw := range vu.ReadScripts(rp) {
			var evs []c14Ev
			if err := json.Unmarshal(raw, &evs); err != nil {
				t.Fatalf("c14: bad replay script: %v", err)
			}
			var sg *c14Seg
			for _, e := range evs {
				if e.Op == "reset" {
					if sg != nil {
						r.run(sg)
					}
					sg = &c14Seg{reset: e}
				} else if sg != nil {
					sg.ops = append(sg.ops, e)
				}
			}
			if sg != nil {
				r.run(sg)
			}
		}
		return
	}

	rng := vu.Rand(14)
	menu := c14Menu()
	k := int(vu.Seed()) // rotates configurations / modes against the tables, seed dependent
	// mk: a BE pod (by label) with the given containers, admitted and hooked once in one mode (rotating)
	mk := func(cs ...c14Cont) *c14Seg {
		sg := &c14Seg{reset: c14Ev{Op: "reset", Mark: "label"}}
		for i, cc := range cs {
			cc.Name = c14Name(i)
			sg.reset.Containers = append(sg.reset.Containers, cc)
		}
		c14Env(&sg.reset, k/len(c14Modes))
		mode := c14Modes[k%len(c14Modes)]
		sg.ops = []c14Ev{{Op: "admit"}, {Op: "conts", Mode: mode}, {Op: "hook", Mode: mode}}
		k++
		return sg
	}
	setMode := func(sg *c14Seg, mode string) {
		for i := range sg.ops {
			if sg.ops[i].Op == "conts" || sg.ops[i].Op == "hook" {
				sg.ops[i].Mode = mode
			}
		}
	}
	invoke := func(sg *c14Seg, mode string) {
		sg.ops = append(sg.ops, c14Ev{Op: "conts", Mode: mode}, c14Ev{Op: "hook", Mode: mode})
	}

	// (a) one container: the whole menu under every configuration (BE by label)
	for _, a := range menu {
		for e := 0; e < c14NEnvs; e++ {
			sg := mk(a)
			c14Env(&sg.reset, e)
			r.run(sg)
		}
	}
	// (b) two containers: all pairs of the menu, configuration and mode rotating (quick: a seed-dependent 1/17 sample)
	stride := 17
	if vu.Thorough() {
		stride = 1
	}
	off := int(vu.Seed()) % stride
	n := 0
	for _, a := range menu {
		for _, b := range menu {
			if n++; n%stride == off {
				r.run(mk(a, b))
			}
		}
	}
	// (c) pods that are not best-effort (annotation only, other QoS label, unmarked): must be left untouched
	for i, a := range menu {
		for _, mark := range c14Marks[1:] {
			sg := mk(a, menu[(i*7+3)%len(menu)])
			sg.reset.Mark = mark
			r.run(sg)
		}
	}
	// (e) pods in which one container declares no batch amount at all (e.g. a sidecar), next to every menu container,
	//     in both positions; plus three-container mixes
	none := c14Cont{Req: c14Absent, Lim: c14Absent, Mem: c14Absent}
	for i, a := range menu {
		if i%2 == 0 {
			r.run(mk(none, a))
		} else {
			r.run(mk(a, none))
		}
		if i%3 == int(vu.Seed())%3 {
			r.run(mk(a, none, menu[(i*11+5)%len(menu)]))
		}
	}
	// (f) rounding and minimum clamps: amounts around the 1000us quota floor / the 2-share floor and amounts whose
	//     scaled quota has a fraction of one third / two thirds, alone and in pairs, under every configuration
	edge := []int64{2, 3, 5, 9, 10, 11, 14, 15, 1001, 1499, 2000, 2501, 255999, 256000}
	for i, x := range edge {
		for e := 0; e < c14NEnvs; e++ {
			sg := mk(c14Cont{Req: x, Lim: x, Mem: x})
			c14Env(&sg.reset, e)
			r.run(sg)
			y := edge[(i+1+e)%len(edge)]
			second := c14Cont{Req: y, Lim: y, Mem: c14Absent}
			if e%2 == 1 {
				second.Mem = y
			}
			sg = mk(c14Cont{Req: x, Lim: x, Mem: x}, second)
			c14Env(&sg.reset, e)
			r.run(sg)
		}
	}

	// (g) ratios that are NOT exact in binary (1.15, 2.3, 4.35 - as the node annotation carries them, two decimals): the
	//     hook divides in float64, so only amounts are used whose exact quotient is never an integer (limits 1000 / 2500
	//     alone and in pairs: the sums are 11, 16, 22, 4, 9 mod 23 and 1 or 2 mod 3), where floor / ceil of the float
	//     quotient and of the exact quotient agree; an exactly divisible pair could come out one microsecond higher
	for i, rt := range [][2]int64{{23, 20}, {23, 10}, {87, 20}} {
		for j, cs := range [][]c14Cont{
			{{Req: 1000, Lim: 1000, Mem: 1 << 20}},
			{{Req: 2500, Lim: 2500, Mem: 1 << 20}},
			{{Req: 1000, Lim: 1000, Mem: 1 << 20}, {Req: 2500, Lim: 2500, Mem: 1 << 20}},
			{{Req: 2500, Lim: 2500, Mem: 1 << 20}, {Req: 2500, Lim: 2500, Mem: c14Absent}},
			{{Req: 1000, Lim: 1000, Mem: 1 << 20}, {Req: 1000, Lim: 1000, Mem: 1 << 20}},
		} {
			sg := mk(cs...)
			sg.reset.Cfs, sg.reset.CfsSrc = true, []string{"default", "policy"}[(i+j)%2]
			sg.reset.Rnum, sg.reset.Rden = rt[0], rt[1]
			r.run(sg)
		}
	}

	// (s) the configuration as state: a fresh agent, then Node / NodeSLO objects delivered one after the other through the
	//     real rule parsers (ratio set above 1, changed, lowered to <= 1, annotation removed, malformed; cfs quota disabled
	//     and enabled again), the pod hooked after every delivery. All sequences of length <= 2 of the menu, a sample
	//     (thorough: all) of those of length 3; pods whose quotas are limited at both levels, with and without a fraction
	//     after scaling, one with an unlimited container
	seqPods := [][]c14Cont{
		{{Req: 1000, Lim: 1000, Mem: 1 << 20}},
		{{Req: 500, Lim: 500, Mem: 1000}, {Req: 15, Lim: 15, Mem: 15}},
		{{Req: 999, Lim: 2500, Mem: 1 << 28}, {Req: 1, Lim: 1, Mem: 1}, {Req: 2500, Lim: 1001, Mem: 2500}},
		{{Req: 2500, Lim: 2500, Mem: 2500}, {Req: 1000, Lim: c14Absent, Mem: 1000}},
	}
	dl := c14Deliveries()
	seqSeg := func(pi int, ds ...c14Ev) *c14Seg {
		sg := mk(seqPods[pi%len(seqPods)]...)
		mode := sg.ops[1].Mode
		sg.reset.Cfs, sg.reset.CfsSrc, sg.reset.Rnum, sg.reset.Rden = true, "default", 0, 1 // fresh agent: no rule parsed yet
		for _, d := range ds {
			sg.ops = append(sg.ops, d)
			invoke(sg, mode)
		}
		return sg
	}
	ns := 0
	for _, d1 := range dl {
		for pi := range seqPods {
			r.run(seqSeg(pi, d1))
		}
		for _, d2 := range dl {
			r.run(seqSeg(ns, d1, d2))
			ns++
			for _, d3 := range dl {
				if ns++; vu.Thorough() || ns%6 == int(vu.Seed())%6 {
					r.run(seqSeg(ns, d1, d2, d3))
				}
			}
		}
	}
	//     ... and long random histories: deliveries and invocations (of either level, in any mode) freely interleaved
	nlong := 250
	if vu.Thorough() {
		nlong = 6000
	}
	for i := 0; i < nlong; i++ {
		sg := mk(seqPods[rng.Intn(len(seqPods))]...)
		if rng.Intn(2) == 0 {
			sg.reset.Cfs, sg.reset.CfsSrc, sg.reset.Rnum, sg.reset.Rden = true, "default", 0, 1
		}
		sg.ops = sg.ops[:1] // admit
		for j, steps := 0, 4+rng.Intn(12); j < steps; j++ {
			switch x := rng.Intn(10); {
			case x < 4:
				d := dl[rng.Intn(len(dl))]
				if d.Kind == "valid" && rng.Intn(3) == 0 {
					e := c14ExtraRatios[rng.Intn(len(c14ExtraRatios))]
					d.Rnum, d.Rden = e[0], e[1]
				}
				sg.ops = append(sg.ops, d)
			case x < 7:
				invoke(sg, c14Modes[rng.Intn(len(c14Modes))])
			case x < 8:
				sg.ops = append(sg.ops, c14Ev{Op: "conts", Mode: c14Modes[rng.Intn(len(c14Modes))]})
			default:
				sg.ops = append(sg.ops, c14Ev{Op: "hook", Mode: c14Modes[rng.Intn(len(c14Modes))]})
			}
		}
		invoke(sg, c14Modes[rng.Intn(len(c14Modes))])
		r.run(sg)
	}

	// (p) pods that reach the webhook with an extended-resource-spec annotation already present (written by an earlier
	//     admission, copied from a template or another pod, edited): equal to what the spec declares, a subset, a superset
	//     (an entry for a container that does not exist / for the containers that declare nothing), other amounts, somebody
	//     else's, empty, not parseable. The admitted pod is hooked in all three modes (proxy and nri read the annotation
	//     the webhook left, the reconciler prefers the pod spec)
	prePods := [][]c14Cont{
		{{Req: 1000, Lim: 1000, Mem: 1 << 30 >> 2}},
		{{Req: 1000, Lim: 1000, Mem: 1 << 20}, none},
		{none, {Req: 2500, Lim: c14Absent, Mem: 1000}},
		{{Req: 999, Lim: 2500, Mem: 1 << 28}, {Req: 1, Lim: 1, Mem: 1}},
		{{Req: 500, Lim: 500, Mem: 1000}, none, {Req: 15, Lim: 15, Mem: 15}},
		{{Req: c14Absent, Lim: 300000, Mem: c14Absent}, {Req: 0, Lim: 0, Mem: 0}},
		{none},
		{none, none},
	}
	for i, a := range menu { // plus a rotating slice of the menu, alone / next to a sidecar / next to another menu container
		if i%7 != int(vu.Seed())%7 && !vu.Thorough() {
			continue
		}
		prePods = append(prePods, []c14Cont{a}, []c14Cont{a, none}, []c14Cont{menu[(i*5+2)%len(menu)], a})
	}
	np := 0
	for _, cs := range prePods {
		for ki, kind := range c14PreKinds {
			sg := mk(cs...)
			pre := c14MakePre(sg.reset.Containers, kind, np+ki)
			if pre == nil {
				continue
			}
			np++
			sg.reset.Pre = pre
			c14Env(&sg.reset, np)
			sg.ops = sg.ops[:1]
			for mi := range c14Modes {
				invoke(sg, c14Modes[(np+mi)%len(c14Modes)])
			}
			r.run(sg)
			if kind == "superset-sidecar" || kind == "equal" { // also for pods that are not best-effort: left untouched whatever the annotation says
				sg = mk(cs...)
				sg.reset.Pre, sg.reset.Mark = pre, c14Marks[1+np%3]
				r.run(sg)
			}
		}
	}

	// (d) seeded random: 1..6 containers, menu values mixed with arbitrary magnitudes, all markings; a fifth of the pods
	//     arrives with a pre-existing annotation, a sixth sees the configuration change between two invocations
	nrand := 6000
	if vu.Thorough() {
		nrand = 150000
	}
	for i := 0; i < nrand; i++ {
		nc := 1 + rng.Intn(6)
		cs := make([]c14Cont, nc)
		allDeclared := rng.Intn(3) == 0 // a third of the pods: every container fully limited (pod-level sums are exercised)
		for j := range cs {
			cs[j] = c14Cont{Req: c14RandVal(rng, c14CPUMenu, 300000), Lim: c14RandVal(rng, c14CPUMenu, 300000),
				Mem: c14RandVal(rng, c14MemMenu, 1<<28)}
			if !allDeclared && rng.Intn(8) == 0 {
				cs[j] = none
			}
			if allDeclared {
				if cs[j].Lim <= 0 {
					cs[j].Lim = 1 + rng.Int63n(5000)
				}
				if cs[j].Mem <= 0 {
					cs[j].Mem = 1 + rng.Int63n(1<<20)
				}
			}
		}
		sg := mk(cs...)
		c14Env(&sg.reset, rng.Intn(c14NEnvs))
		if sg.reset.Cfs && rng.Intn(4) == 0 { // further ratios: below 1 (never scales), 1.25, 1.75, 3.0
			x := c14ExtraRatios[rng.Intn(len(c14ExtraRatios))]
			sg.reset.Rnum, sg.reset.Rden = x[0], x[1]
		}
		mode := c14Modes[rng.Intn(len(c14Modes))]
		setMode(sg, mode)
		if rng.Intn(5) == 0 {
			sg.reset.Mark = c14Marks[1+rng.Intn(3)]
		}
		if rng.Intn(5) == 0 {
			sg.reset.Pre = c14MakePre(sg.reset.Containers, c14PreKinds[rng.Intn(len(c14PreKinds))], rng.Intn(64))
		}
		if rng.Intn(6) == 0 {
			for j, nd := 0, 1+rng.Intn(2); j < nd; j++ {
				sg.ops = append(sg.ops, dl[rng.Intn(len(dl))])
			}
			invoke(sg, mode)
		}
		r.run(sg)
	}
	keys := make([]string, 0, len(r.stats))
	for s := range r.stats {
		keys = append(keys, s)
	}
	sort.Strings(keys)
	line := ""
	for _, s := range keys {
		line += fmt.Sprintf(" [%s]=%d", s, r.stats[s])
	}
	t.Logf("C14: %d segments, %d events;%s", rec.Segments(), rec.Events(), line)
	fmt.Printf("C14-STATS:%s\n", line)
}
