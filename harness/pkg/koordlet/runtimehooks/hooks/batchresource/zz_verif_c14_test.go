package batchresource

// Verification harness for C14 (injected by `go test -overlay`). Executor + recorder only.
//
// For every case (a container list with declared batch-cpu request / batch-cpu limit / batch-memory limit,
// a way of marking the pod, CFS quota enabled or not, a node CPU normalization ratio) it
//   1. builds a real corev1.Pod and sends it through the real pod mutating webhook
//      (mutating.PodMutatingHandler.Handle, Create) - that is what writes the extended-resource-spec
//      annotation the hook reads the per-container amounts from;
//   2. configures a fresh plugin through its real rule parsers (parseRuleForNodeSLO / parseRuleForNodeMeta);
//   3. builds PodContext / ContainerContext with the real protocol constructors (FromProxy, FromNri or
//      FromReconciler, per case) and calls the real hook functions;
//   4. logs the inputs (reset event) and Response.Resources (hook event).
// Expected values are computed only by TLC (specs/BatchCgroup/BatchCgroupTrace.tla).

import (
	"context"
	"encoding/json"
	"fmt"
	"math/rand"
	"sort"
	"testing"

	nriapi "github.com/containerd/nri/pkg/api"
	jsonpatch "github.com/evanphx/json-patch"
	admissionv1 "k8s.io/api/admission/v1"
	corev1 "k8s.io/api/core/v1"
	"k8s.io/apimachinery/pkg/api/resource"
	metav1 "k8s.io/apimachinery/pkg/apis/meta/v1"
	"k8s.io/apimachinery/pkg/runtime"
	"k8s.io/apimachinery/pkg/types"
	clientgoscheme "k8s.io/client-go/kubernetes/scheme"
	"k8s.io/utils/ptr"
	"sigs.k8s.io/controller-runtime/pkg/client/fake"
	"sigs.k8s.io/controller-runtime/pkg/webhook/admission"

	configv1alpha1 "github.com/koordinator-sh/koordinator/apis/config/v1alpha1"
	apiext "github.com/koordinator-sh/koordinator/apis/extension"
	runtimeapi "github.com/koordinator-sh/koordinator/apis/runtime/v1alpha1"
	slov1alpha1 "github.com/koordinator-sh/koordinator/apis/slo/v1alpha1"
	"github.com/koordinator-sh/koordinator/pkg/koordlet/runtimehooks/protocol"
	"github.com/koordinator-sh/koordinator/pkg/koordlet/statesinformer"
	"github.com/koordinator-sh/koordinator/pkg/webhook/pod/mutating"

	vu "github.com/koordinator-sh/koordinator/pkg/verifutil"
)

const c14Absent = int64(-1)

type c14Cont struct {
	Name string `json:"name"`
	Req  int64  `json:"req"` // batch-cpu request, milli-cores; -1 = not declared
	Lim  int64  `json:"lim"` // batch-cpu limit, milli-cores; -1 = not declared
	Mem  int64  `json:"mem"` // batch-memory limit, bytes; -1 = not declared
}

type c14Case struct {
	Op         string    `json:"op"`
	Containers []c14Cont `json:"containers"`
	Mark       string    `json:"mark"`    // label | annotation | ls | none
	Cfs        bool      `json:"cfs"`     // CFS quota enabled
	CfsSrc     string    `json:"cfs_src"` // how: default (rule never parsed) | policy (NodeSLO cpu suppress policy)
	Rnum       int64     `json:"rnum"`    // node CPU normalization ratio = rnum/rden ; rnum = 0: annotation absent
	Rden       int64     `json:"rden"`
	Mode       string    `json:"mode"` // proxy | nri | reconciler
}

type c14Runner struct {
	t       *testing.T
	rec     *vu.Recorder
	handler *mutating.PodMutatingHandler
	stats   map[string]int
}

func newC14Runner(t *testing.T, rec *vu.Recorder) *c14Runner {
	// the webhook lists ClusterColocationProfiles (none exist here) before it writes the extended-resource-spec
	sch := runtime.NewScheme()
	_ = clientgoscheme.AddToScheme(sch)
	_ = configv1alpha1.AddToScheme(sch)
	return &c14Runner{t: t, rec: rec, stats: map[string]int{},
		handler: &mutating.PodMutatingHandler{
			Client:  fake.NewClientBuilder().WithScheme(sch).Build(),
			Decoder: admission.NewDecoder(sch),
		}}
}

func c14Pod(c *c14Case) *corev1.Pod {
	pod := &corev1.Pod{
		TypeMeta:   metav1.TypeMeta{Kind: "Pod", APIVersion: "v1"},
		ObjectMeta: metav1.ObjectMeta{Namespace: "default", Name: "c14-pod", UID: types.UID("c14-uid")},
	}
	switch c.Mark {
	case "label":
		pod.Labels = map[string]string{apiext.LabelPodQoS: string(apiext.QoSBE)}
	case "annotation":
		pod.Annotations = map[string]string{apiext.LabelPodQoS: string(apiext.QoSBE)}
	case "ls":
		pod.Labels = map[string]string{apiext.LabelPodQoS: string(apiext.QoSLS)}
	case "none":
	default:
		panic("c14: unknown mark " + c.Mark)
	}
	for _, cc := range c.Containers {
		ct := corev1.Container{Name: cc.Name, Image: "busybox"}
		if cc.Req != c14Absent {
			ct.Resources.Requests = corev1.ResourceList{apiext.BatchCPU: *resource.NewQuantity(cc.Req, resource.DecimalSI)}
		}
		if cc.Lim != c14Absent || cc.Mem != c14Absent {
			ct.Resources.Limits = corev1.ResourceList{}
			if cc.Lim != c14Absent {
				ct.Resources.Limits[apiext.BatchCPU] = *resource.NewQuantity(cc.Lim, resource.DecimalSI)
			}
			if cc.Mem != c14Absent {
				ct.Resources.Limits[apiext.BatchMemory] = *resource.NewQuantity(cc.Mem, resource.BinarySI)
			}
		}
		pod.Spec.Containers = append(pod.Spec.Containers, ct)
		pod.Status.ContainerStatuses = append(pod.Status.ContainerStatuses, corev1.ContainerStatus{
			Name: cc.Name, ContainerID: "containerd://" + cc.Name + "-id"})
	}
	return pod
}

// admit sends the pod through the real mutating webhook (Create) and returns the mutated pod.
func (r *c14Runner) admit(pod *corev1.Pod) *corev1.Pod {
	raw, err := json.Marshal(pod)
	if err != nil {
		r.t.Fatalf("c14: marshal pod: %v", err)
	}
	req := admission.Request{AdmissionRequest: admissionv1.AdmissionRequest{
		Resource:  metav1.GroupVersionResource{Group: "", Version: "v1", Resource: "pods"},
		Operation: admissionv1.Create,
		Namespace: pod.Namespace,
		Object:    runtime.RawExtension{Raw: raw},
	}}
	resp := r.handler.Handle(context.TODO(), req)
	if !resp.Allowed {
		r.t.Fatalf("c14: webhook refused the pod: %+v", resp.Result)
	}
	out := raw
	if len(resp.Patches) > 0 {
		pb, err := json.Marshal(resp.Patches)
		if err != nil {
			r.t.Fatalf("c14: marshal patches: %v", err)
		}
		patch, err := jsonpatch.DecodePatch(pb)
		if err != nil {
			r.t.Fatalf("c14: decode patches: %v", err)
		}
		if out, err = patch.Apply(raw); err != nil {
			r.t.Fatalf("c14: apply patches: %v", err)
		}
		r.stats["webhook-mutated"]++
	}
	mutated := &corev1.Pod{}
	if err := json.Unmarshal(out, mutated); err != nil {
		r.t.Fatalf("c14: unmarshal mutated pod: %v", err)
	}
	return mutated
}

func c14Plugin(c *c14Case) *plugin {
	p := newPlugin()
	switch {
	case c.Cfs && c.CfsSrc == "default": // rule never parsed: enabled by default
	case c.Cfs:
		p.parseRuleForNodeSLO(&slov1alpha1.NodeSLOSpec{ResourceUsedThresholdWithBE: &slov1alpha1.ResourceThresholdStrategy{
			Enable: ptr.To(true), CPUSuppressPolicy: slov1alpha1.CPUSetPolicy}})
	default: // disabled: BE cpu suppression works on the cfs quota of the BE tier
		p.parseRuleForNodeSLO(&slov1alpha1.NodeSLOSpec{ResourceUsedThresholdWithBE: &slov1alpha1.ResourceThresholdStrategy{
			Enable: ptr.To(true), CPUSuppressPolicy: slov1alpha1.CPUCfsQuotaPolicy}})
	}
	node := &corev1.Node{ObjectMeta: metav1.ObjectMeta{Name: "c14-node"}}
	if c.Rnum > 0 {
		// only ratios that are exact with two decimals are used (the annotation keeps two)
		apiext.SetCPUNormalizationRatio(node, float64(c.Rnum)/float64(c.Rden))
	}
	if c.Rnum > 0 || c.CfsSrc != "default" {
		if _, err := p.parseRuleForNodeMeta(node); err != nil {
			panic(fmt.Sprintf("c14: parseRuleForNodeMeta: %v", err))
		}
	}
	return p
}

func c14Val(p *int64) vu.Ev {
	if p == nil {
		return vu.Ev{"set": false, "v": 0}
	}
	return vu.Ev{"set": true, "v": *p}
}

func c14Res(res *protocol.Resources) vu.Ev {
	return vu.Ev{"shares": c14Val(res.CPUShares), "quota": c14Val(res.CFSQuota), "mem": c14Val(res.MemoryLimit)}
}

func (r *c14Runner) run(c *c14Case) {
	r.rec.Reset(vu.Ev{"containers": c.Containers, "mark": c.Mark, "cfs": c.Cfs, "cfs_src": c.CfsSrc,
		"rnum": c.Rnum, "rden": c.Rden, "mode": c.Mode})
	pod := r.admit(c14Pod(c))
	p := c14Plugin(c)
	const cgroupParent = "kubepods.slice/kubepods-besteffort.slice/kubepods-besteffort-podc14.slice"

	podCtx := &protocol.PodContext{}
	contCtx := make([]*protocol.ContainerContext, len(c.Containers))
	for i := range contCtx {
		contCtx[i] = &protocol.ContainerContext{}
	}
	var errs []string
	note := func(where string, err error) {
		if err != nil {
			errs = append(errs, where+": "+err.Error())
		}
	}
	switch c.Mode {
	case "proxy":
		meta := &runtimeapi.PodSandboxMetadata{Name: pod.Name, Namespace: pod.Namespace, Uid: string(pod.UID)}
		podCtx.FromProxy(&runtimeapi.PodSandboxHookRequest{PodMeta: meta, Labels: pod.Labels, Annotations: pod.Annotations,
			CgroupParent: cgroupParent})
		note("pod", p.SetPodResources(podCtx))
		for i, cc := range c.Containers {
			contCtx[i].FromProxy(&runtimeapi.ContainerResourceHookRequest{PodMeta: meta,
				ContainerMeta: &runtimeapi.ContainerMetadata{Name: cc.Name, Id: cc.Name + "-id"},
				PodLabels:     pod.Labels, PodAnnotations: pod.Annotations, PodCgroupParent: cgroupParent})
			note(cc.Name, p.SetContainerResources(contCtx[i]))
		}
	case "nri":
		sandbox := &nriapi.PodSandbox{Id: "c14-sandbox", Name: pod.Name, Namespace: pod.Namespace, Uid: string(pod.UID),
			Labels: pod.Labels, Annotations: pod.Annotations,
			Linux: &nriapi.LinuxPodSandbox{CgroupParent: cgroupParent}}
		podCtx.FromNri(sandbox)
		note("pod", p.SetPodResources(podCtx))
		for i, cc := range c.Containers {
			contCtx[i].FromNri(sandbox, &nriapi.Container{Id: cc.Name + "-id", PodSandboxId: sandbox.Id, Name: cc.Name})
			note(cc.Name, p.SetContainerResources(contCtx[i]))
		}
	case "reconciler":
		// the cgroup reconciler calls the per-file functions one by one
		podMeta := &statesinformer.PodMeta{Pod: pod, CgroupDir: cgroupParent}
		podCtx.FromReconciler(podMeta)
		note("pod shares", p.SetPodCPUShares(podCtx))
		note("pod quota", p.SetPodCFSQuota(podCtx))
		note("pod mem", p.SetPodMemoryLimit(podCtx))
		for i, cc := range c.Containers {
			contCtx[i].FromReconciler(podMeta, cc.Name, false)
			note(cc.Name+" shares", p.SetContainerCPUShares(contCtx[i]))
			note(cc.Name+" quota", p.SetContainerCFSQuota(contCtx[i]))
			note(cc.Name+" mem", p.SetContainerMemoryLimit(contCtx[i]))
		}
	default:
		panic("c14: unknown mode " + c.Mode)
	}
	conts := vu.Ev{}
	for i := range contCtx {
		conts[c.Containers[i].Name] = c14Res(&contCtx[i].Response.Resources)
	}
	if errs == nil {
		errs = []string{}
	}
	_, hasAnno := pod.Annotations[apiext.AnnotationExtendedResourceSpec]
	r.rec.Emit(vu.Ev{"op": "hook", "obs": vu.Ev{"pod": c14Res(&podCtx.Response.Resources), "containers": conts},
		"errors": errs, "spec_annotation": hasAnno})

	// generation statistics (non-vacuity report; not a judgement)
	r.stats["cases"]++
	r.stats["mark="+c.Mark]++
	r.stats["mode="+c.Mode]++
	r.stats[fmt.Sprintf("n=%d", len(c.Containers))]++
	r.stats[fmt.Sprintf("cfs=%v", c.Cfs)]++
	r.stats[fmt.Sprintf("ratio=%d/%d", c.Rnum, c.Rden)]++
	declaring := 0
	for _, cc := range c.Containers {
		if cc.Req != c14Absent || cc.Lim != c14Absent || cc.Mem != c14Absent {
			declaring++
		}
	}
	switch {
	case declaring == 0:
		r.stats["pods-declaring-nothing"]++
	case declaring < len(c.Containers):
		r.stats["pods-mixed-declaring"]++
	default:
		r.stats["pods-all-declaring"]++
	}
	if podCtx.Response.Resources.CFSQuota != nil {
		if *podCtx.Response.Resources.CFSQuota == -1 {
			r.stats["pod-quota-unlimited"]++
		} else {
			r.stats["pod-quota-limited"]++
		}
	} else {
		r.stats["pod-untouched"]++
	}
	if m := podCtx.Response.Resources.MemoryLimit; m != nil {
		if *m == -1 {
			r.stats["pod-mem-unlimited"]++
		} else {
			r.stats["pod-mem-limited"]++
		}
	}
}

// ---------------------------------------------------------------------------------------- case generation

var (
	c14CPUMenu = []int64{c14Absent, 0, 1, 999, 1000, 2500, 300000}
	c14MemMenu = []int64{c14Absent, 0, 1, 999, 1000, 2500, 1 << 28}
	// exact in binary and with two decimals, so that float64 division in the hook has no representation error
	c14Ratios      = [][2]int64{{0, 1}, {1, 1}, {3, 2}, {2, 1}}
	c14ExtraRatios = [][2]int64{{1, 2}, {5, 4}, {7, 4}, {3, 1}}
	c14Modes       = []string{"proxy", "nri", "reconciler"}
	c14Marks       = []string{"label", "annotation", "ls", "none"}
)

func c14Name(i int) string { return fmt.Sprintf("c%d", i) }

// c14Env picks configuration number k of the (cfs, ratio) table: cfs off (ratio irrelevant: none and 2.0),
// cfs on by default / by policy x ratios
func c14Env(c *c14Case, k int) {
	type env struct {
		cfs bool
		src string
		r   [2]int64
	}
	envs := []env{
		{true, "default", c14Ratios[0]}, {true, "policy", c14Ratios[1]}, {true, "default", c14Ratios[2]}, {true, "policy", c14Ratios[3]},
		{false, "policy", c14Ratios[0]}, {true, "policy", c14Ratios[0]}, {true, "default", c14Ratios[3]}, {false, "policy", c14Ratios[3]},
		{true, "policy", c14Ratios[2]}, {true, "default", c14Ratios[1]},
	}
	e := envs[k%len(envs)]
	c.Cfs, c.CfsSrc, c.Rnum, c.Rden = e.cfs, e.src, e.r[0], e.r[1]
}

const c14NEnvs = 10

func c14Menu() []c14Cont {
	var out []c14Cont
	for _, rq := range c14CPUMenu {
		for _, lm := range c14CPUMenu {
			for _, mm := range c14MemMenu {
				out = append(out, c14Cont{Req: rq, Lim: lm, Mem: mm})
			}
		}
	}
	return out
}

func c14RandVal(rng *rand.Rand, menu []int64, max int64) int64 {
	switch rng.Intn(10) {
	case 0, 1, 2, 3, 4:
		return menu[rng.Intn(len(menu))]
	case 5:
		return 1 + rng.Int63n(20) // around the minimum clamps
	case 6, 7:
		return 1 + rng.Int63n(4000)
	default:
		return 1 + rng.Int63n(max)
	}
}

func TestVerifC14(t *testing.T) {
	if !vu.Enabled() {
		t.Skip("verification harness: VERIF_OUT not set")
	}
	rec := vu.NewRecorder("")
	defer rec.Close()
	r := newC14Runner(t, rec)

	// replay: re-execute the reset event(s) of the given segment(s)
	if rp := vu.ReplayPath(); rp != "" {
		for _, raw := range vu.ReadScripts(rp) {
			var evs []json.RawMessage
			if err := json.Unmarshal(raw, &evs); err != nil {
				t.Fatalf("c14: bad replay script: %v", err)
			}
			for _, e := range evs {
				var c c14Case
				if err := json.Unmarshal(e, &c); err != nil {
					t.Fatalf("c14: bad replay event: %v", err)
				}
				if c.Op == "reset" {
					r.run(&c)
				}
			}
		}
		return
	}

	rng := vu.Rand(14)
	menu := c14Menu()
	k := int(vu.Seed()) // rotates configurations / modes against the tables, seed dependent
	mk := func(cs ...c14Cont) *c14Case {
		c := &c14Case{Mark: "label", Mode: c14Modes[k%len(c14Modes)]}
		for i, cc := range cs {
			cc.Name = c14Name(i)
			c.Containers = append(c.Containers, cc)
		}
		c14Env(c, k/len(c14Modes))
		k++
		return c
	}

	// (a) one container: the whole menu under every configuration (BE by label)
	for _, a := range menu {
		for e := 0; e < c14NEnvs; e++ {
			c := mk(a)
			c14Env(c, e)
			r.run(c)
		}
	}
	// (b) two containers: all pairs of the menu, configuration and mode rotating (quick: a seed-dependent 1/17 sample)
	stride := 17
	if vu.Thorough() {
		stride = 1
	}
	off := int(vu.Seed()) % stride
	n := 0
	for _, a := range menu {
		for _, b := range menu {
			if n++; n%stride == off {
				r.run(mk(a, b))
			}
		}
	}
	// (c) pods that are not best-effort (annotation only, other QoS label, unmarked): must be left untouched
	for i, a := range menu {
		for _, mark := range c14Marks[1:] {
			c := mk(a, menu[(i*7+3)%len(menu)])
			c.Mark = mark
			r.run(c)
		}
	}
	// (e) pods in which one container declares no batch amount at all (e.g. a sidecar), next to every menu container,
	//     in both positions; plus three-container mixes
	none := c14Cont{Req: c14Absent, Lim: c14Absent, Mem: c14Absent}
	for i, a := range menu {
		if i%2 == 0 {
			r.run(mk(none, a))
		} else {
			r.run(mk(a, none))
		}
		if i%3 == int(vu.Seed())%3 {
			r.run(mk(a, none, menu[(i*11+5)%len(menu)]))
		}
	}
	// (f) rounding and minimum clamps: amounts around the 1000us quota floor / the 2-share floor and amounts whose
	//     scaled quota has a fraction of one third / two thirds, alone and in pairs, under every configuration
	edge := []int64{2, 3, 5, 9, 10, 11, 14, 15, 1001, 1499, 2000, 2501, 255999, 256000}
	for i, x := range edge {
		for e := 0; e < c14NEnvs; e++ {
			c := mk(c14Cont{Req: x, Lim: x, Mem: x})
			c14Env(c, e)
			r.run(c)
			y := edge[(i+1+e)%len(edge)]
			second := c14Cont{Req: y, Lim: y, Mem: c14Absent}
			if e%2 == 1 {
				second.Mem = y
			}
			c = mk(c14Cont{Req: x, Lim: x, Mem: x}, second)
			c14Env(c, e)
			r.run(c)
		}
	}
	// (d) seeded random: 1..6 containers, menu values mixed with arbitrary magnitudes, all markings
	nrand := 6000
	if vu.Thorough() {
		nrand = 150000
	}
	for i := 0; i < nrand; i++ {
		nc := 1 + rng.Intn(6)
		cs := make([]c14Cont, nc)
		allDeclared := rng.Intn(3) == 0 // a third of the pods: every container fully limited (pod-level sums are exercised)
		for j := range cs {
			cs[j] = c14Cont{Req: c14RandVal(rng, c14CPUMenu, 300000), Lim: c14RandVal(rng, c14CPUMenu, 300000),
				Mem: c14RandVal(rng, c14MemMenu, 1<<28)}
			if !allDeclared && rng.Intn(8) == 0 {
				cs[j] = none
			}
			if allDeclared {
				if cs[j].Lim <= 0 {
					cs[j].Lim = 1 + rng.Int63n(5000)
				}
				if cs[j].Mem <= 0 {
					cs[j].Mem = 1 + rng.Int63n(1<<20)
				}
			}
		}
		c := mk(cs...)
		c14Env(c, rng.Intn(c14NEnvs))
		if c.Cfs && rng.Intn(4) == 0 { // further ratios: below 1 (never scales), 1.25, 1.75, 3.0
			x := c14ExtraRatios[rng.Intn(len(c14ExtraRatios))]
			c.Rnum, c.Rden = x[0], x[1]
		}
		c.Mode = c14Modes[rng.Intn(len(c14Modes))]
		if rng.Intn(5) == 0 {
			c.Mark = c14Marks[1+rng.Intn(3)]
		}
		r.run(c)
	}
	keys := make([]string, 0, len(r.stats))
	for s := range r.stats {
		keys = append(keys, s)
	}
	sort.Strings(keys)
	line := ""
	for _, s := range keys {
		line += fmt.Sprintf(" %s=%d", s, r.stats[s])
	}
	t.Logf("C14: %d segments, %d events;%s", rec.Segments(), rec.Events(), line)
	fmt.Printf("C14-STATS:%s\n", line)
}
