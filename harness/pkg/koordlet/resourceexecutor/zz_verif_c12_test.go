package resourceexecutor

// Verification harness for C12 (injected by `go test -overlay`, see /verif/DESIGN.md, /verif/specs/CgroupTree).
// Executor + recorder only. It builds a cgroup subtree under a temp cgroup root, runs the REAL
// ResourceUpdateExecutorImpl.LeveledUpdateBatch on REAL updaters from DefaultCgroupUpdaterFactory, and logs after every
// individual updater call (MergeUpdate / update) the projection of ALL files of the subtree plus the files whose mtime
// moved during that call. Expected values are computed only by TLC (CgroupTreeTrace.tla). No oracle here.
//
// Environment the harness plays (nothing of it judges):
//   - the kernel's presentation of a value: after a call that wrote a file, the file content is put into the form a
//     kernel shows for the same value ("200000" in cpu.max reads back "200000 100000", "0,1" in cpuset.cpus reads back
//     "0-1", MaxInt64 in memory.high reads back "max"); the value itself is never changed;
//   - time: the forced periodic rewrite and the cache expiry are pushed out of reach, entries expire only by `expire`;
//   - a second caller of the same executor (begin with target2/at): after the at-th updater call of the batch it enters
//     LeveledUpdateBatch with its own batch for the same subtree. Whether it gets in is read off the executor's own lock
//     (TryLock, released at once): if the lock is held it waits, i.e. its batch runs when the first has returned; if not,
//     its batch runs right there, between two updater calls of the first one (one legal schedule of the two goroutines,
//     produced deterministically). Its begin/done are logged with second = true (and nested = true when it got in).

import (
	"encoding/json"
	"fmt"
	"math/rand"
	"os"
	"path/filepath"
	"sort"
	"strconv"
	"strings"
	"testing"
	"time"

	sysutil "github.com/koordinator-sh/koordinator/pkg/koordlet/util/system"
	"github.com/koordinator-sh/koordinator/pkg/util/cache"
	"github.com/koordinator-sh/koordinator/pkg/util/cpuset"
	vu "github.com/koordinator-sh/koordinator/pkg/verifutil"
)

const (
	c12Unl       = 99 // abstract "unlimited"
	c12QuotaUnit = 100000
	c12MemUnit   = 1048576
	c12MaxInt64  = "9223372036854775807"
)

var c12Sentinel = time.Unix(1000000000, 0)

type c12Op struct {
	Op     string          `json:"op"`
	Par    []int           `json:"par,omitempty"`
	Kind   string          `json:"kind,omitempty"` // "cpuset" | "limit"
	File   string          `json:"file,omitempty"` // cpuset.cpus | cpu.cfs_quota_us | memory.min | memory.low | memory.high
	Ver    int             `json:"ver,omitempty"`  // cgroup version 1 | 2
	Unit   int64           `json:"unit,omitempty"` // bytes per abstract unit of the memory files (1 MiB, or 1000: amounts that are no page multiples)
	Old    json.RawMessage `json:"old,omitempty"`
	Target json.RawMessage `json:"target,omitempty"`
	Spell  int             `json:"spell,omitempty"` // spelling of the target strings (0 canonical, 1 alternative), same value
	Order  []int           `json:"order,omitempty"` // order of the updaters inside their level (node ids); default ascending
	Nodes  []int           `json:"nodes,omitempty"`
	// begin: a second caller's batch for the same subtree, entering after the At-th updater call of this one
	Target2 json.RawMessage `json:"target2,omitempty"`
	Order2  []int           `json:"order2,omitempty"`
	At      int             `json:"at,omitempty"`
	Second  bool            `json:"second,omitempty"` // recorded begin of the second caller's batch: an output of the step above
}

// abstract value: cpuset = sorted cpu ids; limit = single number in L
type c12Val struct {
	Set []int
	L   int
}

func (v c12Val) json(kind string) interface{} {
	if kind == "cpuset" {
		if v.Set == nil {
			return []int{}
		}
		return v.Set
	}
	return v.L
}

func c12Decode(kind string, raw json.RawMessage) []c12Val {
	var out []c12Val
	if kind == "cpuset" {
		var a [][]int
		if err := json.Unmarshal(raw, &a); err != nil {
			panic(fmt.Sprintf("c12: bad cpuset assignment %s: %v", raw, err))
		}
		for _, s := range a {
			s = append([]int{}, s...)
			sort.Ints(s)
			out = append(out, c12Val{Set: s})
		}
		return out
	}
	var a []int
	if err := json.Unmarshal(raw, &a); err != nil {
		panic(fmt.Sprintf("c12: bad limit assignment %s: %v", raw, err))
	}
	for _, x := range a {
		out = append(out, c12Val{L: x})
	}
	return out
}

func c12Encode(kind string, a []c12Val) []interface{} {
	out := make([]interface{}, len(a))
	for i, v := range a {
		out[i] = v.json(kind)
	}
	return out
}

type c12Seg struct {
	t       *testing.T
	rec     *vu.Recorder
	par     []int
	kind    string
	file    string
	ver     int
	memUnit int64
	rtype   sysutil.ResourceType
	res     sysutil.Resource
	dirs    []string // node index (0-based) -> parentDir
	paths   []string // node index -> absolute file path
	exec    *ResourceUpdateExecutorImpl
	stop    chan struct{}
	stats   *c12Stats
	minus1  int
	// second caller waiting to enter (par)
	pend     *c12Op
	parAt    int
	parCalls int
	inSecond bool
}

type c12Stats struct {
	segs, rewrites, calls, writes, mergeWrites, exactWrites, sameNodes, shiftNodes, minus1InCPUMax int
	parSteps, parNested                                                                            int
}

// ---- projection of a file content onto the abstract value (field reads only; -1 / [-1] = not a value of the domain)
func (s *c12Seg) project(content string) c12Val {
	content = strings.Trim(content, "\n")
	switch s.file {
	case "cpuset.cpus":
		cs, err := cpuset.Parse(content)
		if err != nil {
			return c12Val{Set: []int{-1}}
		}
		l := cs.ToSlice()
		sort.Ints(l)
		return c12Val{Set: l}
	case "cpu.cfs_quota_us":
		f := content
		if s.ver == 2 { // cpu.max: "<quota|max> <period>"
			ff := strings.Fields(content)
			if len(ff) < 1 || len(ff) > 2 {
				return c12Val{L: -1}
			}
			f = ff[0]
			if f == "-1" {
				s.minus1++ // the reader of the code under test takes -1 as unlimited too (ParseCPUCFSQuotaV2 users)
			}
		}
		if f == "-1" || f == "max" {
			return c12Val{L: c12Unl}
		}
		return c12Scaled(f, c12QuotaUnit)
	default: // memory.min | memory.low | memory.high
		if content == "max" || content == c12MaxInt64 {
			return c12Val{L: c12Unl}
		}
		return c12Scaled(content, s.memUnit)
	}
}

func c12Scaled(f string, unit int64) c12Val {
	x, err := strconv.ParseInt(f, 10, 64)
	if err != nil || x < 0 || x%unit != 0 || x/unit >= c12Unl {
		return c12Val{L: -1}
	}
	return c12Val{L: int(x / unit)}
}

// ---- how a kernel shows the value
func (s *c12Seg) kernelForm(v c12Val) string {
	switch s.file {
	case "cpuset.cpus":
		return cpuset.NewCPUSet(v.Set...).String()
	case "cpu.cfs_quota_us":
		q := strconv.FormatInt(int64(v.L)*c12QuotaUnit, 10)
		if s.ver == 2 {
			if v.L == c12Unl {
				q = "max"
			}
			return q + " 100000"
		}
		if v.L == c12Unl {
			return "-1"
		}
		return q
	default:
		if v.L == c12Unl {
			return "max"
		}
		return strconv.FormatInt(int64(v.L)*s.memUnit, 10)
	}
}

// ---- the string a caller hands to the updater for the value
func (s *c12Seg) updaterValue(v c12Val, spell int) string {
	switch s.file {
	case "cpuset.cpus":
		if spell == 1 { // plain list "0,1,2" instead of ranges "0-2"
			ss := make([]string, len(v.Set))
			for i, c := range v.Set {
				ss[i] = strconv.Itoa(c)
			}
			return strings.Join(ss, ",")
		}
		return cpuset.NewCPUSet(v.Set...).String()
	case "cpu.cfs_quota_us":
		if v.L == c12Unl {
			return "-1"
		}
		return strconv.FormatInt(int64(v.L)*c12QuotaUnit, 10)
	default:
		if v.L == c12Unl {
			if spell == 1 {
				return "max"
			}
			return c12MaxInt64 // what cgreconcile writes for "no memory.high"
		}
		return strconv.FormatInt(int64(v.L)*s.memUnit, 10)
	}
}

func c12Depth(par []int, n int) int { // n is 1-based
	d := 1
	for par[n-1] != 0 {
		n = par[n-1]
		d++
	}
	return d
}

func (s *c12Seg) read(i int) string {
	b, err := os.ReadFile(s.paths[i])
	if err != nil {
		s.t.Fatalf("c12: read %s: %v", s.paths[i], err)
	}
	return string(b)
}

func (s *c12Seg) put(i int, content string) {
	if err := os.WriteFile(s.paths[i], []byte(content), 0644); err != nil {
		s.t.Fatalf("c12: write %s: %v", s.paths[i], err)
	}
	s.arm(i)
}

func (s *c12Seg) arm(i int) {
	if err := os.Chtimes(s.paths[i], c12Sentinel, c12Sentinel); err != nil {
		s.t.Fatal(err)
	}
}

func (s *c12Seg) snapshot() []c12Val {
	out := make([]c12Val, len(s.par))
	for i := range s.par {
		out[i] = s.project(s.read(i))
	}
	return out
}

// observation point: right after ONE updater call of the real code returned
func (s *c12Seg) afterCall(node int, pass string, err error) {
	written := []int{}
	for i := range s.par {
		st, e := os.Stat(s.paths[i])
		if e != nil {
			s.t.Fatal(e)
		}
		if !st.ModTime().Equal(c12Sentinel) {
			written = append(written, i+1)
		}
	}
	if len(written) > 1 {
		s.t.Fatalf("c12: %d files written inside one updater call (%v): per-write observation impossible", len(written), written)
	}
	files := s.snapshot()
	ev := vu.Ev{"op": "call", "node": node, "pass": pass, "written": written, "files": c12Encode(s.kind, files), "err": err != nil}
	s.rec.Emit(ev)
	s.stats.calls++
	s.stats.writes += len(written)
	if len(written) > 0 {
		if pass == "merge" {
			s.stats.mergeWrites++
		} else {
			s.stats.exactWrites++
		}
	}
	for _, n := range written { // kernel presentation of what was just written (value untouched)
		v := files[n-1]
		if (s.kind == "limit" && v.L >= 0) || (s.kind == "cpuset" && !(len(v.Set) == 1 && v.Set[0] == -1)) {
			if k := s.kernelForm(v); k != strings.Trim(s.read(n-1), "\n") {
				s.put(n-1, k)
			}
		}
		s.arm(n - 1)
	}
	// the second caller arrives now
	if s.pend != nil && !s.inSecond {
		s.parCalls++
		if s.parCalls == s.parAt && s.exec.LeveledUpdateLock.TryLock() {
			s.exec.LeveledUpdateLock.Unlock() // nobody holds the executor's batch lock: it gets in right here
			p := *s.pend
			s.pend = nil
			s.inSecond = true
			s.rewrite(p, true, true)
			s.inSecond = false
			s.stats.parNested++
		}
	}
}

func (s *c12Seg) reset(o c12Op, idx int, seed int64) {
	if o.File == "" { // scripts from TLC carry the abstract kind only: pick file/version/spelling (rotating with the seed)
		k := idx + int(seed)
		if o.Kind == "cpuset" {
			o.File = "cpuset.cpus"
			o.Ver = 1 + k%2
		} else {
			files := []string{"cpu.cfs_quota_us", "memory.min", "memory.low", "memory.high"}
			o.File = files[k%4]
			o.Ver = 1 + (k/4)%2
		}
	}
	if o.Ver != 1 && o.Ver != 2 {
		o.Ver = 1
	}
	if o.Unit <= 0 { // memory amounts: every third segment in steps of 1000 bytes (neighbouring values closer than a page)
		o.Unit = c12MemUnit
		if (idx+int(seed))%3 == 0 {
			o.Unit = 1000
		}
	}
	s.par, s.kind, s.file, s.ver, s.memUnit = o.Par, o.Kind, o.File, o.Ver, o.Unit
	sysutil.UseCgroupsV2.Store(s.ver == 2)
	s.rtype = sysutil.ResourceType(s.file)
	r, err := sysutil.GetCgroupResource(s.rtype)
	if err != nil {
		s.t.Fatal(err)
	}
	s.res = r
	old := c12Decode(s.kind, o.Old)
	if len(old) != len(s.par) {
		s.t.Fatalf("c12: old has %d values for %d nodes", len(old), len(s.par))
	}
	s.dirs = make([]string, len(s.par))
	s.paths = make([]string, len(s.par))
	for i := range s.par {
		if s.par[i] == 0 {
			s.dirs[i] = fmt.Sprintf("kubepods.slice/c12-%d", i+1)
		} else {
			s.dirs[i] = filepath.Join(s.dirs[s.par[i]-1], fmt.Sprintf("n%d", i+1))
		}
		s.paths[i] = r.Path(s.dirs[i])
		if err := os.MkdirAll(filepath.Dir(s.paths[i]), 0777); err != nil {
			s.t.Fatal(err)
		}
		s.put(i, s.kernelForm(old[i]))
	}
	// a fresh executor (cold cache); nothing in it may depend on the wall clock during a segment
	s.exec = &ResourceUpdateExecutorImpl{
		ResourceCache: cache.NewCache(100000*time.Hour, 100000*time.Hour),
		Config:        &Config{ResourceForceUpdateSeconds: 1 << 30},
	}
	s.stop = make(chan struct{})
	s.exec.Run(s.stop)
	s.rec.Reset(vu.Ev{"driver": "leveled", "par": s.par, "kind": s.kind, "file": s.file, "ver": s.ver, "unit": s.memUnit,
		"old": c12Encode(s.kind, s.snapshot())})
	s.stats.segs++
}

func (s *c12Seg) begin(o c12Op) {
	if o.Second {
		return // recorded output of a par step (replay)
	}
	if len(o.Target2) > 0 {
		if len(o.Order2) != len(s.par) {
			o.Order2 = make([]int, len(s.par))
			for i := range o.Order2 {
				o.Order2[i] = i + 1
			}
		}
		s.pend = &c12Op{Op: "begin", Target: o.Target2, Order: o.Order2, Spell: o.Spell}
		s.parAt, s.parCalls = o.At, 0
		s.stats.parSteps++
	}
	s.rewrite(o, false, false)
	if s.pend != nil { // the second caller had to wait (or arrives after the last call): its batch is the next rewrite
		p := *s.pend
		s.pend = nil
		s.inSecond = true
		s.rewrite(p, true, false)
		s.inSecond = false
	}
}

func (s *c12Seg) rewrite(o c12Op, second, nested bool) {
	target := c12Decode(s.kind, o.Target)
	if len(target) != len(s.par) {
		s.t.Fatalf("c12: target has %d values for %d nodes", len(target), len(s.par))
	}
	order := o.Order
	if len(order) != len(s.par) {
		order = make([]int, len(s.par))
		for i := range order {
			order[i] = i + 1
		}
	}
	cur := s.snapshot()
	for i := range s.par { // counters for the vacuity report only
		if fmt.Sprint(cur[i]) == fmt.Sprint(target[i]) {
			s.stats.sameNodes++
		} else if s.kind == "cpuset" && !c12Subset(cur[i].Set, target[i].Set) && !c12Subset(target[i].Set, cur[i].Set) {
			s.stats.shiftNodes++
		}
	}
	levels := make([][]ResourceUpdater, 3)
	for _, n := range order {
		u, err := DefaultCgroupUpdaterFactory.New(s.rtype, s.dirs[n-1], s.updaterValue(target[n-1], o.Spell), nil)
		if err != nil {
			s.t.Fatal(err)
		}
		cu := u.(*CgroupResourceUpdater)
		node, origUpdate, origMerge := n, cu.updateFunc, cu.mergeUpdateFunc
		cu.updateFunc = func(r ResourceUpdater) error { // the real function, then the observation
			err := origUpdate(r)
			s.afterCall(node, "update", err)
			return err
		}
		if origMerge != nil {
			cu.mergeUpdateFunc = func(r ResourceUpdater) (ResourceUpdater, error) {
				m, err := origMerge(r)
				s.afterCall(node, "merge", err)
				return m, err
			}
		}
		d := c12Depth(s.par, n)
		levels[d-1] = append(levels[d-1], cu)
	}
	ev := vu.Ev{"op": "begin", "target": c12Encode(s.kind, target), "spell": o.Spell, "order": order}
	if len(o.Target2) > 0 {
		ev["target2"], ev["order2"], ev["at"] = c12Encode(s.kind, c12Decode(s.kind, o.Target2)), o.Order2, o.At
	}
	if second {
		ev["second"], ev["nested"] = true, nested
	}
	s.rec.Emit(ev)
	s.exec.LeveledUpdateBatch(levels)
	ev = vu.Ev{"op": "done", "files": c12Encode(s.kind, s.snapshot())}
	if second {
		ev["second"], ev["nested"] = true, nested
	}
	s.rec.Emit(ev)
	s.stats.rewrites++
}

func (s *c12Seg) expire(o c12Op) {
	for _, n := range o.Nodes {
		// an entry whose expiration time has passed is what the real cache holds after defaultExpiration
		if err := s.exec.ResourceCache.Set(s.paths[n-1], nil, -time.Hour); err != nil {
			s.t.Fatal(err)
		}
	}
	nodes := o.Nodes
	if nodes == nil {
		nodes = []int{}
	}
	s.rec.Emit(vu.Ev{"op": "expire", "nodes": nodes})
}

func (s *c12Seg) close() {
	if s.stop != nil {
		close(s.stop)
		s.stop = nil
	}
	s.stats.minus1InCPUMax += s.minus1
}

func c12Subset(a, b []int) bool {
	m := map[int]bool{}
	for _, x := range b {
		m[x] = true
	}
	for _, x := range a {
		if !m[x] {
			return false
		}
	}
	return true
}

func c12Run(t *testing.T, rec *vu.Recorder, stats *c12Stats, script []c12Op, idx int) {
	s := &c12Seg{t: t, rec: rec, stats: stats}
	defer s.close()
	for _, o := range script {
		switch o.Op {
		case "reset":
			if s.exec != nil {
				t.Fatal("c12: second reset inside one script")
			}
			s.reset(o, idx, vu.Seed())
		case "begin":
			s.begin(o)
		case "expire":
			s.expire(o)
		case "call", "done": // recorded outputs of an earlier run (replay): not inputs
		default:
			t.Fatalf("c12: unknown op %q", o.Op)
		}
	}
}

// ---------------------------------------------------------------- seeded random inputs (generation only, no judging)

func c12RandTree(rng *rand.Rand, maxNodes int) []int {
	for {
		n := 1 + rng.Intn(maxNodes)
		par := make([]int, n)
		ok := true
		for i := 1; i < n; i++ {
			par[i] = 1 + rng.Intn(i)
			if c12Depth(par[:i+1], i+1) > 3 {
				ok = false
			}
		}
		if ok {
			return par
		}
	}
}

func c12RandBelow(rng *rand.Rand, kind string, parent *c12Val, ncpu int, lims []int) c12Val {
	if kind == "cpuset" {
		var s []int
		if parent == nil {
			for c := 0; c < ncpu; c++ {
				if rng.Intn(3) > 0 {
					s = append(s, c)
				}
			}
		} else {
			for _, c := range parent.Set {
				if rng.Intn(4) > 0 {
					s = append(s, c)
				}
			}
		}
		return c12Val{Set: s}
	}
	var cand []int
	for _, l := range lims {
		if parent == nil || l <= parent.L {
			cand = append(cand, l)
		}
	}
	return c12Val{L: cand[rng.Intn(len(cand))]}
}

func c12Leq(kind string, a, b c12Val) bool {
	if kind == "cpuset" {
		return c12Subset(a.Set, b.Set)
	}
	return a.L <= b.L
}

// a hierarchy-valid assignment, drawn top-down; `near` (may be nil) is kept per node with probability 1/3 where it fits,
// so unchanged files, partial shrinks and partial growths are all frequent
func c12RandAssign(rng *rand.Rand, par []int, kind string, ncpu int, lims []int, near []c12Val) []c12Val {
	out := make([]c12Val, len(par))
	for i := range par {
		var p *c12Val
		if par[i] != 0 {
			p = &out[par[i]-1]
		}
		if near != nil && rng.Intn(3) == 0 && (p == nil || c12Leq(kind, near[i], *p)) {
			out[i] = near[i]
			continue
		}
		out[i] = c12RandBelow(rng, kind, p, ncpu, lims)
	}
	return out
}

func c12Raw(kind string, a []c12Val) json.RawMessage {
	b, _ := json.Marshal(c12Encode(kind, a))
	return b
}

func c12Random(rng *rand.Rand) []c12Op {
	par := c12RandTree(rng, 4)
	combos := []struct {
		kind, file string
	}{{"cpuset", "cpuset.cpus"}, {"cpuset", "cpuset.cpus"}, {"limit", "cpu.cfs_quota_us"}, {"limit", "memory.min"},
		{"limit", "memory.low"}, {"limit", "memory.high"}}
	c := combos[rng.Intn(len(combos))]
	lims := []int{1, 2, 3, c12Unl}
	if strings.HasPrefix(c.file, "memory.") {
		lims = []int{0, 1, 2, 3, c12Unl}
	}
	old := c12RandAssign(rng, par, c.kind, 4, lims, nil)
	script := []c12Op{{Op: "reset", Par: par, Kind: c.kind, File: c.file, Ver: 1 + rng.Intn(2), Old: c12Raw(c.kind, old)}}
	prev := old
	for r, nr := 0, 1+rng.Intn(3); r < nr; r++ {
		tgt := c12RandAssign(rng, par, c.kind, 4, lims, prev)
		order := rng.Perm(len(par))
		for i := range order {
			order[i]++
		}
		script = append(script, c12Op{Op: "begin", Target: c12Raw(c.kind, tgt), Spell: rng.Intn(2), Order: order})
		prev = tgt
		if r+1 < nr && rng.Intn(2) == 0 {
			var nodes []int
			for i := range par {
				if rng.Intn(2) == 0 {
					nodes = append(nodes, i+1)
				}
			}
			script = append(script, c12Op{Op: "expire", Nodes: nodes})
		}
	}
	return script
}

// two callers of the executor on one subtree: batch towards A, a second caller with batch B arriving after the at-th updater call
func c12RandomPar(rng *rand.Rand) []c12Op {
	par := c12RandTree(rng, 4)
	for len(par) < 2 {
		par = c12RandTree(rng, 4)
	}
	combos := []struct {
		kind, file string
	}{{"cpuset", "cpuset.cpus"}, {"limit", "cpu.cfs_quota_us"}, {"limit", "memory.min"}, {"limit", "memory.low"}, {"limit", "memory.high"}}
	c := combos[rng.Intn(len(combos))]
	lims := []int{1, 2, 3, c12Unl}
	if strings.HasPrefix(c.file, "memory.") {
		lims = []int{0, 1, 2, 3, c12Unl}
	}
	old := c12RandAssign(rng, par, c.kind, 4, lims, nil)
	a := c12RandAssign(rng, par, c.kind, 4, lims, nil)
	b := c12RandAssign(rng, par, c.kind, 4, lims, old)
	perm := func() []int {
		o := rng.Perm(len(par))
		for i := range o {
			o[i]++
		}
		return o
	}
	return []c12Op{{Op: "reset", Par: par, Kind: c.kind, File: c.file, Ver: 1 + rng.Intn(2), Old: c12Raw(c.kind, old)},
		{Op: "begin", Target: c12Raw(c.kind, a), Spell: rng.Intn(2), Order: perm(), Target2: c12Raw(c.kind, b), Order2: perm(), At: 1 + rng.Intn(2*len(par))}}
}

func c12SelfTest(t *testing.T, dir string) {
	// the write detector must see a rewrite with identical content, and an empty write to an empty file
	p := filepath.Join(dir, "c12-selftest")
	for _, content := range []string{"0-1", ""} {
		if err := os.WriteFile(p, []byte(content), 0644); err != nil {
			t.Fatal(err)
		}
		if err := os.Chtimes(p, c12Sentinel, c12Sentinel); err != nil {
			t.Fatal(err)
		}
		st, _ := os.Stat(p)
		if !st.ModTime().Equal(c12Sentinel) {
			t.Fatal("c12: cannot arm mtime sentinel")
		}
		if err := os.WriteFile(p, []byte(content), 0644); err != nil {
			t.Fatal(err)
		}
		st, _ = os.Stat(p)
		if st.ModTime().Equal(c12Sentinel) {
			t.Fatalf("c12: a rewrite with identical content %q is invisible to the mtime detector on this filesystem", content)
		}
	}
}

func TestVerifC12(t *testing.T) {
	if !vu.Enabled() {
		t.Skip("verification harness: VERIF_OUT not set")
	}
	helper := sysutil.NewFileTestUtil(t)
	defer helper.Cleanup()
	helper.SetResourcesSupported(true, sysutil.MemoryMin, sysutil.MemoryLow, sysutil.MemoryHigh)
	root := helper.TempDir
	// truncating writes cost ~2ms each on the disk-backed /tmp of this image: keep the mock cgroup root in memory
	if d, err := os.MkdirTemp("/dev/shm", "verif-c12-"); err == nil {
		defer os.RemoveAll(d)
		root = d
		sysutil.Conf.CgroupRootDir = d
	}
	c12SelfTest(t, root)
	rec := vu.NewRecorder("")
	defer rec.Close()
	stats := &c12Stats{}
	path := vu.ScriptPath()
	if vu.ReplayPath() != "" {
		path = vu.ReplayPath()
	}
	idx := 0
	for _, raw := range vu.ReadScripts(path) {
		var script []c12Op
		if err := json.Unmarshal(raw, &script); err != nil {
			t.Fatal(err)
		}
		if len(script) == 0 || script[0].Op != "reset" {
			t.Fatalf("c12: script does not start with reset: %s", raw)
		}
		if vu.ReplayPath() == "" && vu.Thorough() && script[0].File == "" {
			// thorough: every TLC-generated case on both cgroup versions (and limits on two of the four files)
			for k := 0; k < 2; k++ {
				c12Run(t, rec, stats, script, idx+k*5)
			}
			idx++
			continue
		}
		c12Run(t, rec, stats, script, idx)
		idx++
	}
	if vu.ReplayPath() == "" {
		n := vu.EnvInt("VERIF_C12_RANDOM", 1500)
		if vu.Thorough() {
			n = vu.EnvInt("VERIF_C12_RANDOM", 20000)
		}
		rng := vu.Rand(12)
		for i := 0; i < n; i++ {
			c12Run(t, rec, stats, c12Random(rng), i)
		}
		rngp := vu.Rand(1204)
		for i := 0; i < n/4; i++ {
			c12Run(t, rec, stats, c12RandomPar(rngp), i)
		}
		// vacuity is judged on the INPUTS only (unchanged files, shifting cpusets, updater calls made at all): what the
		// code wrote is for TLC to judge, a code defect must never turn into a "vacuous run"
		if stats.sameNodes == 0 || stats.shiftNodes == 0 || stats.calls == 0 || stats.parSteps == 0 {
			t.Fatalf("c12: vacuous run %+v", *stats)
		}
	}
	if rec.Segments() == 0 {
		t.Fatal("c12: no segment recorded")
	}
	t.Logf("C12 leveled: %d segments, %d events; %+v", rec.Segments(), rec.Events(), *stats)
	fmt.Printf("C12-STATS leveled segments=%d events=%d %+v\n", rec.Segments(), rec.Events(), *stats)
}
