package cpuevict

// Verification harness for C11, cpu strategies (injected by `go test -overlay`; see
// /verif/specs/Evict/Evict.tla; twin of the memoryevict harness).  Executor + recorder only.  For a generated node / pod set it
// builds the eviction tasks with the REAL strategy code (buildEvictTask: release target computation,
// eligibility filter, sorting, per-pod release function), hands them to the REAL
// qosmanagerUtil.KillAndEvictPods with a recording EvictionExecutor and logs
//   reset  {in: generator output (replay script), pods: name -> attributes as set on the pod object / in the metric
//           cache, usedRes + unit (resource and scale of the usage target),
//           tasks: [{feature, kind, thr, tt, need, list (real sorted candidates), c (the code's own per-pod credit)}]}
//   seen / evict / ret   as in the util harness.
// What a victim releases is computed by TLC from the pod attributes (usage sample, declared request) - the `c`
// figures are the code's own credit, logged for the reader only (they are NOT trusted: a candidate whose info object
// lacks the usage is still a pod that frees its usage).
//
// Round mode (in.rounds non-empty): the same world is driven through the REAL entry point cpuEvict() with the REAL
// DefaultEvictionExecutor / Evictor on a fake API server, for several rounds, feature gates set per case:
//   reset  {in, mode:"rounds", pods, usedRes, unit, tasks: []}
//   round  {present: pods still there, tasks: the tasks the real buildEvictTask builds for this state (observed by a
//           build of our own right before the round: targets and candidate lists are inputs of the property)}
//   seen / evict   what the loop asks of the real executor, with the real answers
//   end    cpuEvict() returned
// Between rounds the harness plays the API server / kubelet: a pod whose eviction was accepted gets a
// deletionTimestamp (unless the informer lags: attribute lag) and stays for `linger` more rounds, still using what it
// used.  Whether a pod counts as already evicted is derived by TLC from the history, not told by the harness.
// No oracle here: eligibility, order and minimality are decided by TLC from the attributes.

import (
	"encoding/json"
	"errors"
	"io"
	"math/rand"
	"reflect"
	"sort"
	"strconv"
	"strings"
	"testing"
	"time"

	promstorage "github.com/prometheus/prometheus/storage"
	corev1 "k8s.io/api/core/v1"
	policyv1 "k8s.io/api/policy/v1"
	"k8s.io/apimachinery/pkg/api/resource"
	metav1 "k8s.io/apimachinery/pkg/apis/meta/v1"
	"k8s.io/apimachinery/pkg/runtime"
	"k8s.io/apimachinery/pkg/types"
	clientsetfake "k8s.io/client-go/kubernetes/fake"
	clienttesting "k8s.io/client-go/testing"
	"k8s.io/component-base/featuregate"
	"k8s.io/klog/v2"
	"k8s.io/utils/ptr"

	slov1alpha1 "github.com/koordinator-sh/koordinator/apis/slo/v1alpha1"
	"github.com/koordinator-sh/koordinator/pkg/features"
	"github.com/koordinator-sh/koordinator/pkg/koordlet/metriccache"
	qosmanagerUtil "github.com/koordinator-sh/koordinator/pkg/koordlet/qosmanager/plugins/util"
	"github.com/koordinator-sh/koordinator/pkg/koordlet/statesinformer"
	vu "github.com/koordinator-sh/koordinator/pkg/verifutil"
)

type c11Pod struct {
	Name       string   `json:"name"`
	QoS        string   `json:"qos"`
	Prio       int32    `json:"prio"`
	EvictLabel string   `json:"evictLabel"` // value of koordinator.sh/eviction-enabled ("" = no label)
	HasPolicy  bool     `json:"hasPolicy"`
	Policy     []string `json:"policy"` // koordinator.sh/eviction-policy
	HasEp      bool     `json:"hasEp"`
	Ep         int32    `json:"ep"` // koordinator.sh/eviction-priority
	HasLp      bool     `json:"hasLp"`
	Lp         int64    `json:"lp"` // koordinator.sh/priority
	HasMetric  bool     `json:"hasMetric"`
	Used       int64    `json:"used"`   // pod cpu usage metric (whole cores)
	Req        int64    `json:"req"`    // request (milli) in the cpu resource of the pod's priority class
	BReq       int64    `json:"breq"`   // the part of it that is a batch-cpu request (what the best-effort strategy looks at)
	ReqRes     string   `json:"reqRes"` // the resource name the request is declared under
	Already    bool     `json:"already"`
	Term       bool     `json:"term"` // the pod object carries a deletionTimestamp (an already-evicted pod that is terminating)
	Fails      bool     `json:"fails"`
	Linger     int      `json:"linger"` // round mode: rounds the pod stays present after its eviction was accepted
	Lag        bool     `json:"lag"`    // round mode: ... and the informer does not show its deletionTimestamp yet
}

type c11In struct {
	Pods       []c11Pod `json:"pods"`
	Features   []string `json:"features"` // in trigger order
	NodeUsed   int64    `json:"nodeUsed"` // node cpu usage metric (whole cores; capacity is 100 cores)
	EvictTh    int64    `json:"evictTh"`  // CPUEvictThresholdPercent
	EvictLo    int64    `json:"evictLo"`  // CPUEvictLowerPercent
	PrioThr    int32    `json:"prioThr"`  // EvictEnabledPriorityThreshold
	AllocThr   int32    `json:"allocThr"` // AllocatableEvictPriorityThreshold
	AllocTh    int64    `json:"allocTh"`  // CPUAllocatableEvictThresholdPercent
	AllocLo    int64    `json:"allocLo"`  // CPUAllocatableEvictLowerPercent
	AllocBatch int64    `json:"allocBatch"`
	AllocMid   int64    `json:"allocMid"` // node allocatable batch-cpu / mid-cpu (-1 = not reported)
	BEUsage    int64    `json:"beUsage"`  // node BE cpu metrics (milli): usage, request, real limit
	BERequest  int64    `json:"beRequest"`
	BELimit    int64    `json:"beLimit"`
	SatLo      int64    `json:"satLo"`            // CPUEvictBESatisfactionLowerPercent
	SatUp      int64    `json:"satUp"`            // CPUEvictBESatisfactionUpperPercent
	Rounds     []int64  `json:"rounds,omitempty"` // round mode: node cpu usage of each round of the real cpuEvict()
}

// ---- fakes for the informer and the metric cache (table lookups only)
type c11Informer struct {
	statesinformer.StatesInformer
	pods []*statesinformer.PodMeta
	node *corev1.Node
	slo  *slov1alpha1.NodeSLO
}

func (i *c11Informer) GetAllPods() []*statesinformer.PodMeta { return i.pods }
func (i *c11Informer) GetNode() *corev1.Node                 { return i.node }
func (i *c11Informer) GetNodeSLO() *slov1alpha1.NodeSLO      { return i.slo }

type c11Result struct {
	meta metriccache.MetricMeta
	val  float64
	n    int
}

func (r *c11Result) GetKind() string                    { return r.meta.GetKind() }
func (r *c11Result) GetProperties() map[string]string   { return r.meta.GetProperties() }
func (r *c11Result) AddSeries(promstorage.Series) error { return nil }
func (r *c11Result) Count() int                         { return r.n }
func (r *c11Result) TimeRangeDuration() time.Duration   { return time.Second }
func (r *c11Result) Value(metriccache.AggregationType) (float64, error) {
	if r.n == 0 {
		return 0, io.ErrUnexpectedEOF
	}
	return r.val, nil
}

type c11Factory struct{}

func (c11Factory) New(meta metriccache.MetricMeta) metriccache.AggregateResult {
	return &c11Result{meta: meta}
}

func c11Key(meta metriccache.MetricMeta) string {
	props := meta.GetProperties()
	var ks []string
	for k := range props {
		ks = append(ks, k)
	}
	sort.Strings(ks)
	key := meta.GetKind()
	for _, k := range ks {
		key += "|" + k + "=" + props[k]
	}
	return key
}

type c11Querier struct{ vals map[string]float64 }

func (q *c11Querier) Query(meta metriccache.MetricMeta, _ *metriccache.QueryHints, result metriccache.MetricResult) error {
	if v, ok := q.vals[c11Key(meta)]; ok {
		r := result.(*c11Result)
		r.val, r.n = v, 1
	}
	return nil
}
func (q *c11Querier) QueryAndClose(meta metriccache.MetricMeta, h *metriccache.QueryHints, result metriccache.MetricResult) error {
	return q.Query(meta, h, result)
}
func (q *c11Querier) Close() {}

type c11Cache struct {
	metriccache.MetricCache
	q *c11Querier
}

func (c *c11Cache) Querier(_, _ time.Time) (metriccache.Querier, error) { return c.q, nil }

// ---- recording executor
type c11Exec struct {
	rec   *vu.Recorder
	pods  map[string]c11Pod
	tasks map[string]int
}

func (e *c11Exec) IsPodEvicted(pod *corev1.Pod) bool {
	a := e.pods[pod.Name].Already
	if a {
		e.rec.Emit(vu.Ev{"op": "seen", "pod": pod.Name})
	}
	return a
}

func (e *c11Exec) Evict(pod *corev1.Pod, node *corev1.Node, releaseReason string, message string) bool {
	// the loop names the task it acts for in the message ("<task reason>, kill pod: <name>")
	ti := 0
	for reason, i := range e.tasks {
		if strings.Contains(message, reason) {
			ti = i
		}
	}
	if ti == 0 {
		c11Unattributed++ // cannot tell the task: a harness limitation, reported as machinery trouble, never judged
	}
	ok := !e.pods[pod.Name].Fails
	e.rec.Emit(vu.Ev{"op": "evict", "pod": pod.Name, "task": ti, "ok": ok})
	return ok
}

var c11Unattributed int

// ---- building the real objects
func c11CPURes(prio int32, milli int64) (corev1.ResourceName, resource.Quantity) {
	switch {
	case prio >= 5000 && prio <= 5999:
		return "kubernetes.io/batch-cpu", *resource.NewQuantity(milli, resource.DecimalSI)
	case prio >= 7000 && prio <= 7999:
		return "kubernetes.io/mid-cpu", *resource.NewQuantity(milli, resource.DecimalSI)
	}
	return corev1.ResourceCPU, *resource.NewMilliQuantity(milli, resource.DecimalSI)
}

func c11BuildPod(p c11Pod) *corev1.Pod {
	rn, rq := c11CPURes(p.Prio, p.Req)
	pod := &corev1.Pod{
		TypeMeta: metav1.TypeMeta{Kind: "Pod"},
		ObjectMeta: metav1.ObjectMeta{Name: p.Name, Namespace: "default", UID: types.UID(p.Name),
			Labels: map[string]string{}, Annotations: map[string]string{}},
		Spec: corev1.PodSpec{
			Priority: ptr.To[int32](p.Prio),
			Containers: []corev1.Container{{Name: "main", Resources: corev1.ResourceRequirements{
				Requests: corev1.ResourceList{rn: rq},
				Limits:   corev1.ResourceList{rn: rq},
			}}},
		},
		Status: corev1.PodStatus{Phase: corev1.PodRunning},
	}
	if p.QoS != "" {
		pod.Labels["koordinator.sh/qosClass"] = p.QoS
	}
	if p.EvictLabel != "" {
		pod.Labels["koordinator.sh/eviction-enabled"] = p.EvictLabel
	}
	if p.HasLp {
		pod.Labels["koordinator.sh/priority"] = strconv.FormatInt(p.Lp, 10)
	}
	if p.HasPolicy {
		pl := p.Policy
		if pl == nil {
			pl = []string{}
		}
		b, _ := json.Marshal(pl)
		pod.Annotations["koordinator.sh/eviction-policy"] = string(b)
	}
	if p.HasEp {
		pod.Annotations["koordinator.sh/eviction-priority"] = strconv.FormatInt(int64(p.Ep), 10)
	}
	if p.Term {
		c11Terminating(pod)
	}
	return pod
}

// the API server accepted the deletion of the pod: it is terminating (still running, still holding its resources)
func c11Terminating(pod *corev1.Pod) {
	ts := metav1.NewTime(time.Unix(1700000000, 0))
	pod.DeletionTimestamp = &ts
	pod.DeletionGracePeriodSeconds = ptr.To[int64](30)
}

func c11RLObs(rl corev1.ResourceList) map[string]int64 {
	m := map[string]int64{}
	for r, q := range rl {
		if r == corev1.ResourceCPU {
			m[string(r)] = q.MilliValue()
		} else {
			m[string(r)] = q.Value()
		}
	}
	return m
}

type taskObs struct {
	task    *qosmanagerUtil.EvictTaskInfo
	feature string
	thr     int32
}

// run the real loop, log the returned ReleaseList (field reads only)
func c11Kill(rec *vu.Recorder, ex qosmanagerUtil.EvictionExecutor, node *corev1.Node, tasks []*qosmanagerUtil.EvictTaskInfo) {
	var released qosmanagerUtil.ReleaseList
	var newly bool
	if panicked, msg := vu.Protect(func() { released, newly = qosmanagerUtil.KillAndEvictPods(ex, node, tasks) }); panicked {
		rec.Emit(vu.Ev{"op": "panic", "msg": msg})
		return
	}
	out := map[string]map[string]int64{}
	for t, l := range released {
		out[string(t)] = c11RLObs(l)
	}
	rec.Emit(vu.Ev{"op": "ret", "released": out, "newly": newly})
}

var c11Kinds = map[string]string{
	string(features.BECPUEvict):          "be_cpu",
	string(features.CPUEvict):            "prio_used",
	string(features.CPUAllocatableEvict): "prio_req",
}

// trigger order of cpuEvict()
var c11Trigger = []string{string(features.BECPUEvict), string(features.CPUAllocatableEvict), string(features.CPUEvict)}

// the generated world as real objects
type c11World struct {
	in        *c11In
	podAttr   map[string]interface{}
	podByName map[string]c11Pod
	pods      []*corev1.Pod
	vals      map[string]float64
	nodeKey   string
	node      *corev1.Node
	slo       *slov1alpha1.NodeSLO
	inf       *c11Informer
	m         *cpuEvictor
}

func c11Build(in *c11In, rounds bool) *c11World {
	w := &c11World{in: in, podAttr: map[string]interface{}{}, podByName: map[string]c11Pod{}, vals: map[string]float64{}}
	nodeMeta, _ := metriccache.NodeCPUUsageMetric.BuildQueryMeta(nil)
	w.nodeKey = c11Key(nodeMeta)
	w.vals[w.nodeKey] = float64(in.NodeUsed)
	for alloc, v := range map[metriccache.MetricPropertyValue]int64{metriccache.BEResourceAllocationUsage: in.BEUsage,
		metriccache.BEResourceAllocationRequest: in.BERequest, metriccache.BEResourceAllocationRealLimit: in.BELimit} {
		meta, _ := metriccache.NodeBEMetric.BuildQueryMeta(metriccache.MetricPropertiesFunc.NodeBE(string(metriccache.BEResourceCPU), string(alloc)))
		w.vals[c11Key(meta)] = float64(v)
	}
	for i := range in.Pods {
		p := in.Pods[i]
		if p.Policy == nil {
			p.Policy = []string{}
		}
		if !p.HasMetric {
			p.Used = 0
		}
		p.BReq = 0
		if p.Prio >= 5000 && p.Prio <= 5999 {
			p.BReq = p.Req
		}
		rn, _ := c11CPURes(p.Prio, p.Req)
		p.ReqRes = string(rn)
		if rounds {
			p.Already, p.Term = false, false // history decides
		} else {
			p.Linger, p.Lag = 0, false
			if !p.Already {
				p.Term = false
			}
		}
		in.Pods[i] = p
		w.podByName[p.Name] = p
		w.pods = append(w.pods, c11BuildPod(p))
		w.podAttr[p.Name] = p
		if p.HasMetric {
			meta, _ := metriccache.PodCPUUsageMetric.BuildQueryMeta(metriccache.MetricPropertiesFunc.Pod(p.Name))
			w.vals[c11Key(meta)] = float64(p.Used)
		}
	}
	w.node = &corev1.Node{ObjectMeta: metav1.ObjectMeta{Name: "c11-node"}, Status: corev1.NodeStatus{
		Capacity:    corev1.ResourceList{corev1.ResourceCPU: resource.MustParse("100"), corev1.ResourceMemory: resource.MustParse("100Gi")},
		Allocatable: corev1.ResourceList{corev1.ResourceCPU: resource.MustParse("100"), corev1.ResourceMemory: resource.MustParse("100Gi")},
	}}
	if in.AllocBatch >= 0 {
		w.node.Status.Allocatable["kubernetes.io/batch-cpu"] = *resource.NewQuantity(in.AllocBatch, resource.DecimalSI)
	}
	if in.AllocMid >= 0 {
		w.node.Status.Allocatable["kubernetes.io/mid-cpu"] = *resource.NewQuantity(in.AllocMid, resource.DecimalSI)
	}
	cfg := &slov1alpha1.ResourceThresholdStrategy{
		Enable:                              ptr.To(true),
		CPUEvictThresholdPercent:            ptr.To(in.EvictTh),
		CPUEvictLowerPercent:                ptr.To(in.EvictLo),
		EvictEnabledPriorityThreshold:       ptr.To(in.PrioThr),
		AllocatableEvictPriorityThreshold:   ptr.To(in.AllocThr),
		CPUAllocatableEvictThresholdPercent: ptr.To(in.AllocTh),
		CPUAllocatableEvictLowerPercent:     ptr.To(in.AllocLo),
		CPUEvictBESatisfactionLowerPercent:  ptr.To(in.SatLo),
		CPUEvictBESatisfactionUpperPercent:  ptr.To(in.SatUp),
	}
	w.slo = &slov1alpha1.NodeSLO{Spec: slov1alpha1.NodeSLOSpec{ResourceUsedThresholdWithBE: cfg}}
	var metas []*statesinformer.PodMeta
	for _, pod := range w.pods {
		metas = append(metas, &statesinformer.PodMeta{Pod: pod})
	}
	w.inf = &c11Informer{pods: metas, node: w.node, slo: w.slo}
	w.m = &cpuEvictor{
		statesInformer:        w.inf,
		metricCache:           &c11Cache{q: &c11Querier{vals: w.vals}},
		metricCollectInterval: time.Second,
	}
	return w
}

// the task construction of cpuEvict(): one task per triggered feature, in trigger order; plus the observation of the
// task setup: candidates in the real order, target, and the code's own per-pod credit (for the reader)
func (w *c11World) tasks(stats map[string]int) ([]*taskObs, []interface{}, map[string]int) {
	reasons := map[string]int{}
	var built []*taskObs
	for _, f := range w.in.Features {
		task, err := w.m.buildEvictTask(featuregate.Feature(f), w.slo, w.node)
		if err != nil {
			stats["buildErr"]++
			continue
		}
		if task == nil {
			continue
		}
		thr := w.in.PrioThr
		if f == string(features.CPUAllocatableEvict) {
			thr = w.in.AllocThr
		}
		built = append(built, &taskObs{task: task, feature: f, thr: thr})
		reasons[task.Reason] = len(built)
	}
	infoOf := map[string][]*qosmanagerUtil.PodEvictInfo{}
	var union []string
	for _, b := range built {
		for _, info := range b.task.SortedEvictPods {
			n := info.Pod.Name
			if _, ok := infoOf[n]; !ok {
				union = append(union, n)
			}
			infoOf[n] = append(infoOf[n], info)
		}
	}
	sort.Strings(union)
	tasksEv := []interface{}{}
	for _, b := range built {
		c := map[string]map[string]int64{}
		own := map[string]*qosmanagerUtil.PodEvictInfo{}
		for _, info := range b.task.SortedEvictPods {
			own[info.Pod.Name] = info
		}
		for _, n := range union {
			info := own[n]
			if info == nil {
				info = infoOf[n][0]
			}
			c[n] = c11RLObs(b.task.GetPodResourceFunc(info))
			for _, other := range infoOf[n] {
				if !reflect.DeepEqual(c[n], c11RLObs(b.task.GetPodResourceFunc(other))) {
					stats["pod-described-differently-in-two-lists"]++ // used to be dropped; now judged like every other case
					break
				}
			}
		}
		list := []string{}
		for _, info := range b.task.SortedEvictPods {
			list = append(list, info.Pod.Name)
		}
		tasksEv = append(tasksEv, vu.Ev{"feature": b.feature, "kind": c11Kinds[b.feature], "thr": b.thr,
			"tt": string(b.task.ReleaseTarget), "need": c11RLObs(b.task.ToReleaseResource), "list": list, "c": c})
		stats["task:"+b.feature]++
	}
	if len(built) > 1 {
		stats["multi-task"]++
	}
	return built, tasksEv, reasons
}

// returns false when the case was not recorded (no task fired)
func c11Run(rec *vu.Recorder, in *c11In, stats map[string]int) bool {
	if len(in.Rounds) > 0 {
		return c11RunRounds(rec, in, stats)
	}
	w := c11Build(in, false)
	built, tasksEv, reasons := w.tasks(stats)
	if len(built) == 0 {
		stats["noTask"]++
		return false
	}
	ex := &c11Exec{rec: rec, pods: w.podByName, tasks: reasons}
	rec.Reset(vu.Ev{"in": in, "pods": w.podAttr, "tasks": tasksEv, "usedRes": "cpu", "unit": 1000})
	var tasks []*qosmanagerUtil.EvictTaskInfo
	for _, b := range built {
		tasks = append(tasks, b.task)
	}
	c11Kill(rec, ex, w.node, tasks)
	return true
}

// ---- round mode: the real entry point with the real executor

type c11Events struct{}

func (c11Events) Event(runtime.Object, string, string, string)                  {}
func (c11Events) Eventf(runtime.Object, string, string, string, ...interface{}) {}
func (c11Events) AnnotatedEventf(runtime.Object, map[string]string, string, string, string, ...interface{}) {
}

// records what the loop asks of the real executor and what it answers
type c11RoundExec struct {
	rec   *vu.Recorder
	inner qosmanagerUtil.EvictionExecutor
	tasks map[string]int
	ok    []string // evictions accepted in the current round
}

func (e *c11RoundExec) IsPodEvicted(pod *corev1.Pod) bool {
	a := e.inner.IsPodEvicted(pod)
	if a {
		e.rec.Emit(vu.Ev{"op": "seen", "pod": pod.Name})
	}
	return a
}

func (e *c11RoundExec) Evict(pod *corev1.Pod, node *corev1.Node, releaseReason string, message string) bool {
	ti := 0
	for reason, i := range e.tasks {
		if strings.Contains(message, reason) {
			ti = i
		}
	}
	if ti == 0 {
		c11Unattributed++
	}
	ok := e.inner.Evict(pod, node, releaseReason, message)
	if ok {
		e.ok = append(e.ok, pod.Name)
	}
	e.rec.Emit(vu.Ev{"op": "evict", "pod": pod.Name, "task": ti, "ok": ok})
	return ok
}

func c11RunRounds(rec *vu.Recorder, in *c11In, stats map[string]int) bool {
	w := c11Build(in, true)
	gates := map[string]bool{}
	for _, f := range c11Trigger {
		gates[f] = false
	}
	var feats []string
	for _, f := range c11Trigger { // trigger order of the real entry point, whatever the script says
		for _, g := range in.Features {
			if f == g {
				gates[f] = true
				feats = append(feats, f)
			}
		}
	}
	in.Features = feats
	if err := features.DefaultMutableKoordletFeatureGate.SetFromMap(gates); err != nil {
		panic(err)
	}
	// the real Evictor (eviction API) on a fake API server; an eviction of a pod with attribute fails is refused
	client := clientsetfake.NewSimpleClientset()
	client.PrependReactor("create", "pods", func(action clienttesting.Action) (bool, runtime.Object, error) {
		if action.GetSubresource() != "eviction" {
			return false, nil, nil
		}
		if ca, ok := action.(clienttesting.CreateAction); ok {
			if ev, ok := ca.GetObject().(*policyv1.Eviction); ok && w.podByName[ev.Name].Fails {
				return true, nil, errors.New("Cannot evict pod as it would violate the pod's disruption budget.")
			}
		}
		return true, nil, nil
	})
	stop := make(chan struct{})
	defer close(stop)
	evictor := qosmanagerUtil.NewEvictor(client, c11Events{}, policyv1.SchemeGroupVersion.Version)
	if err := evictor.Start(stop); err != nil {
		panic(err)
	}
	ex := &c11RoundExec{rec: rec, inner: &qosmanagerUtil.DefaultEvictionExecutor{OnlyEvictByAPI: true, Evictor: evictor}}
	w.m.evictExecutor = ex
	rec.Reset(vu.Ev{"in": in, "mode": "rounds", "pods": w.podAttr, "tasks": []interface{}{}, "usedRes": "cpu", "unit": 1000})
	evictedAt := map[string]int{}
	for r, used := range in.Rounds {
		// the world of this round
		present := []string{}
		var metas []*statesinformer.PodMeta
		for i, pod := range w.pods {
			p := in.Pods[i]
			if e, ok := evictedAt[p.Name]; ok {
				if r-e > p.Linger {
					continue // terminated and gone
				}
				if !p.Lag {
					pod = pod.DeepCopy()
					c11Terminating(pod)
				}
			}
			present = append(present, p.Name)
			metas = append(metas, &statesinformer.PodMeta{Pod: pod})
		}
		w.inf.pods = metas
		w.vals[w.nodeKey] = float64(used)
		_, tasksEv, reasons := w.tasks(stats)
		rec.Emit(vu.Ev{"op": "round", "n": r + 1, "present": present, "tasks": tasksEv})
		if len(tasksEv) > 0 {
			stats["round-with-task"]++
		}
		ex.tasks, ex.ok = reasons, nil
		w.m.lastEvictTime = time.Unix(0, 0) // the cool-down is over
		if panicked, msg := vu.Protect(func() { w.m.cpuEvict() }); panicked {
			rec.Emit(vu.Ev{"op": "panic", "msg": msg})
			return true
		}
		rec.Emit(vu.Ev{"op": "end"})
		for _, n := range ex.ok {
			if _, ok := evictedAt[n]; !ok {
				evictedAt[n] = r
			}
		}
	}
	stats["rounds-segment"]++
	return true
}

func c11Random(rng *rand.Rand) *c11In {
	be, al, cu := string(features.BECPUEvict), string(features.CPUAllocatableEvict), string(features.CPUEvict)
	combos := [][]string{{be}, {al}, {cu}, {be, al}, {be, cu}, {al, cu}, {be, al, cu}}
	in := &c11In{Features: combos[rng.Intn(len(combos))]}
	// focus: several strategies at once over mostly eligible batch / mid pods, targets that a strict prefix of the
	// candidates can cover (so that what happens AFTER a target is met is exercised, also across targets)
	focus := rng.Intn(3) == 0
	if focus {
		in.Features = combos[3+rng.Intn(4)]
	}
	// plain: pods of no koordinator priority class (koord-free / default) whose plain cpu requests (whole cores)
	// exceed the allocatable threshold of the node's cpu
	plain := !focus && rng.Intn(12) == 0
	if plain {
		in.Features = [][]string{{al}, {al, cu}, {be, al}}[rng.Intn(3)]
	}
	in.EvictTh = 50
	in.EvictLo = 50 - int64(1+rng.Intn(4))
	in.NodeUsed = int64(50 + rng.Intn(10))
	if rng.Intn(20) == 0 {
		in.NodeUsed = 45
	}
	in.PrioThr = []int32{3999, 5499, 5999, 7999, 9999}[rng.Intn(5)]
	in.AllocThr = []int32{5999, 7499, 7999}[rng.Intn(3)]
	in.AllocTh = []int64{10, 30}[rng.Intn(2)]
	in.AllocLo = []int64{0, 5}[rng.Intn(2)]
	in.AllocBatch = []int64{-1, 0, 10, 20}[rng.Intn(4)]
	in.AllocMid = []int64{-1, 0, 10, 20}[rng.Intn(4)]
	// BE satisfaction: limit 1 milli-core against a request of R => release about R*satUp/100 - 1
	in.BELimit, in.BEUsage = 1, 1
	in.BERequest = int64(1 + rng.Intn(14))
	in.SatLo = []int64{40, 50}[rng.Intn(2)]
	in.SatUp = []int64{60, 90}[rng.Intn(2)]
	n := 1 + rng.Intn(6)
	prios := []int32{3500, 5000, 5500, 7000, 7500, 9500}
	if focus {
		in.EvictLo = 49 - int64(rng.Intn(2))
		in.NodeUsed = int64(50 + rng.Intn(4)) // release 1..5 cores
		in.PrioThr = []int32{7999, 9999}[rng.Intn(2)]
		in.AllocThr = []int32{7499, 7999}[rng.Intn(2)]
		in.AllocTh = []int64{10, 30}[rng.Intn(2)]
		in.AllocLo = in.AllocTh - int64(1+rng.Intn(6)) // release a few units below what is requested
		in.AllocBatch = []int64{10, 20}[rng.Intn(2)]
		in.AllocMid = []int64{10, 20}[rng.Intn(2)]
		in.BERequest = int64(2 + rng.Intn(6))
		n = 3 + rng.Intn(4)
		prios = []int32{5000, 5500, 7000, 7000, 7500, 7500}
	}
	if plain {
		in.AllocThr = []int32{5999, 7999}[rng.Intn(2)]
		in.AllocTh = 10
		n = 4 + rng.Intn(3)
		prios = []int32{3500, 3500, 3500, 3500, 5000, 5500}
	}
	policies := []string{be, al, cu, "MemoryEvict"}
	strict := focus || plain || rng.Intn(3) == 0 // mostly-eligible pod sets exercise order and minimality, mixed ones eligibility
	for i := 0; i < n; i++ {
		p := c11Pod{Name: "p" + strconv.Itoa(i+1), Policy: []string{}}
		p.QoS = []string{"BE", "BE", "BE", "LS", ""}[rng.Intn(5)]
		p.Prio = prios[rng.Intn(len(prios))]
		p.EvictLabel = []string{"true", "true", "true", "true", "false", ""}[rng.Intn(6)]
		if strict {
			p.QoS, p.EvictLabel = "BE", "true"
			if !focus && !plain {
				p.Prio = prios[rng.Intn(3)]
			}
		}
		if rng.Intn(4) == 0 && !strict {
			p.HasPolicy = true
			for _, pl := range policies {
				if rng.Intn(2) == 0 {
					p.Policy = append(p.Policy, pl)
				}
			}
		}
		if rng.Intn(3) == 0 {
			p.HasEp, p.Ep = true, []int32{-1, 0, 1, 5, -2, 2147483647, -2147483647}[rng.Intn(7)] // extremes: keys must be compared, not subtracted
		}
		if rng.Intn(3) == 0 {
			p.HasLp, p.Lp = true, []int64{1000, 5000, 5500, 9999}[rng.Intn(4)]
		}
		p.HasMetric = rng.Intn(10) > 0
		if p.HasMetric {
			p.Used = int64(rng.Intn(4))
		}
		p.Req = int64(rng.Intn(4))
		if focus {
			p.HasMetric, p.Used, p.Req = true, int64(rng.Intn(4)), int64(1+rng.Intn(3))
		}
		if plain {
			p.HasMetric = true
			if p.Prio < 5000 {
				p.Req = int64(2000 + 1000*rng.Intn(2)) // 2-3 cores of plain cpu
			}
		}
		p.Already = rng.Intn(7) == 0
		p.Term = p.Already && rng.Intn(3) > 0 // an evicted pod that is still there is usually terminating
		p.Fails = rng.Intn(7) == 0
		p.Linger = []int{0, 1, 9, 9}[rng.Intn(4)]
		p.Lag = rng.Intn(4) == 0
		in.Pods = append(in.Pods, p)
	}
	return in
}

// round mode: 2-3 rounds of the real cpuEvict(), mostly under unchanged pressure
func c11RandomRounds(rng *rand.Rand) *c11In {
	in := c11Random(rng)
	nr := 2 + rng.Intn(2)
	for r := 0; r < nr; r++ {
		u := in.NodeUsed
		if r > 0 && rng.Intn(3) == 0 {
			u = int64(48 + rng.Intn(12)) // pressure changed (possibly gone)
		}
		in.Rounds = append(in.Rounds, u)
	}
	return in
}

func TestVerifC11(t *testing.T) {
	if !vu.Enabled() {
		t.Skip("verification harness: VERIF_OUT not set")
	}
	klog.LogToStderr(false)
	klog.SetOutput(io.Discard)
	orig := metriccache.DefaultAggregateResultFactory
	metriccache.DefaultAggregateResultFactory = c11Factory{}
	defer func() { metriccache.DefaultAggregateResultFactory = orig }()
	gates := map[string]bool{}
	for _, f := range c11Trigger {
		gates[f] = features.DefaultKoordletFeatureGate.Enabled(featuregate.Feature(f))
	}
	defer func() { _ = features.DefaultMutableKoordletFeatureGate.SetFromMap(gates) }()
	rec := vu.NewRecorder("")
	defer rec.Close()
	stats := map[string]int{}
	if p := vu.ReplayPath(); p != "" {
		for _, raw := range vu.ReadScripts(p) {
			var seg []struct {
				In *c11In `json:"in"`
			}
			if err := json.Unmarshal(raw, &seg); err != nil || len(seg) == 0 || seg[0].In == nil {
				t.Fatalf("bad replay script: %v", err)
			}
			c11Run(rec, seg[0].In, stats)
		}
		return
	}
	n, nr := 3000, 1000
	if vu.Thorough() {
		n, nr = 30000, 12000
	}
	rng := vu.Rand(1102)
	for i := 0; i < n; i++ {
		c11Run(rec, c11Random(rng), stats)
	}
	rng = vu.Rand(1103)
	for i := 0; i < nr; i++ {
		c11Run(rec, c11RandomRounds(rng), stats)
	}
	if c11Unattributed > 0 {
		t.Fatalf("C11 cpuevict: %d Evict calls could not be attributed to a task (message format changed?)", c11Unattributed)
	}
	t.Logf("C11 cpuevict: %d cases recorded, %d events, stats %v", rec.Segments(), rec.Events(), stats)
}
