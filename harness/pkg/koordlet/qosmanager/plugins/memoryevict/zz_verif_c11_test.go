package memoryevict

// Verification harness for C11, memory strategies (injected by `go test -overlay`; see
// /verif/specs/Evict/Evict.tla).  Executor + recorder only.  For a generated node / pod set it
// builds the eviction tasks with the REAL strategy code (buildEvictTask: release target computation,
// eligibility filter, sorting, per-pod release function), hands them to the REAL
// qosmanagerUtil.KillAndEvictPods with a recording EvictionExecutor and logs
//   reset  {in: generator output (replay script), pods: name -> attributes as set on the pod object,
//           tasks: [{feature, kind, thr, tt, need, list (real sorted candidates), c (real per-pod release)}]}
//   seen / evict / ret   as in the util harness.
// No oracle here: eligibility, order and minimality are decided by TLC from the attributes.

import (
	"encoding/json"
	"io"
	"math/rand"
	"reflect"
	"sort"
	"strconv"
	"strings"
	"testing"
	"time"

	promstorage "github.com/prometheus/prometheus/storage"
	corev1 "k8s.io/api/core/v1"
	"k8s.io/apimachinery/pkg/api/resource"
	metav1 "k8s.io/apimachinery/pkg/apis/meta/v1"
	"k8s.io/apimachinery/pkg/types"
	"k8s.io/component-base/featuregate"
	"k8s.io/klog/v2"
	"k8s.io/utils/ptr"

	slov1alpha1 "github.com/koordinator-sh/koordinator/apis/slo/v1alpha1"
	"github.com/koordinator-sh/koordinator/pkg/features"
	"github.com/koordinator-sh/koordinator/pkg/koordlet/metriccache"
	qosmanagerUtil "github.com/koordinator-sh/koordinator/pkg/koordlet/qosmanager/plugins/util"
	"github.com/koordinator-sh/koordinator/pkg/koordlet/statesinformer"
	vu "github.com/koordinator-sh/koordinator/pkg/verifutil"
)

type c11Pod struct {
	Name       string   `json:"name"`
	QoS        string   `json:"qos"`
	Prio       int32    `json:"prio"`
	EvictLabel string   `json:"evictLabel"` // value of koordinator.sh/eviction-enabled ("" = no label)
	HasPolicy  bool     `json:"hasPolicy"`
	Policy     []string `json:"policy"` // koordinator.sh/eviction-policy
	HasEp      bool     `json:"hasEp"`
	Ep         int32    `json:"ep"` // koordinator.sh/eviction-priority
	HasLp      bool     `json:"hasLp"`
	Lp         int64    `json:"lp"` // koordinator.sh/priority
	HasMetric  bool     `json:"hasMetric"`
	Used       int64    `json:"used"` // pod memory usage metric (bytes)
	Req        int64    `json:"req"`  // request in the memory resource of the pod's priority class
	Already    bool     `json:"already"`
	Fails      bool     `json:"fails"`
}

type c11In struct {
	Pods       []c11Pod `json:"pods"`
	Features   []string `json:"features"` // in trigger order
	Capacity   int64    `json:"capacity"` // node memory capacity
	NodeUsed   int64    `json:"nodeUsed"` // node memory usage metric
	EvictTh    int64    `json:"evictTh"`  // MemoryEvictThresholdPercent
	EvictLo    int64    `json:"evictLo"`  // MemoryEvictLowerPercent
	PrioThr    int32    `json:"prioThr"`  // EvictEnabledPriorityThreshold
	AllocThr   int32    `json:"allocThr"` // AllocatableEvictPriorityThreshold
	AllocTh    int64    `json:"allocTh"`  // MemoryAllocatableEvictThresholdPercent
	AllocLo    int64    `json:"allocLo"`  // MemoryAllocatableEvictLowerPercent
	AllocBatch int64    `json:"allocBatch"`
	AllocMid   int64    `json:"allocMid"` // node allocatable batch-memory / mid-memory (-1 = not reported)
}

// ---- fakes for the informer and the metric cache (table lookups only)
type c11Informer struct {
	statesinformer.StatesInformer
	pods []*statesinformer.PodMeta
	node *corev1.Node
	slo  *slov1alpha1.NodeSLO
}

func (i *c11Informer) GetAllPods() []*statesinformer.PodMeta { return i.pods }
func (i *c11Informer) GetNode() *corev1.Node                 { return i.node }
func (i *c11Informer) GetNodeSLO() *slov1alpha1.NodeSLO      { return i.slo }

type c11Result struct {
	meta metriccache.MetricMeta
	val  float64
	n    int
}

func (r *c11Result) GetKind() string                    { return r.meta.GetKind() }
func (r *c11Result) GetProperties() map[string]string   { return r.meta.GetProperties() }
func (r *c11Result) AddSeries(promstorage.Series) error { return nil }
func (r *c11Result) Count() int                         { return r.n }
func (r *c11Result) TimeRangeDuration() time.Duration   { return time.Second }
func (r *c11Result) Value(metriccache.AggregationType) (float64, error) {
	if r.n == 0 {
		return 0, io.ErrUnexpectedEOF
	}
	return r.val, nil
}

type c11Factory struct{}

func (c11Factory) New(meta metriccache.MetricMeta) metriccache.AggregateResult {
	return &c11Result{meta: meta}
}

func c11Key(meta metriccache.MetricMeta) string {
	return meta.GetKind() + "|" + meta.GetProperties()[string(metriccache.MetricPropertyPodUID)]
}

type c11Querier struct{ vals map[string]float64 }

func (q *c11Querier) Query(meta metriccache.MetricMeta, _ *metriccache.QueryHints, result metriccache.MetricResult) error {
	if v, ok := q.vals[c11Key(meta)]; ok {
		r := result.(*c11Result)
		r.val, r.n = v, 1
	}
	return nil
}
func (q *c11Querier) QueryAndClose(meta metriccache.MetricMeta, h *metriccache.QueryHints, result metriccache.MetricResult) error {
	return q.Query(meta, h, result)
}
func (q *c11Querier) Close() {}

type c11Cache struct {
	metriccache.MetricCache
	q *c11Querier
}

func (c *c11Cache) Querier(_, _ time.Time) (metriccache.Querier, error) { return c.q, nil }

// ---- recording executor
type c11Exec struct {
	rec   *vu.Recorder
	pods  map[string]c11Pod
	tasks map[string]int
}

func (e *c11Exec) IsPodEvicted(pod *corev1.Pod) bool {
	a := e.pods[pod.Name].Already
	if a {
		e.rec.Emit(vu.Ev{"op": "seen", "pod": pod.Name})
	}
	return a
}

func (e *c11Exec) Evict(pod *corev1.Pod, node *corev1.Node, releaseReason string, message string) bool {
	// the loop names the task it acts for in the message ("<task reason>, kill pod: <name>")
	ti := 0
	for reason, i := range e.tasks {
		if strings.Contains(message, reason) {
			ti = i
		}
	}
	if ti == 0 {
		c11Unattributed++ // cannot tell the task: a harness limitation, reported as machinery trouble, never judged
	}
	ok := !e.pods[pod.Name].Fails
	e.rec.Emit(vu.Ev{"op": "evict", "pod": pod.Name, "task": ti, "ok": ok})
	return ok
}

var c11Unattributed int

// ---- building the real objects
func c11MemRes(prio int32) corev1.ResourceName {
	switch {
	case prio >= 5000 && prio <= 5999:
		return "kubernetes.io/batch-memory"
	case prio >= 7000 && prio <= 7999:
		return "kubernetes.io/mid-memory"
	}
	return corev1.ResourceMemory
}

func c11BuildPod(p c11Pod) *corev1.Pod {
	pod := &corev1.Pod{
		TypeMeta: metav1.TypeMeta{Kind: "Pod"},
		ObjectMeta: metav1.ObjectMeta{Name: p.Name, Namespace: "default", UID: types.UID(p.Name),
			Labels: map[string]string{}, Annotations: map[string]string{}},
		Spec: corev1.PodSpec{
			Priority: ptr.To[int32](p.Prio),
			Containers: []corev1.Container{{Name: "main", Resources: corev1.ResourceRequirements{
				Requests: corev1.ResourceList{c11MemRes(p.Prio): *resource.NewQuantity(p.Req, resource.BinarySI)},
				Limits:   corev1.ResourceList{c11MemRes(p.Prio): *resource.NewQuantity(p.Req, resource.BinarySI)},
			}}},
		},
		Status: corev1.PodStatus{Phase: corev1.PodRunning},
	}
	if p.QoS != "" {
		pod.Labels["koordinator.sh/qosClass"] = p.QoS
	}
	if p.EvictLabel != "" {
		pod.Labels["koordinator.sh/eviction-enabled"] = p.EvictLabel
	}
	if p.HasLp {
		pod.Labels["koordinator.sh/priority"] = strconv.FormatInt(p.Lp, 10)
	}
	if p.HasPolicy {
		pl := p.Policy
		if pl == nil {
			pl = []string{}
		}
		b, _ := json.Marshal(pl)
		pod.Annotations["koordinator.sh/eviction-policy"] = string(b)
	}
	if p.HasEp {
		pod.Annotations["koordinator.sh/eviction-priority"] = strconv.FormatInt(int64(p.Ep), 10)
	}
	return pod
}

func c11RLObs(rl corev1.ResourceList) map[string]int64 {
	m := map[string]int64{}
	for r, q := range rl {
		if r == corev1.ResourceCPU {
			m[string(r)] = q.MilliValue()
		} else {
			m[string(r)] = q.Value()
		}
	}
	return m
}

type taskObs struct {
	task    *qosmanagerUtil.EvictTaskInfo
	feature string
	thr     int32
}

type podInfoRef struct {
	task int
	info *qosmanagerUtil.PodEvictInfo
}

// run the real loop, log the returned ReleaseList (field reads only)
func c11Kill(rec *vu.Recorder, ex *c11Exec, node *corev1.Node, tasks []*qosmanagerUtil.EvictTaskInfo) {
	var released qosmanagerUtil.ReleaseList
	var newly bool
	if panicked, msg := vu.Protect(func() { released, newly = qosmanagerUtil.KillAndEvictPods(ex, node, tasks) }); panicked {
		rec.Emit(vu.Ev{"op": "panic", "msg": msg})
		return
	}
	out := map[string]map[string]int64{}
	for t, l := range released {
		out[string(t)] = c11RLObs(l)
	}
	rec.Emit(vu.Ev{"op": "ret", "released": out, "newly": newly})
}

var c11Kinds = map[string]string{
	string(features.BEMemoryEvict):          "be_mem",
	string(features.MemoryEvict):            "prio_used",
	string(features.MemoryAllocatableEvict): "prio_req",
}

// returns false when the case was not recorded (no task fired, or ill-defined for the model)
func c11Run(rec *vu.Recorder, in *c11In, stats map[string]int) bool {
	podAttr := map[string]interface{}{}
	podByName := map[string]c11Pod{}
	var pods []*corev1.Pod
	vals := map[string]float64{}
	nodeMeta, _ := metriccache.NodeMemoryUsageMetric.BuildQueryMeta(nil)
	vals[c11Key(nodeMeta)] = float64(in.NodeUsed)
	for i := range in.Pods {
		p := in.Pods[i]
		if p.Policy == nil {
			p.Policy = []string{}
		}
		if !p.HasMetric {
			p.Used = 0
		}
		in.Pods[i] = p
		podByName[p.Name] = p
		pods = append(pods, c11BuildPod(p))
		podAttr[p.Name] = p
		if p.HasMetric {
			meta, _ := metriccache.PodMemUsageMetric.BuildQueryMeta(metriccache.MetricPropertiesFunc.Pod(p.Name))
			vals[c11Key(meta)] = float64(p.Used)
		}
	}
	node := &corev1.Node{ObjectMeta: metav1.ObjectMeta{Name: "c11-node"}, Status: corev1.NodeStatus{
		Capacity:    corev1.ResourceList{corev1.ResourceCPU: resource.MustParse("100"), corev1.ResourceMemory: *resource.NewQuantity(in.Capacity, resource.BinarySI)},
		Allocatable: corev1.ResourceList{corev1.ResourceCPU: resource.MustParse("100"), corev1.ResourceMemory: *resource.NewQuantity(in.Capacity, resource.BinarySI)},
	}}
	if in.AllocBatch >= 0 {
		node.Status.Allocatable["kubernetes.io/batch-memory"] = *resource.NewQuantity(in.AllocBatch, resource.BinarySI)
	}
	if in.AllocMid >= 0 {
		node.Status.Allocatable["kubernetes.io/mid-memory"] = *resource.NewQuantity(in.AllocMid, resource.BinarySI)
	}
	cfg := &slov1alpha1.ResourceThresholdStrategy{
		Enable:                                 ptr.To(true),
		MemoryEvictThresholdPercent:            ptr.To(in.EvictTh),
		MemoryEvictLowerPercent:                ptr.To(in.EvictLo),
		EvictEnabledPriorityThreshold:          ptr.To(in.PrioThr),
		AllocatableEvictPriorityThreshold:      ptr.To(in.AllocThr),
		MemoryAllocatableEvictThresholdPercent: ptr.To(in.AllocTh),
		MemoryAllocatableEvictLowerPercent:     ptr.To(in.AllocLo),
	}
	slo := &slov1alpha1.NodeSLO{Spec: slov1alpha1.NodeSLOSpec{ResourceUsedThresholdWithBE: cfg}}
	var metas []*statesinformer.PodMeta
	for _, pod := range pods {
		metas = append(metas, &statesinformer.PodMeta{Pod: pod})
	}
	m := &memoryEvictor{
		statesInformer:        &c11Informer{pods: metas, node: node, slo: slo},
		metricCache:           &c11Cache{q: &c11Querier{vals: vals}},
		metricCollectInterval: time.Second,
	}
	// the task construction of memoryEvict(): one task per triggered feature, in trigger order
	ex := &c11Exec{rec: rec, pods: podByName, tasks: map[string]int{}}
	var built []*taskObs
	for _, f := range in.Features {
		task, err := m.buildEvictTask(featuregate.Feature(f), slo, node)
		if err != nil {
			stats["buildErr"]++
			continue
		}
		if task == nil {
			continue
		}
		thr := in.PrioThr
		if f == string(features.MemoryAllocatableEvict) {
			thr = in.AllocThr
		}
		built = append(built, &taskObs{task: task, feature: f, thr: thr})
		ex.tasks[task.Reason] = len(built)
	}
	if len(built) == 0 {
		stats["noTask"]++
		return false
	}
	// observation of the task setup: candidates in the real order, target, per-pod release per task
	infoOf := map[string][]*podInfoRef{}
	var union []string
	for ti, b := range built {
		for _, info := range b.task.SortedEvictPods {
			n := info.Pod.Name
			if _, ok := infoOf[n]; !ok {
				union = append(union, n)
			}
			infoOf[n] = append(infoOf[n], &podInfoRef{task: ti, info: info})
		}
	}
	sort.Strings(union)
	var tasksEv []interface{}
	for _, b := range built {
		c := map[string]map[string]int64{}
		for _, n := range union {
			var first map[string]int64
			for k, ref := range infoOf[n] {
				got := c11RLObs(b.task.GetPodResourceFunc(ref.info))
				if k == 0 {
					first = got
				} else if !reflect.DeepEqual(first, got) {
					// the same pod is described differently in two candidate lists: no single figure
					// for "what its removal releases" - not a case the model can judge
					stats["ambiguous"]++
					return false
				}
			}
			c[n] = first
		}
		list := []string{}
		for _, info := range b.task.SortedEvictPods {
			list = append(list, info.Pod.Name)
		}
		tasksEv = append(tasksEv, vu.Ev{"feature": b.feature, "kind": c11Kinds[b.feature], "thr": b.thr,
			"tt": string(b.task.ReleaseTarget), "need": c11RLObs(b.task.ToReleaseResource), "list": list, "c": c})
		stats["task:"+b.feature]++
	}
	rec.Reset(vu.Ev{"in": in, "pods": podAttr, "tasks": tasksEv})
	var tasks []*qosmanagerUtil.EvictTaskInfo
	for _, b := range built {
		tasks = append(tasks, b.task)
	}
	c11Kill(rec, ex, node, tasks)
	return true
}

func c11Random(rng *rand.Rand) *c11In {
	combos := [][]string{
		{string(features.BEMemoryEvict)},
		{string(features.MemoryEvict)},
		{string(features.MemoryAllocatableEvict)},
		{string(features.MemoryAllocatableEvict), string(features.MemoryEvict)},
	}
	in := &c11In{Features: combos[rng.Intn(len(combos))]}
	scale := int64(1)
	if in.Features[len(in.Features)-1] == string(features.MemoryEvict) {
		scale = 1000 // that strategy records a pod's usage times 1000
	}
	in.Capacity = 100 * scale
	in.EvictTh = 50
	in.EvictLo = 50 - int64(1+rng.Intn(4))
	pct := int64(50 + rng.Intn(10))
	if rng.Intn(20) == 0 {
		pct = 45
	}
	in.NodeUsed = pct * scale
	in.PrioThr = []int32{3999, 5499, 5999, 7999, 9999}[rng.Intn(5)]
	in.AllocThr = []int32{5999, 7499, 7999}[rng.Intn(3)]
	in.AllocTh = []int64{10, 30}[rng.Intn(2)]
	in.AllocLo = []int64{0, 5}[rng.Intn(2)]
	in.AllocBatch = []int64{-1, 0, 10, 20}[rng.Intn(4)]
	in.AllocMid = []int64{-1, 0, 10, 20}[rng.Intn(4)]
	n := 1 + rng.Intn(6)
	prios := []int32{3500, 5000, 5500, 7000, 7500, 9500}
	policies := []string{string(features.BEMemoryEvict), string(features.MemoryEvict), string(features.MemoryAllocatableEvict), "CPUEvict"}
	strict := rng.Intn(3) == 0 // mostly-eligible pod sets exercise order and minimality, mixed ones eligibility
	for i := 0; i < n; i++ {
		p := c11Pod{Name: "p" + strconv.Itoa(i+1), Policy: []string{}}
		p.QoS = []string{"BE", "BE", "BE", "LS", ""}[rng.Intn(5)]
		p.Prio = prios[rng.Intn(len(prios))]
		p.EvictLabel = []string{"true", "true", "true", "true", "false", ""}[rng.Intn(6)]
		if strict {
			p.QoS, p.EvictLabel = "BE", "true"
			p.Prio = prios[rng.Intn(3)]
		}
		if rng.Intn(4) == 0 && !strict {
			p.HasPolicy = true
			for _, pl := range policies {
				if rng.Intn(2) == 0 {
					p.Policy = append(p.Policy, pl)
				}
			}
		}
		if rng.Intn(3) == 0 {
			p.HasEp, p.Ep = true, []int32{-1, 0, 1, 5, -2, 2147483647, -2147483647}[rng.Intn(7)] // extremes: keys must be compared, not subtracted
		}
		if rng.Intn(3) == 0 {
			p.HasLp, p.Lp = true, []int64{1000, 5000, 5500, 9999}[rng.Intn(4)]
		}
		p.HasMetric = rng.Intn(10) > 0
		if p.HasMetric {
			p.Used = int64(rng.Intn(4))
		}
		p.Req = int64(rng.Intn(4))
		p.Already = rng.Intn(7) == 0
		p.Fails = rng.Intn(7) == 0
		in.Pods = append(in.Pods, p)
	}
	return in
}

func TestVerifC11(t *testing.T) {
	if !vu.Enabled() {
		t.Skip("verification harness: VERIF_OUT not set")
	}
	klog.LogToStderr(false)
	klog.SetOutput(io.Discard)
	orig := metriccache.DefaultAggregateResultFactory
	metriccache.DefaultAggregateResultFactory = c11Factory{}
	defer func() { metriccache.DefaultAggregateResultFactory = orig }()
	rec := vu.NewRecorder("")
	defer rec.Close()
	stats := map[string]int{}
	if p := vu.ReplayPath(); p != "" {
		for _, raw := range vu.ReadScripts(p) {
			var seg []struct {
				In *c11In `json:"in"`
			}
			if err := json.Unmarshal(raw, &seg); err != nil || len(seg) == 0 || seg[0].In == nil {
				t.Fatalf("bad replay script: %v", err)
			}
			c11Run(rec, seg[0].In, stats)
		}
		return
	}
	n := 3000
	if vu.Thorough() {
		n = 30000
	}
	rng := vu.Rand(1101)
	for i := 0; i < n; i++ {
		c11Run(rec, c11Random(rng), stats)
	}
	if c11Unattributed > 0 {
		t.Fatalf("C11 memoryevict: %d Evict calls could not be attributed to a task (message format changed?)", c11Unattributed)
	}
	t.Logf("C11 memoryevict: %d cases recorded, %d events, stats %v", rec.Segments(), rec.Events(), stats)
}
