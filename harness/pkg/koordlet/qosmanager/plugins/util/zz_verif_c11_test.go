package util

// Verification harness for C11 (injected by `go test -overlay`, see /verif/DESIGN.md and
// /verif/specs/Evict/Evict.tla).  Executor + recorder only: it runs the REAL KillAndEvictPods on
// enumerated and seeded random cases with a recording EvictionExecutor and logs the calls the loop
// makes plus the returned ReleaseList.  No oracle here: what is allowed is decided by TLC.
//
// Case (= the reset event, also the replay script):
//   pods   name -> {already, fails}     already: IsPodEvicted answers true; fails: Evict answers false
//   tasks  [{tt, need{res:n}, list[names], kind:"list", c}]   in the order handed to the loop;
//          c: pod -> resource -> amount returned by the task's GetPodResourceFunc (absent pod: nil)
//          (tasks with the same target type describe the same content: their tables are projections of ONE table per
//          target onto the resource names the task knows - as BECPUEvict (batch-cpu only) and CPUAllocatableEvict
//          (batch-cpu and mid-cpu) do for the shared target podResourceRequest)
// Events: seen{pod} (IsPodEvicted answered true), evict{pod, task, ok}, ret{released, newly}.

import (
	"encoding/json"
	"fmt"
	"math/rand"
	"strings"
	"testing"

	corev1 "k8s.io/api/core/v1"
	metav1 "k8s.io/apimachinery/pkg/apis/meta/v1"
	"k8s.io/apimachinery/pkg/types"

	apiext "github.com/koordinator-sh/koordinator/apis/extension"
	vu "github.com/koordinator-sh/koordinator/pkg/verifutil"
)

type c11Pod struct {
	Already bool `json:"already"`
	Fails   bool `json:"fails"`
}

type c11Task struct {
	TT   string                      `json:"tt"`
	Need map[string]int64            `json:"need"`
	List []string                    `json:"list"`
	Kind string                      `json:"kind"`
	C    map[string]map[string]int64 `json:"c"`
	// generation only: the resource names this task's function knows (nil = all of the target's table)
	Res []string `json:"-"`
}

// the task's view of the target's table: the entries of the resource names it knows
func c11Project(tbl map[string]map[string]int64, res []string) map[string]map[string]int64 {
	if res == nil || tbl == nil {
		return tbl
	}
	out := map[string]map[string]int64{}
	for pod, m := range tbl {
		pm := map[string]int64{}
		for _, r := range res {
			if v, ok := m[r]; ok {
				pm[r] = v
			}
		}
		out[pod] = pm
	}
	return out
}

type c11Case struct {
	Op    string            `json:"op,omitempty"`
	Pods  map[string]c11Pod `json:"pods"`
	Tasks []c11Task         `json:"tasks"`
	// generation only: per target type tables, copied into the tasks by c11Run
	C map[string]map[string]map[string]int64 `json:"-"`
}

// recording executor: answers from the case, logs what the loop asks for
type c11Exec struct {
	rec   *vu.Recorder
	cs    *c11Case
	tasks map[string]int // task reason -> 1-based index

	unattributed int
}

var c11Unattributed int

func (e *c11Exec) IsPodEvicted(pod *corev1.Pod) bool {
	a := e.cs.Pods[pod.Name].Already
	if a {
		e.rec.Emit(vu.Ev{"op": "seen", "pod": pod.Name})
	}
	return a
}

func (e *c11Exec) Evict(pod *corev1.Pod, node *corev1.Node, releaseReason string, message string) bool {
	// the loop names the task it acts for in the message ("<task reason>, kill pod: <name>")
	ti := 0
	for reason, i := range e.tasks {
		if strings.Contains(message, reason) {
			ti = i
		}
	}
	if ti == 0 {
		e.unattributed++ // cannot tell the task: a harness limitation, reported as machinery trouble, never judged
	}
	ok := !e.cs.Pods[pod.Name].Fails
	e.rec.Emit(vu.Ev{"op": "evict", "pod": pod.Name, "task": ti, "ok": ok})
	return ok
}

func c11RL(m map[string]int64) corev1.ResourceList {
	if m == nil {
		return nil
	}
	rl := corev1.ResourceList{}
	for r, v := range m {
		rl[corev1.ResourceName(r)] = ConvertInt64ToQuantity(corev1.ResourceName(r), v)
	}
	return rl
}

// projection of the returned ReleaseList: field reads only
func c11Released(rl ReleaseList) map[string]map[string]int64 {
	out := map[string]map[string]int64{}
	for t, l := range rl {
		m := map[string]int64{}
		for r, q := range l {
			m[string(r)] = ConvertQuantityToInt64(r, q)
		}
		out[string(t)] = m
	}
	return out
}

func c11Run(rec *vu.Recorder, cs *c11Case) {
	if cs.Pods == nil {
		cs.Pods = map[string]c11Pod{}
	}
	if cs.Tasks == nil {
		cs.Tasks = []c11Task{}
	}
	for i := range cs.Tasks {
		if cs.Tasks[i].List == nil {
			cs.Tasks[i].List = []string{}
		}
		if cs.Tasks[i].Need == nil {
			cs.Tasks[i].Need = map[string]int64{}
		}
		cs.Tasks[i].Kind = "list"
		if cs.Tasks[i].C == nil {
			cs.Tasks[i].C = c11Project(cs.C[cs.Tasks[i].TT], cs.Tasks[i].Res)
		}
		if cs.Tasks[i].C == nil {
			cs.Tasks[i].C = map[string]map[string]int64{}
		}
	}
	rec.Reset(vu.Ev{"pods": cs.Pods, "tasks": cs.Tasks})
	infos := map[string]*PodEvictInfo{}
	for name := range cs.Pods {
		infos[name] = &PodEvictInfo{Pod: &corev1.Pod{ObjectMeta: metav1.ObjectMeta{
			Name: name, Namespace: "default", UID: types.UID(name + "-uid"),
			Labels: map[string]string{apiext.LabelPodQoS: string(apiext.QoSBE)}}}}
	}
	ex := &c11Exec{rec: rec, cs: cs, tasks: map[string]int{}}
	var tasks []*EvictTaskInfo
	for i, t := range cs.Tasks {
		reason := fmt.Sprintf("c11-task-%d;", i+1)
		ex.tasks[reason] = i + 1
		tbl := t.C
		task := &EvictTaskInfo{
			Reason:            reason,
			ReleaseTarget:     ReleaseTargetType(t.TT),
			ToReleaseResource: c11RL(t.Need),
			GetPodResourceFunc: func(info *PodEvictInfo) corev1.ResourceList {
				return c11RL(tbl[info.Pod.Name])
			},
		}
		for _, n := range t.List {
			task.SortedEvictPods = append(task.SortedEvictPods, infos[n])
		}
		tasks = append(tasks, task)
	}
	node := &corev1.Node{ObjectMeta: metav1.ObjectMeta{Name: "c11-node"}}
	var released ReleaseList
	var newly bool
	if panicked, msg := vu.Protect(func() { released, newly = KillAndEvictPods(ex, node, tasks) }); panicked {
		rec.Emit(vu.Ev{"op": "panic", "msg": msg})
		return
	}
	rec.Emit(vu.Ev{"op": "ret", "released": c11Released(released), "newly": newly})
	c11Unattributed += ex.unattributed
}

const (
	c11Used  = string(ReleaseTargetTypeResourceUsed)
	c11Req   = string(ReleaseTargetTypeResourceRequest)
	c11Batch = string(ReleaseTargetTypeBatchResourceRequest)
	c11Mem   = string(corev1.ResourceMemory)
	c11CPU   = string(corev1.ResourceCPU)
	c11BCPU  = string(apiext.BatchCPU)
	c11MCPU  = string(apiext.MidCPU)
)

var c11Names = []string{"p1", "p2", "p3", "p4", "p5", "p6"}

// all cases: one task, one resource; n pods in list order; every (contribution, already, fails) pattern
func c11EnumOne(rec *vu.Recorder, maxPods int, cvals []int64, needs []int64) {
	for n := 0; n <= maxPods; n++ {
		per := len(cvals) * 4
		total := 1
		for i := 0; i < n; i++ {
			total *= per
		}
		for code := 0; code < total; code++ {
			for _, need := range needs {
				cs := &c11Case{Pods: map[string]c11Pod{}, C: map[string]map[string]map[string]int64{c11Used: {}}}
				x := code
				var list []string
				for i := 0; i < n; i++ {
					d := x % per
					x /= per
					name := c11Names[i]
					cs.Pods[name] = c11Pod{Already: d&1 == 1, Fails: d&2 == 2}
					cs.C[c11Used][name] = map[string]int64{c11Mem: cvals[d/4]}
					list = append(list, name)
				}
				cs.Tasks = []c11Task{{TT: c11Used, Need: map[string]int64{c11Mem: need}, List: list}}
				c11Run(rec, cs)
			}
		}
	}
}

// all cases: one task short of two resources (batch-cpu, mid-cpu); n pods, contributions from a menu of pairs
func c11EnumTwoRes(rec *vu.Recorder, maxPods int, pairs [][2]int64, needs []int64, flags bool) {
	nf := 1
	if flags {
		nf = 4
	}
	for n := 1; n <= maxPods; n++ {
		per := len(pairs) * nf
		total := 1
		for i := 0; i < n; i++ {
			total *= per
		}
		for code := 0; code < total; code++ {
			for _, nb := range needs {
				for _, nm := range needs {
					cs := &c11Case{Pods: map[string]c11Pod{}, C: map[string]map[string]map[string]int64{c11Req: {}}}
					x := code
					var list []string
					for i := 0; i < n; i++ {
						d := x % per
						x /= per
						name := c11Names[i]
						f := d % nf
						cs.Pods[name] = c11Pod{Already: f&1 == 1, Fails: f&2 == 2}
						pr := pairs[d/nf]
						cs.C[c11Req][name] = map[string]int64{c11BCPU: pr[0], c11MCPU: pr[1]}
						list = append(list, name)
					}
					cs.Tasks = []c11Task{{TT: c11Req, Need: map[string]int64{c11BCPU: nb, c11MCPU: nm}, List: list}}
					c11Run(rec, cs)
				}
			}
		}
	}
}

func c11Perms(names []string) [][]string {
	// all duplicate-free sequences over names (including the empty one)
	out := [][]string{{}}
	var rec func(cur []string, used int)
	rec = func(cur []string, used int) {
		for i, n := range names {
			if used&(1<<i) != 0 {
				continue
			}
			nxt := append(append([]string{}, cur...), n)
			out = append(out, nxt)
			rec(nxt, used|1<<i)
		}
	}
	rec(nil, 0)
	return out
}

// all cases: two simultaneous tasks over n pods; first list p1..pk, second list any sequence;
// same target (one shared account) or different targets (a victim releases for both)
func c11EnumTwoTasks(rec *vu.Recorder, n int, cvals []int64, needs []int64, sameTarget bool, flags bool) {
	names := c11Names[:n]
	lists := c11Perms(names)
	nf := 1
	if flags {
		nf = 4
	}
	per := len(cvals) * nf
	if !sameTarget {
		per *= len(cvals)
	}
	total := 1
	for i := 0; i < n; i++ {
		total *= per
	}
	tt2, r2 := c11Used, c11Mem
	if !sameTarget {
		tt2, r2 = c11Req, c11BCPU
	}
	for code := 0; code < total; code++ {
		for k := 0; k <= n; k++ {
			for _, l2 := range lists {
				for _, n1 := range needs {
					for _, n2 := range needs {
						cs := &c11Case{Pods: map[string]c11Pod{}, C: map[string]map[string]map[string]int64{c11Used: {}}}
						if !sameTarget {
							cs.C[c11Req] = map[string]map[string]int64{}
						}
						x := code
						for i := 0; i < n; i++ {
							d := x % per
							x /= per
							f := d % nf
							d /= nf
							cs.Pods[names[i]] = c11Pod{Already: f&1 == 1, Fails: f&2 == 2}
							cs.C[c11Used][names[i]] = map[string]int64{c11Mem: cvals[d%len(cvals)]}
							if !sameTarget {
								cs.C[c11Req][names[i]] = map[string]int64{c11BCPU: cvals[d/len(cvals)]}
							}
						}
						cs.Tasks = []c11Task{
							{TT: c11Used, Need: map[string]int64{c11Mem: n1}, List: append([]string{}, names[:k]...)},
							{TT: tt2, Need: map[string]int64{r2: n2}, List: l2},
						}
						c11Run(rec, cs)
					}
				}
			}
		}
	}
}

// two simultaneous tasks that SHARE a target but know different resource names, n pods each either a batch pod
// (batch-cpu x) or a mid pod (mid-cpu y): task 1 (the best-effort strategy's view) knows batch-cpu only and lists the
// batch pods, task 2 (the allocatable strategy's view) knows both and lists all pods in any order.  A 1-in-nth sample
// (seed-dependent) of the enumeration.
func c11EnumTwoProj(rec *vu.Recorder, n int, seed int64, nth int) {
	names := c11Names[:n]
	var perms [][]string
	for _, l := range c11Perms(names) {
		if len(l) == n {
			perms = append(perms, l)
		}
	}
	total := 1
	for i := 0; i < n; i++ {
		total *= 4
	}
	k := int(seed % int64(nth))
	if k < 0 {
		k += nth
	}
	for code := 0; code < total; code++ {
		for _, l2 := range perms {
			for _, n1 := range []int64{1, 2} {
				for _, nb := range []int64{0, 2} {
					for _, nm := range []int64{1, 2, 3} {
						k++
						if k%nth != 0 {
							continue
						}
						cs := &c11Case{Pods: map[string]c11Pod{}, C: map[string]map[string]map[string]int64{c11Req: {}}}
						x := code
						var l1 []string
						for i := 0; i < n; i++ {
							d := x % 4
							x /= 4
							cs.Pods[names[i]] = c11Pod{}
							if d < 2 {
								cs.C[c11Req][names[i]] = map[string]int64{c11BCPU: int64(1 + d)}
								l1 = append(l1, names[i])
							} else {
								cs.C[c11Req][names[i]] = map[string]int64{c11BCPU: 0, c11MCPU: int64(d - 1)}
							}
						}
						cs.Tasks = []c11Task{
							{TT: c11Req, Need: map[string]int64{c11BCPU: n1}, List: l1, Res: []string{c11BCPU}},
							{TT: c11Req, Need: map[string]int64{c11BCPU: nb, c11MCPU: nm}, List: l2, Res: []string{c11BCPU, c11MCPU}},
						}
						c11Run(rec, cs)
					}
				}
			}
		}
	}
}

// seeded random cases: 1-3 tasks, 1-2 resources per target, 0-6 pods, larger magnitudes
func c11Random(rng *rand.Rand) *c11Case {
	type tgt struct {
		tt  string
		res []string
	}
	menu := []tgt{{c11Used, []string{c11Mem}}, {c11Used, []string{c11CPU}}, {c11Req, []string{c11BCPU, c11MCPU}},
		{c11Req, []string{c11BCPU}}, {c11Batch, []string{c11BCPU, string(apiext.BatchMemory)}}}
	np := rng.Intn(7)
	names := c11Names[:np]
	cs := &c11Case{Pods: map[string]c11Pod{}, C: map[string]map[string]map[string]int64{}}
	pa, pf := rng.Intn(4), rng.Intn(4) // how often already / fails
	for _, n := range names {
		cs.Pods[n] = c11Pod{Already: rng.Intn(4) < pa && rng.Intn(2) == 0, Fails: rng.Intn(4) < pf && rng.Intn(2) == 0}
	}
	nt := 1 + rng.Intn(3)
	big := rng.Intn(3) == 0
	val := func() int64 {
		if rng.Intn(3) == 0 {
			return 0
		}
		if big {
			return int64(1 + rng.Intn(2000))
		}
		return int64(1 + rng.Intn(3))
	}
	for i := 0; i < nt; i++ {
		tg := menu[rng.Intn(len(menu))]
		if cs.C[tg.tt] == nil {
			cs.C[tg.tt] = map[string]map[string]int64{}
		}
		for _, n := range names {
			if cs.C[tg.tt][n] == nil {
				if rng.Intn(8) == 0 {
					continue // the task's function returns nil for this pod
				}
				cs.C[tg.tt][n] = map[string]int64{}
			}
			for _, r := range tg.res {
				if _, ok := cs.C[tg.tt][n][r]; !ok && rng.Intn(6) > 0 {
					cs.C[tg.tt][n][r] = val()
				}
			}
		}
		need := map[string]int64{}
		for _, r := range tg.res {
			if rng.Intn(5) > 0 {
				v := val() * int64(1+rng.Intn(3))
				if rng.Intn(12) == 0 {
					v = -1
				}
				need[r] = v
			}
		}
		perm := rng.Perm(np)
		var list []string
		for _, j := range perm {
			if rng.Intn(5) > 0 {
				list = append(list, names[j])
			}
		}
		cs.Tasks = append(cs.Tasks, c11Task{TT: tg.tt, Need: need, List: list, Res: tg.res})
	}
	return cs
}

func TestVerifC11(t *testing.T) {
	if !vu.Enabled() {
		t.Skip("verification harness: VERIF_OUT not set")
	}
	rec := vu.NewRecorder("")
	defer rec.Close()
	if p := vu.ReplayPath(); p != "" {
		for _, raw := range vu.ReadScripts(p) {
			var seg []json.RawMessage
			if err := json.Unmarshal(raw, &seg); err != nil || len(seg) == 0 {
				t.Fatalf("bad replay script: %v", err)
			}
			var cs c11Case
			if err := json.Unmarshal(seg[0], &cs); err != nil {
				t.Fatal(err)
			}
			c11Run(rec, &cs)
		}
		return
	}
	c012 := []int64{0, 1, 2}
	pairs := [][2]int64{{0, 0}, {1, 0}, {0, 1}, {2, 0}, {0, 2}, {1, 1}}
	if vu.Thorough() {
		c11EnumOne(rec, 4, c012, []int64{0, 1, 2, 3, 4})
		c11EnumTwoRes(rec, 2, pairs, []int64{0, 1, 2}, true)
		c11EnumTwoRes(rec, 3, pairs, []int64{0, 1, 2}, false)
		c11EnumTwoTasks(rec, 2, c012, []int64{0, 1, 2, 3}, true, true)
		c11EnumTwoTasks(rec, 2, []int64{0, 1}, []int64{0, 1, 2}, false, true)
		c11EnumTwoTasks(rec, 3, []int64{0, 1}, []int64{1, 2}, true, false)
		c11EnumTwoProj(rec, 3, vu.Seed(), 1)
	} else {
		c11EnumOne(rec, 3, c012, []int64{0, 1, 2, 3, 4})
		c11EnumTwoRes(rec, 2, pairs, []int64{0, 1, 2}, true)
		c11EnumTwoTasks(rec, 2, []int64{0, 1}, []int64{0, 1, 2}, true, true)
		c11EnumTwoTasks(rec, 2, []int64{0, 1}, []int64{1, 2}, false, false)
		c11EnumTwoProj(rec, 3, vu.Seed(), 3)
	}
	enum := rec.Segments()
	n := 2000
	if vu.Thorough() {
		n = 40000
	}
	rng := vu.Rand(11)
	for i := 0; i < n; i++ {
		c11Run(rec, c11Random(rng))
	}
	if c11Unattributed > 0 {
		t.Fatalf("C11 loop: %d Evict calls could not be attributed to a task (message format changed?)", c11Unattributed)
	}
	t.Logf("C11 loop: %d enumerated + %d random cases, %d events", enum, n, rec.Events())
}
