package cpusuppress

// Verification harness for C10 (injected by `go test -overlay`, see /verif/DESIGN.md and
// /verif/specs/Suppress/Suppress.tla). Executor + recorder only: it builds the inputs described by a
// reset event (node, NodeResourceTopology, pods, metrics, temp cgroup root), calls the REAL
// calculateBESuppressCPU / adjustByCPUSet / adjustByCfsQuota / calculateBESuppressCPUSetPolicy /
// calcBECPUSet and logs what they returned or wrote. No oracle here: expected values are computed
// only by TLC from the specification. A recovered panic is logged as event `panic`.
//
// Projection (obs) of real state onto the spec variables:
//   budget.milli   Quantity.MilliValue() returned by calculateBESuppressCPU
//   cpuset.written did adjustByCPUSet hand a cpuset.cpus update for the BE container cgroup to the executor
//   cpuset.set     cpuset.cpus of the BE container cgroup read back (the set applied to BE containers)
//   cpuset.root    cpuset.cpus of the BE root cgroup read back (what the next round reads as old)
//   quota.after    cpu.cfs_quota_us of the BE root cgroup read back
// All CPU amounts are milli-CPU integers; usages are multiples of 125m so that the code's float
// arithmetic (cores as float64, x1000) is exact.

import (
	"encoding/json"
	"fmt"
	"io"
	"math/rand"
	"os"
	"path/filepath"
	"sort"
	"strconv"
	"strings"
	"testing"

	topov1alpha1 "github.com/k8stopologyawareschedwg/noderesourcetopology-api/pkg/apis/topology/v1alpha1"
	"go.uber.org/mock/gomock"
	corev1 "k8s.io/api/core/v1"
	"k8s.io/apimachinery/pkg/api/resource"
	metav1 "k8s.io/apimachinery/pkg/apis/meta/v1"
	"k8s.io/apimachinery/pkg/types"
	"k8s.io/klog/v2"

	apiext "github.com/koordinator-sh/koordinator/apis/extension"
	slov1alpha1 "github.com/koordinator-sh/koordinator/apis/slo/v1alpha1"
	"github.com/koordinator-sh/koordinator/pkg/koordlet/metriccache"
	mockmetriccache "github.com/koordinator-sh/koordinator/pkg/koordlet/metriccache/mockmetriccache"
	maframework "github.com/koordinator-sh/koordinator/pkg/koordlet/metricsadvisor/framework"
	"github.com/koordinator-sh/koordinator/pkg/koordlet/qosmanager/framework"
	"github.com/koordinator-sh/koordinator/pkg/koordlet/resourceexecutor"
	"github.com/koordinator-sh/koordinator/pkg/koordlet/statesinformer"
	mockstatesinformer "github.com/koordinator-sh/koordinator/pkg/koordlet/statesinformer/mockstatesinformer"
	koordletutil "github.com/koordinator-sh/koordinator/pkg/koordlet/util"
	"github.com/koordinator-sh/koordinator/pkg/koordlet/util/system"
	"github.com/koordinator-sh/koordinator/pkg/util/cache"
	vu "github.com/koordinator-sh/koordinator/pkg/verifutil"
)

type c10Proc struct {
	CPU    int32 `json:"cpu"`
	Core   int32 `json:"core"`
	Socket int32 `json:"socket"`
	Node   int32 `json:"node"`
}

type c10Pod struct {
	QoS      string `json:"qos"`  // koordinator QoS label ("" = no label)
	Kube     string `json:"kube"` // kubernetes QoS class
	CPUs     []int  `json:"cpus"` // cpuset annotation ([] = none)
	Usage    int64  `json:"usage"`
	NoMetric bool   `json:"nometric,omitempty"` // usage 0 and no metric entry at all
}

type c10Host struct {
	QoS   string `json:"qos"`
	Base  string `json:"base"` // cgroup base type ("" = no cgroup path)
	Usage int64  `json:"usage"`
}

// one script / trace event: op + its arguments (results are added by the recorder)
type c10Op struct {
	Op string `json:"op"`
	// reset: the inputs
	Procs     []c10Proc `json:"procs,omitempty"`
	Pods      []c10Pod  `json:"pods,omitempty"`
	Hosts     []c10Host `json:"hosts,omitempty"`
	NodeUsage int64     `json:"nodeUsage,omitempty"`
	Cap       int64     `json:"cap,omitempty"`
	KRes      int64     `json:"kres,omitempty"`
	ARes      int64     `json:"ares,omitempty"`
	RCpus     []int     `json:"rcpus,omitempty"`
	Sys       []int     `json:"sys,omitempty"`
	SysX      bool      `json:"sysx,omitempty"`
	// the CPU list of the annotation is written in a form that does not parse ("0-1,x"): it names no CPU then, and the
	// event says so (rcpus / sys logged empty); the OTHER annotation keeps protecting its CPUs
	RBad   bool `json:"rbad,omitempty"`
	SysBad bool `json:"sysbad,omitempty"`
	Thr       int64     `json:"thr,omitempty"`
	MinP      int64     `json:"minp,omitempty"`
	Old       []int     `json:"old,omitempty"`
	Quota0    int64     `json:"quota0,omitempty"`
	Kubelet   string    `json:"kubelet,omitempty"`
	// grow
	What string `json:"what,omitempty"`
	I    int    `json:"i,omitempty"`
	D    int64  `json:"d,omitempty"`
	Node bool   `json:"node,omitempty"`
	// cpuset / quota: budget handed to the round; Chain = use the budget computed last in this segment
	Q     int64 `json:"q,omitempty"`
	Chain bool  `json:"chain,omitempty"`
	// policy
	Cpus int32 `json:"cpus,omitempty"`
	Pool []int `json:"pool,omitempty"`
	// panic (replay only): the op that crashed, with its arguments
	In string `json:"in,omitempty"`
}

func c10Ints(a []int) []int {
	if a == nil {
		return []int{}
	}
	return a
}

// "0-2,5" formatting / parsing of cgroup cpu lists (own code: the repository's cpuset package is under test)
func c10FmtCPUs(a []int) string {
	s := append([]int{}, a...)
	sort.Ints(s)
	var parts []string
	for i := 0; i < len(s); {
		j := i
		for j+1 < len(s) && s[j+1] == s[j]+1 {
			j++
		}
		if j > i {
			parts = append(parts, fmt.Sprintf("%d-%d", s[i], s[j]))
		} else {
			parts = append(parts, strconv.Itoa(s[i]))
		}
		i = j + 1
	}
	return strings.Join(parts, ",")
}

func c10ParseCPUs(s string) []int {
	out := []int{}
	s = strings.TrimSpace(s)
	if s == "" {
		return out
	}
	for _, part := range strings.Split(s, ",") {
		b := strings.Split(part, "-")
		lo, err := strconv.Atoi(b[0])
		if err != nil {
			panic("harness: unreadable cpu list " + s)
		}
		hi := lo
		if len(b) == 2 {
			if hi, err = strconv.Atoi(b[1]); err != nil {
				panic("harness: unreadable cpu list " + s)
			}
		}
		for c := lo; c <= hi; c++ {
			out = append(out, c)
		}
	}
	return out
}

// executor wrapper: delegates everything, only notes whether a cpuset update for the BE container cgroup was requested
type c10Exec struct {
	resourceexecutor.ResourceUpdateExecutor
	containerFile   string
	containerWrites int
}

func (e *c10Exec) UpdateBatch(cacheable bool, updaters ...resourceexecutor.ResourceUpdater) {
	for _, u := range updaters {
		if u.Path() == e.containerFile {
			e.containerWrites++
		}
	}
	e.ResourceUpdateExecutor.UpdateBatch(cacheable, updaters...)
}

type c10Env struct {
	helper *system.FileTestUtil
	ctrl   *gomock.Controller
	si     *mockstatesinformer.MockStatesInformer
	mc     *mockmetriccache.MockMetricCache
	// what the mocks currently return
	pods    []*statesinformer.PodMeta
	topo    *topov1alpha1.NodeResourceTopology
	cpuInfo *metriccache.NodeCPUInfo
	beDir   string
	podDir  string
	ctnDir  string
}

func c10NewEnv(t *testing.T) *c10Env {
	e := &c10Env{}
	e.helper = system.NewFileTestUtil(t)
	// the temp cgroup root goes to tmpfs when there is one (the ext4 /tmp of this image takes ~2.5ms per rewrite)
	if fi, err := os.Stat("/dev/shm"); err == nil && fi.IsDir() {
		if d, err := os.MkdirTemp("/dev/shm", "verif-c10-"); err == nil {
			t.Cleanup(func() { os.RemoveAll(d) })
			system.Conf.CgroupRootDir = d
		}
	}
	e.ctrl = gomock.NewController(t)
	e.si = mockstatesinformer.NewMockStatesInformer(e.ctrl)
	e.mc = mockmetriccache.NewMockMetricCache(e.ctrl)
	e.si.EXPECT().GetAllPods().DoAndReturn(func() []*statesinformer.PodMeta { return e.pods }).AnyTimes()
	e.si.EXPECT().GetNodeTopo().DoAndReturn(func() *topov1alpha1.NodeResourceTopology { return e.topo }).AnyTimes()
	e.mc.EXPECT().Get(metriccache.NodeCPUInfoKey).DoAndReturn(func(string) (interface{}, bool) { return e.cpuInfo, true }).AnyTimes()
	e.beDir = koordletutil.GetPodQoSRelativePath(corev1.PodQOSBestEffort)
	e.podDir = filepath.Join(e.beDir, "pod-be1")
	e.ctnDir = filepath.Join(e.podDir, "ctn1")
	// create the cgroup directories and files once (through the package's test helper); later rewrites go direct
	for _, d := range []string{e.beDir, e.podDir, e.ctnDir} {
		e.helper.WriteCgroupFileContents(d, system.CPUSet, "")
	}
	e.helper.WriteCgroupFileContents(e.beDir, system.CPUCFSQuota, "-1")
	return e
}

func c10Write(dir string, r system.Resource, contents string) {
	if err := os.WriteFile(r.Path(dir), []byte(contents), 0644); err != nil {
		panic("harness: " + err.Error())
	}
}

func c10Read(dir string, r system.Resource) string {
	b, err := os.ReadFile(r.Path(dir))
	if err != nil {
		panic("harness: " + err.Error())
	}
	return strings.TrimSpace(string(b))
}

type c10State struct {
	in         c10Op // current inputs (usages grow)
	node       *corev1.Node
	r          *CPUSuppress
	ex         *c10Exec
	stop       chan struct{}
	lastBudget *resource.Quantity
	pods       []*statesinformer.PodMeta // the PodMeta list of this segment (the objects the informer mock returns)
}

func (e *c10Env) setup(in c10Op) *c10State {
	st := &c10State{in: in}
	// --- cgroup files
	old := c10FmtCPUs(in.Old)
	for _, d := range []string{e.beDir, e.podDir, e.ctnDir} {
		c10Write(d, system.CPUSet, old)
	}
	c10Write(e.beDir, system.CPUCFSQuota, strconv.FormatInt(in.Quota0, 10))
	// --- node
	resv := ""
	if in.ARes > 0 || len(in.RCpus) > 0 || in.RBad {
		m := map[string]interface{}{}
		if in.ARes > 0 {
			m["resources"] = map[string]string{"cpu": fmt.Sprintf("%dm", in.ARes)}
		}
		if len(in.RCpus) > 0 {
			m["reservedCPUs"] = c10FmtCPUs(in.RCpus)
		}
		if in.RBad {
			m["reservedCPUs"] = strings.TrimPrefix(c10FmtCPUs(in.RCpus)+",x", ",")
		}
		b, _ := json.Marshal(m)
		resv = string(b)
	}
	st.node = &corev1.Node{
		ObjectMeta: metav1.ObjectMeta{Name: "verif-node", Annotations: map[string]string{}},
		Status: corev1.NodeStatus{
			Capacity:    corev1.ResourceList{corev1.ResourceCPU: *resource.NewMilliQuantity(in.Cap, resource.DecimalSI)},
			Allocatable: corev1.ResourceList{corev1.ResourceCPU: *resource.NewMilliQuantity(in.Cap-in.KRes, resource.DecimalSI)},
		},
	}
	topoAnno := map[string]string{}
	if resv != "" {
		st.node.Annotations[apiext.AnnotationNodeReservation] = resv
		topoAnno[apiext.AnnotationNodeReservation] = resv
	}
	if len(in.Sys) > 0 || in.SysBad {
		m := map[string]interface{}{"cpuset": c10FmtCPUs(in.Sys)}
		if in.SysBad {
			m["cpuset"] = strings.TrimPrefix(c10FmtCPUs(in.Sys)+",x", ",")
		}
		if !in.SysX {
			m["cpusetExclusive"] = false
		}
		b, _ := json.Marshal(m)
		topoAnno[apiext.AnnotationNodeSystemQOSResource] = string(b)
	}
	if in.Kubelet == "static" {
		topoAnno[apiext.AnnotationKubeletCPUManagerPolicy] = `{"policy":"static"}`
	}
	e.topo = &topov1alpha1.NodeResourceTopology{ObjectMeta: metav1.ObjectMeta{Name: "verif-node", Annotations: topoAnno}}
	// --- pods
	e.pods = nil
	for k, p := range in.Pods {
		pod := &corev1.Pod{
			ObjectMeta: metav1.ObjectMeta{Namespace: "verif", Name: fmt.Sprintf("pod-%d", k+1), UID: types.UID(fmt.Sprintf("uid-%d", k+1)),
				Labels: map[string]string{}, Annotations: map[string]string{}},
			Status: corev1.PodStatus{QOSClass: corev1.PodQOSClass(p.Kube)},
		}
		if p.QoS != "" {
			pod.Labels[apiext.LabelPodQoS] = p.QoS
		}
		if len(p.CPUs) > 0 {
			pod.Annotations[apiext.AnnotationResourceStatus] = fmt.Sprintf(`{"cpuset":"%s"}`, c10FmtCPUs(p.CPUs))
		}
		e.pods = append(e.pods, &statesinformer.PodMeta{Pod: pod, CgroupDir: fmt.Sprintf("kubepods.slice/pod-%d", k+1)})
	}
	st.pods = e.pods
	// --- processors
	info := &metriccache.NodeCPUInfo{}
	for _, p := range in.Procs {
		info.ProcessorInfos = append(info.ProcessorInfos, koordletutil.ProcessorInfo{CPUID: p.CPU, CoreID: p.Core, SocketID: p.Socket, NodeID: p.Node})
	}
	e.cpuInfo = info
	// --- the plugin, as the package's own tests build it (fresh executor cache per segment)
	opt := &framework.Options{StatesInformer: e.si, MetricCache: e.mc, Config: framework.NewDefaultConfig(), MetricAdvisorConfig: maframework.NewDefaultConfig()}
	st.r = newTestCPUSuppress(opt)
	st.ex = &c10Exec{ResourceUpdateExecutor: &resourceexecutor.ResourceUpdateExecutorImpl{Config: resourceexecutor.NewDefaultConfig(), ResourceCache: cache.NewCacheDefault()},
		containerFile: system.CPUSet.Path(e.ctnDir)}
	st.r.executor = st.ex
	st.stop = make(chan struct{})
	st.r.init(st.stop)
	return st
}

func (e *c10Env) resetEvent(in c10Op) vu.Ev {
	procs := []c10Proc{}
	procs = append(procs, in.Procs...)
	pods := []vu.Ev{}
	for _, p := range in.Pods {
		pe := vu.Ev{"qos": p.QoS, "kube": p.Kube, "cpus": c10Ints(p.CPUs), "usage": p.Usage}
		if p.NoMetric {
			pe["nometric"] = true
		}
		pods = append(pods, pe)
	}
	hosts := []c10Host{}
	hosts = append(hosts, in.Hosts...)
	kubelet := in.Kubelet
	if kubelet == "" {
		kubelet = "none"
	}
	ev := vu.Ev{"procs": procs, "pods": pods, "hosts": hosts, "nodeUsage": in.NodeUsage, "cap": in.Cap, "kres": in.KRes, "ares": in.ARes,
		"rcpus": c10Ints(in.RCpus), "sys": c10Ints(in.Sys), "sysx": in.SysX, "thr": in.Thr, "minp": in.MinP, "old": c10Ints(in.Old),
		"quota0": in.Quota0, "kubelet": kubelet}
	if in.RBad {
		ev["rcpus"], ev["rbad"] = []int{}, true
	}
	if in.SysBad {
		ev["sys"], ev["sysbad"] = []int{}, true
	}
	return ev
}

func (st *c10State) budget() *resource.Quantity {
	in := st.in
	podMetrics := map[string]float64{}
	for k, p := range in.Pods {
		if p.NoMetric && p.Usage == 0 {
			continue
		}
		podMetrics[fmt.Sprintf("uid-%d", k+1)] = float64(p.Usage) / 1000
	}
	var hostApps []slov1alpha1.HostApplicationSpec
	hostMetrics := map[string]float64{}
	for k, h := range in.Hosts {
		name := fmt.Sprintf("host-%d", k+1)
		spec := slov1alpha1.HostApplicationSpec{Name: name, QoS: apiext.QoSClass(h.QoS)}
		if h.Base != "" {
			spec.CgroupPath = &slov1alpha1.CgroupPath{Base: slov1alpha1.CgroupBaseType(h.Base), RelativePath: name}
		}
		hostApps = append(hostApps, spec)
		hostMetrics[name] = float64(h.Usage) / 1000
	}
	var minp *int64
	if in.MinP >= 0 {
		v := in.MinP
		minp = &v
	}
	return st.r.calculateBESuppressCPU(st.node, float64(in.NodeUsage)/1000, podMetrics, st.pods, hostApps, hostMetrics, in.Thr, minp)
}

// c10Run executes one script (reset + ops) on the real code and records one trace segment.
func c10Run(e *c10Env, rec *vu.Recorder, script []c10Op) {
	if len(script) == 0 || script[0].Op != "reset" {
		panic("harness: script must start with reset")
	}
	st := e.setup(script[0])
	defer close(st.stop)
	rec.Reset(e.resetEvent(script[0]))
	for _, o := range script[1:] {
		if o.Op == "panic" { // replaying a recorded crash: re-execute the op that crashed
			o.Op = o.In
		}
		ev := vu.Ev{"op": o.Op}
		panicked, msg := vu.Protect(func() {
			switch o.Op {
			case "budget":
				q := st.budget()
				st.lastBudget = q
				ev["milli"] = q.MilliValue()
			case "grow":
				ev["what"], ev["i"], ev["d"], ev["node"] = o.What, o.I, o.D, o.Node
				switch o.What {
				case "pod":
					st.in.Pods[o.I-1].Usage += o.D
				case "host":
					st.in.Hosts[o.I-1].Usage += o.D
				case "node":
				default:
					panic("harness: unknown grow " + o.What)
				}
				if o.Node || o.What == "node" {
					st.in.NodeUsage += o.D
				}
			case "cpuset":
				q := resource.NewMilliQuantity(o.Q, resource.DecimalSI)
				if o.Chain && st.lastBudget != nil {
					q = st.lastBudget
				}
				ev["q"] = q.MilliValue()
				before := st.ex.containerWrites
				st.r.adjustByCPUSet(q, e.cpuInfo)
				ev["written"] = st.ex.containerWrites > before
				ev["set"] = c10ParseCPUs(c10Read(e.ctnDir, system.CPUSet))
				ev["root"] = c10ParseCPUs(c10Read(e.beDir, system.CPUSet))
			case "quota":
				q := resource.NewMilliQuantity(o.Q, resource.DecimalSI)
				if o.Chain && st.lastBudget != nil {
					q = st.lastBudget
				}
				ev["q"] = q.MilliValue()
				st.r.adjustByCfsQuota(q, st.node)
				after, err := strconv.ParseInt(c10Read(e.beDir, system.CPUCFSQuota), 10, 64)
				if err != nil {
					panic("harness: unreadable cfs quota: " + err.Error())
				}
				ev["after"] = after
			case "policy":
				var procs []koordletutil.ProcessorInfo
				for _, id := range o.Pool {
					for _, p := range e.cpuInfo.ProcessorInfos {
						if int(p.CPUID) == id {
							procs = append(procs, p)
						}
					}
				}
				ev["cpus"], ev["pool"] = o.Cpus, c10Ints(o.Pool)
				res := calculateBESuppressCPUSetPolicy(o.Cpus, procs)
				out := []int{}
				for _, c := range res {
					out = append(out, int(c))
				}
				ev["result"] = out
			case "recover":
				set, err := st.r.calcBECPUSet()
				if err != nil || set == nil {
					panic(fmt.Sprintf("harness: calcBECPUSet failed: %v", err))
				}
				ev["set"] = c10Ints(set.ToSlice())
			default:
				panic("harness: unknown op " + o.Op)
			}
		})
		if panicked {
			if strings.HasPrefix(msg, "harness:") {
				panic(msg)
			}
			// "never crashes the agent": the specification has no such step (the event keeps the op's arguments for replay)
			ev["op"], ev["in"], ev["msg"] = "panic", o.Op, msg
			rec.Emit(ev)
			return
		}
		rec.Emit(ev)
	}
}

// ------------------------------------------------------------------ input generation (no judging here)

// CPU k of an n-CPU machine: perNode CPUs per NUMA node (= socket), perCore threads per core; split = siblings are k, k+n/2
func c10Layout(n, perNode, perCore int, split bool) []c10Proc {
	var out []c10Proc
	h := n / 2
	for k := 0; k < n; k++ {
		slot := k
		if split {
			if k < h {
				slot = 2 * k
			} else {
				slot = 2*(k-h) + 1
			}
		}
		out = append(out, c10Proc{CPU: int32(k), Core: int32(slot / perCore), Socket: int32(slot / perNode), Node: int32(slot / perNode)})
	}
	return out
}

func c10Layouts(n int) [][]c10Proc {
	hn := n / 2
	if hn < 1 {
		hn = 1
	}
	return [][]c10Proc{c10Layout(n, n, 2, false), c10Layout(n, hn, 2, false), c10Layout(n, hn, 2, true), c10Layout(n, n, 1, false)}
}

func c10Range(n int) []int {
	out := []int{}
	for k := 0; k < n; k++ {
		out = append(out, k)
	}
	return out
}

// kinds[k] in 0..4 = free, LSR-owned, LSE-owned, reserved by id, system-QoS exclusive
func c10TableCase(procs []c10Proc, kinds []int, old []int) c10Op {
	by := make([][]int, 5)
	for k, kind := range kinds {
		by[kind] = append(by[kind], k)
	}
	n := len(procs)
	return c10Op{Op: "reset", Procs: procs,
		Pods: []c10Pod{{QoS: "LSR", Kube: "Guaranteed", CPUs: by[1]}, {QoS: "LSE", Kube: "Guaranteed", CPUs: by[2]}, {QoS: "LS", Kube: "Burstable"},
			{QoS: "BE", Kube: "BestEffort"}},
		Hosts: nil, Cap: int64(1000 * n), RCpus: by[3], Sys: by[4], SysX: true, Thr: 65, MinP: -1, Old: old, Quota0: -1, Kubelet: "none"}
}

// the exhaustive table: every assignment of n CPUs to the five kinds x budgets x old cpusets (x layouts)
func c10Table(e *c10Env, rec *vu.Recorder, n int, allLayouts bool, sample int, rng *rand.Rand) {
	total := 1
	for k := 0; k < n; k++ {
		total *= 5
	}
	lays := c10Layouts(n)
	olds := [][]int{{}, {0, 1}, c10Range(n)}
	var qs []int64
	qs = append(qs, -500)
	for j := 2; j <= n+1; j++ {
		qs = append(qs, int64(1000*j-500))
	}
	count := total
	if sample > 0 {
		count = sample
	}
	for c := 0; c < count; c++ {
		a := c
		if sample > 0 {
			a = rng.Intn(total)
		}
		kinds := make([]int, n)
		for k, x := 0, a; k < n; k++ {
			kinds[k] = x % 5
			x /= 5
		}
		for qi, q := range qs {
			for oi, old := range olds {
				for li, lay := range lays {
					if !allLayouts && li != (a+qi+oi)%len(lays) {
						continue
					}
					c10Run(e, rec, []c10Op{c10TableCase(lay, kinds, old), {Op: "cpuset", Q: q}})
				}
			}
		}
	}
}

func c10Pick(rng *rand.Rand, xs ...int64) int64 { return xs[rng.Intn(len(xs))] }

// one random segment: inputs + a history of budget / grow / cpuset / quota / policy / recover ops
func c10Random(rng *rand.Rand, big bool) []c10Op {
	ns := []int{1, 2, 3, 4, 4, 6, 8, 8, 8, 10, 12, 16, 16}
	if big {
		ns = append(ns, 20, 24, 32, 32, 48, 64)
	}
	n := ns[rng.Intn(len(ns))]
	var procs []c10Proc
	switch rng.Intn(6) {
	case 0:
		procs = c10Layout(n, n, 2, false)
	case 1:
		procs = c10Layout(n, (n+1)/2, 2, false)
	case 2:
		procs = c10Layout(n, (n+1)/2, 2, true)
	case 3:
		procs = c10Layout(n, n, 1, false)
	case 4:
		procs = c10Layout(n, (n+3)/4, 2, rng.Intn(2) == 0) // four nodes
	default:
		procs = c10Layout(n, (n+1)/2, 4, false) // four threads per core
	}
	if rng.Intn(4) == 0 { // processor list in another order
		rng.Shuffle(len(procs), func(i, j int) { procs[i], procs[j] = procs[j], procs[i] })
	}
	if rng.Intn(6) == 0 { // CPU ids with gaps (offline CPUs)
		for k := range procs {
			procs[k].CPU = procs[k].CPU * 2
		}
	}
	ids := []int{}
	for _, p := range procs {
		ids = append(ids, int(p.CPU))
	}
	sort.Ints(ids)
	// who owns what: weights steer towards the interesting corners (all protected, few eligible)
	mode := rng.Intn(10)
	in := c10Op{Op: "reset", Procs: procs, Cap: int64(1000 * n), SysX: rng.Intn(5) != 0, Kubelet: "none"}
	if rng.Intn(4) == 0 {
		in.Kubelet = "static"
	}
	npods := 1 + rng.Intn(5)
	qosMenu := [][2]string{{"LSR", "Guaranteed"}, {"LSE", "Guaranteed"}, {"LS", "Burstable"}, {"LS", "Guaranteed"}, {"BE", "BestEffort"},
		{"", "Burstable"}, {"", "BestEffort"}, {"LS", "BestEffort"}, {"BE", "Burstable"}, {"SYSTEM", "Burstable"}, {"LSE", "Guaranteed"}, {"LSR", "Guaranteed"}}
	for k := 0; k < npods; k++ {
		c := qosMenu[rng.Intn(len(qosMenu))]
		p := c10Pod{QoS: c[0], Kube: c[1], CPUs: []int{}, Usage: 125 * int64(rng.Intn(4*n+1))}
		if rng.Intn(3) == 0 {
			p.Usage = 0
			p.NoMetric = rng.Intn(2) == 0
		}
		in.Pods = append(in.Pods, p)
	}
	for _, id := range ids {
		x := rng.Intn(100)
		var kind int // 0 free, 1 a pod with cpuset annotation, 2 reserved, 3 system
		switch {
		case mode == 0: // everything protected or owned
			kind = 1 + rng.Intn(3)
		case mode <= 2:
			kind = []int{0, 1, 1, 1, 2, 3}[rng.Intn(6)]
		default:
			switch {
			case x < 50:
				kind = 0
			case x < 80:
				kind = 1
			case x < 90:
				kind = 2
			default:
				kind = 3
			}
		}
		switch kind {
		case 1:
			// only pods that may carry a cpuset annotation; annotations stay disjoint
			var cands []int
			for k, p := range in.Pods {
				if p.QoS == "LSR" || p.QoS == "LSE" || (p.QoS == "LS" && mode%2 == 0) || (p.QoS == "BE" && mode%3 == 0) {
					cands = append(cands, k)
				}
			}
			if len(cands) > 0 {
				k := cands[rng.Intn(len(cands))]
				in.Pods[k].CPUs = append(in.Pods[k].CPUs, id)
			}
		case 2:
			in.RCpus = append(in.RCpus, id)
		case 3:
			in.Sys = append(in.Sys, id)
		}
	}
	if mode == 0 && rng.Intn(2) == 0 { // all CPUs exclusively LSE-owned / reserved / system
		for k := range in.Pods {
			if len(in.Pods[k].CPUs) > 0 {
				in.Pods[k].QoS, in.Pods[k].Kube = "LSE", "Guaranteed"
			}
		}
	}
	if rng.Intn(8) == 0 && n > 1 { // annotations mentioning CPUs that do not exist
		in.Sys = append(in.Sys, 200+rng.Intn(5))
	}
	if rng.Intn(6) == 0 && (len(in.RCpus) > 0 || len(in.Sys) > 0) { // one of the two CPU lists does not parse
		if in.ARes == 0 && len(in.RCpus) > 0 && (len(in.Sys) == 0 || rng.Intn(2) == 0) {
			in.RBad = true
		} else if len(in.Sys) > 0 {
			in.SysBad = true
		}
	}
	for k := 0; k < rng.Intn(3); k++ {
		hm := [][2]string{{"BE", "KubepodsBesteffort"}, {"BE", "CgroupRoot"}, {"LS", "KubepodsBurstable"}, {"LS", "KubepodsBesteffort"}, {"BE", ""}, {"", "Kubepods"}}
		c := hm[rng.Intn(len(hm))]
		in.Hosts = append(in.Hosts, c10Host{QoS: c[0], Base: c[1], Usage: 125 * int64(rng.Intn(2*n+1))})
	}
	var sum int64
	for _, p := range in.Pods {
		sum += p.Usage
	}
	for _, h := range in.Hosts {
		sum += h.Usage
	}
	switch rng.Intn(4) {
	case 0:
		in.NodeUsage = sum // no system usage
	case 1:
		in.NodeUsage = 125 * int64(rng.Intn(8*n+1)) // anything, also below the sum
	default:
		in.NodeUsage = sum + 125*int64(rng.Intn(2*n+1))
	}
	if rng.Intn(2) == 0 {
		in.KRes = 125 * int64(rng.Intn(4*n+1))
	}
	if rng.Intn(3) == 0 && !in.RBad { // (a reservation whose CPU list does not parse is dropped as a whole by the budget side)
		in.ARes = 125 * int64(1+rng.Intn(4*n))
	}
	in.Thr = c10Pick(rng, 0, 20, 50, 65, 65, 65, 80, 100, int64(rng.Intn(101)))
	in.MinP = c10Pick(rng, -1, -1, 0, 5, 10, 25, 50, int64(rng.Intn(101)))
	switch rng.Intn(5) {
	case 0:
		in.Old = []int{}
	case 1:
		in.Old = append([]int{}, ids...)
	case 2:
		in.Old = append([]int{}, ids[:1+rng.Intn(len(ids))]...)
	default:
		for _, id := range ids {
			if rng.Intn(2) == 0 {
				in.Old = append(in.Old, id)
			}
		}
	}
	in.Quota0 = c10Pick(rng, -1, -1, 2000, 100*125*int64(rng.Intn(8*n+1)), int64(n)*100000, 2000+int64(rng.Intn(1000)))
	if in.Quota0 < -1 || in.Quota0 == 0 {
		in.Quota0 = -1
	}
	script := []c10Op{in}
	steps := 4 + rng.Intn(8)
	for s := 0; s < steps; s++ {
		switch x := rng.Intn(12); {
		case x < 3:
			script = append(script, c10Op{Op: "budget"})
		case x < 5:
			o := c10Op{Op: "grow", D: 125 * int64(rng.Intn(2*n+1)), Node: rng.Intn(2) == 0}
			switch y := rng.Intn(4); {
			case y == 0 && len(in.Hosts) > 0:
				o.What, o.I = "host", 1+rng.Intn(len(in.Hosts))
			case y == 1:
				o.What, o.Node = "node", false
			default:
				o.What, o.I = "pod", 1+rng.Intn(len(in.Pods))
			}
			script = append(script, o, c10Op{Op: "budget"})
		case x < 8:
			if rng.Intn(2) == 0 {
				script = append(script, c10Op{Op: "budget"}, c10Op{Op: "cpuset", Chain: true})
			} else {
				script = append(script, c10Op{Op: "cpuset", Q: c10Pick(rng, -2000, 0, 1, 999, 1000, 1001, 2000, 2001, int64(1000*n), 125*int64(rng.Intn(10*n+1)))})
			}
		case x < 10:
			if rng.Intn(2) == 0 {
				script = append(script, c10Op{Op: "budget"}, c10Op{Op: "quota", Chain: true})
			} else {
				script = append(script, c10Op{Op: "quota", Q: c10Pick(rng, -2000, 0, 1, 19, 20, 21, 30, 1000, int64(1000*n), 125*int64(rng.Intn(10*n+1)), int64(rng.Intn(1000*n+1)))})
			}
		case x < 11:
			pool := []int{}
			for _, p := range procs {
				if rng.Intn(3) > 0 {
					pool = append(pool, int(p.CPU))
				}
			}
			script = append(script, c10Op{Op: "policy", Cpus: int32(rng.Intn(len(pool) + 3)), Pool: pool})
		default:
			script = append(script, c10Op{Op: "recover"})
		}
	}
	return script
}

// hand-picked degenerate inputs of the property's quantifier
func c10Corners() [][]c10Op {
	l8 := c10Layout(8, 4, 2, false)
	all := c10Range(8)
	base := func() c10Op {
		return c10Op{Op: "reset", Procs: l8, Pods: []c10Pod{{QoS: "LS", Kube: "Burstable", Usage: 1000}, {QoS: "BE", Kube: "BestEffort", Usage: 500}},
			NodeUsage: 2000, Cap: 8000, SysX: true, Thr: 65, MinP: -1, Old: all, Quota0: -1, Kubelet: "none"}
	}
	var out [][]c10Op
	rounds := []c10Op{{Op: "budget"}, {Op: "cpuset", Chain: true}, {Op: "cpuset", Q: 2000}, {Op: "recover"}, {Op: "quota", Chain: true}}
	// every CPU protected: reserved by id / system-exclusive / LSE-owned / a mix
	a := base()
	a.RCpus = all
	out = append(out, append([]c10Op{a}, rounds...))
	b := base()
	b.Sys = all
	out = append(out, append([]c10Op{b}, rounds...))
	c := base()
	c.Pods = append(c.Pods, c10Pod{QoS: "LSE", Kube: "Guaranteed", CPUs: all, Usage: 4000})
	out = append(out, append([]c10Op{c}, rounds...))
	d := base()
	d.RCpus, d.Sys = []int{0, 1}, []int{2, 3}
	d.Pods = append(d.Pods, c10Pod{QoS: "LSE", Kube: "Guaranteed", CPUs: []int{4, 5, 6, 7}, Usage: 0})
	d.Kubelet = "static"
	out = append(out, append([]c10Op{d}, rounds...))
	// one eligible CPU, budget below two CPUs, budget above the free CPUs, empty old cpuset
	f := base()
	f.RCpus = []int{0, 1, 2, 3, 4, 5, 6}
	out = append(out, append([]c10Op{f}, rounds...))
	g := base()
	g.Pods[0].Usage, g.NodeUsage = 6000, 7000
	out = append(out, append([]c10Op{g}, rounds...))
	h := base()
	h.Pods = append(h.Pods, c10Pod{QoS: "LSE", Kube: "Guaranteed", CPUs: []int{0, 1, 2, 3}}, c10Pod{QoS: "LSR", Kube: "Guaranteed", CPUs: []int{4, 5}})
	h.Pods[0].Usage, h.NodeUsage = 0, 500
	out = append(out, append([]c10Op{h}, rounds...))
	i := base()
	i.Old = []int{}
	out = append(out, append([]c10Op{i}, append(rounds, c10Op{Op: "cpuset", Q: 8000}, c10Op{Op: "cpuset", Q: 8000}, c10Op{Op: "cpuset", Q: 8000})...))
	// no processor at all
	j := base()
	j.Procs, j.Old = nil, []int{}
	out = append(out, []c10Op{j, {Op: "cpuset", Q: 2000}, {Op: "policy", Cpus: 0, Pool: []int{}}, {Op: "policy", Cpus: 2, Pool: []int{}}})
	return out
}

func TestVerifC10(t *testing.T) {
	if !vu.Enabled() {
		t.Skip("verification harness: VERIF_OUT not set")
	}
	klog.LogToStderr(false)
	klog.SetOutput(io.Discard)
	rec := vu.NewRecorder("")
	defer rec.Close()
	e := c10NewEnv(t)
	if p := vu.ReplayPath(); p != "" {
		for _, raw := range vu.ReadScripts(p) {
			var script []c10Op
			if err := json.Unmarshal(raw, &script); err != nil {
				t.Fatal(err)
			}
			c10Run(e, rec, script)
		}
		return
	}
	for _, s := range c10Corners() {
		c10Run(e, rec, s)
	}
	rng := vu.Rand(10)
	if vu.Thorough() {
		c10Table(e, rec, 2, true, 0, rng)
		c10Table(e, rec, 3, true, 0, rng)
		c10Table(e, rec, 4, true, 0, rng)
		c10Table(e, rec, 5, false, 0, rng)
		c10Table(e, rec, 6, false, 0, rng)
		c10Table(e, rec, 8, false, vu.EnvInt("VERIF_C10_N8", 2000), rng)
		for k := 0; k < vu.EnvInt("VERIF_C10_RANDOM", 15000); k++ {
			c10Run(e, rec, c10Random(rng, true))
		}
	} else {
		c10Table(e, rec, 3, true, 0, rng)
		c10Table(e, rec, 4, false, 0, rng)
		for k := 0; k < vu.EnvInt("VERIF_C10_RANDOM", 700); k++ {
			c10Run(e, rec, c10Random(rng, false))
		}
	}
	t.Logf("C10: %d segments, %d events", rec.Segments(), rec.Events())
}
