package cpusuppress

// Verification harness for C12, second driver (injected by `go test -overlay`; see /verif/specs/CgroupTree).
// It builds a best-effort cgroup subtree (BE qos dir / pod dirs / container dirs) under a temp cgroup root and rewrites it
// over several rounds through the REAL top of the plugin, CPUSuppress.suppressBECPU(), i.e. through the real callers
//   cpuset policy     adjustByCPUSet -> applyBESuppressCPUSet -> applyCPUSetWithNonePolicy, then recoverCFSQuotaIfNeed
//   feature disabled  recoverCFSQuotaIfNeed, recoverCPUSetIfNeed
//   cfsQuota policy   adjustByCfsQuota, recoverCPUSetIfNeed
//   BECPUManager on   recoverCFSQuotaIfNeed, recoverCPUSetForBECPUManager
//   cpuset policy under kubelet's static cpu manager policy ("static")
//                     adjustByCPUSet -> applyBESuppressCPUSet -> recoverCPUSetIfNeed(pod level), applyCPUSetWithStaticPolicy
// on ONE plugin object (so whatever it remembers between rounds is carried over) with mocked statesinformer / metric
// cache, interleaved with steps of the environment: `external` (something else left other hierarchy-valid values in
// the files), `restart` (a FRESH plugin object and executor on the same files), `expire` (cache entries gone).
//
// How a round is aimed at the cpuset the script names (input steering, nothing of it judges): the mock node has
// 10*ncpu processors of which ncpu..10*ncpu-1 are reserved by the node annotation, so the BE pool is 0..ncpu-1 and the
// "at most 10% of the node more per round" rule of adjustByCPUSet never cuts a step; an LSE pod holds the pool CPUs that
// are NOT in the round's target and the node usage leaves exactly |target| CPUs to BE, so that every correct selection of
// |target| out of the |target| eligible CPUs is the target. A round always asks for at least two CPUs: one-CPU targets
// are run through applyCPUSetWithNonePolicy directly, the way adjustByCPUSet calls it (old cpuset = the BE root's).
// The rounds that leave the cpuset policy aim at the BE pool: the whole of it, or - when an LSE pod holds pool CPUs meanwhile
// (`lse`) - the pool without them, which may no longer cover what the BE cgroups hold (a SHIFTED pool).
//
// The executor handed to CPUSuppress forwards every updater, one at a time and in the same order, to the REAL
// ResourceUpdateExecutorImpl.UpdateBatch, and after each of them logs the projection of ALL cpuset.cpus files plus the
// files whose mtime moved. Expected values are computed only by TLC. No oracle here.

import (
	"encoding/json"
	"fmt"
	"io"
	"math/rand"
	"os"
	"path/filepath"
	"sort"
	"testing"
	"time"

	topov1alpha1 "github.com/k8stopologyawareschedwg/noderesourcetopology-api/pkg/apis/topology/v1alpha1"
	promstorage "github.com/prometheus/prometheus/storage"
	"go.uber.org/mock/gomock"
	corev1 "k8s.io/api/core/v1"
	"k8s.io/apimachinery/pkg/api/resource"
	metav1 "k8s.io/apimachinery/pkg/apis/meta/v1"
	"k8s.io/klog/v2"
	"k8s.io/utils/pointer"

	apiext "github.com/koordinator-sh/koordinator/apis/extension"
	slov1alpha1 "github.com/koordinator-sh/koordinator/apis/slo/v1alpha1"
	"github.com/koordinator-sh/koordinator/pkg/features"
	"github.com/koordinator-sh/koordinator/pkg/koordlet/metriccache"
	mockmetriccache "github.com/koordinator-sh/koordinator/pkg/koordlet/metriccache/mockmetriccache"
	"github.com/koordinator-sh/koordinator/pkg/koordlet/resourceexecutor"
	"github.com/koordinator-sh/koordinator/pkg/koordlet/statesinformer"
	mockstatesinformer "github.com/koordinator-sh/koordinator/pkg/koordlet/statesinformer/mockstatesinformer"
	koordletutil "github.com/koordinator-sh/koordinator/pkg/koordlet/util"
	"github.com/koordinator-sh/koordinator/pkg/koordlet/util/system"
	"github.com/koordinator-sh/koordinator/pkg/util/cache"
	"github.com/koordinator-sh/koordinator/pkg/util/cpuset"
	vu "github.com/koordinator-sh/koordinator/pkg/verifutil"
)

var c12sSentinel = time.Unix(1000000000, 0)

type c12sOp struct {
	Op     string  `json:"op"`
	Par    []int   `json:"par,omitempty"`
	Kind   string  `json:"kind,omitempty"`
	Ver    int     `json:"ver,omitempty"`
	NCPU   int     `json:"ncpu,omitempty"` // reset: the BE pool of the mock node is 0..ncpu-1 (default 4)
	Lay    int     `json:"lay,omitempty"`  // reset: processor layout 1 = one thread per core, 2 = two (default: rotating)
	Old    [][]int `json:"old,omitempty"`
	Target [][]int `json:"target,omitempty"`
	How    string  `json:"how,omitempty"` // begin: "" = "cpuset" | "static" | "disabled" | "cfsquota" | "becpumgr"
	Q      int     `json:"q,omitempty"`   // begin how=cfsquota: CPUs left to BE by the node usage (default 2)
	LSE    []int   `json:"lse,omitempty"` // begin, rounds that leave the cpuset policy: pool CPUs an LSE pod holds meanwhile (the
	//                                         round's target is then the pool without them)
	Nodes  []int   `json:"nodes,omitempty"`
	To     [][]int `json:"to,omitempty"` // external: the values something else leaves in the files
}

// ---------------------------------------------------------------- the plugin's surroundings (mocks; they only hand out inputs)

type c12sEnv struct {
	si *mockstatesinformer.MockStatesInformer
	mc *mockmetriccache.MockMetricCache
	// what the mocks return now
	pods      []*statesinformer.PodMeta
	topo      *topov1alpha1.NodeResourceTopology
	node      *corev1.Node
	slo       *slov1alpha1.NodeSLO
	cpuInfo   *metriccache.NodeCPUInfo
	nodeUsage float64 // cores
	nodeKind  string
}

// metric query results: the node CPU usage is env.nodeUsage, every pod uses nothing
type c12sResult struct {
	metriccache.MetricMeta
	env *c12sEnv
}

func (r *c12sResult) AddSeries(promstorage.Series) error { return nil }
func (r *c12sResult) Count() int                         { return 1 }
func (r *c12sResult) TimeRangeDuration() time.Duration   { return time.Minute }
func (r *c12sResult) Value(metriccache.AggregationType) (float64, error) {
	if r.GetKind() == r.env.nodeKind {
		return r.env.nodeUsage, nil
	}
	return 0, nil
}

type c12sFactory struct{ env *c12sEnv }

func (f *c12sFactory) New(meta metriccache.MetricMeta) metriccache.AggregateResult {
	return &c12sResult{MetricMeta: meta, env: f.env}
}

type c12sQuerier struct{}

func (c12sQuerier) Query(metriccache.MetricMeta, *metriccache.QueryHints, metriccache.MetricResult) error {
	return nil
}
func (c12sQuerier) QueryAndClose(metriccache.MetricMeta, *metriccache.QueryHints, metriccache.MetricResult) error {
	return nil
}
func (c12sQuerier) Close() {}

func c12sNewEnv(t *testing.T) *c12sEnv {
	e := &c12sEnv{}
	ctrl := gomock.NewController(t)
	e.si = mockstatesinformer.NewMockStatesInformer(ctrl)
	e.mc = mockmetriccache.NewMockMetricCache(ctrl)
	e.si.EXPECT().GetAllPods().DoAndReturn(func() []*statesinformer.PodMeta { return e.pods }).AnyTimes()
	e.si.EXPECT().GetNodeTopo().DoAndReturn(func() *topov1alpha1.NodeResourceTopology { return e.topo }).AnyTimes()
	e.si.EXPECT().GetNode().DoAndReturn(func() *corev1.Node { return e.node }).AnyTimes()
	e.si.EXPECT().GetNodeSLO().DoAndReturn(func() *slov1alpha1.NodeSLO { return e.slo }).AnyTimes()
	e.mc.EXPECT().Get(metriccache.NodeCPUInfoKey).DoAndReturn(func(interface{}) (interface{}, bool) { return e.cpuInfo, true }).AnyTimes()
	e.mc.EXPECT().Querier(gomock.Any(), gomock.Any()).Return(c12sQuerier{}, nil).AnyTimes()
	meta, err := metriccache.NodeCPUUsageMetric.BuildQueryMeta(nil)
	if err != nil {
		t.Fatal(err)
	}
	e.nodeKind = meta.GetKind()
	prev := metriccache.DefaultAggregateResultFactory
	metriccache.DefaultAggregateResultFactory = &c12sFactory{env: e}
	t.Cleanup(func() { metriccache.DefaultAggregateResultFactory = prev })
	return e
}

// the node of one segment: 10*ncpu processors, the BE pool 0..ncpu-1, the rest reserved by the node annotation
func (e *c12sEnv) machine(ncpu int, ht bool) {
	n := 10 * ncpu
	info := &metriccache.NodeCPUInfo{}
	for k := 0; k < n; k++ {
		core := k
		if ht {
			core = k / 2
		}
		info.ProcessorInfos = append(info.ProcessorInfos, koordletutil.ProcessorInfo{CPUID: int32(k), CoreID: int32(core), SocketID: 0, NodeID: 0})
	}
	e.cpuInfo = info
	e.node = &corev1.Node{
		ObjectMeta: metav1.ObjectMeta{Name: "verif-node"},
		Status: corev1.NodeStatus{
			Capacity:    corev1.ResourceList{corev1.ResourceCPU: *resource.NewQuantity(int64(n), resource.DecimalSI)},
			Allocatable: corev1.ResourceList{corev1.ResourceCPU: *resource.NewQuantity(int64(n), resource.DecimalSI)},
		},
	}
	resv, _ := json.Marshal(map[string]string{"reservedCPUs": fmt.Sprintf("%d-%d", ncpu, n-1)})
	e.topo = &topov1alpha1.NodeResourceTopology{ObjectMeta: metav1.ObjectMeta{Name: "verif-node",
		Annotations: map[string]string{apiext.AnnotationNodeReservation: string(resv)}}}
}

// the inputs of one round: which way suppressBECPU goes, how many CPUs the usage leaves to BE, which pool CPUs an LSE pod holds
func (e *c12sEnv) round(how string, beCPUs int, lse []int) {
	n := len(e.cpuInfo.ProcessorInfos)
	delete(e.topo.Annotations, apiext.AnnotationKubeletCPUManagerPolicy)
	if how == "static" {
		e.topo.Annotations[apiext.AnnotationKubeletCPUManagerPolicy] = `{"policy":"static"}`
	}
	be := &corev1.Pod{
		ObjectMeta: metav1.ObjectMeta{Namespace: "verif", Name: "be-1", UID: "uid-be-1", Labels: map[string]string{apiext.LabelPodQoS: "BE"}},
		Status:     corev1.PodStatus{QOSClass: corev1.PodQOSBestEffort},
	}
	e.pods = []*statesinformer.PodMeta{{Pod: be, CgroupDir: "kubepods.slice/verif-elsewhere/be-1"}}
	if len(lse) > 0 {
		p := &corev1.Pod{
			ObjectMeta: metav1.ObjectMeta{Namespace: "verif", Name: "lse-1", UID: "uid-lse-1", Labels: map[string]string{apiext.LabelPodQoS: "LSE"},
				Annotations: map[string]string{apiext.AnnotationResourceStatus: fmt.Sprintf(`{"cpuset":"%s"}`, cpuset.NewCPUSet(lse...).String())}},
			Status: corev1.PodStatus{QOSClass: corev1.PodQOSGuaranteed},
		}
		e.pods = append(e.pods, &statesinformer.PodMeta{Pod: p, CgroupDir: "kubepods.slice/verif-elsewhere/lse-1"})
	}
	policy := slov1alpha1.CPUSetPolicy
	if how == "cfsquota" {
		policy = slov1alpha1.CPUCfsQuotaPolicy
	}
	e.slo = &slov1alpha1.NodeSLO{Spec: slov1alpha1.NodeSLOSpec{ResourceUsedThresholdWithBE: &slov1alpha1.ResourceThresholdStrategy{
		Enable:                      pointer.Bool(how != "disabled"),
		CPUSuppressThresholdPercent: pointer.Int64(100),
		CPUSuppressPolicy:           policy,
	}}}
	e.nodeUsage = float64(n - beCPUs)
	if err := features.DefaultMutableKoordletFeatureGate.SetFromMap(map[string]bool{
		string(features.BECPUSuppress): true, string(features.BECPUManager): how == "becpumgr"}); err != nil {
		panic("c12s: " + err.Error())
	}
}

// ---------------------------------------------------------------- observation

// forwards to the real executor one updater at a time (UpdateBatch is a loop over independent updaters) and observes
type c12sExec struct {
	resourceexecutor.ResourceUpdateExecutor
	after func()
}

func (e *c12sExec) UpdateBatch(cacheable bool, updaters ...resourceexecutor.ResourceUpdater) {
	for _, u := range updaters {
		e.ResourceUpdateExecutor.UpdateBatch(cacheable, u)
		e.after()
	}
}

type c12sStats struct {
	segs, rewrites, calls, writes, sameNodes, nonUniformOld   int
	viaRound, direct, leave, externals, restarts, afterLeave int
	static, leaveLSE                                         int
}

type c12sSeg struct {
	t     *testing.T
	rec   *vu.Recorder
	env   *c12sEnv
	par   []int
	ver   int
	ncpu  int
	dirs  []string
	paths []string
	real  *resourceexecutor.ResourceUpdateExecutorImpl
	r     *CPUSuppress
	stop  chan struct{}
	stats *c12sStats
	left  bool // the last rewrite left the cpuset policy (counter only)
}

func c12sInts(a []int) []int {
	if a == nil {
		return []int{}
	}
	return a
}

func c12sRange(n int) []int {
	out := make([]int, n)
	for i := range out {
		out[i] = i
	}
	return out
}

func (s *c12sSeg) project(i int) []int {
	b, err := os.ReadFile(s.paths[i])
	if err != nil {
		s.t.Fatalf("c12s: read %s: %v", s.paths[i], err)
	}
	cs, err := cpuset.Parse(string(b))
	if err != nil {
		return []int{-1}
	}
	l := cs.ToSlice()
	sort.Ints(l)
	return c12sInts(l)
}

func (s *c12sSeg) snapshot() [][]int {
	out := make([][]int, len(s.par))
	for i := range s.par {
		out[i] = s.project(i)
	}
	return out
}

func (s *c12sSeg) arm(i int) {
	if err := os.Chtimes(s.paths[i], c12sSentinel, c12sSentinel); err != nil {
		s.t.Fatal(err)
	}
}

func (s *c12sSeg) put(i int, v []int) {
	if err := os.WriteFile(s.paths[i], []byte(cpuset.NewCPUSet(v...).String()), 0644); err != nil {
		s.t.Fatal(err)
	}
	s.arm(i)
}

func (s *c12sSeg) afterCall() {
	written := []int{}
	for i := range s.par {
		st, err := os.Stat(s.paths[i])
		if err != nil {
			s.t.Fatal(err)
		}
		if !st.ModTime().Equal(c12sSentinel) {
			written = append(written, i+1)
			s.arm(i)
		}
	}
	if len(written) > 1 {
		s.t.Fatalf("c12s: %d files written inside one updater call (%v): per-write observation impossible", len(written), written)
	}
	s.rec.Emit(vu.Ev{"op": "call", "written": written, "files": s.snapshot()})
	if len(written) > 0 {
		s.kernelEffective()
	}
	s.stats.calls++
	s.stats.writes += len(written)
}

// a fresh plugin object and a fresh executor (cold cache) on the files as they are
func (s *c12sSeg) newPlugin() {
	if s.stop != nil {
		close(s.stop)
	}
	s.real = &resourceexecutor.ResourceUpdateExecutorImpl{
		ResourceCache: cache.NewCache(100000*time.Hour, 100000*time.Hour),
		Config:        &resourceexecutor.Config{ResourceForceUpdateSeconds: 1 << 30},
	}
	s.r = &CPUSuppress{
		interval:               time.Second,
		metricCollectInterval:  time.Second,
		statesInformer:         s.env.si,
		metricCache:            s.env.mc,
		executor:               &c12sExec{ResourceUpdateExecutor: s.real, after: s.afterCall},
		cgroupReader:           resourceexecutor.NewCgroupReader(),
		suppressPolicyStatuses: map[string]suppressPolicyStatus{},
	}
	s.stop = make(chan struct{})
	s.r.init(s.stop)
}

func (s *c12sSeg) reset(o c12sOp, idx int) {
	if o.Ver != 1 && o.Ver != 2 {
		o.Ver = 1 + (idx+int(vu.Seed()))%2
	}
	if o.NCPU <= 0 {
		o.NCPU = 4
	}
	if o.Lay != 1 && o.Lay != 2 {
		o.Lay = 1 + (idx/2)%2
	}
	s.par, s.ver, s.ncpu = o.Par, o.Ver, o.NCPU
	system.UseCgroupsV2.Store(s.ver == 2)
	res, err := system.GetCgroupResource(system.CPUSetCPUSName)
	if err != nil {
		s.t.Fatal(err)
	}
	beRoot := koordletutil.GetPodQoSRelativePath(corev1.PodQOSBestEffort)
	if err := os.RemoveAll(koordletutil.GetRootCgroupCPUSetDir(corev1.PodQOSBestEffort)); err != nil {
		s.t.Fatal(err)
	}
	if len(o.Old) != len(s.par) {
		s.t.Fatalf("c12s: old has %d values for %d nodes", len(o.Old), len(s.par))
	}
	s.dirs = make([]string, len(s.par))
	s.paths = make([]string, len(s.par))
	for i := range s.par {
		if s.par[i] == 0 {
			s.dirs[i] = beRoot
		} else {
			s.dirs[i] = filepath.Join(s.dirs[s.par[i]-1], fmt.Sprintf("n%d", i+1))
		}
		s.paths[i] = res.Path(s.dirs[i])
		if err := os.MkdirAll(filepath.Dir(s.paths[i]), 0777); err != nil {
			s.t.Fatal(err)
		}
		s.put(i, o.Old[i])
	}
	// the BE root's CFS quota (the rounds that are not cpuset rounds read and write it; not a file of the subtree rewrite)
	qres, err := system.GetCgroupResource(system.CPUCFSQuotaName)
	if err != nil {
		s.t.Fatal(err)
	}
	qpath, qval := qres.Path(beRoot), "-1"
	if s.ver == 2 {
		qval = "max 100000"
	}
	if err := os.MkdirAll(filepath.Dir(qpath), 0777); err != nil {
		s.t.Fatal(err)
	}
	if err := os.WriteFile(qpath, []byte(qval), 0644); err != nil {
		s.t.Fatal(err)
	}
	s.env.machine(s.ncpu, o.Lay == 2)
	s.env.round("cpuset", s.ncpu, nil)
	s.newPlugin()
	s.rec.Reset(vu.Ev{"driver": "suppress", "par": s.par, "kind": "cpuset", "file": "cpuset.cpus", "ver": s.ver, "ncpu": s.ncpu, "lay": o.Lay,
		"cpus": c12sRange(s.ncpu), "old": s.snapshot()})
	s.stats.segs++
	for i := range s.par {
		if fmt.Sprint(c12sInts(o.Old[i])) != fmt.Sprint(c12sInts(o.Old[0])) {
			s.stats.nonUniformOld++
			break
		}
	}
}

// cgroup v2: the reader takes a cgroup's cpuset from cpuset.cpus.effective; the harness plays the kernel here:
// effective = cpuset.cpus restricted to the parent's effective set, or the parent's effective set while cpuset.cpus is
// empty; above the BE qos cgroup the CPUs that are not reserved (the BE pool 0..ncpu-1) are available
func (s *c12sSeg) kernelEffective() {
	if s.ver != 2 {
		return
	}
	eff := make([]cpuset.CPUSet, len(s.par))
	for i := range s.par {
		up := cpuset.NewCPUSet(c12sRange(s.ncpu)...)
		if s.par[i] != 0 {
			up = eff[s.par[i]-1]
		}
		own := s.project(i)
		if len(own) == 0 || own[0] < 0 {
			eff[i] = up
		} else {
			eff[i] = cpuset.NewCPUSet(own...).Intersection(up)
		}
		p := system.CPUSetEffectiveV2.Path(s.dirs[i])
		if err := os.WriteFile(p, []byte(eff[i].String()), 0644); err != nil {
			s.t.Fatal(err)
		}
	}
}

func (s *c12sSeg) begin(o c12sOp) {
	if len(o.Target) != len(s.par) {
		s.t.Fatalf("c12s: target has %d values for %d nodes", len(o.Target), len(s.par))
	}
	cpus := o.Target[0]
	how := o.How
	if how == "" {
		how = "cpuset"
	}
	via := "suppressBECPU"
	if how == "cpuset" && len(cpus) < 2 {
		via = "applyCPUSetWithNonePolicy"
	}
	if how == "static" && len(cpus) < 2 {
		s.t.Fatalf("c12s: a round never asks for fewer than two CPUs (static round with target %v)", cpus)
	}
	s.kernelEffective()
	cur := s.snapshot()
	for i := range s.par {
		if fmt.Sprint(cur[i]) == fmt.Sprint(c12sInts(cpus)) {
			s.stats.sameNodes++
		}
	}
	s.rec.Emit(vu.Ev{"op": "begin", "target": o.Target, "how": how, "q": o.Q, "lse": c12sInts(o.LSE), "via": via})
	switch {
	case (how == "cpuset" || how == "static") && via == "suppressBECPU":
		in := map[int]bool{}
		for _, c := range cpus {
			in[c] = true
		}
		var lse []int
		for c := 0; c < s.ncpu; c++ {
			if !in[c] {
				lse = append(lse, c)
			}
		}
		s.env.round(how, len(cpus), lse)
		s.r.suppressBECPU()
		s.stats.viaRound++
		if how == "static" {
			s.stats.static++
		}
		if s.left {
			s.stats.afterLeave++
		}
		s.left = false
	case how == "cpuset":
		// as adjustByCPUSet does: the old cpuset is the one of the BE qos cgroup
		oldCPUS, err := s.r.cgroupReader.ReadCPUSet(koordletutil.GetPodQoSRelativePath(corev1.PodQOSBestEffort))
		if err != nil {
			s.t.Fatal(err)
		}
		beCPUSet := make([]int32, len(cpus))
		for i, c := range cpus {
			beCPUSet[i] = int32(c)
		}
		if err := s.r.applyCPUSetWithNonePolicy(beCPUSet, oldCPUS.ToInt32Slice()); err != nil {
			s.t.Fatal(err)
		}
		s.stats.direct++
		s.left = false
	case how == "disabled" || how == "cfsquota" || how == "becpumgr":
		q := o.Q
		if q <= 0 {
			q = 2
		}
		s.env.round(how, q, o.LSE)
		s.r.suppressBECPU()
		s.stats.leave++
		if len(o.LSE) > 0 {
			s.stats.leaveLSE++
		}
		s.left = true
	default:
		s.t.Fatalf("c12s: unknown how %q", how)
	}
	s.rec.Emit(vu.Ev{"op": "done", "files": s.snapshot()})
	s.stats.rewrites++
}

func (s *c12sSeg) expire(o c12sOp) {
	for _, n := range o.Nodes {
		if err := s.real.ResourceCache.Set(s.paths[n-1], nil, -time.Hour); err != nil {
			s.t.Fatal(err)
		}
	}
	s.rec.Emit(vu.Ev{"op": "expire", "nodes": c12sInts(o.Nodes)})
}

func (s *c12sSeg) external(o c12sOp) {
	if len(o.To) != len(s.par) {
		s.t.Fatalf("c12s: external has %d values for %d nodes", len(o.To), len(s.par))
	}
	for i := range s.par {
		s.put(i, o.To[i])
	}
	s.kernelEffective()
	s.rec.Emit(vu.Ev{"op": "external", "to": o.To, "files": s.snapshot()})
	s.stats.externals++
}

func (s *c12sSeg) restart() {
	s.newPlugin()
	s.rec.Emit(vu.Ev{"op": "restart"})
	s.stats.restarts++
}

// the BE mechanisms write ONE cpuset to every BE cgroup: a script applies iff every target is uniform and non-empty
func c12sApplicable(script []c12sOp) bool {
	if len(script) == 0 || script[0].Op != "reset" || script[0].Kind != "cpuset" {
		return false
	}
	if d := script[0].Par; len(d) == 0 {
		return false
	}
	for _, o := range script {
		if o.Op != "begin" {
			continue
		}
		if len(o.Target) == 0 || len(o.Target[0]) == 0 || (o.How == "static" && len(o.Target[0]) < 2) {
			return false
		}
		for _, v := range o.Target {
			if fmt.Sprint(c12sInts(v)) != fmt.Sprint(c12sInts(o.Target[0])) {
				return false
			}
		}
	}
	return true
}

func c12sRun(t *testing.T, rec *vu.Recorder, env *c12sEnv, stats *c12sStats, script []c12sOp, idx int) {
	s := &c12sSeg{t: t, rec: rec, env: env, stats: stats}
	defer func() {
		if s.stop != nil {
			close(s.stop)
		}
	}()
	for _, o := range script {
		switch o.Op {
		case "reset":
			s.reset(o, idx)
		case "begin":
			s.begin(o)
		case "expire":
			s.expire(o)
		case "external":
			s.external(o)
		case "restart":
			s.restart()
		case "call", "done":
		default:
			t.Fatalf("c12s: unknown op %q", o.Op)
		}
	}
}

// ---------------------------------------------------------------- input generation (no judging here)

func c12sDepth(par []int, n int) int {
	d := 1
	for par[n-1] != 0 {
		n = par[n-1]
		d++
	}
	return d
}

func c12sUniform(par []int, v []int) [][]int {
	out := make([][]int, len(par))
	for i := range out {
		out[i] = c12sInts(v)
	}
	return out
}

// a hierarchy-valid assignment drawn top-down inside `pool`; `near` (may be nil) is kept per node with probability 1/2 where it fits
func c12sRandAssign(rng *rand.Rand, par []int, pool []int, uniform bool, near [][]int) [][]int {
	out := make([][]int, len(par))
	for i := range par {
		out[i] = []int{}
		from := pool
		if par[i] != 0 {
			from = out[par[i]-1]
		}
		if near != nil && rng.Intn(2) == 0 {
			in := map[int]bool{}
			for _, c := range from {
				in[c] = true
			}
			ok := true
			for _, c := range near[i] {
				ok = ok && in[c]
			}
			if ok {
				out[i] = c12sInts(append([]int{}, near[i]...))
				continue
			}
		}
		for _, c := range from {
			if par[i] == 0 {
				if rng.Intn(3) > 0 {
					out[i] = append(out[i], c)
				}
			} else if uniform || rng.Intn(4) > 0 {
				out[i] = append(out[i], c)
			}
		}
	}
	return out
}

func c12sRandom(rng *rand.Rand) []c12sOp {
	var par []int
	for par == nil {
		n := 1 + rng.Intn(5)
		par = make([]int, n)
		for i := 1; i < n; i++ {
			par[i] = 1 + rng.Intn(i)
			if c12sDepth(par[:i+1], i+1) > 3 {
				par = nil
				break
			}
		}
	}
	ncpu := 4
	if rng.Intn(3) == 0 {
		ncpu = 8
	}
	pool := c12sRange(ncpu)
	var old [][]int
	switch rng.Intn(4) {
	case 0: // the state a node is in before the first suppress: every BE cgroup holds the pool
		old = c12sUniform(par, pool)
	default:
		old = c12sRandAssign(rng, par, pool, rng.Intn(2) == 0, nil)
	}
	script := []c12sOp{{Op: "reset", Par: par, Kind: "cpuset", Ver: 1 + rng.Intn(2), NCPU: ncpu, Old: old}}
	cur := old // what the generator believes the files hold (steers the generation only)
	rounds := 0
	for st, nst := 0, 1+rng.Intn(7); st < nst || rounds == 0; st++ {
		switch x := rng.Intn(20); {
		case x < 10: // a cpuset round (one in six under kubelet's static cpu manager policy)
			var cpus []int
			for len(cpus) == 0 || (len(cpus) == 1 && rng.Intn(4) > 0) {
				cpus = nil
				for c := 0; c < ncpu; c++ {
					if rng.Intn(2) == 0 {
						cpus = append(cpus, c)
					}
				}
			}
			if rng.Intn(6) == 0 && len(cur[0]) > 0 {
				cpus = cur[0] // the BE root already holds it: nothing to do for the files that hold it too
			}
			how := ""
			if len(cpus) >= 2 && rng.Intn(6) == 0 {
				how = "static"
			}
			script = append(script, c12sOp{Op: "begin", Target: c12sUniform(par, cpus), How: how})
			cur = c12sUniform(par, cpus)
			rounds++
		case x < 14: // a round that leaves the cpuset policy: every BE cgroup back to the pool - without what an LSE pod holds meanwhile
			how := []string{"disabled", "cfsquota", "becpumgr"}[rng.Intn(3)]
			var lse, tgt []int
			if rng.Intn(5) < 2 {
				for len(tgt) == 0 {
					lse, tgt = nil, nil
					for c := 0; c < ncpu; c++ {
						if rng.Intn(3) == 0 {
							lse = append(lse, c)
						} else {
							tgt = append(tgt, c)
						}
					}
				}
			} else {
				tgt = pool
			}
			script = append(script, c12sOp{Op: "begin", Target: c12sUniform(par, tgt), How: how, Q: 1 + rng.Intn(ncpu), LSE: lse})
			cur = c12sUniform(par, tgt)
			rounds++
		case x < 17: // something else rewrote the files; the executor no longer remembers the files that changed (or restarted)
			to := c12sRandAssign(rng, par, pool, rng.Intn(2) == 0, cur)
			script = append(script, c12sOp{Op: "external", To: to})
			if rng.Intn(3) == 0 {
				script = append(script, c12sOp{Op: "restart"})
			} else {
				var nodes []int
				for i := range par {
					if fmt.Sprint(c12sInts(to[i])) != fmt.Sprint(c12sInts(cur[i])) || rng.Intn(4) == 0 {
						nodes = append(nodes, i+1)
					}
				}
				script = append(script, c12sOp{Op: "expire", Nodes: nodes})
			}
			cur = to
		case x < 19:
			var nodes []int
			for i := range par {
				if rng.Intn(2) == 0 {
					nodes = append(nodes, i+1)
				}
			}
			script = append(script, c12sOp{Op: "expire", Nodes: nodes})
		default:
			script = append(script, c12sOp{Op: "restart"})
		}
	}
	return script
}

// hand-picked histories: suppress - leave the cpuset policy (every way) - suppress again, on the tree of a node with two pods
func c12sCorners() [][]c12sOp {
	var out [][]c12sOp
	par := []int{0, 1, 2, 1, 4}
	for ver := 1; ver <= 2; ver++ {
		for _, how := range []string{"disabled", "cfsquota", "becpumgr"} {
			pool := c12sRange(8)
			out = append(out, []c12sOp{
				{Op: "reset", Par: par, Kind: "cpuset", Ver: ver, NCPU: 8, Old: c12sUniform(par, pool)},
				{Op: "begin", Target: c12sUniform(par, []int{0, 1})},
				{Op: "begin", Target: c12sUniform(par, pool), How: how, Q: 3},
				{Op: "begin", Target: c12sUniform(par, []int{0, 1, 2})},
				{Op: "begin", Target: c12sUniform(par, pool), How: how, Q: 3},
				{Op: "begin", Target: c12sUniform(par, pool), How: how, Q: 3},
				{Op: "begin", Target: c12sUniform(par, []int{4, 5})},
			})
		}
		// suppress - something else widens the cgroups again (entries expired / agent restarted) - suppress
		for _, restart := range []bool{false, true} {
			pool := c12sRange(4)
			sc := []c12sOp{
				{Op: "reset", Par: par, Kind: "cpuset", Ver: ver, NCPU: 4, Old: c12sUniform(par, pool)},
				{Op: "begin", Target: c12sUniform(par, []int{0, 1})},
				{Op: "external", To: [][]int{pool, pool, {0, 1}, {0, 1, 2}, {0, 1, 2}}},
			}
			if restart {
				sc = append(sc, c12sOp{Op: "restart"})
			} else {
				sc = append(sc, c12sOp{Op: "expire", Nodes: []int{1, 2, 4, 5}})
			}
			sc = append(sc, c12sOp{Op: "begin", Target: c12sUniform(par, []int{1, 2})}, c12sOp{Op: "begin", Target: c12sUniform(par, pool)})
			out = append(out, sc)
		}
		// a pod cgroup already holds the new cpuset while the BE root holds more (the loose pass then passes through it)
		out = append(out, []c12sOp{
			{Op: "reset", Par: par, Kind: "cpuset", Ver: ver, NCPU: 4, Old: [][]int{{0, 1, 2}, {0, 1}, {0, 1}, {0, 1, 2}, {0, 1, 2}}},
			{Op: "begin", Target: c12sUniform(par, []int{0, 1})},
			{Op: "begin", Target: c12sUniform(par, []int{1, 2, 3})},
		})
		// the BE pool shifts under what the BE cgroups hold: an LSE pod takes pool CPUs while the cpuset policy is left, or the
		// round runs under kubelet's static policy (which recovers the upper levels to the pool)
		for _, how := range []string{"disabled", "cfsquota", "becpumgr"} {
			pool := c12sRange(4)
			out = append(out, []c12sOp{
				{Op: "reset", Par: par, Kind: "cpuset", Ver: ver, NCPU: 4, Old: c12sUniform(par, pool)},
				{Op: "begin", Target: c12sUniform(par, []int{0, 1})},
				{Op: "begin", Target: c12sUniform(par, []int{0, 3}), How: how, LSE: []int{1, 2}},
				{Op: "begin", Target: c12sUniform(par, pool), How: how},
				{Op: "begin", Target: c12sUniform(par, []int{1, 2})},
			})
		}
		out = append(out, []c12sOp{
			{Op: "reset", Par: par, Kind: "cpuset", Ver: ver, NCPU: 4, Old: c12sUniform(par, []int{0, 1})},
			{Op: "begin", Target: c12sUniform(par, []int{0, 1, 2}), How: "static"},
			{Op: "begin", Target: c12sUniform(par, []int{2, 3}), How: "static"},
			{Op: "begin", Target: c12sUniform(par, []int{0, 1})},
		})
		// the cpuset policy is not in use and something else narrows cgroups BELOW the BE root, which keeps the pool; the next
		// round (still not the cpuset policy) has them to recover
		for _, how := range []string{"disabled", "cfsquota", "becpumgr"} {
			pool := c12sRange(4)
			out = append(out, []c12sOp{
				{Op: "reset", Par: par, Kind: "cpuset", Ver: ver, NCPU: 4, Old: c12sUniform(par, []int{2, 3})},
				{Op: "begin", Target: c12sUniform(par, pool), How: how},
				{Op: "external", To: [][]int{pool, {0, 1}, {0}, pool, {1, 2, 3}}},
				{Op: "expire", Nodes: []int{2, 3, 5}},
				{Op: "begin", Target: c12sUniform(par, pool), How: how},
				{Op: "begin", Target: c12sUniform(par, []int{0, 3})},
			})
		}
	}
	return out
}

func TestVerifC12Suppress(t *testing.T) {
	if !vu.Enabled() {
		t.Skip("verification harness: VERIF_OUT not set")
	}
	klog.LogToStderr(false)
	klog.SetOutput(io.Discard)
	helper := system.NewFileTestUtil(t)
	defer helper.Cleanup()
	// truncating writes cost ~2ms each on the disk-backed /tmp of this image: keep the mock cgroup root in memory
	if d, err := os.MkdirTemp("/dev/shm", "verif-c12s-"); err == nil {
		defer os.RemoveAll(d)
		system.Conf.CgroupRootDir = d
	}
	env := c12sNewEnv(t)
	rec := vu.NewRecorder("")
	defer rec.Close()
	stats := &c12sStats{}
	path := vu.ScriptPath()
	if vu.ReplayPath() != "" {
		path = vu.ReplayPath()
	}
	idx := 0
	for _, raw := range vu.ReadScripts(path) {
		var probe []struct {
			Op   string `json:"op"`
			Kind string `json:"kind"`
		}
		if err := json.Unmarshal(raw, &probe); err != nil || len(probe) == 0 || probe[0].Kind != "cpuset" {
			continue // limit scripts belong to the other driver
		}
		var script []c12sOp
		if err := json.Unmarshal(raw, &script); err != nil {
			t.Fatal(err)
		}
		if !c12sApplicable(script) {
			continue
		}
		c12sRun(t, rec, env, stats, script, idx)
		idx++
	}
	if vu.ReplayPath() == "" {
		for i, sc := range c12sCorners() {
			c12sRun(t, rec, env, stats, sc, i)
		}
		n := vu.EnvInt("VERIF_C12_RANDOM", 700)
		if vu.Thorough() {
			n = vu.EnvInt("VERIF_C12_RANDOM", 8000)
		}
		rng := vu.Rand(1212)
		for i := 0; i < n; i++ {
			c12sRun(t, rec, env, stats, c12sRandom(rng), i)
		}
		// inputs only: what the code wrote is for TLC to judge
		if stats.calls == 0 || stats.sameNodes == 0 || stats.nonUniformOld == 0 || stats.viaRound == 0 || stats.leave == 0 ||
			stats.afterLeave == 0 || stats.externals == 0 || stats.restarts == 0 || stats.static == 0 || stats.leaveLSE == 0 {
			t.Fatalf("c12s: vacuous run %+v", *stats)
		}
	}
	if rec.Segments() == 0 {
		t.Fatal("c12s: no segment recorded")
	}
	t.Logf("C12 suppress: %d segments, %d events; %+v", rec.Segments(), rec.Events(), *stats)
	fmt.Printf("C12-STATS suppress segments=%d events=%d %+v\n", rec.Segments(), rec.Events(), *stats)
}
