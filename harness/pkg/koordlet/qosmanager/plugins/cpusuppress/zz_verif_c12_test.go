package cpusuppress

// Verification harness for C12, second driver (injected by `go test -overlay`; see /verif/specs/CgroupTree).
// It builds a best-effort cgroup subtree (BE qos dir / pod dirs / container dirs) under a temp cgroup root and runs the
// REAL CPUSuppress.applyCPUSetWithNonePolicy the way adjustByCPUSet calls it (old cpuset = the BE root's cpuset read
// through the cgroup reader). The executor handed to CPUSuppress forwards every updater, one at a time and in the same
// order, to the REAL ResourceUpdateExecutorImpl.UpdateBatch, and after each of them logs the projection of ALL
// cpuset.cpus files plus the files whose mtime moved. Expected values are computed only by TLC. No oracle here.

import (
	"encoding/json"
	"fmt"
	"math/rand"
	"os"
	"path/filepath"
	"sort"
	"testing"
	"time"

	corev1 "k8s.io/api/core/v1"

	"github.com/koordinator-sh/koordinator/pkg/koordlet/resourceexecutor"
	koordletutil "github.com/koordinator-sh/koordinator/pkg/koordlet/util"
	"github.com/koordinator-sh/koordinator/pkg/koordlet/util/system"
	"github.com/koordinator-sh/koordinator/pkg/util/cache"
	"github.com/koordinator-sh/koordinator/pkg/util/cpuset"
	vu "github.com/koordinator-sh/koordinator/pkg/verifutil"
)

var c12sSentinel = time.Unix(1000000000, 0)

type c12sOp struct {
	Op     string  `json:"op"`
	Par    []int   `json:"par,omitempty"`
	Kind   string  `json:"kind,omitempty"`
	Ver    int     `json:"ver,omitempty"`
	Old    [][]int `json:"old,omitempty"`
	Target [][]int `json:"target,omitempty"`
	Nodes  []int   `json:"nodes,omitempty"`
}

// forwards to the real executor one updater at a time (UpdateBatch is a loop over independent updaters) and observes
type c12sExec struct {
	resourceexecutor.ResourceUpdateExecutor
	after func()
}

func (e *c12sExec) UpdateBatch(cacheable bool, updaters ...resourceexecutor.ResourceUpdater) {
	for _, u := range updaters {
		e.ResourceUpdateExecutor.UpdateBatch(cacheable, u)
		e.after()
	}
}

type c12sStats struct {
	segs, rewrites, calls, writes, sameNodes, nonUniformOld int
}

type c12sSeg struct {
	t     *testing.T
	rec   *vu.Recorder
	par   []int
	ver   int
	dirs  []string
	paths []string
	real  *resourceexecutor.ResourceUpdateExecutorImpl
	r     *CPUSuppress
	stop  chan struct{}
	stats *c12sStats
}

func c12sInts(a []int) []int {
	if a == nil {
		return []int{}
	}
	return a
}

func (s *c12sSeg) project(i int) []int {
	b, err := os.ReadFile(s.paths[i])
	if err != nil {
		s.t.Fatalf("c12s: read %s: %v", s.paths[i], err)
	}
	cs, err := cpuset.Parse(string(b))
	if err != nil {
		return []int{-1}
	}
	l := cs.ToSlice()
	sort.Ints(l)
	return c12sInts(l)
}

func (s *c12sSeg) snapshot() [][]int {
	out := make([][]int, len(s.par))
	for i := range s.par {
		out[i] = s.project(i)
	}
	return out
}

func (s *c12sSeg) arm(i int) {
	if err := os.Chtimes(s.paths[i], c12sSentinel, c12sSentinel); err != nil {
		s.t.Fatal(err)
	}
}

func (s *c12sSeg) afterCall() {
	written := []int{}
	for i := range s.par {
		st, err := os.Stat(s.paths[i])
		if err != nil {
			s.t.Fatal(err)
		}
		if !st.ModTime().Equal(c12sSentinel) {
			written = append(written, i+1)
			s.arm(i)
		}
	}
	if len(written) > 1 {
		s.t.Fatalf("c12s: %d files written inside one updater call (%v): per-write observation impossible", len(written), written)
	}
	s.rec.Emit(vu.Ev{"op": "call", "written": written, "files": s.snapshot()})
	if len(written) > 0 {
		s.kernelEffective()
	}
	s.stats.calls++
	s.stats.writes += len(written)
}

func (s *c12sSeg) reset(o c12sOp, idx int) {
	if o.Ver != 1 && o.Ver != 2 {
		o.Ver = 1 + (idx+int(vu.Seed()))%2
	}
	s.par, s.ver = o.Par, o.Ver
	system.UseCgroupsV2.Store(s.ver == 2)
	res, err := system.GetCgroupResource(system.CPUSetCPUSName)
	if err != nil {
		s.t.Fatal(err)
	}
	beRoot := koordletutil.GetPodQoSRelativePath(corev1.PodQOSBestEffort)
	if err := os.RemoveAll(koordletutil.GetRootCgroupCPUSetDir(corev1.PodQOSBestEffort)); err != nil {
		s.t.Fatal(err)
	}
	if len(o.Old) != len(s.par) {
		s.t.Fatalf("c12s: old has %d values for %d nodes", len(o.Old), len(s.par))
	}
	s.dirs = make([]string, len(s.par))
	s.paths = make([]string, len(s.par))
	for i := range s.par {
		if s.par[i] == 0 {
			s.dirs[i] = beRoot
		} else {
			s.dirs[i] = filepath.Join(s.dirs[s.par[i]-1], fmt.Sprintf("n%d", i+1))
		}
		s.paths[i] = res.Path(s.dirs[i])
		if err := os.MkdirAll(filepath.Dir(s.paths[i]), 0777); err != nil {
			s.t.Fatal(err)
		}
		if err := os.WriteFile(s.paths[i], []byte(cpuset.NewCPUSet(o.Old[i]...).String()), 0644); err != nil {
			s.t.Fatal(err)
		}
		s.arm(i)
	}
	s.real = &resourceexecutor.ResourceUpdateExecutorImpl{
		ResourceCache: cache.NewCache(100000*time.Hour, 100000*time.Hour),
		Config:        &resourceexecutor.Config{ResourceForceUpdateSeconds: 1 << 30},
	}
	s.r = &CPUSuppress{
		executor:               &c12sExec{ResourceUpdateExecutor: s.real, after: s.afterCall},
		cgroupReader:           resourceexecutor.NewCgroupReader(),
		suppressPolicyStatuses: map[string]suppressPolicyStatus{},
	}
	s.stop = make(chan struct{})
	s.r.init(s.stop)
	s.rec.Reset(vu.Ev{"driver": "suppress", "par": s.par, "kind": "cpuset", "file": "cpuset.cpus", "ver": s.ver, "old": s.snapshot()})
	s.stats.segs++
	for i := range s.par {
		if fmt.Sprint(c12sInts(o.Old[i])) != fmt.Sprint(c12sInts(o.Old[0])) {
			s.stats.nonUniformOld++
			break
		}
	}
}

// cgroup v2: the reader takes a cgroup's cpuset from cpuset.cpus.effective; the harness plays the kernel here:
// effective = cpuset.cpus restricted to the parent's effective set, or the parent's effective set while cpuset.cpus is
// empty; above the BE qos cgroup all CPUs of the mock machine (0-3) are available
func (s *c12sSeg) kernelEffective() {
	if s.ver != 2 {
		return
	}
	eff := make([]cpuset.CPUSet, len(s.par))
	for i := range s.par {
		up := cpuset.NewCPUSet(0, 1, 2, 3)
		if s.par[i] != 0 {
			up = eff[s.par[i]-1]
		}
		own := s.project(i)
		if len(own) == 0 || own[0] < 0 {
			eff[i] = up
		} else {
			eff[i] = cpuset.NewCPUSet(own...).Intersection(up)
		}
		p := system.CPUSetEffectiveV2.Path(s.dirs[i])
		if err := os.WriteFile(p, []byte(eff[i].String()), 0644); err != nil {
			s.t.Fatal(err)
		}
	}
}

func (s *c12sSeg) begin(o c12sOp) {
	cpus := o.Target[0]
	s.kernelEffective()
	cur := s.snapshot()
	for i := range s.par {
		if fmt.Sprint(cur[i]) == fmt.Sprint(c12sInts(cpus)) {
			s.stats.sameNodes++
		}
	}
	s.rec.Emit(vu.Ev{"op": "begin", "target": o.Target})
	// as adjustByCPUSet does: the old cpuset is the one of the BE qos cgroup
	oldCPUS, err := s.r.cgroupReader.ReadCPUSet(koordletutil.GetPodQoSRelativePath(corev1.PodQOSBestEffort))
	if err != nil {
		s.t.Fatal(err)
	}
	beCPUSet := make([]int32, len(cpus))
	for i, c := range cpus {
		beCPUSet[i] = int32(c)
	}
	if err := s.r.applyCPUSetWithNonePolicy(beCPUSet, oldCPUS.ToInt32Slice()); err != nil {
		s.t.Fatal(err)
	}
	s.rec.Emit(vu.Ev{"op": "done", "files": s.snapshot()})
	s.stats.rewrites++
}

func (s *c12sSeg) expire(o c12sOp) {
	for _, n := range o.Nodes {
		if err := s.real.ResourceCache.Set(s.paths[n-1], nil, -time.Hour); err != nil {
			s.t.Fatal(err)
		}
	}
	s.rec.Emit(vu.Ev{"op": "expire", "nodes": c12sInts(o.Nodes)})
}

// this mechanism writes ONE cpuset to every BE cgroup: a script applies iff every target is uniform and non-empty
func c12sApplicable(script []c12sOp) bool {
	if len(script) == 0 || script[0].Op != "reset" || script[0].Kind != "cpuset" {
		return false
	}
	if d := script[0].Par; len(d) == 0 {
		return false
	}
	for _, o := range script {
		if o.Op != "begin" {
			continue
		}
		if len(o.Target) == 0 || len(o.Target[0]) == 0 {
			return false
		}
		for _, v := range o.Target {
			if fmt.Sprint(c12sInts(v)) != fmt.Sprint(c12sInts(o.Target[0])) {
				return false
			}
		}
	}
	return true
}

func c12sRun(t *testing.T, rec *vu.Recorder, stats *c12sStats, script []c12sOp, idx int) {
	s := &c12sSeg{t: t, rec: rec, stats: stats}
	defer func() {
		if s.stop != nil {
			close(s.stop)
		}
	}()
	for _, o := range script {
		switch o.Op {
		case "reset":
			s.reset(o, idx)
		case "begin":
			s.begin(o)
		case "expire":
			s.expire(o)
		case "call", "done":
		default:
			t.Fatalf("c12s: unknown op %q", o.Op)
		}
	}
}

func c12sDepth(par []int, n int) int {
	d := 1
	for par[n-1] != 0 {
		n = par[n-1]
		d++
	}
	return d
}

func c12sRandom(rng *rand.Rand) []c12sOp {
	var par []int
	for par == nil {
		n := 1 + rng.Intn(4)
		par = make([]int, n)
		for i := 1; i < n; i++ {
			par[i] = 1 + rng.Intn(i)
			if c12sDepth(par[:i+1], i+1) > 3 {
				par = nil
				break
			}
		}
	}
	old := make([][]int, len(par))
	uniform := rng.Intn(2) == 0
	for i := range par {
		old[i] = []int{}
		if par[i] == 0 {
			for c := 0; c < 4; c++ {
				if rng.Intn(3) > 0 {
					old[i] = append(old[i], c)
				}
			}
			continue
		}
		for _, c := range old[par[i]-1] {
			if uniform || rng.Intn(4) > 0 {
				old[i] = append(old[i], c)
			}
		}
	}
	script := []c12sOp{{Op: "reset", Par: par, Kind: "cpuset", Ver: 1 + rng.Intn(2), Old: old}}
	for r, nr := 0, 1+rng.Intn(3); r < nr; r++ {
		var cpus []int
		for len(cpus) == 0 {
			for c := 0; c < 4; c++ {
				if rng.Intn(2) == 0 {
					cpus = append(cpus, c)
				}
			}
		}
		if rng.Intn(5) == 0 && len(old[0]) > 0 && r == 0 {
			cpus = old[0] // nothing to do for the files that already hold it
		}
		tgt := make([][]int, len(par))
		for i := range tgt {
			tgt[i] = cpus
		}
		script = append(script, c12sOp{Op: "begin", Target: tgt})
		if r+1 < nr && rng.Intn(2) == 0 {
			var nodes []int
			for i := range par {
				if rng.Intn(2) == 0 {
					nodes = append(nodes, i+1)
				}
			}
			script = append(script, c12sOp{Op: "expire", Nodes: nodes})
		}
	}
	return script
}

func TestVerifC12Suppress(t *testing.T) {
	if !vu.Enabled() {
		t.Skip("verification harness: VERIF_OUT not set")
	}
	helper := system.NewFileTestUtil(t)
	defer helper.Cleanup()
	// truncating writes cost ~2ms each on the disk-backed /tmp of this image: keep the mock cgroup root in memory
	if d, err := os.MkdirTemp("/dev/shm", "verif-c12s-"); err == nil {
		defer os.RemoveAll(d)
		system.Conf.CgroupRootDir = d
	}
	rec := vu.NewRecorder("")
	defer rec.Close()
	stats := &c12sStats{}
	path := vu.ScriptPath()
	if vu.ReplayPath() != "" {
		path = vu.ReplayPath()
	}
	idx := 0
	for _, raw := range vu.ReadScripts(path) {
		var probe []struct {
			Op   string `json:"op"`
			Kind string `json:"kind"`
		}
		if err := json.Unmarshal(raw, &probe); err != nil || len(probe) == 0 || probe[0].Kind != "cpuset" {
			continue // limit scripts belong to the other driver
		}
		var script []c12sOp
		if err := json.Unmarshal(raw, &script); err != nil {
			t.Fatal(err)
		}
		if !c12sApplicable(script) {
			continue
		}
		c12sRun(t, rec, stats, script, idx)
		idx++
	}
	if vu.ReplayPath() == "" {
		n := vu.EnvInt("VERIF_C12_RANDOM", 600)
		if vu.Thorough() {
			n = vu.EnvInt("VERIF_C12_RANDOM", 8000)
		}
		rng := vu.Rand(1212)
		for i := 0; i < n; i++ {
			c12sRun(t, rec, stats, c12sRandom(rng), i)
		}
		// inputs only: what the code wrote is for TLC to judge
		if stats.calls == 0 || stats.sameNodes == 0 || stats.nonUniformOld == 0 {
			t.Fatalf("c12s: vacuous run %+v", *stats)
		}
	}
	if rec.Segments() == 0 {
		t.Fatal("c12s: no segment recorded")
	}
	t.Logf("C12 suppress: %d segments, %d events; %+v", rec.Segments(), rec.Events(), *stats)
	fmt.Printf("C12-STATS suppress segments=%d events=%d %+v\n", rec.Segments(), rec.Events(), *stats)
}
