package cpuburst

// Verification harness for G02 (injected by `go test -overlay`; see /verif/specs/CpuBurst).
// One segment = one node: a cgroup tree of plain files under a temp root, ONE real cpuBurst object (its limiters, its
// resource executor and the executor's cache) whose start() is called round after round, and between the rounds the
// environment's moves (clock, NodeSLO config, pods added / removed, annotation, in-place resize, container stop / restart,
// agent restart, cache expiry).  The states informer and the metric cache are fakes that only hand out the inputs the
// script names.  The executor handed to cpuBurst forwards every call to the REAL ResourceUpdateExecutorImpl and notes,
// in order, which file was asked to take which value and whether it was written.  After every round the harness logs
// the inputs, the calls, and the projection of the real state: every cpu.cfs_quota_us / cpu.cfs_burst_us file and every
// limiter (capacity, tokens, expire duration, whole seconds since its last update).
// The clock: the plugin reads the wall clock; a tick of d seconds is executed by moving every limiter's lastUpdateTime
// back by d seconds (a segment takes milliseconds, so whole-second differences are exact).
// No oracle here: expected values are computed only by TLC.  The generator's shadow only steers generation.

import (
	"encoding/json"
	"fmt"
	"io"
	"math/rand"
	"os"
	"sort"
	"strconv"
	"strings"
	"testing"
	"time"

	promstorage "github.com/prometheus/prometheus/storage"
	corev1 "k8s.io/api/core/v1"
	"k8s.io/apimachinery/pkg/api/resource"
	metav1 "k8s.io/apimachinery/pkg/apis/meta/v1"
	"k8s.io/apimachinery/pkg/types"
	"k8s.io/klog/v2"

	apiext "github.com/koordinator-sh/koordinator/apis/extension"
	slov1alpha1 "github.com/koordinator-sh/koordinator/apis/slo/v1alpha1"
	"github.com/koordinator-sh/koordinator/pkg/koordlet/metriccache"
	"github.com/koordinator-sh/koordinator/pkg/koordlet/resourceexecutor"
	"github.com/koordinator-sh/koordinator/pkg/koordlet/statesinformer"
	koordletutil "github.com/koordinator-sh/koordinator/pkg/koordlet/util"
	"github.com/koordinator-sh/koordinator/pkg/koordlet/util/system"
	"github.com/koordinator-sh/koordinator/pkg/util/cache"
	vu "github.com/koordinator-sh/koordinator/pkg/verifutil"
)

var g02PNames = []string{"p1", "p2", "p3"}
var g02CNames = []string{"a", "b"}

const g02Absent = -9

type g02Cfg struct {
	Policy string `json:"policy"`
	BP     int64  `json:"bp"`
	QP     int64  `json:"qp"`
	PS     int64  `json:"ps"`
	Thr    int64  `json:"thr"`
}
type g02Ann struct {
	Policy string `json:"policy"` // "" = not set
	BP     int64  `json:"bp"`     // -9 = not set
	QP     int64  `json:"qp"`
	PS     int64  `json:"ps"`
}
type g02Ctr struct {
	Has     bool   `json:"has"`
	ID      string `json:"id"`
	Limit   int64  `json:"limit"` // milli-CPU, 0 = unlimited
	Running bool   `json:"running"`
}
type g02Node struct {
	Known bool  `json:"known"`
	Used  int64 `json:"used"`  // milli
	Cores int64 `json:"cores"` // processors
}
type g02Op struct {
	Op     string             `json:"op"`
	Cfg    *g02Cfg            `json:"cfg,omitempty"`
	P      string             `json:"p,omitempty"`
	K      string             `json:"k,omitempty"`
	QoS    string             `json:"qos,omitempty"`
	Req    int64              `json:"req,omitempty"`
	Active bool               `json:"active,omitempty"`
	Ann    *g02Ann            `json:"ann,omitempty"`
	Ctr    map[string]*g02Ctr `json:"ctr,omitempty"`
	FQ     map[string]int64   `json:"fq,omitempty"`
	R      bool               `json:"r,omitempty"`
	Limit  int64              `json:"limit,omitempty"`
	ID     string             `json:"id,omitempty"`
	D      int64              `json:"d,omitempty"`
	Node   *g02Node           `json:"node,omitempty"`
	PU     map[string]int64   `json:"pu,omitempty"`
	Thr    map[string]string  `json:"thr,omitempty"`
	Use    map[string]int64   `json:"use,omitempty"`
}

// ---------------------------------------------------------------- the world of one segment

type g02Pod struct {
	qos    string
	req    int64
	active bool
	ann    g02Ann
	ctr    map[string]*g02Ctr
	uid    string
}

type g02Write struct {
	Kind string `json:"kind"`
	P    string `json:"p"`
	K    string `json:"k"`
	V    int64  `json:"v"`
	Eff  bool   `json:"eff"`
}

type g02World struct {
	t     *testing.T
	seg   int
	cfg   g02Cfg
	pods  map[string]*g02Pod // present pods
	dirs  map[string]string  // "p1" / "p1/a" -> cgroup dir (of every file ever created)
	paths map[string][3]string
	b     *cpuBurst
	stop  chan struct{}
	ws    []g02Write
	// inputs of the round in progress
	in *g02Op
}

// fakes (they only hand out inputs)
type g02SI struct {
	statesinformer.StatesInformer
	w *g02World
}

func (s *g02SI) GetAllPods() []*statesinformer.PodMeta { return s.w.podMetas() }
func (s *g02SI) GetNodeSLO() *slov1alpha1.NodeSLO {
	c := s.w.cfg
	return &slov1alpha1.NodeSLO{Spec: slov1alpha1.NodeSLOSpec{CPUBurstStrategy: &slov1alpha1.CPUBurstStrategy{
		CPUBurstConfig: slov1alpha1.CPUBurstConfig{Policy: slov1alpha1.CPUBurstPolicy(c.Policy), CPUBurstPercent: &c.BP,
			CFSQuotaBurstPercent: &c.QP, CFSQuotaBurstPeriodSeconds: &c.PS},
		SharePoolThresholdPercent: &c.Thr}}}
}

type g02Res struct {
	kind  string
	props map[string]string
	n     int
	v     float64
}

func (r *g02Res) GetKind() string                    { return r.kind }
func (r *g02Res) GetProperties() map[string]string   { return r.props }
func (r *g02Res) AddSeries(promstorage.Series) error { return nil }
func (r *g02Res) Count() int                         { return r.n }
func (r *g02Res) TimeRangeDuration() time.Duration   { return time.Minute }
func (r *g02Res) Value(metriccache.AggregationType) (float64, error) {
	if r.n == 0 {
		return 0, fmt.Errorf("no points")
	}
	return r.v, nil
}

type g02Factory struct{}

func (g02Factory) New(meta metriccache.MetricMeta) metriccache.AggregateResult {
	return &g02Res{kind: meta.GetKind(), props: meta.GetProperties()}
}

var g02Kinds struct{ node, pod, ctrUse, ctrThr string }

type g02Querier struct{ w *g02World }

func (q *g02Querier) Close() {}
func (q *g02Querier) QueryAndClose(m metriccache.MetricMeta, h *metriccache.QueryHints, r metriccache.MetricResult) error {
	return q.Query(m, h, r)
}
func (q *g02Querier) Query(m metriccache.MetricMeta, _ *metriccache.QueryHints, r metriccache.MetricResult) error {
	res, ok := r.(*g02Res)
	if !ok || q.w.in == nil {
		return nil
	}
	in := q.w.in
	prop := ""
	for _, v := range m.GetProperties() {
		prop = v
	}
	switch m.GetKind() {
	case g02Kinds.node:
		if in.Node.Known {
			res.n, res.v = 1, float64(in.Node.Used)/1000
		}
	case g02Kinds.pod:
		for name, p := range q.w.pods {
			if p.uid == prop && in.PU[name] >= 0 {
				res.n, res.v = 1, float64(in.PU[name])/1000
			}
		}
	case g02Kinds.ctrThr:
		switch in.Thr[prop] {
		case "yes":
			res.n, res.v = 1, 0.5
		case "no":
			res.n, res.v = 1, 0
		}
	case g02Kinds.ctrUse:
		if pct, ok := in.Use[prop]; ok && pct >= 0 {
			// usage in cores such that int64(usage / limit * 100) is pct
			res.n, res.v = 1, float64(q.w.limitOf(prop))/1000*(float64(pct)+0.5)/100
		}
	}
	return nil
}

type g02MC struct {
	metriccache.MetricCache
	w *g02World
}

func (m *g02MC) Querier(_, _ time.Time) (metriccache.Querier, error) { return &g02Querier{m.w}, nil }
func (m *g02MC) Get(key interface{}) (interface{}, bool) {
	if key == metriccache.NodeCPUInfoKey && m.w.in != nil && m.w.in.Node.Cores > 0 {
		info := &metriccache.NodeCPUInfo{}
		for i := int64(0); i < m.w.in.Node.Cores; i++ {
			info.ProcessorInfos = append(info.ProcessorInfos, koordletutil.ProcessorInfo{CPUID: int32(i), CoreID: int32(i)})
		}
		return info, true
	}
	return nil, false
}

// the executor cpuBurst talks to: the real one, with a note of every call
type g02Exec struct {
	real resourceexecutor.ResourceUpdateExecutor
	w    *g02World
}

func (e *g02Exec) Update(cacheable bool, u resourceexecutor.ResourceUpdater) (bool, error) {
	updated, err := e.real.Update(cacheable, u)
	v, _ := strconv.ParseInt(u.Value(), 10, 64)
	if loc, ok := e.w.paths[u.Path()]; ok {
		e.w.ws = append(e.w.ws, g02Write{Kind: loc[0], P: loc[1], K: loc[2], V: v, Eff: updated && err == nil})
	} else {
		e.w.ws = append(e.w.ws, g02Write{Kind: "?", P: u.Path(), K: "", V: v, Eff: updated && err == nil})
	}
	return updated, err
}
func (e *g02Exec) UpdateBatch(cacheable bool, us ...resourceexecutor.ResourceUpdater) {
	for _, u := range us {
		_, _ = e.Update(cacheable, u)
	}
}
func (e *g02Exec) LeveledUpdateBatch(us [][]resourceexecutor.ResourceUpdater) { e.real.LeveledUpdateBatch(us) }
func (e *g02Exec) Run(stopCh <-chan struct{})                                 { e.real.Run(stopCh) }

func (w *g02World) newExecutor() resourceexecutor.ResourceUpdateExecutor {
	real := &resourceexecutor.ResourceUpdateExecutorImpl{Config: resourceexecutor.NewDefaultConfig(), ResourceCache: cache.NewCacheDefault()}
	e := &g02Exec{real: real, w: w}
	e.Run(w.stop)
	return e
}

func (w *g02World) newAgent() {
	w.b = &cpuBurst{
		reconcileInterval:     time.Second,
		metricCollectInterval: time.Second,
		statesInformer:        &g02SI{w: w},
		metricCache:           &g02MC{w: w},
		executor:              w.newExecutor(),
		cgroupReader:          resourceexecutor.NewCgroupReader(),
		containerLimiter:      make(map[string]*burstLimiter),
	}
}

func (w *g02World) limitOf(id string) int64 {
	for _, p := range w.pods {
		for _, c := range p.ctr {
			if c.Has && c.ID == id {
				return c.Limit
			}
		}
	}
	return 1000
}

func (w *g02World) kubePod(name string) *corev1.Pod {
	p := w.pods[name]
	pod := &corev1.Pod{ObjectMeta: metav1.ObjectMeta{Name: name, Namespace: "default", UID: types.UID(p.uid), Labels: map[string]string{}, Annotations: map[string]string{}}}
	if p.qos != "NONE" {
		pod.Labels[apiext.LabelPodQoS] = p.qos
	}
	if p.ann.Policy != "" || p.ann.BP != g02Absent || p.ann.QP != g02Absent || p.ann.PS != g02Absent {
		c := slov1alpha1.CPUBurstConfig{Policy: slov1alpha1.CPUBurstPolicy(p.ann.Policy)}
		if p.ann.BP != g02Absent {
			c.CPUBurstPercent = &p.ann.BP
		}
		if p.ann.QP != g02Absent {
			c.CFSQuotaBurstPercent = &p.ann.QP
		}
		if p.ann.PS != g02Absent {
			c.CFSQuotaBurstPeriodSeconds = &p.ann.PS
		}
		data, _ := json.Marshal(c)
		pod.Annotations[slov1alpha1.AnnotationPodCPUBurst] = string(data)
	}
	first := true
	for _, k := range g02CNames {
		c := p.ctr[k]
		if c == nil || !c.Has {
			continue
		}
		kc := corev1.Container{Name: k, Resources: corev1.ResourceRequirements{Requests: corev1.ResourceList{}, Limits: corev1.ResourceList{}}}
		if c.Limit > 0 {
			kc.Resources.Limits[corev1.ResourceCPU] = *resource.NewMilliQuantity(c.Limit, resource.DecimalSI)
		}
		if first {
			kc.Resources.Requests[corev1.ResourceCPU] = *resource.NewMilliQuantity(p.req, resource.DecimalSI)
			first = false
		}
		st := corev1.ContainerStatus{Name: k, ContainerID: c.ID}
		if c.Running {
			st.State.Running = &corev1.ContainerStateRunning{}
		} else {
			st.State.Terminated = &corev1.ContainerStateTerminated{}
		}
		pod.Spec.Containers = append(pod.Spec.Containers, kc)
		pod.Status.ContainerStatuses = append(pod.Status.ContainerStatuses, st)
	}
	pod.Status.Phase = corev1.PodRunning
	if !p.active {
		pod.Status.Phase = corev1.PodSucceeded
	}
	pod.Status.QOSClass = corev1.PodQOSBurstable
	return pod
}

func (w *g02World) podMetas() []*statesinformer.PodMeta {
	var out []*statesinformer.PodMeta
	for _, name := range g02PNames { // fixed order: the specification's POrder
		if w.pods[name] == nil {
			continue
		}
		pod := w.kubePod(name)
		out = append(out, &statesinformer.PodMeta{Pod: pod, CgroupDir: koordletutil.GetPodCgroupParentDir(pod)})
	}
	return out
}

func (w *g02World) setFile(kind, p, k, dir string, v int64) {
	res := system.CPUCFSQuota
	if kind == "b" {
		res = system.CPUBurst
	}
	path := res.Path(dir)
	if err := os.MkdirAll(path[:strings.LastIndex(path, "/")], 0o755); err != nil {
		w.t.Fatal(err)
	}
	if err := os.WriteFile(path, []byte(strconv.FormatInt(v, 10)), 0o644); err != nil {
		w.t.Fatal(err)
	}
	w.paths[path] = [3]string{kind, p, k}
	key := p
	if k != "pod" {
		key = p + "/" + k
	}
	w.dirs[key] = dir
}

func (w *g02World) readFile(kind, key string) int64 {
	dir, ok := w.dirs[key]
	if !ok {
		return 0
	}
	res := system.CPUCFSQuota
	if kind == "b" {
		res = system.CPUBurst
	}
	data, err := os.ReadFile(res.Path(dir))
	if err != nil {
		return 0
	}
	v, _ := strconv.ParseInt(strings.TrimSpace(string(data)), 10, 64)
	return v
}

func (w *g02World) ctrDir(name, k string) string {
	pod := w.kubePod(name)
	podDir := koordletutil.GetPodCgroupParentDir(pod)
	c := w.pods[name].ctr[k]
	dir, err := koordletutil.GetContainerCgroupParentDir(podDir, &corev1.ContainerStatus{Name: k, ContainerID: c.ID})
	if err != nil {
		w.t.Fatalf("container dir: %v", err)
	}
	return dir
}

func g02Base(limit int64) int64 {
	return koordletutil.GetContainerBaseCFSQuota(&corev1.Container{Resources: corev1.ResourceRequirements{Limits: corev1.ResourceList{
		corev1.ResourceCPU: *resource.NewMilliQuantity(limit, resource.DecimalSI)}}})
}

// what kubelet keeps in the pod-level file: the sum of its containers' quotas, -1 if one is unlimited
func (w *g02World) kubeletPodQuota(name string) int64 {
	sum := int64(0)
	for _, k := range g02CNames {
		c := w.pods[name].ctr[k]
		if c == nil || !c.Has {
			continue
		}
		if c.Limit <= 0 {
			return -1
		}
		sum += g02Base(c.Limit)
	}
	return sum
}

func (w *g02World) obs() vu.Ev {
	fq, fb := vu.Ev{}, vu.Ev{}
	for _, p := range g02PNames {
		q, b := vu.Ev{"pod": w.readFile("q", p)}, vu.Ev{"pod": w.readFile("b", p)}
		for _, k := range g02CNames {
			q[k] = w.readFile("q", p+"/"+k)
			b[k] = w.readFile("b", p+"/"+k)
		}
		fq[p], fb[p] = q, b
	}
	lim := vu.Ev{}
	for id, l := range w.b.containerLimiter {
		lim[id] = vu.Ev{"cap": l.bucketCapacity, "tok": l.currentToken, "exp": int64(l.expireDuration / time.Second),
			"age": int64(time.Since(l.lastUpdateTime) / time.Second)}
	}
	return vu.Ev{"fq": fq, "fb": fb, "lim": lim}
}

// ---------------------------------------------------------------- executor of one script

func g02Run(t *testing.T, rec *vu.Recorder, seg int, script []g02Op, stats map[string]int) {
	root, err := os.MkdirTemp(g02Root, "seg-")
	if err != nil {
		t.Fatal(err)
	}
	defer os.RemoveAll(root)
	system.Conf.CgroupRootDir = root
	w := &g02World{t: t, seg: seg, pods: map[string]*g02Pod{}, dirs: map[string]string{}, paths: map[string][3]string{}, stop: make(chan struct{})}
	defer close(w.stop)
	for i := range script {
		op := script[i]
		raw, _ := json.Marshal(op)
		ev := vu.Ev{}
		_ = json.Unmarshal(raw, &ev)
		stats[op.Op]++
		switch op.Op {
		case "reset":
			w.cfg = *op.Cfg
			w.newAgent()
			rec.Reset(ev)
			continue
		case "cfg":
			w.cfg = *op.Cfg
		case "addPod":
			p := &g02Pod{qos: op.QoS, req: op.Req, active: op.Active, ann: *op.Ann, ctr: g02CopyCtrs(op.Ctr), uid: fmt.Sprintf("uid-%s", op.P)}
			w.pods[op.P] = p
			pod := w.kubePod(op.P)
			w.setFile("q", op.P, "pod", koordletutil.GetPodCgroupParentDir(pod), op.FQ["pod"])
			w.setFile("b", op.P, "pod", koordletutil.GetPodCgroupParentDir(pod), 0)
			for _, k := range g02CNames {
				if c := p.ctr[k]; c != nil && c.Has {
					w.setFile("q", op.P, k, w.ctrDir(op.P, k), op.FQ[k])
					w.setFile("b", op.P, k, w.ctrDir(op.P, k), 0)
				}
			}
			// the event always names every slot
			ctr := vu.Ev{}
			fq := vu.Ev{"pod": op.FQ["pod"]}
			for _, k := range g02CNames {
				c := p.ctr[k]
				if c == nil {
					c = &g02Ctr{}
				}
				ctr[k] = c
				fq[k] = op.FQ[k]
			}
			ev["ctr"], ev["fq"], ev["req"], ev["active"] = ctr, fq, op.Req, op.Active
		case "delPod":
			delete(w.pods, op.P)
		case "ann":
			w.pods[op.P].ann = *op.Ann
		case "running":
			w.pods[op.P].ctr[op.K].Running = op.R
			ev["r"] = op.R
		case "restartCtr":
			c := w.pods[op.P].ctr[op.K]
			c.ID, c.Running = op.ID, true
			w.setFile("q", op.P, op.K, w.ctrDir(op.P, op.K), g02Base(c.Limit))
			w.setFile("b", op.P, op.K, w.ctrDir(op.P, op.K), 0)
		case "resize":
			w.pods[op.P].ctr[op.K].Limit = op.Limit
			w.setFile("q", op.P, op.K, w.dirs[op.P+"/"+op.K], g02Base(op.Limit))
			if w.readFile("q", op.P) > 0 {
				w.setFile("q", op.P, "pod", w.dirs[op.P], w.kubeletPodQuota(op.P))
			}
		case "tick":
			for _, l := range w.b.containerLimiter {
				l.lastUpdateTime = l.lastUpdateTime.Add(-time.Duration(op.D) * time.Second)
			}
		case "restart":
			w.newAgent()
		case "expire":
			w.b.executor = w.newExecutor()
		case "round":
			w.in = &script[i]
			w.ws = nil
			panicked, msg := vu.Protect(func() { w.b.start() })
			w.in = nil
			ws := w.ws
			if ws == nil {
				ws = []g02Write{}
			}
			ev["ws"], ev["panic"], ev["obs"] = ws, panicked, w.obs()
			if panicked {
				ev["msg"] = msg
			}
			// every input map is always written
			for _, f := range []string{"pu", "thr", "use"} {
				if _, ok := ev[f]; !ok {
					ev[f] = vu.Ev{}
				}
			}
			stats["writes"] += len(ws)
			for _, x := range ws {
				if x.Eff {
					stats["writes-effective"]++
				}
			}
		default:
			t.Fatalf("unknown op %q", op.Op)
		}
		rec.Emit(ev)
	}
}

// ---------------------------------------------------------------- generator (steering shadow only)

func g02CopyCtrs(m map[string]*g02Ctr) map[string]*g02Ctr {
	out := map[string]*g02Ctr{}
	for k, c := range m {
		if c != nil {
			cc := *c
			out[k] = &cc
		}
	}
	return out
}

var g02Policies = []string{"none", "cpuBurstOnly", "cfsQuotaBurstOnly", "auto"}

func g02Pick(r *rand.Rand, xs ...int64) int64 { return xs[r.Intn(len(xs))] }

func g02GenCfg(r *rand.Rand) *g02Cfg {
	c := &g02Cfg{Policy: g02Policies[r.Intn(4)], BP: g02Pick(r, 1000, 1000, 100, 0, 250), QP: g02Pick(r, 300, 300, 200, 150, 120, 100, 50),
		PS: g02Pick(r, -1, -1, 0, 1, 2, 5, 10, 60), Thr: g02Pick(r, 50, 50, 25, 75, 100)}
	if r.Intn(3) > 0 {
		c.Policy = []string{"auto", "cfsQuotaBurstOnly"}[r.Intn(2)]
	}
	return c
}

func g02GenAnn(r *rand.Rand) *g02Ann {
	a := &g02Ann{BP: g02Absent, QP: g02Absent, PS: g02Absent}
	if r.Intn(3) == 0 {
		return a
	}
	if r.Intn(2) == 0 {
		a.Policy = g02Policies[r.Intn(4)]
	}
	if r.Intn(3) == 0 {
		a.BP = g02Pick(r, 1000, 200, 0)
	}
	if r.Intn(2) == 0 {
		a.QP = g02Pick(r, 300, 200, 150, 100, 400)
	}
	if r.Intn(2) == 0 {
		a.PS = g02Pick(r, -1, 0, 1, 3, 10)
	}
	return a
}

type g02Shadow struct {
	cfg   g02Cfg
	pods  map[string]*g02Op // the addPod op (its Ctr map is updated)
	added map[string]bool
	nid   int
}

func (s *g02Shadow) newID(p, k string) string {
	s.nid++
	return fmt.Sprintf("containerd://%s%s%04d", p, k, s.nid)
}

func g02GenRound(r *rand.Rand, s *g02Shadow) g02Op {
	op := g02Op{Op: "round", Node: &g02Node{Known: r.Intn(12) > 0, Cores: 16}, PU: map[string]int64{}, Thr: map[string]string{}, Use: map[string]int64{}}
	if r.Intn(25) == 0 {
		op.Node.Cores = 0 // no cpu info
	}
	// share pool: processors minus LSR requests; pick the pool's usage relative to the threshold, then add what LSR/BE pods use
	total := op.Node.Cores * 1000
	extra := int64(0)
	names := make([]string, 0, len(s.pods))
	for name := range s.pods {
		names = append(names, name)
	}
	sort.Strings(names)
	for _, name := range names {
		p := s.pods[name]
		u := g02Pick(r, -1, 0, 250, 500, 1000)
		op.PU[name] = u
		if p.QoS == "LSR" {
			total -= p.Req
		}
		if (p.QoS == "LSR" || p.QoS == "BE") && u > 0 {
			extra += u
		}
	}
	thr := s.cfg.Thr
	at := thr * total / 100 // milli: the overload threshold of the pool
	var pool int64
	switch r.Intn(8) {
	case 0, 1, 2:
		pool = at * int64(r.Intn(80)) / 100 // idle
	case 3:
		pool = at * 95 / 100 // cooling
	case 4:
		pool = at // exactly at the threshold
	case 5:
		pool = at - 250 // just below
	case 6:
		pool = at + int64(r.Intn(4))*250
	default:
		pool = at * int64(r.Intn(130)) / 100
	}
	pool = pool / 250 * 250
	if pool*1000 == thr*9*total { // stay off the cooling boundary (0.9 is not a binary fraction)
		pool -= 250
	}
	if pool < 0 {
		pool = 0
	}
	op.Node.Used = pool + extra
	for _, name := range names {
		p := s.pods[name]
		for _, k := range g02CNames {
			c := p.Ctr[k]
			if c == nil || !c.Has {
				continue
			}
			op.Thr[c.ID] = []string{"yes", "yes", "yes", "yes", "no", "no", "none"}[r.Intn(7)]
			op.Use[c.ID] = g02Pick(r, -1, 0, 30, 59, 60, 99, 100, 101, 150, 150, 200, 200, 300)
		}
	}
	return op
}

func g02GenScript(r *rand.Rand, steps int) []g02Op {
	s := &g02Shadow{pods: map[string]*g02Op{}, added: map[string]bool{}}
	cfg := g02GenCfg(r)
	s.cfg = *cfg
	out := []g02Op{{Op: "reset", Cfg: cfg}}
	limits := []int64{0, 500, 1000, 1000, 1500, 2000, 2000, 4000, 5}
	addPod := func() bool {
		for _, name := range g02PNames {
			if s.added[name] {
				continue
			}
			op := g02Op{Op: "addPod", P: name, QoS: []string{"LS", "LS", "LS", "NONE", "LSR", "BE"}[r.Intn(6)], Req: g02Pick(r, 1000, 2000, 500),
				Active: r.Intn(12) > 0, Ann: g02GenAnn(r), Ctr: map[string]*g02Ctr{}, FQ: map[string]int64{}}
			two := r.Intn(2) == 0
			unl := false
			sum := int64(0)
			for i, k := range g02CNames {
				if i == 1 && !two {
					op.Ctr[k] = &g02Ctr{}
					op.FQ[k] = 0
					continue
				}
				c := &g02Ctr{Has: true, ID: s.newID(name, k), Limit: limits[r.Intn(len(limits))], Running: r.Intn(10) > 0}
				if op.QoS == "LSR" && c.Limit == 0 {
					c.Limit = 1000
				}
				op.Ctr[k] = c
				if c.Limit == 0 {
					unl = true
					op.FQ[k] = -1
				} else {
					op.FQ[k] = g02Base(c.Limit)
					if r.Intn(6) == 0 { // left scaled up by an earlier agent life
						op.FQ[k] = op.FQ[k] * int64(11+r.Intn(12)) / 10
					}
					sum += op.FQ[k]
				}
			}
			op.FQ["pod"] = sum
			if unl {
				op.FQ["pod"] = -1
			}
			sh := op
			sh.Ctr = g02CopyCtrs(op.Ctr)
			s.pods[name], s.added[name] = &sh, true
			out = append(out, op)
			return true
		}
		return false
	}
	addPod()
	for len(out) < steps {
		names := make([]string, 0, len(s.pods))
		for name := range s.pods {
			names = append(names, name)
		}
		sort.Strings(names)
		x := r.Intn(100)
		switch {
		case x < 45 || len(names) == 0:
			if len(names) == 0 && !addPod() {
				out = append(out, g02Op{Op: "tick", D: 1})
				out = append(out, g02GenRound(r, s))
				continue
			}
			if r.Intn(4) > 0 {
				out = append(out, g02Op{Op: "tick", D: g02Pick(r, 1, 1, 1, 2, 3, 5, 10, 30)})
			}
			out = append(out, g02GenRound(r, s))
		case x < 52:
			c := g02GenCfg(r)
			s.cfg = *c
			out = append(out, g02Op{Op: "cfg", Cfg: c})
		case x < 60:
			addPod()
		case x < 64:
			name := names[r.Intn(len(names))]
			delete(s.pods, name)
			out = append(out, g02Op{Op: "delPod", P: name})
		case x < 70:
			out = append(out, g02Op{Op: "ann", P: names[r.Intn(len(names))], Ann: g02GenAnn(r)})
		case x < 76, x < 82, x < 90:
			name := names[r.Intn(len(names))]
			k := g02CNames[r.Intn(2)]
			c := s.pods[name].Ctr[k]
			if c == nil || !c.Has {
				continue
			}
			if x < 76 {
				c.Running = !c.Running
				out = append(out, g02Op{Op: "running", P: name, K: k, R: c.Running})
			} else if x < 82 {
				c.ID, c.Running = s.newID(name, k), true
				out = append(out, g02Op{Op: "restartCtr", P: name, K: k, ID: c.ID})
			} else if c.Limit > 0 && g02Resize {
				c.Limit = g02Pick(r, 500, 1000, 2000, 3000)
				out = append(out, g02Op{Op: "resize", P: name, K: k, Limit: c.Limit})
			}
		case x < 94:
			out = append(out, g02Op{Op: "tick", D: g02Pick(r, 1, 4, 20, 120)})
		case x < 97:
			out = append(out, g02Op{Op: "restart"})
		default:
			out = append(out, g02Op{Op: "expire"})
		}
	}
	return out
}

var g02Root string
var g02Resize = os.Getenv("VERIF_G02_RESIZE") != "0"

func TestVerifG02(t *testing.T) {
	if !vu.Enabled() {
		t.Skip("verification harness: VERIF_OUT not set")
	}
	klog.LogToStderr(false)
	klog.SetOutput(io.Discard)
	helper := system.NewFileTestUtil(t)
	defer helper.Cleanup()
	helper.SetCgroupsV2(false)
	g02Root = helper.TempDir
	if d, err := os.MkdirTemp("/dev/shm", "verif-g02-"); err == nil { // truncating writes are slow on the disk-backed /tmp
		defer os.RemoveAll(d)
		g02Root = d
	}
	oldFactory := metriccache.DefaultAggregateResultFactory
	metriccache.DefaultAggregateResultFactory = g02Factory{}
	defer func() { metriccache.DefaultAggregateResultFactory = oldFactory }()
	kind := func(m metriccache.MetricResource, props map[metriccache.MetricProperty]string) string {
		meta, err := m.BuildQueryMeta(props)
		if err != nil {
			t.Fatal(err)
		}
		return meta.GetKind()
	}
	g02Kinds.node = kind(metriccache.NodeCPUUsageMetric, nil)
	g02Kinds.pod = kind(metriccache.PodCPUUsageMetric, metriccache.MetricPropertiesFunc.Pod("x"))
	g02Kinds.ctrUse = kind(metriccache.ContainerCPUUsageMetric, metriccache.MetricPropertiesFunc.Container("x"))
	g02Kinds.ctrThr = kind(metriccache.ContainerCPUThrottledMetric, metriccache.MetricPropertiesFunc.Container("x"))

	rec := vu.NewRecorder("")
	defer rec.Close()
	stats := map[string]int{}
	if vu.ReplayPath() != "" {
		for i, raw := range vu.ReadScripts(vu.ReplayPath()) {
			var script []g02Op
			if err := json.Unmarshal(raw, &script); err != nil {
				t.Fatalf("replay script: %v", err)
			}
			g02Run(t, rec, i, script, stats)
		}
		return
	}
	n, steps := 160, 26
	if vu.Thorough() {
		n, steps = 1600, 40
	}
	r := vu.Rand(202)
	for i := 0; i < n; i++ {
		g02Run(t, rec, i, g02GenScript(r, steps+r.Intn(10)), stats)
	}
	keys := make([]string, 0, len(stats))
	for k := range stats {
		keys = append(keys, k)
	}
	sort.Strings(keys)
	for _, k := range keys {
		t.Logf("g02 stats %s=%d", k, stats[k])
	}
}
