package loadaware

// Verification harness for C18 (injected by `go test -overlay`; /repo stays untouched).
// Executor + recorder only: it builds the REAL LowNodeLoad plugin (NewLowNodeLoad on the package's fakeFrameworkHandle),
// feeds it NodeMetric objects through a real NodeMetric lister over an indexer the harness fills, node / pod objects
// through GetPodsAssignedToNodeFunc, and a recording framework.Evictor whose Filter follows the per-pod flag; it then
// runs the REAL Balance for several successive rounds per segment (the anomaly detectors live inside the plugin) and logs
//   reset {cfg, names}   round {nodes, pods}   evict {pod, ok}*   end {obs: calls, pods}
// A configuration holds one or SEVERAL node pools (label selectors over the nodes: overlapping, disjoint, none), each with
// its own thresholds / anomaly settings; all of them are processed by the one real Balance call of a round.
// There is no oracle here: specs/Rebalance/RebalanceTrace.tla recomputes the usage / threshold table from the logged
// inputs and judges every evict event. The generators keep a shadow of the inputs only to steer generation
// (boundary usages, float-insensitive thresholds), never to judge.

import (
	"context"
	"encoding/json"
	"flag"
	"fmt"
	"io"
	"math/big"
	"math/rand"
	"sort"
	"strconv"
	"strings"
	"testing"
	"time"

	corev1 "k8s.io/api/core/v1"
	"k8s.io/apimachinery/pkg/api/resource"
	metav1 "k8s.io/apimachinery/pkg/apis/meta/v1"
	"k8s.io/client-go/tools/cache"
	"k8s.io/klog/v2"

	"github.com/koordinator-sh/koordinator/apis/extension"
	slov1alpha1 "github.com/koordinator-sh/koordinator/apis/slo/v1alpha1"
	koordfake "github.com/koordinator-sh/koordinator/pkg/client/clientset/versioned/fake"
	koordslolisters "github.com/koordinator-sh/koordinator/pkg/client/listers/slo/v1alpha1"
	deschedulerconfig "github.com/koordinator-sh/koordinator/pkg/descheduler/apis/config"
	"github.com/koordinator-sh/koordinator/pkg/descheduler/apis/config/validation"
	"github.com/koordinator-sh/koordinator/pkg/descheduler/framework"
	vu "github.com/koordinator-sh/koordinator/pkg/verifutil"
)

var c18Res = []string{"cpu", "mem"}

// thresholds are carried in hundredths of a percent (2000 = 20%, 1003 = 10.03%)
type c18Sel struct {
	Nil    bool     `json:"nil"`    // no NodeSelector at all
	Labels []string `json:"labels"` // otherwise MatchLabels {l: "1"} for every listed label (none listed: the empty selector)
}

type c18Pool struct {
	Sel     c18Sel           `json:"sel"`
	Dev     bool             `json:"dev"`
	Low     map[string]int64 `json:"low"`
	High    map[string]int64 `json:"high"`
	PLow    map[string]int64 `json:"plow"`
	PHigh   map[string]int64 `json:"phigh"`
	Anomaly int              `json:"anomaly"` // 0 = no AnomalyCondition
	Norm    int              `json:"norm"`
}

type c18Cfg struct {
	NumNodes int       `json:"numNodes"`
	NodeFit  bool      `json:"nodeFit"`
	Pools    []c18Pool `json:"pools"`
}

// scripts recorded before the check drove several pools carry the settings of their single pool at the top level
func (c *c18Cfg) UnmarshalJSON(b []byte) error {
	type plain c18Cfg
	var w struct {
		plain
		c18Pool
	}
	if err := json.Unmarshal(b, &w); err != nil {
		return err
	}
	*c = c18Cfg(w.plain)
	if len(c.Pools) == 0 {
		w.c18Pool.Sel = c18Sel{Nil: true}
		c.Pools = []c18Pool{w.c18Pool}
	}
	return nil
}

type c18Node struct {
	Labels  []string         `json:"labels"`
	Cap     map[string]int64 `json:"cap"`
	Fresh   bool             `json:"fresh"`
	SK      int              `json:"sk"` // how the metric is unusable when !fresh: 1 old timestamp, 2 no NodeMetric object, 3 nil Status.NodeMetric, 4 nil UpdateTime
	Unsched bool             `json:"unsched"`
	Sys     map[string]int64 `json:"sys"`
}

type c18Pod struct {
	Node   string           `json:"node"`
	Use    map[string]int64 `json:"use"`
	Prod   bool             `json:"prod"`
	Pass   bool             `json:"pass"`   // what the evictor's Filter answers for this pod
	Wl     string           `json:"wl"`     // workload group: the filter lets the pods of one group through one at a time ("" = no group)
	Metric bool             `json:"metric"` // the NodeMetric carries a PodMetricInfo for this pod
	EOK    bool             `json:"eok"`    // what the evictor's Evict answers for this pod
}

type c18Ev struct {
	Op    string             `json:"op"`
	Cfg   *c18Cfg            `json:"cfg,omitempty"`
	Names []string           `json:"names,omitempty"`
	Nodes map[string]c18Node `json:"nodes,omitempty"`
	Pods  map[string]c18Pod  `json:"pods,omitempty"`
}

// ---------------------------------------------------------------- fakes around the real plugin

type c18Round struct {
	in     c18Ev
	byNode map[string][]*corev1.Pod
	calls  int
	called []string // pods handed to Evict, in order
	gone   []string // successfully evicted, in order
}

type c18Harness struct {
	pl      *LowNodeLoad
	segNo   int
	indexer cache.Indexer
	rec     *vu.Recorder
	cur     *c18Round
	stats   map[string]int
}

type c18Evictor struct{ h *c18Harness }

func (e *c18Evictor) Filter(pod *corev1.Pod) bool {
	p := e.h.cur.in.Pods[c18ID(pod)]
	if !p.Pass {
		return false
	}
	for _, g := range e.h.cur.gone { // already being evicted / migrated (it stays listed on its node for the rest of the round)
		if g == c18ID(pod) {
			return false
		}
	}
	if p.Wl != "" { // a per-workload limit on migrating pods: a group that already lost a member this round is closed
		for _, g := range e.h.cur.gone {
			if e.h.cur.in.Pods[g].Wl == p.Wl {
				return false
			}
		}
	}
	return true
}
func (e *c18Evictor) PreEvictionFilter(pod *corev1.Pod) bool { return true }
func (e *c18Evictor) Evict(ctx context.Context, pod *corev1.Pod, opts framework.EvictOptions) bool {
	ok := e.h.cur.in.Pods[c18ID(pod)].EOK
	e.h.cur.calls++
	e.h.cur.called = append(e.h.cur.called, c18ID(pod))
	if ok {
		e.h.cur.gone = append(e.h.cur.gone, c18ID(pod))
	}
	e.h.rec.Emit(vu.Ev{"op": "evict", "pod": c18ID(pod), "ok": ok, "from": e.h.cur.in.Pods[c18ID(pod)].Node})
	return ok
}

// the pods of a round are spread over two namespaces and pairs of them share their NAME (p6 / p7 are ns0/w3 and ns1/w3):
// a pod is namespace + name, never the name alone; the script id travels in a label
const c18IDLabel = "verif/id"

func c18ID(pod *corev1.Pod) string { return pod.Labels[c18IDLabel] }
func c18NsName(id string) (string, string) {
	k, err := strconv.Atoi(strings.TrimPrefix(id, "p"))
	if err != nil {
		return "default", id
	}
	return fmt.Sprintf("ns%d", k%2), fmt.Sprintf("w%d", k/2)
}

type c18Handle struct {
	framework.Handle // nil: any other method would panic; none is used by LowNodeLoad on this path
	h                *c18Harness
	ev               *c18Evictor
}

func (x *c18Handle) Evictor() framework.Evictor { return x.ev }
func (x *c18Handle) GetPodsAssignedToNodeFunc() framework.GetPodsAssignedToNodeFunc {
	return func(nodeName string, filter framework.FilterFunc) ([]*corev1.Pod, error) {
		var out []*corev1.Pod
		for _, p := range x.h.cur.byNode[nodeName] {
			if filter == nil || filter(p) {
				out = append(out, p)
			}
		}
		return out, nil
	}
}

func c18Thresholds(m map[string]int64) deschedulerconfig.ResourceThresholds {
	if len(m) == 0 {
		return nil
	}
	out := deschedulerconfig.ResourceThresholds{}
	for k, v := range m {
		out[c18ResName(k)] = deschedulerconfig.Percentage(float64(v) / 100)
	}
	return out
}

func c18ResName(k string) corev1.ResourceName {
	if k == "mem" {
		return corev1.ResourceMemory
	}
	return corev1.ResourceCPU
}

func c18Args(cfg c18Cfg) *deschedulerconfig.LowNodeLoadArgs {
	expire := int64(180)
	var pools []deschedulerconfig.LowNodeLoadNodePool
	for i, pc := range cfg.Pools {
		pool := deschedulerconfig.LowNodeLoadNodePool{
			Name:                   fmt.Sprintf("pool%d", i+1),
			UseDeviationThresholds: pc.Dev,
			LowThresholds:          c18Thresholds(pc.Low),
			HighThresholds:         c18Thresholds(pc.High),
			ProdLowThresholds:      c18Thresholds(pc.PLow),
			ProdHighThresholds:     c18Thresholds(pc.PHigh),
			ResourceWeights:        map[corev1.ResourceName]int64{corev1.ResourceCPU: 1, corev1.ResourceMemory: 1},
		}
		if !pc.Sel.Nil {
			pool.NodeSelector = &metav1.LabelSelector{MatchLabels: map[string]string{}}
			for _, l := range pc.Sel.Labels {
				pool.NodeSelector.MatchLabels[l] = "1"
			}
		}
		if pc.Anomaly > 0 {
			pool.AnomalyCondition = &deschedulerconfig.LoadAnomalyCondition{
				Timeout:                  metav1.Duration{Duration: time.Hour}, // far away: no wall-clock dependence
				ConsecutiveAbnormalities: uint32(pc.Anomaly),
				ConsecutiveNormalities:   uint32(pc.Norm),
			}
		}
		pools = append(pools, pool)
	}
	return &deschedulerconfig.LowNodeLoadArgs{
		NumberOfNodes:               int32(cfg.NumNodes),
		NodeMetricExpirationSeconds: &expire,
		NodeFit:                     cfg.NodeFit,
		NodePools:                   pools,
		DetectorCacheTimeout:        &metav1.Duration{Duration: time.Hour},
	}
}

func c18NewHarness(t *testing.T, rec *vu.Recorder) *c18Harness {
	h := &c18Harness{rec: rec, stats: map[string]int{}}
	hd := &c18Handle{h: h}
	hd.ev = &c18Evictor{h: h}
	boot := c18Cfg{Pools: []c18Pool{{Sel: c18Sel{Nil: true}, Low: map[string]int64{"cpu": 2000}, High: map[string]int64{"cpu": 8000}}}}
	p, err := NewLowNodeLoad(context.TODO(), c18Args(boot), &fakeFrameworkHandle{Handle: hd, Interface: koordfake.NewSimpleClientset()})
	if err != nil {
		t.Fatalf("NewLowNodeLoad: %v", err)
	}
	h.pl = p.(*LowNodeLoad)
	// the real lister type over an indexer the harness fills synchronously (no informer latency between rounds)
	h.indexer = cache.NewIndexer(cache.MetaNamespaceKeyFunc, cache.Indexers{})
	h.pl.nodeMetricLister = koordslolisters.NewNodeMetricLister(h.indexer)
	return h
}

// one segment = one plugin life: fresh args (validated by the real validator) and no anomaly detector left over from the
// previous segment.  The plugin keys its detectors by node name; wherever it keeps them, none survives into this segment
// because the node OBJECTS of every segment carry names of their own (script name + segment number, see realName); the
// trace keeps the script names.
func (h *c18Harness) startSegment(cfg c18Cfg, names []string) {
	args := c18Args(cfg)
	if err := validation.ValidateLowLoadUtilizationArgs(nil, args); err != nil {
		panic(fmt.Sprintf("c18: generated args do not validate: %v", err))
	}
	h.pl.args = args
	h.pl.nodeAnomalyDetectors.Flush()
	h.pl.prodAnomalyDetectors.Flush()
	h.segNo++
	h.rec.Reset(vu.Ev{"cfg": cfg, "names": names})
	h.stats["segments"]++
}

func (h *c18Harness) realName(node string) string { return fmt.Sprintf("%s-s%d", node, h.segNo) }

func c18Quantities(m map[string]int64) corev1.ResourceList {
	return corev1.ResourceList{
		corev1.ResourceCPU:    *resource.NewMilliQuantity(m["cpu"], resource.DecimalSI),
		corev1.ResourceMemory: *resource.NewQuantity(m["mem"], resource.BinarySI),
	}
}

func c18LabelMap(ls []string) map[string]string {
	m := map[string]string{}
	for _, l := range ls {
		m[l] = "1"
	}
	return m
}

func c18SortedKeys[V any](m map[string]V) []string {
	ks := make([]string, 0, len(m))
	for k := range m {
		ks = append(ks, k)
	}
	sort.Strings(ks)
	return ks
}

// executes one Balance round on the real plugin; returns the pods the evictor reported as evicted
func (h *c18Harness) runRound(in c18Ev) []string {
	r := &c18Round{in: in, byNode: map[string][]*corev1.Pod{}, called: []string{}}
	h.cur = r
	now := time.Now()
	var nodes []*corev1.Node
	var metrics []interface{}
	perNode := map[string][]*slov1alpha1.PodMetricInfo{}
	for _, pn := range c18SortedKeys(in.Pods) {
		p := in.Pods[pn]
		prio := string(extension.PriorityBatch)
		if p.Prod {
			prio = string(extension.PriorityProd)
		}
		ns, name := c18NsName(pn)
		pod := &corev1.Pod{
			ObjectMeta: metav1.ObjectMeta{Namespace: ns, Name: name, Labels: map[string]string{extension.LabelPodPriorityClass: prio, c18IDLabel: pn}},
			Spec:       corev1.PodSpec{NodeName: h.realName(p.Node), Containers: []corev1.Container{{Name: "c"}}},
			Status:     corev1.PodStatus{Phase: corev1.PodRunning},
		}
		r.byNode[h.realName(p.Node)] = append(r.byNode[h.realName(p.Node)], pod)
		if p.Metric {
			perNode[p.Node] = append(perNode[p.Node], &slov1alpha1.PodMetricInfo{Namespace: ns, Name: name,
				PodUsage: slov1alpha1.ResourceMap{ResourceList: c18Quantities(p.Use)}})
		}
	}
	for _, nn := range c18SortedKeys(in.Nodes) {
		n := in.Nodes[nn]
		alloc := c18Quantities(n.Cap)
		alloc[corev1.ResourcePods] = *resource.NewQuantity(110, resource.DecimalSI)
		nodes = append(nodes, &corev1.Node{
			ObjectMeta: metav1.ObjectMeta{Name: h.realName(nn), Labels: c18LabelMap(n.Labels)},
			Spec:       corev1.NodeSpec{Unschedulable: n.Unsched},
			Status:     corev1.NodeStatus{Capacity: alloc.DeepCopy(), Allocatable: alloc},
		})
		nm := &slov1alpha1.NodeMetric{ObjectMeta: metav1.ObjectMeta{Name: h.realName(nn)}}
		nm.Status.UpdateTime = &metav1.Time{Time: now}
		nm.Status.NodeMetric = &slov1alpha1.NodeMetricInfo{SystemUsage: slov1alpha1.ResourceMap{ResourceList: c18Quantities(n.Sys)}}
		nm.Status.PodsMetric = perNode[nn]
		if !n.Fresh {
			switch n.SK {
			case 2:
				continue // no NodeMetric object at all
			case 3:
				nm.Status.NodeMetric = nil
			case 4:
				nm.Status.UpdateTime = nil
			default:
				nm.Status.UpdateTime = &metav1.Time{Time: now.Add(-time.Hour)} // expiration is 180 s: far from the boundary
			}
		}
		metrics = append(metrics, nm)
	}
	if err := h.indexer.Replace(metrics, ""); err != nil {
		panic(err)
	}
	h.rec.Emit(vu.Ev{"op": "round", "nodes": in.Nodes, "pods": in.Pods})
	if panicked, msg := vu.Protect(func() { h.pl.Balance(context.TODO(), nodes) }); panicked {
		h.rec.Emit(vu.Ev{"op": "panic", "msg": msg})
		h.stats["panics"]++
	}
	h.rec.Emit(vu.Ev{"op": "end", "obs": vu.Ev{"calls": r.calls, "pods": r.called}})
	h.stats["rounds"]++
	h.stats["evictCalls"] += r.calls
	if r.calls > 0 {
		h.stats["roundsWithEvictions"]++
		if in.Cfg != nil {
			gated := false
			for _, pc := range in.Cfg.Pools {
				gated = gated || pc.Anomaly >= 2
			}
			if gated {
				h.stats["roundsWithEvictionsSomePoolAnomalyGated"]++
			}
			if len(in.Cfg.Pools) > 1 {
				h.stats["multiPoolRoundsWithEvictions"]++
			}
		}
	}
	return r.gone
}

// a recorded segment is a script: reset + round events carry everything; evict / end are re-created
func (h *c18Harness) replay(script []c18Ev) {
	if len(script) == 0 || script[0].Op != "reset" || script[0].Cfg == nil {
		panic("c18: script does not start with a reset event")
	}
	cfg := c18Norm(*script[0].Cfg)
	h.startSegment(cfg, script[0].Names)
	for _, e := range script[1:] {
		if e.Op != "round" {
			continue
		}
		e.Cfg = &cfg
		if e.Pods == nil {
			e.Pods = map[string]c18Pod{}
		}
		for nn, n := range e.Nodes {
			if n.Labels == nil {
				n.Labels = []string{}
				e.Nodes[nn] = n
			}
		}
		h.runRound(e)
	}
}

func c18Norm(c c18Cfg) c18Cfg {
	pools := make([]c18Pool, len(c.Pools))
	for i, pc := range c.Pools {
		pools[i] = c18NormPool(pc)
	}
	c.Pools = pools
	return c
}

func c18NormPool(c c18Pool) c18Pool {
	for _, m := range []*map[string]int64{&c.Low, &c.High, &c.PLow, &c.PHigh} {
		if *m == nil {
			*m = map[string]int64{}
		}
	}
	if c.Sel.Labels == nil {
		c.Sel.Labels = []string{}
	}
	if c.Norm == 0 {
		c.Norm = 1
	}
	return c
}

// ---------------------------------------------------------------- generation (shadow of the INPUTS only)

var c18Caps = []int64{1000, 2000}

// percent values (hundredths) whose float conversion in resourceThreshold is exact for both capacities:
// int64(float64(p) * 0.01 * float64(cap)) == p*cap/100.  A property of IEEE arithmetic, not of the code under test.
func c18ExactAbs(p100 int64) bool {
	for _, c := range c18Caps {
		if p100*c%10000 != 0 {
			return false
		}
		if int64(float64(p100)/100*0.01*float64(c)) != p100*c/10000 {
			return false
		}
	}
	return true
}

func c18PickAbs(rng *rand.Rand, lo, hi int64) int64 {
	for i := 0; i < 200; i++ {
		p := (lo + rng.Int63n(hi-lo+1)) / 5 * 5 * 100
		if p >= lo*100 && p <= hi*100 && c18ExactAbs(p) {
			return p
		}
	}
	return lo / 10 * 10 * 100
}

var c18Devs = []int64{503, 1003, 1507, 2003, 3011}

func c18RandomPool(rng *rand.Rand, mayDev bool) c18Pool {
	c := c18NormPool(c18Pool{})
	c.Dev = mayDev && rng.Intn(5) < 2
	withMem := rng.Intn(5) < 3
	prodMode := rng.Intn(5) // 0,1: none; 2,3: cpu; 4: cpu+mem
	set := func(r string) {
		if c.Dev {
			l := c18Devs[rng.Intn(len(c18Devs))]
			hgh := c18Devs[rng.Intn(len(c18Devs))]
			if hgh < l {
				l, hgh = hgh, l
			}
			c.Low[r], c.High[r] = l, hgh
		} else {
			l := c18PickAbs(rng, 10, 45)
			hgh := c18PickAbs(rng, 40, 90)
			if rng.Intn(4) == 0 {
				hgh = l + 500*int64(rng.Intn(3)) // narrow band: little headroom on the targets
				if !c18ExactAbs(hgh) {
					hgh = l
				}
			}
			if hgh < l {
				hgh = l
			}
			c.Low[r], c.High[r] = l, hgh
		}
	}
	setProd := func(r string) {
		hgh, ok := c.High[r]
		if c.Dev {
			if !ok {
				hgh = 3011
			}
			var cands []int64
			for _, d := range c18Devs {
				if d <= hgh {
					cands = append(cands, d)
				}
			}
			ph := cands[rng.Intn(len(cands))]
			pl := cands[rng.Intn(len(cands))]
			if pl > ph {
				pl, ph = ph, pl
			}
			c.PLow[r], c.PHigh[r] = pl, ph
		} else {
			if !ok {
				hgh = 9000
			}
			ph := c18PickAbs(rng, 10, hgh/100)
			if ph > hgh {
				ph = hgh
			}
			pl := c18PickAbs(rng, 5, ph/100)
			if pl > ph {
				pl = ph
			}
			c.PLow[r], c.PHigh[r] = pl, ph
		}
	}
	set("cpu")
	if withMem {
		set("mem")
	}
	if prodMode >= 2 {
		setProd("cpu")
	}
	if prodMode == 4 {
		setProd("mem")
	}
	switch k := rng.Intn(20); {
	case k < 6:
		c.Anomaly = 0
	case k < 8:
		c.Anomaly = 1
	case k < 15:
		c.Anomaly = 2
	default:
		c.Anomaly = 3
	}
	c.Norm = 1 + rng.Intn(2)
	return c
}

func c18Matches(sel c18Sel, labels []string) bool {
	if sel.Nil {
		return true
	}
	for _, l := range sel.Labels {
		found := false
		for _, x := range labels {
			found = found || x == l
		}
		if !found {
			return false
		}
	}
	return true
}

func c18RandomSel(rng *rand.Rand) c18Sel {
	switch k := rng.Intn(20); {
	case k < 3:
		return c18Sel{Nil: true, Labels: []string{}}
	case k < 5:
		return c18Sel{Labels: []string{}} // the empty selector: every node
	case k < 11:
		return c18Sel{Labels: []string{"a"}}
	case k < 17:
		return c18Sel{Labels: []string{"b"}}
	default:
		return c18Sel{Labels: []string{"a", "b"}}
	}
}

// the pools of one configuration over the given node labels.  A pool with deviation thresholds never shares a node with
// an earlier pool (stated assumption: its average is then over exactly the nodes it selects).
func c18RandomCfg(rng *rand.Rand, names []string, labels map[string][]string) c18Cfg {
	c := c18Cfg{}
	switch k := rng.Intn(20); {
	case k < 15:
		c.NumNodes = 0
	case k < 19:
		c.NumNodes = 1
	default:
		c.NumNodes = 2
	}
	c.NodeFit = rng.Intn(2) == 0
	np := 1
	switch k := rng.Intn(20); {
	case k < 9:
		np = 1
	case k < 17:
		np = 2
	default:
		np = 3
	}
	same := rng.Intn(2) == 0 // every pool with the thresholds of the first one (only the selectors differ)
	seen := map[string]bool{}
	for i := 0; i < np; i++ {
		var sel c18Sel
		if np == 1 {
			sel = c18Sel{Nil: true, Labels: []string{}}
			if rng.Intn(5) == 0 {
				sel = c18Sel{Labels: []string{"a"}}
			}
		} else {
			sel = c18RandomSel(rng)
		}
		overlaps := false
		for _, n := range names {
			if c18Matches(sel, labels[n]) && seen[n] {
				overlaps = true
			}
		}
		var pc c18Pool
		if i > 0 && same && !(c.Pools[0].Dev && overlaps) {
			pc = c.Pools[0]
			pc.Low, pc.High, pc.PLow, pc.PHigh = c18Copy(pc.Low), c18Copy(pc.High), c18Copy(pc.PLow), c18Copy(pc.PHigh)
			if rng.Intn(3) == 0 {
				pc.Anomaly = []int{0, 1, 2, 3}[rng.Intn(4)]
			}
		} else {
			pc = c18RandomPool(rng, !overlaps)
		}
		pc.Sel = sel
		c.Pools = append(c.Pools, pc)
		for _, n := range names {
			if c18Matches(sel, labels[n]) {
				seen[n] = true
			}
		}
	}
	return c
}

type c18World struct {
	cfg     c18Cfg
	names   []string
	labels  map[string][]string
	caps    map[string]map[string]int64
	unsched map[string]bool
	sys     map[string]map[string]int64
	pods    map[string]c18Pod
	next    int
}

func (w *c18World) podSum(node, r string, prodOnly bool) int64 {
	var s int64
	for _, p := range w.pods {
		if p.Node == node && p.Metric && (!prodOnly || p.Prod) {
			s += p.Use[r]
		}
	}
	return s
}

// redraws the content of one node: pods first, then the system usage so that the total lands in a chosen band
// (bands are steered towards the configured thresholds, including the exact boundary and boundary + 1)
func (w *c18World) redraw(rng *rand.Rand, node string) {
	for pn, p := range w.pods {
		if p.Node == node {
			delete(w.pods, pn)
		}
	}
	np := rng.Intn(4)
	if len(w.pods)+np > 9 {
		np = 0
	}
	var mine []string
	for i := 0; i < np; i++ {
		w.next++
		pn := fmt.Sprintf("p%d", w.next)
		use := map[string]int64{"cpu": 0, "mem": 0}
		for _, r := range c18Res {
			if r == "mem" && rng.Intn(3) == 0 {
				continue
			}
			use[r] = w.caps[node][r] * int64(1+rng.Intn(35)) / 100
		}
		w.pods[pn] = c18Pod{Node: node, Use: use, Prod: rng.Intn(20) < 9, Pass: rng.Intn(10) < 8, Metric: rng.Intn(25) < 23, EOK: rng.Intn(25) < 23,
			Wl: []string{"", "", "", "w1", "w1", "w2"}[rng.Intn(6)]}
		mine = append(mine, pn)
	}
	w.sys[node] = map[string]int64{}
	// steer towards the thresholds of one of the pools that select this node
	var steer *c18Pool
	var sel []int
	for i := range w.cfg.Pools {
		if c18Matches(w.cfg.Pools[i].Sel, w.labels[node]) {
			sel = append(sel, i)
		}
	}
	if len(sel) > 0 {
		steer = &w.cfg.Pools[sel[rng.Intn(len(sel))]]
	}
	for _, r := range c18Res {
		cp := w.caps[node][r]
		pods := w.podSum(node, r, false)
		var target int64
		lowQ, highQ := cp*20/100, cp*80/100
		if steer != nil && !steer.Dev {
			if v, ok := steer.Low[r]; ok {
				lowQ, highQ = v*cp/10000, steer.High[r]*cp/10000
			}
		}
		band := rng.Intn(10)
		if r == "mem" && band >= 7 && rng.Intn(2) == 0 {
			band = rng.Intn(7) // memory is hot less often
		}
		switch {
		case band < 3: // under the low threshold (boundary included)
			target = rng.Int63n(lowQ + 1)
			if rng.Intn(3) == 0 {
				target = lowQ - int64(rng.Intn(2))
			}
		case band < 6: // between
			target = lowQ + 1
			if highQ > lowQ+1 {
				target += rng.Int63n(highQ - lowQ)
			}
		default: // above the high threshold, often so that removing pods lands exactly on it or one above
			target = highQ + 1 + rng.Int63n(cp-highQ+1)
			if len(mine) > 0 && rng.Intn(2) == 0 {
				var d int64
				k := 1 + rng.Intn(len(mine))
				for _, pn := range mine[:k] {
					if w.pods[pn].Metric {
						d += w.pods[pn].Use[r]
					}
				}
				target = highQ + d + int64(rng.Intn(2))
			} else if rng.Intn(4) == 0 {
				target = highQ + int64(rng.Intn(2))
			}
		}
		if target < 0 {
			target = 0
		}
		s := target - pods
		if s < 0 {
			s = 0
		}
		w.sys[node][r] = s
	}
}

// exact rational value of every deviation threshold; robust iff its floor cannot be changed by float rounding noise
// (for every pool with deviation thresholds, over the measured nodes it selects)
func (w *c18World) devRobust(fresh map[string]bool) bool {
	for _, pc := range w.cfg.Pools {
		if !pc.Dev {
			continue
		}
		var F []string
		for _, n := range w.names {
			if fresh[n] && c18Matches(pc.Sel, w.labels[n]) {
				F = append(F, n)
			}
		}
		if !w.devRobustPool(pc, F) {
			return false
		}
	}
	return true
}

func (w *c18World) devRobustPool(pc c18Pool, F []string) bool {
	if len(F) == 0 {
		return true
	}
	nF := int64(len(F))
	for _, r := range c18Res {
		L := int64(2000)
		for _, prod := range []bool{false, true} {
			lowm, highm := pc.Low, pc.High
			if prod {
				lowm, highm = pc.PLow, pc.PHigh
			}
			if v, ok := lowm[r]; !ok || v == 0 {
				continue
			}
			var S int64
			for _, n := range F {
				u := w.podSum(n, r, prod)
				if !prod {
					u += w.sys[n][r]
				}
				S += u * (L / w.caps[n][r])
			}
			for sign, m := range map[int64]map[string]int64{-1: lowm, 1: highm} {
				P := 10000*S + sign*m[r]*nF*L
				Q := 100 * nF * L
				if P <= 0 {
					continue // clamps to 0: exact
				}
				if P >= 100*Q {
					if P == 100*Q {
						return false
					}
					continue // clamps to 100 percent: exact
				}
				for _, n := range F {
					K := w.caps[n][r] / 100
					num := new(big.Int).Mul(big.NewInt(P), big.NewInt(K))
					rem := new(big.Int).Mod(num, big.NewInt(Q)).Int64()
					if rem*200 < Q || (Q-rem)*200 < Q { // within 0.005 of an integer
						return false
					}
				}
			}
		}
	}
	return true
}

func (w *c18World) input(rng *rand.Rand) c18Ev {
	fresh := map[string]bool{}
	sk := map[string]int{}
	for _, n := range w.names {
		fresh[n] = rng.Intn(12) != 0
		if !fresh[n] {
			sk[n] = 1 + rng.Intn(4)
		}
	}
	for try := 0; !w.devRobust(fresh); try++ {
		if try > 50 {
			panic("c18: cannot find float-insensitive usages")
		}
		n := w.names[rng.Intn(len(w.names))]
		w.sys[n]["cpu"] += 1
		w.sys[n]["mem"] += 1
	}
	e := c18Ev{Op: "round", Cfg: &w.cfg, Nodes: map[string]c18Node{}, Pods: map[string]c18Pod{}}
	for _, n := range w.names {
		e.Nodes[n] = c18Node{Labels: append([]string{}, w.labels[n]...), Cap: c18Copy(w.caps[n]), Fresh: fresh[n], SK: sk[n], Unsched: w.unsched[n], Sys: c18Copy(w.sys[n])}
	}
	for pn, p := range w.pods {
		p.Use = c18Copy(p.Use)
		e.Pods[pn] = p
	}
	return e
}

func c18Copy(m map[string]int64) map[string]int64 {
	o := map[string]int64{}
	for k, v := range m {
		o[k] = v
	}
	return o
}

func c18RandomSegment(h *c18Harness, rng *rand.Rand, rounds int) {
	n := 2 + rng.Intn(3)
	w := &c18World{labels: map[string][]string{}, caps: map[string]map[string]int64{}, unsched: map[string]bool{}, sys: map[string]map[string]int64{}, pods: map[string]c18Pod{}}
	for i := 1; i <= n; i++ {
		nn := fmt.Sprintf("n%d", i)
		w.names = append(w.names, nn)
		w.caps[nn] = map[string]int64{"cpu": c18Caps[rng.Intn(2)], "mem": c18Caps[rng.Intn(2)]}
		w.unsched[nn] = rng.Intn(10) == 0
		w.labels[nn] = []string{}
		if rng.Intn(10) < 7 {
			w.labels[nn] = append(w.labels[nn], "a")
		}
		if rng.Intn(10) < 6 {
			w.labels[nn] = append(w.labels[nn], "b")
		}
	}
	w.cfg = c18RandomCfg(rng, w.names, w.labels)
	cfg := w.cfg
	h.startSegment(cfg, w.names)
	if len(cfg.Pools) > 1 {
		h.stats["multiPoolSegments"]++
	}
	sticky := 4 + rng.Intn(5) // out of 10: how often a node keeps its content from one round to the next
	for r := 0; r < rounds; r++ {
		for _, nn := range w.names {
			if r == 0 || rng.Intn(10) >= sticky {
				w.redraw(rng, nn)
			}
		}
		gone := h.runRound(w.input(rng))
		for _, pn := range gone {
			if rng.Intn(8) != 0 { // an evicted pod usually has left by the next round
				delete(w.pods, pn)
			}
		}
	}
}

// enumerated pools (3 nodes of two capacities, absolute 20/80 and deviation 10.03 thresholds, anomaly none / 2):
//
//	family A  every 4-round sequence of the source node's usage level in {10, 50, 90} percent, with / without prod thresholds
//	family B  node usage of the source held at 50 percent, every 4-round sequence of its PROD usage level
//	          {0, 12, 30} percent against prod thresholds 10/15 (deviation 5.03)
//
// (2 x 2 x 2 x 81  +  2 x 2 x 81 segments)
func c18Enumerated(h *c18Harness) {
	levels := []int64{10, 50, 90}
	for _, fam := range []string{"A", "B"} {
		for _, dev := range []bool{false, true} {
			for _, prod := range []bool{false, true} {
				if fam == "B" && !prod {
					continue
				}
				for _, an := range []int{0, 2} {
					pc := c18NormPool(c18Pool{Sel: c18Sel{Nil: true}, Dev: dev, Anomaly: an, Norm: 1})
					if dev {
						pc.Low, pc.High = map[string]int64{"cpu": 1003, "mem": 1003}, map[string]int64{"cpu": 1003, "mem": 1003}
						if prod {
							pc.PLow, pc.PHigh = map[string]int64{"cpu": 503}, map[string]int64{"cpu": 503}
						}
					} else {
						pc.Low, pc.High = map[string]int64{"cpu": 2000, "mem": 2000}, map[string]int64{"cpu": 8000, "mem": 8000}
						if prod {
							pc.PLow, pc.PHigh = map[string]int64{"cpu": 1000}, map[string]int64{"cpu": 1500}
						}
					}
					cfg := c18Cfg{Pools: []c18Pool{pc}}
					for code := 0; code < 81; code++ {
						w := &c18World{cfg: cfg, names: []string{"n1", "n2", "n3"}, labels: map[string][]string{},
							caps:    map[string]map[string]int64{"n1": {"cpu": 1000, "mem": 1000}, "n2": {"cpu": 2000, "mem": 2000}, "n3": {"cpu": 1000, "mem": 1000}},
							unsched: map[string]bool{}, sys: map[string]map[string]int64{}, pods: map[string]c18Pod{}}
						h.startSegment(cfg, w.names)
						c := code
						for r := 0; r < 4; r++ {
							lv := levels[c%3]
							c /= 3
							w.pods = map[string]c18Pod{
								"p3": {Node: "n2", Use: map[string]int64{"cpu": 100, "mem": 100}, Prod: true, Pass: true, Metric: true, EOK: true},
								"p4": {Node: "n3", Use: map[string]int64{"cpu": 100, "mem": 0}, Prod: false, Pass: true, Metric: true, EOK: true},
							}
							w.sys = map[string]map[string]int64{"n2": {"cpu": 100, "mem": 100}, "n3": {"cpu": 400, "mem": 300}}
							switch {
							case fam == "A" && lv == 10:
								w.sys["n1"] = map[string]int64{"cpu": 100, "mem": 100}
							case fam == "A":
								w.pods["p1"] = c18Pod{Node: "n1", Use: map[string]int64{"cpu": 200, "mem": 100}, Prod: true, Pass: true, Metric: true, EOK: true}
								w.pods["p2"] = c18Pod{Node: "n1", Use: map[string]int64{"cpu": 100, "mem": 300}, Prod: false, Pass: true, Metric: true, EOK: true}
								w.sys["n1"] = map[string]int64{"cpu": lv*10 - 300, "mem": 0}
							default: // family B: 10 -> no prod pod, 50 -> 120 prod (between), 90 -> 300 prod (above)
								w.pods["p1"] = c18Pod{Node: "n1", Use: map[string]int64{"cpu": 180, "mem": 100}, Prod: lv == 90, Pass: true, Metric: true, EOK: true}
								w.pods["p2"] = c18Pod{Node: "n1", Use: map[string]int64{"cpu": 120, "mem": 100}, Prod: lv >= 50, Pass: true, Metric: true, EOK: true}
								w.sys["n1"] = map[string]int64{"cpu": 200, "mem": 200}
							}
							fresh := map[string]bool{"n1": true, "n2": true, "n3": true}
							for !w.devRobust(fresh) {
								w.sys["n3"]["cpu"]++
								w.sys["n3"]["mem"]++
							}
							e := c18Ev{Op: "round", Cfg: &w.cfg, Nodes: map[string]c18Node{}, Pods: map[string]c18Pod{}}
							for _, n := range w.names {
								e.Nodes[n] = c18Node{Labels: []string{}, Cap: c18Copy(w.caps[n]), Fresh: true, Sys: c18Copy(w.sys[n])}
							}
							for pn, p := range w.pods {
								e.Pods[pn] = p
							}
							h.runRound(e)
						}
					}
				}
			}
		}
	}
}

// enumerated configurations with TWO pools over 4 nodes (absolute thresholds 20/80, prod 10/15, same for both pools):
//
//	n1 [a b] 1000  the node whose level varies      n2 [a b] 2000  idle      n3 [b] 1000  idle      n4 [a] 1000  at 50 percent
//	pool 1 selects "a";  pool 2 selects "b" / has no selector / has the empty selector / selects "a" again
//	family C  every 3-round sequence of n1's usage level in {10, 50, 95} percent (six pods of 50m: three evictions needed)
//	family D  n1's node usage held at 50 percent, every 3-round sequence of its PROD usage level {0, 12, 30} percent
//
// with anomaly none / 2 in both pools, and anomaly (none, 2) / (2, none).  (4 x 4 x 2 x 27 segments)
func c18EnumeratedPools(h *c18Harness) {
	levels := []int64{10, 50, 90}
	sels := []c18Sel{{Labels: []string{"b"}}, {Nil: true, Labels: []string{}}, {Labels: []string{}}, {Labels: []string{"a"}}}
	for _, sel2 := range sels {
		for _, an := range [][2]int{{0, 0}, {2, 2}, {0, 2}, {2, 0}} {
			for _, fam := range []string{"C", "D"} {
				mk := func(sel c18Sel, a int) c18Pool {
					pc := c18NormPool(c18Pool{Sel: sel, Anomaly: a, Norm: 1})
					pc.Low, pc.High = map[string]int64{"cpu": 2000, "mem": 2000}, map[string]int64{"cpu": 8000, "mem": 8000}
					pc.PLow, pc.PHigh = map[string]int64{"cpu": 1000}, map[string]int64{"cpu": 1500}
					return pc
				}
				cfg := c18Cfg{Pools: []c18Pool{mk(c18Sel{Labels: []string{"a"}}, an[0]), mk(sel2, an[1])}}
				for code := 0; code < 27; code++ {
					w := &c18World{cfg: cfg, names: []string{"n1", "n2", "n3", "n4"},
						labels:  map[string][]string{"n1": {"a", "b"}, "n2": {"a", "b"}, "n3": {"b"}, "n4": {"a"}},
						caps:    map[string]map[string]int64{"n1": {"cpu": 1000, "mem": 1000}, "n2": {"cpu": 2000, "mem": 2000}, "n3": {"cpu": 1000, "mem": 1000}, "n4": {"cpu": 1000, "mem": 1000}},
						unsched: map[string]bool{}, sys: map[string]map[string]int64{}, pods: map[string]c18Pod{}}
					h.startSegment(cfg, w.names)
					h.stats["multiPoolSegments"]++
					c := code
					for r := 0; r < 3; r++ {
						lv := levels[c%3]
						c /= 3
						w.pods = map[string]c18Pod{
							"q2": {Node: "n2", Use: map[string]int64{"cpu": 100, "mem": 100}, Prod: false, Pass: true, Metric: true, EOK: true},
							"q4": {Node: "n4", Use: map[string]int64{"cpu": 100, "mem": 0}, Prod: false, Pass: true, Metric: true, EOK: true},
						}
						w.sys = map[string]map[string]int64{"n2": {"cpu": 100, "mem": 100}, "n3": {"cpu": 100, "mem": 100}, "n4": {"cpu": 400, "mem": 300}}
						switch {
						case fam == "C" && lv == 10:
							w.sys["n1"] = map[string]int64{"cpu": 100, "mem": 100}
						case fam == "C":
							for i := 1; i <= 6; i++ {
								w.pods[fmt.Sprintf("p%d", i)] = c18Pod{Node: "n1", Use: map[string]int64{"cpu": 50, "mem": 50}, Prod: false, Pass: true, Metric: true, EOK: true}
							}
							w.sys["n1"] = map[string]int64{"cpu": lv*10 - 300 + 50*(lv/90), "mem": 0} // 90: 950m, three evictions bring it back to the 800m threshold
						default: // family D: prod pods of 60m; 10 -> none prod, 50 -> two prod (120m), 90 -> five prod (300m)
							k := map[int64]int{10: 0, 50: 2, 90: 5}[lv]
							for i := 1; i <= 6; i++ {
								w.pods[fmt.Sprintf("p%d", i)] = c18Pod{Node: "n1", Use: map[string]int64{"cpu": 60, "mem": 50}, Prod: i <= k, Pass: true, Metric: true, EOK: true}
							}
							w.sys["n1"] = map[string]int64{"cpu": 140, "mem": 100}
						}
						e := c18Ev{Op: "round", Cfg: &w.cfg, Nodes: map[string]c18Node{}, Pods: map[string]c18Pod{}}
						for _, n := range w.names {
							e.Nodes[n] = c18Node{Labels: append([]string{}, w.labels[n]...), Cap: c18Copy(w.caps[n]), Fresh: true, Sys: c18Copy(w.sys[n])}
						}
						for pn, p := range w.pods {
							e.Pods[pn] = p
						}
						h.runRound(e)
					}
				}
			}
		}
	}
}

// enumerated configurations with two pools of DIFFERENT thresholds over 3 nodes: pool 1 selects "a" (20/80, prod 10/15), pool 2
// selects "b" and is stricter (cpu 20/50); n1 [a b] 1000 varies, n2 [a b] 2000 and n3 [b] 1000 are idle.
//
//	family E  every 4-round sequence of n1's state in {30 percent, 60 percent (over pool 2's threshold only), 90 percent,
//	          40 percent with 30 percent prod usage (prod-overloaded in pool 1, under pool 2's threshold)}
//
// with anomaly (none, 2) and (2, 2): the stricter pool's run of abnormal rounds must end in a round in which pool 1 balances
// the node and pool 2 never measures it.  (2 x 256 segments)
func c18EnumeratedStricterPool(h *c18Harness) {
	for _, an := range [][2]int{{0, 2}, {2, 2}} {
		p1 := c18NormPool(c18Pool{Sel: c18Sel{Labels: []string{"a"}}, Anomaly: an[0], Norm: 1})
		p1.Low, p1.High = map[string]int64{"cpu": 2000, "mem": 2000}, map[string]int64{"cpu": 8000, "mem": 8000}
		p1.PLow, p1.PHigh = map[string]int64{"cpu": 1000}, map[string]int64{"cpu": 1500}
		p2 := c18NormPool(c18Pool{Sel: c18Sel{Labels: []string{"b"}}, Anomaly: an[1], Norm: 1})
		p2.Low, p2.High = map[string]int64{"cpu": 2000, "mem": 2000}, map[string]int64{"cpu": 5000, "mem": 8000}
		p2.PLow, p2.PHigh = map[string]int64{"cpu": 1000}, map[string]int64{"cpu": 1500}
		cfg := c18Cfg{Pools: []c18Pool{p1, p2}}
		for code := 0; code < 256; code++ {
			w := &c18World{cfg: cfg, names: []string{"n1", "n2", "n3"},
				labels:  map[string][]string{"n1": {"a", "b"}, "n2": {"a", "b"}, "n3": {"b"}},
				caps:    map[string]map[string]int64{"n1": {"cpu": 1000, "mem": 1000}, "n2": {"cpu": 2000, "mem": 2000}, "n3": {"cpu": 1000, "mem": 1000}},
				unsched: map[string]bool{}, sys: map[string]map[string]int64{}, pods: map[string]c18Pod{}}
			h.startSegment(cfg, w.names)
			h.stats["multiPoolSegments"]++
			c := code
			for r := 0; r < 4; r++ {
				st := c % 4
				c /= 4
				w.pods = map[string]c18Pod{"q2": {Node: "n2", Use: map[string]int64{"cpu": 100, "mem": 100}, Prod: false, Pass: true, Metric: true, EOK: true}}
				for i := 1; i <= 6; i++ {
					w.pods[fmt.Sprintf("p%d", i)] = c18Pod{Node: "n1", Use: map[string]int64{"cpu": 50, "mem": 20}, Prod: st == 3, Pass: true, Metric: true, EOK: true}
				}
				w.sys = map[string]map[string]int64{"n2": {"cpu": 100, "mem": 100}, "n3": {"cpu": 100, "mem": 100},
					"n1": {"cpu": []int64{0, 300, 600, 100}[st], "mem": 100}}
				e := c18Ev{Op: "round", Cfg: &w.cfg, Nodes: map[string]c18Node{}, Pods: map[string]c18Pod{}}
				for _, n := range w.names {
					e.Nodes[n] = c18Node{Labels: append([]string{}, w.labels[n]...), Cap: c18Copy(w.caps[n]), Fresh: true, Sys: c18Copy(w.sys[n])}
				}
				for pn, p := range w.pods {
					e.Pods[pn] = p
				}
				h.runRound(e)
			}
		}
	}
}

func TestVerifC18(t *testing.T) {
	if !vu.Enabled() {
		t.Skip("verification harness: VERIF_OUT not set")
	}
	// the plugin logs every round and every eviction: keep the test output small
	fs := flag.NewFlagSet("klog", flag.ContinueOnError)
	klog.InitFlags(fs)
	_ = fs.Set("logtostderr", "false")
	_ = fs.Set("alsologtostderr", "false")
	_ = fs.Set("stderrthreshold", "FATAL")
	klog.SetOutput(io.Discard)

	rec := vu.NewRecorder("")
	defer rec.Close()
	h := c18NewHarness(t, rec)
	if rp := vu.ReplayPath(); rp != "" {
		for _, raw := range vu.ReadScripts(rp) {
			var script []c18Ev
			if err := json.Unmarshal(raw, &script); err != nil {
				t.Fatal(err)
			}
			h.replay(script)
		}
		return
	}
	for _, p := range []int64{1000, 1500, 2000, 5000, 8000, 10000} {
		if !c18ExactAbs(p) {
			t.Fatalf("c18: percent %d is not float-exact on this platform", p)
		}
	}
	c18Enumerated(h)
	c18EnumeratedPools(h)
	c18EnumeratedStricterPool(h)
	n := 4000
	if vu.Thorough() {
		n = 60000
	}
	n = vu.EnvInt("VERIF_C18_SEGMENTS", n)
	rng := vu.Rand(18)
	for i := 0; i < n; i++ {
		rounds := 3 + rng.Intn(4)
		if vu.Thorough() {
			rounds = 3 + rng.Intn(6)
		}
		c18RandomSegment(h, rng, rounds)
	}
	t.Logf("C18: %d segments, %d events, stats %v", rec.Segments(), rec.Events(), h.stats)
}
