package evictions

// Verification harness for C16 / eviction caps of PodEvictor (injected by `go test -overlay`).
// Real PodEvictor.Evict calls run on goroutines; a blocking reactor in the fake clientset parks each
// API call so that the harness replays TLC-generated interleavings deterministically. No oracle here.

import (
	"context"
	"encoding/json"
	"fmt"
	"math/rand"
	"runtime"
	"sort"
	"sync"
	"sync/atomic"
	"testing"

	corev1 "k8s.io/api/core/v1"
	policy "k8s.io/api/policy/v1"
	apierrors "k8s.io/apimachinery/pkg/api/errors"
	metav1 "k8s.io/apimachinery/pkg/apis/meta/v1"
	"k8s.io/client-go/kubernetes/fake"
	policyclient "k8s.io/client-go/kubernetes/typed/policy/v1"
	"k8s.io/client-go/tools/events"

	"github.com/koordinator-sh/koordinator/pkg/descheduler/framework"
	vu "github.com/koordinator-sh/koordinator/pkg/verifutil"
)

// ---- schedule-controlled concurrent callers (shared shape of the two C16 caps harnesses) ----
type c16Step struct {
	Op       string `json:"op"`
	Caller   string `json:"caller,omitempty"`
	Node     string `json:"node,omitempty"`
	Ns       string `json:"ns,omitempty"`
	Ok       bool   `json:"ok,omitempty"`
	CapNode  int    `json:"capNode,omitempty"`
	CapNs    int    `json:"capNs,omitempty"`
	CapTotal int    `json:"capTotal,omitempty"`
	DryRun   bool   `json:"dryRun,omitempty"`
	N        int    `json:"n,omitempty"`      // burst: number of calls released together
	Spread   bool   `json:"spread,omitempty"` // burst: calls spread over two nodes / namespaces instead of one target
}

const c16NoCap = 99

type c16Gate struct {
	mu      sync.Mutex
	parked  map[string]chan bool // pod name -> answer of the API
	arrived chan string
	pass    atomic.Bool // burst mode: the API answers ok at once (after yielding the processor)
}

func newC16Gate() *c16Gate {
	return &c16Gate{parked: map[string]chan bool{}, arrived: make(chan string, 64)}
}

// called from inside the fake API: park until the schedule releases this call
func (g *c16Gate) enter(podName string) bool {
	if g.pass.Load() {
		runtime.Gosched()
		return true
	}
	ch := make(chan bool)
	g.mu.Lock()
	g.parked[podName] = ch
	g.mu.Unlock()
	g.arrived <- podName
	return <-ch
}

func c16Cap(v int) *uint {
	if v == c16NoCap {
		return nil
	}
	u := uint(v)
	return &u
}

type c16World struct {
	gate   *c16Gate
	evict  func(ctx context.Context, pod *corev1.Pod) bool
	counts func() vu.Ev
	podOf  map[string]string    // caller -> pod name currently in flight
	retCh  map[string]chan bool // caller -> Evict's return value
	seq    int
	rec    *vu.Recorder
}

func (w *c16World) inFlight() int { return len(w.podOf) }

func (w *c16World) step(s c16Step) {
	switch s.Op {
	case "start":
		if _, busy := w.podOf[s.Caller]; busy {
			return // schedule asks a parked caller to start again: not executable, skipped
		}
		w.seq++
		name := fmt.Sprintf("%s-%d", s.Caller, w.seq)
		pod := &corev1.Pod{ObjectMeta: metav1.ObjectMeta{Name: name, Namespace: s.Ns}, Spec: corev1.PodSpec{NodeName: s.Node}}
		ret := make(chan bool, 1)
		go func() { ret <- w.evict(context.TODO(), pod) }()
		ev := vu.Ev{"op": "start", "caller": s.Caller, "node": s.Node, "ns": s.Ns}
		select {
		case got := <-w.gate.arrived:
			if got != name {
				panic("unexpected parked call " + got)
			}
			w.podOf[s.Caller], w.retCh[s.Caller] = name, ret
			ev["outcome"] = "parked"
		case r := <-ret:
			if r {
				ev["outcome"] = "dry" // returned true without touching the API
			} else {
				ev["outcome"] = "refused"
			}
		}
		if w.inFlight() == 0 {
			ev["counters"] = w.counts()
		}
		w.rec.Emit(ev)
	case "burst":
		// s.N calls released together by a barrier; no schedule control: whatever interleaving the Go scheduler produces
		w.drain()
		w.gate.pass.Store(true)
		type res struct {
			node, ns string
			ok       bool
		}
		out := make([]res, s.N)
		start := make(chan struct{})
		var wg sync.WaitGroup
		for i := 0; i < s.N; i++ {
			w.seq++
			node, ns := s.Node, s.Ns
			if s.Spread {
				node, ns = c16Nodes[i%2], c16Nss[(i/2)%2]
			}
			pod := &corev1.Pod{ObjectMeta: metav1.ObjectMeta{Name: fmt.Sprintf("burst-%d", w.seq), Namespace: ns}, Spec: corev1.PodSpec{NodeName: node}}
			out[i] = res{node: node, ns: ns}
			wg.Add(1)
			go func(i int) {
				defer wg.Done()
				<-start
				out[i].ok = w.evict(context.TODO(), pod)
			}(i)
		}
		close(start)
		wg.Wait()
		w.gate.pass.Store(false)
		calls := []vu.Ev{}
		for _, r := range out {
			calls = append(calls, vu.Ev{"node": r.node, "ns": r.ns, "ok": r.ok})
		}
		w.rec.Emit(vu.Ev{"op": "burst", "n": s.N, "node": s.Node, "ns": s.Ns, "spread": s.Spread, "calls": calls, "counters": w.counts()})
	case "finish":
		name, ok := w.podOf[s.Caller]
		if !ok {
			return // the caller was refused at start: nothing in flight
		}
		w.gate.mu.Lock()
		ch := w.gate.parked[name]
		delete(w.gate.parked, name)
		w.gate.mu.Unlock()
		ch <- s.Ok
		r := <-w.retCh[s.Caller]
		delete(w.podOf, s.Caller)
		delete(w.retCh, s.Caller)
		ev := vu.Ev{"op": "finish", "caller": s.Caller, "ok": s.Ok, "ret": r}
		if w.inFlight() == 0 {
			ev["counters"] = w.counts()
		}
		w.rec.Emit(ev)
	}
}

// drains callers still parked at the end of a schedule (API answers ok)
func (w *c16World) drain() {
	callers := make([]string, 0, len(w.podOf))
	for c := range w.podOf {
		callers = append(callers, c)
	}
	sort.Strings(callers)
	for _, c := range callers {
		w.step(c16Step{Op: "finish", Caller: c, Ok: true})
	}
}

var c16Nodes = []string{"n1", "n2", "n3"}
var c16Nss = []string{"s1", "s2", "s3"}

func c16RandomSchedule(rng *rand.Rand, n int) []c16Step {
	callers := []string{"a", "b", "c", "d", "e", "f", "g", "h"}[:2+rng.Intn(7)]
	var out []c16Step
	for i := 0; i < n; i++ {
		c := callers[rng.Intn(len(callers))]
		if rng.Intn(6) == 0 {
			out = append(out, c16Step{Op: "burst", N: 2 + rng.Intn(7), Node: c16Nodes[rng.Intn(2)], Ns: c16Nss[rng.Intn(2)], Spread: rng.Intn(3) == 0})
			continue
		}
		if rng.Intn(2) == 0 {
			out = append(out, c16Step{Op: "start", Caller: c, Node: c16Nodes[rng.Intn(2)], Ns: c16Nss[rng.Intn(2)]})
		} else {
			out = append(out, c16Step{Op: "finish", Caller: c, Ok: rng.Intn(5) > 0})
		}
	}
	return out
}

func c16Configs(rng *rand.Rand, k int) []c16Step {
	caps := []int{c16NoCap, 0, 1, 2}
	var out []c16Step
	for i := 0; i < k; i++ {
		out = append(out, c16Step{Op: "reset", CapNode: caps[rng.Intn(4)], CapNs: caps[rng.Intn(4)], CapTotal: caps[rng.Intn(4)], DryRun: rng.Intn(8) == 0})
	}
	return out
}

func c16Main(t *testing.T, evictorName string, run func(rec *vu.Recorder, cfg c16Step, steps []c16Step)) {
	if !vu.Enabled() {
		t.Skip("verification harness: VERIF_OUT not set")
	}
	rec := vu.NewRecorder("")
	defer rec.Close()
	rng := vu.Rand(16)
	if vu.ReplayPath() != "" {
		for _, raw := range vu.ReadScripts(vu.ReplayPath()) {
			var script []c16Step
			if err := json.Unmarshal(raw, &script); err != nil {
				t.Fatal(err)
			}
			run(rec, script[0], script[1:])
		}
		return
	}
	// (a) TLC-generated schedules (every interleaving of start/finish steps), each under a few cap settings
	for _, raw := range vu.ReadScripts(vu.ScriptPath()) {
		var steps []c16Step
		if err := json.Unmarshal(raw, &steps); err != nil {
			t.Fatal(err)
		}
		for _, cfg := range c16Configs(rng, 2) {
			run(rec, cfg, steps)
		}
	}
	// (b) seeded random schedules with up to 8 callers
	n := 300
	if vu.Thorough() {
		n = 5000
	}
	for i := 0; i < n; i++ {
		run(rec, c16Configs(rng, 1)[0], c16RandomSchedule(rng, 10+rng.Intn(30)))
	}
	// (c) bursts on a fresh evictor (once a cap is reached every later call is refused outright, so each evictor gives
	// one real chance to over-run a cap): several calls on one target released together, cap 1..3
	nb := 1500
	if vu.Thorough() {
		nb = 20000
	}
	for i := 0; i < nb; i++ {
		cfg := c16Step{Op: "reset", CapNode: c16NoCap, CapNs: c16NoCap, CapTotal: c16NoCap}
		switch i % 3 {
		case 0:
			cfg.CapNode = 1 + rng.Intn(3)
		case 1:
			cfg.CapNs = 1 + rng.Intn(3)
		default:
			cfg.CapTotal = 1 + rng.Intn(3)
		}
		run(rec, cfg, []c16Step{{Op: "burst", N: 2 + rng.Intn(7), Node: "n1", Ns: "s1"}})
	}
	t.Logf("C16 caps (%s): %d segments, %d events", evictorName, rec.Segments(), rec.Events())
}

// The stock fake clientset serialises all calls behind one mutex, so two evictions can never be in flight at
// the same time; this thin wrapper replaces only PolicyV1().Evictions(ns).Evict by a call that parks in the gate.
type c16Client struct {
	*fake.Clientset
	gate *c16Gate
}
type c16Policy struct {
	policyclient.PolicyV1Interface
	gate *c16Gate
}
type c16Evictions struct {
	policyclient.EvictionInterface
	gate *c16Gate
}

func (c *c16Client) PolicyV1() policyclient.PolicyV1Interface {
	return &c16Policy{PolicyV1Interface: c.Clientset.PolicyV1(), gate: c.gate}
}
func (p *c16Policy) Evictions(ns string) policyclient.EvictionInterface {
	return &c16Evictions{EvictionInterface: p.PolicyV1Interface.Evictions(ns), gate: p.gate}
}
func (e *c16Evictions) Evict(ctx context.Context, ev *policy.Eviction) error {
	if e.gate.enter(ev.Name) {
		return nil
	}
	return apierrors.NewInternalError(fmt.Errorf("injected API failure"))
}

func c16RunPodEvictor(rec *vu.Recorder, cfg c16Step, steps []c16Step) {
	gate := newC16Gate()
	client := &c16Client{Clientset: fake.NewSimpleClientset(), gate: gate}
	pe := NewPodEvictor(client, events.NewFakeRecorder(1000), "policy/v1", cfg.DryRun, c16Cap(cfg.CapNode), c16Cap(cfg.CapNs))
	w := &c16World{gate: gate, podOf: map[string]string{}, retCh: map[string]chan bool{}, rec: rec}
	w.evict = func(ctx context.Context, pod *corev1.Pod) bool {
		return pe.Evict(ctx, pod, framework.EvictOptions{PluginName: "verif", Reason: "verif"})
	}
	w.counts = func() vu.Ev {
		node, ns := map[string]uint{}, map[string]uint{}
		for _, n := range c16Nodes {
			node[n] = pe.NodeEvicted(n)
		}
		for _, s := range c16Nss {
			ns[s] = pe.NamespaceEvicted(s)
		}
		return vu.Ev{"node": node, "ns": ns, "total": pe.TotalEvicted()}
	}
	// PodEvictor has no total cap
	rec.Reset(vu.Ev{"evictor": "PodEvictor", "capNode": cfg.CapNode, "capNs": cfg.CapNs, "capTotal": c16NoCap, "dryRun": cfg.DryRun})
	for _, s := range steps {
		w.step(s)
	}
	w.drain()
}

func TestVerifC16PodEvictor(t *testing.T) { c16Main(t, "PodEvictor", c16RunPodEvictor) }
