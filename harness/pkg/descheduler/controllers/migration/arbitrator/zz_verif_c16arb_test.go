package arbitrator

// Verification harness for C16, arbitration half (injected by `go test -overlay`).  Executor + recorder:
// builds the REAL arbitratorImpl (real sorts, real filter assembled by the real initFilters, real event
// handler) on the controller-runtime fake client with the package's field indexes and a per-workload
// dispatcher over the package's fakeControllerFinder, creates cluster states and PodMigrationJobs, runs
// the REAL doOnceArbitrate / Filter, and after every op logs the projection read back from the fake API
// server.  No oracle here: TLC validates the recorded trace against specs/Disruption/ArbitrationTrace.tla.
//
// Projection (field reads only):
//   obs.jobs[name] = {pod: spec.podRef.name, phase: status.phase ("" -> "Pending"),
//                     passed: annotation passed-arbitration == "true",
//                     waiting: uid in arbitratorImpl.waitingCollection}
//   obs.ready[pod] = PodReady condition of the pod object
//
// Generation keeps to the quantifier of the property: pods are never deleted, a job is only created for a
// pod without a live job (the state Arbitrator.Filter guards), no evict-annotation override, no API faults.

import (
	"context"
	"encoding/json"
	"fmt"
	"math"
	"math/rand"
	"sort"
	"strconv"
	"sync"
	"testing"
	"time"

	corev1 "k8s.io/api/core/v1"
	metav1 "k8s.io/apimachinery/pkg/apis/meta/v1"
	"k8s.io/apimachinery/pkg/runtime"
	"k8s.io/apimachinery/pkg/types"
	"k8s.io/apimachinery/pkg/util/intstr"
	"k8s.io/client-go/informers"
	kubefake "k8s.io/client-go/kubernetes/fake"
	"k8s.io/client-go/tools/events"
	"k8s.io/client-go/util/workqueue"
	"k8s.io/utils/clock"
	"k8s.io/utils/ptr"
	"sigs.k8s.io/controller-runtime/pkg/client"
	"sigs.k8s.io/controller-runtime/pkg/client/fake"
	"sigs.k8s.io/controller-runtime/pkg/event"
	"sigs.k8s.io/controller-runtime/pkg/handler"
	"sigs.k8s.io/controller-runtime/pkg/reconcile"

	"github.com/koordinator-sh/koordinator/apis/extension"
	"github.com/koordinator-sh/koordinator/apis/scheduling/v1alpha1"
	deschedulerconfig "github.com/koordinator-sh/koordinator/pkg/descheduler/apis/config"
	"github.com/koordinator-sh/koordinator/pkg/descheduler/fieldindex"
	"github.com/koordinator-sh/koordinator/pkg/descheduler/framework"
	"github.com/koordinator-sh/koordinator/pkg/descheduler/framework/plugins/kubernetes/defaultevictor"
	frameworkruntime "github.com/koordinator-sh/koordinator/pkg/descheduler/framework/runtime"
	frameworktesting "github.com/koordinator-sh/koordinator/pkg/descheduler/framework/testing"
	deschedulertest "github.com/koordinator-sh/koordinator/pkg/descheduler/test"
	"github.com/koordinator-sh/koordinator/pkg/descheduler/utils/sorter"
	koordutil "github.com/koordinator-sh/koordinator/pkg/util"
	vu "github.com/koordinator-sh/koordinator/pkg/verifutil"
)

const c16aEpoch = 1700000000 // fixed creation-time base (seconds): no wall clock anywhere

type c16aPod struct {
	Node      string `json:"node"`
	Ns        string `json:"ns"`
	Wl        string `json:"wl"`
	Evictable bool   `json:"evictable"`
	Prio      int    `json:"prio"`
}

type c16aWl struct {
	Ns       string `json:"ns"`
	Replicas int    `json:"replicas"`
	Kind     string `json:"kind"` // ReplicaSet | Job (sort.go groups pods of batch Jobs)
}

type c16aIOP struct {
	Kind string `json:"kind"` // none | int | pct
	V    int    `json:"v"`
}

type c16aLim struct {
	Node       int      `json:"node"` // -1: nil pointer, 0: zero, n: limit
	Ns         int      `json:"ns"`
	Global     int      `json:"global"`
	WlMig      c16aIOP  `json:"wlMig"`
	WlUnav     c16aIOP  `json:"wlUnav"`
	SkipExpRep bool     `json:"skipExpRep"`
	Gates      []string `json:"gates"`
}

// one event of a segment; a recorded segment fed back re-executes (only op + arguments are read)
type c16aOp struct {
	Op     string             `json:"op"`
	Pods   map[string]c16aPod `json:"pods,omitempty"`   // reset
	Wls    map[string]c16aWl  `json:"wls,omitempty"`    // reset
	Lim    *c16aLim           `json:"lim,omitempty"`    // reset
	Ready0 map[string]bool    `json:"ready0,omitempty"` // reset
	Job    string             `json:"job,omitempty"`
	Pod    string             `json:"pod,omitempty"`
	Phase  string             `json:"phase,omitempty"`
	Ts     int                `json:"ts,omitempty"`
	Val    bool               `json:"val,omitempty"`
	How    string             `json:"how,omitempty"` // podReady val=false: "" = Ready condition false, "phase" = pod Failed (inactive) with the condition still true
}

// ---- per-workload dispatcher over the package's fakeControllerFinder fixture ----
type c16aFinder struct{ w *c16aWorld }

func (f *c16aFinder) forRef(ref *metav1.OwnerReference) *fakeControllerFinder {
	if ref == nil {
		return &fakeControllerFinder{}
	}
	cfg, ok := f.w.cfg.Wls[ref.Name]
	if !ok {
		return &fakeControllerFinder{err: fmt.Errorf("unknown workload %s", ref.Name)}
	}
	var pods []*corev1.Pod
	for _, name := range f.w.podNames {
		if f.w.cfg.Pods[name].Wl != ref.Name {
			continue
		}
		p := &corev1.Pod{}
		if err := f.w.client.Get(context.TODO(), types.NamespacedName{Namespace: f.w.cfg.Pods[name].Ns, Name: name}, p); err == nil {
			pods = append(pods, p)
		}
	}
	return &fakeControllerFinder{pods: pods, replicas: int32(cfg.Replicas)}
}

func (f *c16aFinder) GetPodsForRef(ref *metav1.OwnerReference, ns string, sel *metav1.LabelSelector, active bool) ([]*corev1.Pod, int32, error) {
	pods, replicas, err := f.forRef(ref).GetPodsForRef(ref, ns, sel, active)
	if active { // as the real ControllerFinder.ListPodsByWorkloads: inactive pods are dropped when only active ones are asked for
		var kept []*corev1.Pod
		for _, p := range pods {
			if c16aActive(p) {
				kept = append(kept, p)
			}
		}
		pods = kept
	}
	return pods, replicas, err
}

func c16aActive(p *corev1.Pod) bool {
	return p.Status.Phase != corev1.PodSucceeded && p.Status.Phase != corev1.PodFailed && p.DeletionTimestamp == nil
}

// available = what the statement calls not "unavailable": active and Ready
func c16aAvailable(p *corev1.Pod) bool {
	r := false
	for _, c := range p.Status.Conditions {
		if c.Type == corev1.PodReady && c.Status == corev1.ConditionTrue {
			r = true
		}
	}
	return r && c16aActive(p)
}

func (f *c16aFinder) GetExpectedScaleForPod(pod *corev1.Pod) (int32, error) {
	return f.forRef(metav1.GetControllerOf(pod)).GetExpectedScaleForPod(pod)
}

func (f *c16aFinder) ListPodsByWorkloads(uids []types.UID, ns string, sel *metav1.LabelSelector, active bool) ([]*corev1.Pod, error) {
	return nil, nil
}

// ---- the world: fake API server + real arbitrator ----
type c16aWorld struct {
	cfg      c16aOp
	podNames []string
	client   client.Client
	arb      *arbitratorImpl
	h        handler.EventHandler
	q        workqueue.TypedRateLimitingInterface[reconcile.Request]
	out      *[]vu.Ev // events of this segment, in order (segments run in parallel; flushed in order)
}

var c16aScheme = func() *runtime.Scheme {
	s := runtime.NewScheme()
	_ = v1alpha1.AddToScheme(s)
	_ = corev1.AddToScheme(s)
	return s
}()

var (
	c16aHandleOnce sync.Once
	c16aHandle     framework.Handle
	c16aHandleErr  error
)

// a framework handle good enough for the real initFilters (default evictor construction, node getter)
func c16aGetHandle() (framework.Handle, error) {
	c16aHandleOnce.Do(func() {
		cs := kubefake.NewSimpleClientset()
		cs.Resources = []*metav1.APIResourceList{
			{GroupVersion: "policy/v1", APIResources: []metav1.APIResource{{Name: koordutil.EvictionSubResourceName, Kind: koordutil.EvictionKind}}},
			{GroupVersion: "v1", APIResources: []metav1.APIResource{{Name: koordutil.EvictionSubResourceName, Kind: koordutil.EvictionKind}}},
		}
		factory := informers.NewSharedInformerFactory(cs, 0)
		_ = factory.Core().V1().Nodes().Informer()
		getPods, err := deschedulertest.BuildGetPodsAssignedToNodeFunc(factory.Core().V1().Pods())
		if err != nil {
			c16aHandleErr = err
			return
		}
		c16aHandle, c16aHandleErr = frameworktesting.NewFramework(
			[]frameworktesting.RegisterPluginFunc{func(reg *frameworkruntime.Registry, profile *deschedulerconfig.DeschedulerProfile) {
				// the framework insists on one evict plugin; it is never called here
				reg.Register(defaultevictor.PluginName, defaultevictor.New)
				profile.Plugins.Evict.Enabled = append(profile.Plugins.Evict.Enabled, deschedulerconfig.Plugin{Name: defaultevictor.PluginName})
				profile.Plugins.Filter.Enabled = append(profile.Plugins.Filter.Enabled, deschedulerconfig.Plugin{Name: defaultevictor.PluginName})
				profile.PluginConfig = append(profile.PluginConfig, deschedulerconfig.PluginConfig{Name: defaultevictor.PluginName, Args: &defaultevictor.DefaultEvictorArgs{}})
			}},
			"verif",
			frameworkruntime.WithClientSet(cs),
			frameworkruntime.WithEventRecorder(&events.FakeRecorder{}),
			frameworkruntime.WithSharedInformerFactory(factory),
			frameworkruntime.WithGetPodsAssignedToNodeFunc(getPods),
		)
	})
	return c16aHandle, c16aHandleErr
}

func c16aInt32(v int) *int32 {
	if v < 0 {
		return nil
	}
	return ptr.To(int32(v))
}

func c16aIntOrPct(c c16aIOP) *intstr.IntOrString {
	switch c.Kind {
	case "int":
		v := intstr.FromInt(c.V)
		return &v
	case "pct":
		v := intstr.FromString(strconv.Itoa(c.V) + "%")
		return &v
	}
	return nil
}

func c16aNewWorld(out *[]vu.Ev, cfg c16aOp) *c16aWorld {
	w := &c16aWorld{cfg: cfg, out: out}
	for name := range cfg.Pods {
		w.podNames = append(w.podNames, name)
	}
	sort.Strings(w.podNames)

	scheme := c16aScheme                  // pods and migration jobs only: the fake client derives a REST mapper from the whole scheme for every instance
	idx := newFieldIndexFakeClient(nil).m // the package fixture's index extractors (same as fieldindex.RegisterFieldIndexes)
	w.client = fake.NewClientBuilder().WithScheme(scheme).
		WithStatusSubresource(&v1alpha1.PodMigrationJob{}).
		WithIndex(&corev1.Pod{}, fieldindex.IndexPodByNodeName, idx[fieldindex.IndexPodByNodeName]).
		WithIndex(&corev1.Pod{}, fieldindex.IndexPodByOwnerRefUID, idx[fieldindex.IndexPodByOwnerRefUID]).
		WithIndex(&v1alpha1.PodMigrationJob{}, fieldindex.IndexJobByPodUID, idx[fieldindex.IndexJobByPodUID]).
		WithIndex(&v1alpha1.PodMigrationJob{}, fieldindex.IndexJobPodNamespacedName, idx[fieldindex.IndexJobPodNamespacedName]).
		WithIndex(&v1alpha1.PodMigrationJob{}, fieldindex.IndexJobByPodNamespace, idx[fieldindex.IndexJobByPodNamespace]).
		Build()

	// cluster state
	for i, name := range w.podNames {
		pc := cfg.Pods[name]
		wc := cfg.Wls[pc.Wl]
		apiVersion := "apps/v1"
		if wc.Kind == "Job" {
			apiVersion = "batch/v1"
		}
		pod := &corev1.Pod{
			TypeMeta: metav1.TypeMeta{Kind: "Pod", APIVersion: "v1"},
			ObjectMeta: metav1.ObjectMeta{
				Name: name, Namespace: pc.Ns, UID: types.UID("uid-" + name),
				CreationTimestamp: metav1.Time{Time: time.Unix(c16aEpoch-1000+int64(i), 0)},
				Annotations:       map[string]string{},
				OwnerReferences: []metav1.OwnerReference{{
					APIVersion: apiVersion, Kind: wc.Kind, Name: pc.Wl, UID: types.UID("uid-" + pc.Wl),
					Controller: ptr.To(true), BlockOwnerDeletion: ptr.To(true),
				}},
			},
			Spec:   corev1.PodSpec{NodeName: pc.Node, Priority: ptr.To(int32(pc.Prio))},
			Status: corev1.PodStatus{Phase: corev1.PodRunning, QOSClass: corev1.PodQOSBurstable},
		}
		if !pc.Evictable {
			pod.Annotations[extension.AnnotationEvictionCost] = strconv.Itoa(math.MaxInt32)
		}
		c16aSetReady(pod, cfg.Ready0[name])
		if err := w.client.Create(context.TODO(), pod); err != nil {
			panic(err)
		}
	}

	// the real arbitrator, assembled as New / newFilter do (minus the controller manager)
	lim := cfg.Lim
	args := &deschedulerconfig.MigrationControllerArgs{
		MaxMigratingGlobally:      c16aInt32(lim.Global),
		MaxMigratingPerNode:       c16aInt32(lim.Node),
		MaxMigratingPerNamespace:  c16aInt32(lim.Ns),
		MaxMigratingPerWorkload:   c16aIntOrPct(lim.WlMig),
		MaxUnavailablePerWorkload: c16aIntOrPct(lim.WlUnav),
		DefaultJobMode:            string(v1alpha1.PodMigrationJobModeEvictionDirectly),
	}
	if lim.SkipExpRep {
		args.SkipCheckExpectedReplicas = ptr.To(true)
	}
	for _, g := range lim.Gates {
		args.SkipEvictionGates = append(args.SkipEvictionGates, deschedulerconfig.EvictionGate(g))
	}
	handle, err := c16aGetHandle()
	if err != nil {
		panic(err)
	}
	f := &filter{
		client:                     w.client,
		args:                       args,
		controllerFinder:           &c16aFinder{w: w},
		clock:                      clock.RealClock{},
		arbitratedPodMigrationJobs: map[types.UID]bool{},
		skipEvictionGates:          newEvictionGateSet(args.SkipEvictionGates),
	}
	if err := f.initFilters(args, handle); err != nil {
		panic(err)
	}
	w.arb = &arbitratorImpl{
		waitingCollection: map[types.UID]*v1alpha1.PodMigrationJob{},
		interval:          0,
		sorts: []SortFn{
			SortJobsByCreationTime(),
			SortJobsByPod(sorter.PodSorter().Sort),
			SortJobsByController(),
			SortJobsByMigratingNum(w.client),
		},
		filter:        f,
		client:        w.client,
		eventRecorder: &events.FakeRecorder{},
	}
	w.h = NewHandler(w.arb, w.client)
	w.q = workqueue.NewTypedRateLimitingQueue[reconcile.Request](workqueue.NewTypedItemExponentialFailureRateLimiter[reconcile.Request](time.Millisecond, time.Second))

	*out = append(*out, vu.Ev{"op": "reset", "pods": cfg.Pods, "wls": cfg.Wls, "lim": cfg.Lim, "ready0": cfg.Ready0})
	return w
}

func c16aSetReady(pod *corev1.Pod, ready bool) {
	st := corev1.ConditionFalse
	if ready {
		st = corev1.ConditionTrue
	}
	pod.Status.Conditions = []corev1.PodCondition{{Type: corev1.PodReady, Status: st}}
}

func (w *c16aWorld) getPod(name string) *corev1.Pod {
	p := &corev1.Pod{}
	if err := w.client.Get(context.TODO(), types.NamespacedName{Namespace: w.cfg.Pods[name].Ns, Name: name}, p); err != nil {
		panic(err)
	}
	return p
}

func (w *c16aWorld) getJob(name string) *v1alpha1.PodMigrationJob {
	j := &v1alpha1.PodMigrationJob{}
	if err := w.client.Get(context.TODO(), types.NamespacedName{Name: name}, j); err != nil {
		panic(err)
	}
	return j
}

// all jobs in the API server, by name, in name order
func (w *c16aWorld) listJobs() map[string]*v1alpha1.PodMigrationJob {
	list := &v1alpha1.PodMigrationJobList{}
	if err := w.client.List(context.TODO(), list); err != nil {
		panic(err)
	}
	out := map[string]*v1alpha1.PodMigrationJob{}
	for i := range list.Items {
		out[list.Items[i].Name] = &list.Items[i]
	}
	return out
}

type c16aJobObs struct {
	Pod     string `json:"pod"`
	Phase   string `json:"phase"`
	Passed  bool   `json:"passed"`
	Waiting bool   `json:"waiting"`
	inMap   bool   // arbitrated-jobs map (implementation detail, logged under "impl" for debugging only)
}

func (w *c16aWorld) obsJobs() map[string]c16aJobObs {
	list := &v1alpha1.PodMigrationJobList{}
	if err := w.client.List(context.TODO(), list); err != nil {
		panic(err)
	}
	out := map[string]c16aJobObs{}
	for i := range list.Items {
		j := &list.Items[i]
		phase := string(j.Status.Phase)
		if phase == "" {
			phase = string(v1alpha1.PodMigrationJobPending)
		}
		pod := ""
		if j.Spec.PodRef != nil {
			pod = j.Spec.PodRef.Name
		}
		w.arb.mu.Lock()
		_, waiting := w.arb.waitingCollection[j.UID]
		w.arb.mu.Unlock()
		out[j.Name] = c16aJobObs{
			Pod: pod, Phase: phase,
			Passed:  j.Annotations[AnnotationPassedArbitration] == "true",
			inMap:   w.arb.filter.checkJobPassedArbitration(j.UID),
			Waiting: waiting,
		}
	}
	return out
}

func (w *c16aWorld) obs() vu.Ev {
	ready := map[string]bool{}
	for _, name := range w.podNames {
		ready[name] = c16aAvailable(w.getPod(name))
	}
	return vu.Ev{"jobs": w.obsJobs(), "ready": ready}
}

func (w *c16aWorld) impl() vu.Ev {
	marked := []string{}
	for name, o := range w.obsJobs() {
		if o.inMap {
			marked = append(marked, name)
		}
	}
	sort.Strings(marked)
	return vu.Ev{"arbitratedMap": marked}
}

// exec runs one op on the real code and records it (with the projection after it)
func (w *c16aWorld) exec(o c16aOp) vu.Ev {
	ctx := context.TODO()
	ev := vu.Ev{"op": o.Op}
	panicked, msg := vu.Protect(func() {
		switch o.Op {
		case "jobCreate":
			ev["job"], ev["pod"], ev["phase"], ev["ts"] = o.Job, o.Pod, o.Phase, o.Ts
			pod := w.getPod(o.Pod)
			job := &v1alpha1.PodMigrationJob{
				ObjectMeta: metav1.ObjectMeta{
					Name: o.Job, UID: types.UID("uid-" + o.Job),
					CreationTimestamp: metav1.Time{Time: time.Unix(c16aEpoch+int64(o.Ts), 0)},
				},
				Spec: v1alpha1.PodMigrationJobSpec{
					PodRef: &corev1.ObjectReference{Kind: "Pod", APIVersion: "v1", Namespace: pod.Namespace, Name: pod.Name, UID: pod.UID},
					Mode:   v1alpha1.PodMigrationJobModeEvictionDirectly,
				},
			}
			if o.Ts%4 == 1 {
				job.Spec.PodRef.UID = "" // the uid of the pod reference is optional (jobs created by users name the pod only)
			}
			if err := w.client.Create(ctx, job); err != nil {
				panic(err)
			}
			if o.Phase == "Running" { // a job that was already running when this arbitrator (re)started
				cur := w.getJob(o.Job)
				cur.Status.Phase = v1alpha1.PodMigrationJobRunning
				if err := w.client.Status().Update(ctx, cur); err != nil {
					panic(err)
				}
			}
			// the informer delivers the object to the real event handler
			w.h.Create(ctx, event.CreateEvent{Object: w.getJob(o.Job)}, w.q)
		case "jobStart", "jobFinish":
			ev["job"], ev["phase"] = o.Job, o.Phase
			old := w.getJob(o.Job)
			cur := old.DeepCopy()
			cur.Status.Phase = v1alpha1.PodMigrationJobPhase(o.Phase)
			if err := w.client.Status().Update(ctx, cur); err != nil {
				panic(err)
			}
			w.h.Update(ctx, event.UpdateEvent{ObjectOld: old, ObjectNew: w.getJob(o.Job)}, w.q)
		case "jobDelete":
			ev["job"] = o.Job
			cur := w.getJob(o.Job)
			if err := w.client.Delete(ctx, cur); err != nil {
				panic(err)
			}
			w.h.Delete(ctx, event.DeleteEvent{Object: cur}, w.q)
		case "podReady":
			ev["pod"], ev["val"], ev["how"] = o.Pod, o.Val, o.How
			p := w.getPod(o.Pod)
			p.Status.Phase = corev1.PodRunning
			if !o.Val && o.How == "phase" {
				p.Status.Phase = corev1.PodFailed
				c16aSetReady(p, true)
			} else {
				c16aSetReady(p, o.Val)
			}
			if err := w.client.Status().Update(ctx, p); err != nil { // the fake API server keeps pod status behind the status subresource
				panic(err)
			}
		case "filter":
			ev["pod"] = o.Pod
			ev["result"] = w.arb.Filter(w.getPod(o.Pod))
		case "round":
			before := w.listJobs()
			w.arb.doOnceArbitrate()
			// the informer reports the arbitrator's own writes back to the real event handler
			after := w.listJobs()
			names := make([]string, 0, len(after))
			for n := range after {
				names = append(names, n)
			}
			sort.Strings(names)
			for _, n := range names {
				if old, ok := before[n]; ok && old.ResourceVersion != after[n].ResourceVersion {
					w.h.Update(ctx, event.UpdateEvent{ObjectOld: old, ObjectNew: after[n]}, w.q)
				}
			}
		default:
			panic("unknown op " + o.Op)
		}
		for w.q.Len() > 0 { // nobody reconciles here; keep the queue empty
			it, _ := w.q.Get()
			w.q.Forget(it)
			w.q.Done(it)
		}
		ev["obs"] = w.obs()
		ev["impl"] = w.impl()
	})
	if panicked {
		ev = vu.Ev{"op": "panic", "during": o.Op, "msg": msg}
	}
	*w.out = append(*w.out, ev)
	return ev
}

// ---- generation ----
var c16aGateNames = []string{"MaxMigratingGlobally", "MaxMigratingPerNode", "MaxMigratingPerNamespace",
	"MaxMigratingPerWorkload", "MaxUnavailablePerWorkload", "ExpectedReplicas"}

func c16aPctOK(v int, wls map[string]c16aWl) bool {
	for _, w := range wls {
		if (v*w.Replicas)%100 != 0 || v*w.Replicas < 100 {
			return false
		}
	}
	return true
}

func c16aRandIOP(rng *rand.Rand, wls map[string]c16aWl) c16aIOP {
	switch k := rng.Intn(10); {
	case k < 3:
		return c16aIOP{Kind: "none"}
	case k < 8:
		return c16aIOP{Kind: "int", V: 1 + rng.Intn(3)}
	default:
		var ok []int
		for _, v := range []int{25, 50, 100} {
			if c16aPctOK(v, wls) {
				ok = append(ok, v)
			}
		}
		if len(ok) == 0 {
			return c16aIOP{Kind: "int", V: 1 + rng.Intn(2)}
		}
		return c16aIOP{Kind: "pct", V: ok[rng.Intn(len(ok))]}
	}
}

func c16aRandLimit(rng *rand.Rand) int {
	return []int{-1, 0, 0, 1, 1, 1, 2, 2, 3}[rng.Intn(9)]
}

func c16aRandomCfg(rng *rand.Rand) c16aOp {
	nodes := []string{"n1", "n2", "n3"}[:2+rng.Intn(2)]
	nss := []string{"s1", "s2"}
	cfg := c16aOp{Op: "reset", Pods: map[string]c16aPod{}, Wls: map[string]c16aWl{}, Ready0: map[string]bool{}}
	nw := 2 + rng.Intn(3)
	np := 0
	even := rng.Intn(4) == 0 // every workload with 2 or 4 replicas: percentages divide exactly
	for i := 1; i <= nw && np < 8; i++ {
		wn := fmt.Sprintf("w%d", i)
		k := 1 + rng.Intn(4)
		if np+k > 8 {
			k = 8 - np
		}
		repl := k
		switch x := rng.Intn(12); {
		case x < 4:
			repl++ // one replica is missing
		case x == 4 && k >= 3:
			repl-- // scaled down, one pod not yet removed
		}
		if even {
			if repl <= 2 {
				repl = 2
			} else {
				repl = 4
			}
		}
		kind := "ReplicaSet"
		if rng.Intn(4) == 0 {
			kind = "Job"
		}
		ns := nss[rng.Intn(2)]
		cfg.Wls[wn] = c16aWl{Ns: ns, Replicas: repl, Kind: kind}
		for j := 0; j < k; j++ {
			np++
			pn := fmt.Sprintf("p%d", np)
			cfg.Pods[pn] = c16aPod{Node: nodes[rng.Intn(len(nodes))], Ns: ns, Wl: wn, Evictable: rng.Intn(12) != 0, Prio: rng.Intn(3)}
			cfg.Ready0[pn] = rng.Intn(6) != 0
		}
	}
	lim := &c16aLim{Node: c16aRandLimit(rng), Ns: c16aRandLimit(rng), Global: c16aRandLimit(rng),
		WlMig: c16aRandIOP(rng, cfg.Wls), WlUnav: c16aRandIOP(rng, cfg.Wls), SkipExpRep: rng.Intn(3) != 0, Gates: []string{}}
	if rng.Intn(6) == 0 {
		for _, g := range c16aGateNames {
			if rng.Intn(4) == 0 {
				lim.Gates = append(lim.Gates, g)
			}
		}
	}
	cfg.Lim = lim
	return cfg
}

type c16aDriver struct {
	w      *c16aWorld
	rng    *rand.Rand
	nextJ  int
	usedTs map[int]bool
}

func (d *c16aDriver) jobs() map[string]c16aJobObs {
	return d.w.obsJobs()
}

func (d *c16aDriver) freshTs() int {
	for {
		t := 1 + d.rng.Intn(5000)
		if !d.usedTs[t] {
			d.usedTs[t] = true
			return t
		}
	}
}

func (d *c16aDriver) create(pod, phase string) {
	d.nextJ++
	d.w.exec(c16aOp{Op: "jobCreate", Job: fmt.Sprintf("j%d", d.nextJ), Pod: pod, Phase: phase, Ts: d.freshTs()})
}

func c16aSortedKeys(m map[string]c16aJobObs, keep func(c16aJobObs) bool) []string {
	var out []string
	for k, v := range m {
		if keep(v) {
			out = append(out, k)
		}
	}
	sort.Slice(out, func(i, j int) bool { // j2 < j10
		if len(out[i]) != len(out[j]) {
			return len(out[i]) < len(out[j])
		}
		return out[i] < out[j]
	})
	return out
}

func c16aLive(o c16aJobObs) bool { return o.Phase == "Pending" || o.Phase == "Running" }

func (d *c16aDriver) freePods() []string {
	busy := map[string]bool{}
	for _, o := range d.jobs() {
		if c16aLive(o) {
			busy[o.Pod] = true
		}
	}
	var out []string
	for _, p := range d.w.podNames {
		if !busy[p] {
			out = append(out, p)
		}
	}
	return out
}

// online random driver: several arbitration rounds with jobs arriving in bursts, starting, completing,
// failing, being deleted, and pods changing readiness in between
func c16aRandomRun(out *[]vu.Ev, rng *rand.Rand, steps int, maxJobs int) {
	d := &c16aDriver{w: c16aNewWorld(out, c16aRandomCfg(rng)), rng: rng, usedTs: map[int]bool{}}
	pick := func(xs []string) string { return xs[rng.Intn(len(xs))] }
	for i := 0; i < steps; i++ {
		jobs := d.jobs()
		nWaiting := len(c16aSortedKeys(jobs, func(o c16aJobObs) bool { return o.Waiting && c16aLive(o) }))
		switch k := rng.Intn(20); {
		case k < 5: // a burst of new jobs (descheduling pass / users), not throttled by Filter
			free := d.freePods()
			n := 1 + rng.Intn(4)
			for ; n > 0 && len(free) > 0 && d.nextJ < maxJobs; n-- {
				x := rng.Intn(len(free))
				phase := "Pending"
				if rng.Intn(8) == 0 {
					phase = "Running"
				}
				d.create(free[x], phase)
				free = append(free[:x], free[x+1:]...)
			}
		case k < 7: // the descheduler asks Filter before creating a job
			p := pick(d.w.podNames)
			if busy := c16aSortedKeys(jobs, c16aLive); len(busy) > 0 && rng.Intn(2) == 0 {
				p = jobs[pick(busy)].Pod
			}
			ev := d.w.exec(c16aOp{Op: "filter", Pod: p})
			if ev["result"] == true && d.nextJ < maxJobs && rng.Intn(4) != 0 {
				d.create(p, "Pending")
			}
		case k < 11:
			if nWaiting == 0 && rng.Intn(4) != 0 {
				continue
			}
			d.w.exec(c16aOp{Op: "round"})
		case k < 13: // the controller starts a job that passed arbitration
			if c := c16aSortedKeys(jobs, func(o c16aJobObs) bool { return o.Phase == "Pending" && o.Passed }); len(c) > 0 {
				d.w.exec(c16aOp{Op: "jobStart", Job: pick(c), Phase: "Running"})
			}
		case k < 16: // a job completes / fails / is aborted (mostly running ones)
			c := c16aSortedKeys(jobs, func(o c16aJobObs) bool { return o.Phase == "Running" })
			if len(c) == 0 || rng.Intn(5) == 0 {
				c = c16aSortedKeys(jobs, c16aLive)
			}
			if len(c) > 0 {
				d.w.exec(c16aOp{Op: "jobFinish", Job: pick(c), Phase: []string{"Succeeded", "Succeeded", "Failed", "Aborted"}[rng.Intn(4)]})
			}
		case k < 17:
			if c := c16aSortedKeys(jobs, func(o c16aJobObs) bool { return true }); len(c) > 0 {
				d.w.exec(c16aOp{Op: "jobDelete", Job: pick(c)})
			}
		default:
			p := pick(d.w.podNames)
			cur := c16aAvailable(d.w.getPod(p))
			d.w.exec(c16aOp{Op: "podReady", Pod: p, Val: !cur, How: []string{"", "phase"}[rng.Intn(2)]})
		}
	}
	d.w.exec(c16aOp{Op: "round"})
}

// enumerated part: every combination of the three counters in {0,1,2} with a set of per-workload settings,
// on a fixed cluster, all pods getting a job at once; three rounds with jobs completing in between
func c16aEnumerated() []func(out *[]vu.Ev, rng *rand.Rand) {
	pods := map[string]c16aPod{
		"p1": {Node: "n1", Ns: "s1", Wl: "w1", Evictable: true}, "p2": {Node: "n1", Ns: "s1", Wl: "w1", Evictable: true},
		"p3": {Node: "n2", Ns: "s1", Wl: "w1", Evictable: true}, "p4": {Node: "n2", Ns: "s1", Wl: "w1", Evictable: true},
		"p5": {Node: "n1", Ns: "s1", Wl: "w2", Evictable: true}, "p6": {Node: "n2", Ns: "s1", Wl: "w2", Evictable: true},
		"p7": {Node: "n1", Ns: "s2", Wl: "w3", Evictable: true}, "p8": {Node: "n2", Ns: "s2", Wl: "w3", Evictable: false},
	}
	wls := map[string]c16aWl{"w1": {Ns: "s1", Replicas: 4, Kind: "ReplicaSet"}, "w2": {Ns: "s1", Replicas: 2, Kind: "Job"}, "w3": {Ns: "s2", Replicas: 4, Kind: "ReplicaSet"}}
	none := c16aIOP{Kind: "none"}
	abs := func(v int) c16aIOP { return c16aIOP{Kind: "int", V: v} }
	pct := func(v int) c16aIOP { return c16aIOP{Kind: "pct", V: v} }
	wlSettings := [][2]c16aIOP{{none, none}, {abs(1), none}, {none, abs(1)}, {abs(1), abs(2)}, {abs(2), abs(1)}, {abs(2), abs(3)}, {pct(50), pct(50)}, {abs(3), pct(100)}}
	names := []string{"p1", "p2", "p3", "p4", "p5", "p6", "p7", "p8"}
	var segs []func(out *[]vu.Ev, rng *rand.Rand)
	for _, ln := range []int{0, 1, 2} {
		for _, ls := range []int{0, 1, 2} {
			for _, lg := range []int{0, 1, 2} {
				for wi, ws := range wlSettings {
					lim := &c16aLim{Node: ln, Ns: ls, Global: lg, WlMig: ws[0], WlUnav: ws[1], SkipExpRep: wi%2 == 0, Gates: []string{}}
					segs = append(segs, func(out *[]vu.Ev, rng *rand.Rand) {
						ready := map[string]bool{}
						for _, p := range names {
							ready[p] = true
						}
						ready[names[rng.Intn(4)]] = rng.Intn(3) != 0 // sometimes one pod of w1 is unready
						cfg := c16aOp{Op: "reset", Pods: pods, Wls: wls, Ready0: ready, Lim: lim}
						d := &c16aDriver{w: c16aNewWorld(out, cfg), rng: rng, usedTs: map[int]bool{}}
						for _, i := range rng.Perm(len(names)) {
							d.create(names[i], "Pending")
						}
						for r := 0; r < 3; r++ {
							d.w.exec(c16aOp{Op: "round"})
							for _, j := range c16aSortedKeys(d.jobs(), func(o c16aJobObs) bool { return o.Phase == "Pending" && o.Passed }) {
								d.w.exec(c16aOp{Op: "jobStart", Job: j, Phase: "Running"})
							}
							if run := c16aSortedKeys(d.jobs(), func(o c16aJobObs) bool { return o.Phase == "Running" }); len(run) > 0 {
								d.w.exec(c16aOp{Op: "jobFinish", Job: run[rng.Intn(len(run))], Phase: "Succeeded"})
							}
						}
						d.w.exec(c16aOp{Op: "round"})
					})
				}
			}
		}
	}
	return segs
}

func c16aReplay(out *[]vu.Ev, script []c16aOp) {
	w := c16aNewWorld(out, script[0])
	for _, o := range script[1:] {
		if o.Op == "panic" {
			continue
		}
		w.exec(o)
	}
}

// segments are independent (own fake API server, own arbitrator, own RNG derived from the seed and the
// segment number): they run on a few goroutines and are written in order
func c16aRunAll(rec *vu.Recorder, segs []func(out *[]vu.Ev, rng *rand.Rand)) {
	workers := vu.EnvInt("VERIF_C16ARB_WORKERS", 6)
	const batch = 240
	for lo := 0; lo < len(segs); lo += batch {
		hi := lo + batch
		if hi > len(segs) {
			hi = len(segs)
		}
		outs := make([][]vu.Ev, hi-lo)
		var wg sync.WaitGroup
		next := make(chan int)
		for k := 0; k < workers; k++ {
			wg.Add(1)
			go func() {
				defer wg.Done()
				for i := range next {
					segs[i](&outs[i-lo], vu.Rand(16010000+int64(i)))
				}
			}()
		}
		for i := lo; i < hi; i++ {
			next <- i
		}
		close(next)
		wg.Wait()
		for _, evs := range outs {
			for _, e := range evs {
				rec.Emit(e)
			}
		}
	}
}

func TestVerifC16Arbitration(t *testing.T) {
	if !vu.Enabled() {
		t.Skip("verification harness: VERIF_OUT not set")
	}
	rec := vu.NewRecorder("")
	defer rec.Close()
	if _, err := c16aGetHandle(); err != nil {
		t.Fatal(err)
	}
	if path := vu.ReplayPath(); path != "" {
		for _, raw := range vu.ReadScripts(path) {
			var script []c16aOp
			if err := json.Unmarshal(raw, &script); err != nil {
				t.Fatal(err)
			}
			var out []vu.Ev
			c16aReplay(&out, script)
			for _, e := range out {
				rec.Emit(e)
			}
		}
		return
	}
	segs := c16aEnumerated()
	n, steps, maxJobs := vu.EnvInt("VERIF_C16ARB_N", 1200), 26, 14
	if vu.Thorough() {
		n, steps, maxJobs = vu.EnvInt("VERIF_C16ARB_N", 9000), 34, 18
	}
	for i := 0; i < n; i++ {
		segs = append(segs, func(out *[]vu.Ev, rng *rand.Rand) { c16aRandomRun(out, rng, steps, maxJobs) })
	}
	c16aRunAll(rec, segs)
	t.Logf("C16 arbitration: %d segments, %d events", rec.Segments(), rec.Events())
}
