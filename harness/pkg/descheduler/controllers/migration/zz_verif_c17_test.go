package migration

// Verification harness for C17 (injected by `go test -overlay`; /repo is untouched).
//
// The REAL Reconciler (reservation-first mode) runs over the controller-runtime fake client ("the API server")
// wrapped with client/interceptor so that the n-th write of a Reconcile can be made to fail, with a fake clock,
// a RECORDING evictor interpreter and the REAL reservation interpreter behind a recording wrapper (which also
// plays a downstream preemption plug-in when the segment enables it).
//
// A segment is one job: {reset, then steps}. Steps are reconcile (with the set of failing write indices),
// legal environment events, tick, restart. After every step the harness logs the job status, the reservation
// and the pod AS READ FROM THE API SERVER, and for a reconcile every call the controller issued (Evict,
// CreateReservation, DeleteReservation, Preempt), each stamped with the reservation and pod state and the job's
// persisted phase (jp) read from the API server at that instant, and "writes": for every write of the PodMigrationJob
// that the API server accepted during this Reconcile (Update, Status().Update, Patch, Status().Patch; seen by the
// fault-injecting interceptor), in order, the phase of the job as read back from the API server right after it - the
// sequence of persisted phases an observer of the API server sees within one Reconcile ("nwrites" counts every write
// attempt incl. reservation writes and the eviction request: the indices "fail" refers to).
// There is no oracle here: TLC decides (MigrationJobTrace.tla).
//
// Projection (field reads only):
//   job   Status.Phase/Reason/Status/NodeName, Spec.PodRef.UID ("u<k>" -> k), ReservationRef != nil,
//         every condition as "<Status>:<Reason>" or "none"
//   r     exists, Status.Phase, Status.NodeName, reason of the Scheduled condition, Ready condition has reason
//         Expired, who is CurrentOwners[0] ("same" = the target pod's name, else "other"), the two preemption
//         annotations the fake preemption plug-in reads
//   p     exists, UID, Spec.NodeName, Ready condition
//   now   minutes on the fake clock since the job's creation timestamp

import (
	"context"
	"encoding/json"
	"flag"
	"fmt"
	"io"
	"math/rand"
	"sort"
	"strconv"
	"strings"
	"testing"
	"time"

	corev1 "k8s.io/api/core/v1"
	apierrors "k8s.io/apimachinery/pkg/api/errors"
	metav1 "k8s.io/apimachinery/pkg/apis/meta/v1"
	"k8s.io/apimachinery/pkg/runtime"
	"k8s.io/apimachinery/pkg/types"
	"k8s.io/client-go/tools/events"
	"k8s.io/client-go/tools/record"
	"k8s.io/klog/v2"
	fakeclock "k8s.io/utils/clock/testing"
	ctrl "sigs.k8s.io/controller-runtime"
	"sigs.k8s.io/controller-runtime/pkg/client"
	"sigs.k8s.io/controller-runtime/pkg/client/fake"
	"sigs.k8s.io/controller-runtime/pkg/client/interceptor"
	"sigs.k8s.io/controller-runtime/pkg/reconcile"

	sev1alpha1 "github.com/koordinator-sh/koordinator/apis/scheduling/v1alpha1"
	deschedulerconfig "github.com/koordinator-sh/koordinator/pkg/descheduler/apis/config"
	"github.com/koordinator-sh/koordinator/pkg/descheduler/apis/config/v1alpha2"
	"github.com/koordinator-sh/koordinator/pkg/descheduler/controllers/migration/controllerfinder"
	"github.com/koordinator-sh/koordinator/pkg/descheduler/controllers/migration/reservation"
	reservationutil "github.com/koordinator-sh/koordinator/pkg/util/reservation"
	vu "github.com/koordinator-sh/koordinator/pkg/verifutil"
)

const (
	c17JobName     = "job"
	c17JobUID      = "c17-job-uid"
	c17PodNS       = "default"
	c17PodName     = "pod"
	c17NeedPreempt = "verif.c17/need-preemption"
	c17PreemptDone = "verif.c17/preemption-done"
	c17Tick        = time.Minute
)

var c17Nodes = []string{"n1", "n2", "n3"}

type c17Step struct {
	Op        string `json:"op"`
	Auto      bool   `json:"auto,omitempty"`
	TTL       int    `json:"ttl,omitempty"`
	Preempt   bool   `json:"preempt,omitempty"`
	Owned     bool   `json:"owned,omitempty"`
	DefDirect bool   `json:"defDirect,omitempty"` // reset: the controller's defaultJobMode is EvictDirectly (the job itself asks for ReservationFirst)
	Node      string `json:"node,omitempty"`
	Fail      []int  `json:"fail,omitempty"`
	Stale     bool   `json:"stale,omitempty"` // reconcile: the informer cache lags one write of the job behind (where that is possible)
	Hard      bool   `json:"hard,omitempty"`
	Np        bool   `json:"np,omitempty"`
	Who       string `json:"who,omitempty"`
	Ready     bool   `json:"ready,omitempty"`
	N         int    `json:"n,omitempty"`
}

// ---------------------------------------------------------------------------------------------- shared, built once
var (
	c17Scheme   *runtime.Scheme
	c17Args     *deschedulerconfig.MigrationControllerArgs
	c17Recorder events.EventRecorder
	c17T0       = time.Date(2024, 1, 1, 0, 0, 0, 0, time.UTC)
)

func c17Setup() {
	if c17Scheme != nil {
		return
	}
	c17Scheme = runtime.NewScheme()
	_ = sev1alpha1.AddToScheme(c17Scheme)
	_ = corev1.AddToScheme(c17Scheme)
	var v1beta2args v1alpha2.MigrationControllerArgs
	v1alpha2.SetDefaults_MigrationControllerArgs(&v1beta2args)
	var args deschedulerconfig.MigrationControllerArgs
	if err := v1alpha2.Convert_v1alpha2_MigrationControllerArgs_To_config_MigrationControllerArgs(&v1beta2args, &args, nil); err != nil {
		panic(err)
	}
	c17Args = &args
	// the controller logs every failed reconcile: keep the test output readable
	fs := flag.NewFlagSet("klog", flag.ContinueOnError)
	klog.InitFlags(fs)
	_ = fs.Set("logtostderr", "false")
	_ = fs.Set("stderrthreshold", "FATAL")
	klog.SetOutput(io.Discard)
	b := record.NewBroadcaster()
	c17Recorder = record.NewEventRecorderAdapter(b.NewRecorder(c17Scheme, corev1.EventSource{Component: Name}))
}

// ---------------------------------------------------------------------------------------------- the world of one segment
type c17World struct {
	rec     *vu.Recorder
	api     client.WithWatch // the fake API server; environment events and observations go here directly
	r       *Reconciler
	clk     *fakeclock.FakeClock
	ttl     int
	preempt bool
	owned   bool
	podUID  int
	gen     int // controller incarnation
	// per reconcile
	inRec  bool
	wcount int
	fail   map[int]bool
	hit    bool
	calls  []interface{}
	jw     []string // persisted phase after every accepted write of the job
	// the versions of the job persisted since this controller incarnation started (a lagging informer cache hands out an
	// earlier one); staleJob = what the next Get of the job returns instead of the current object
	jobHist  []*sev1alpha1.PodMigrationJob
	staleJob *sev1alpha1.PodMigrationJob
	// statistics (coverage report only)
	st *c17Stats
}

type c17Stats struct {
	segs, steps, reconciles, envApplied, envSkipped, faultsHit, restarts, ticks int
	evictRuns, evictFailed, preemptEvicts                                       int
	reasons                                                                     map[string]int
	succeeded                                                                   int
	calls                                                                       map[string]int
}

type c17Mgr struct {
	ctrl.Manager
	c client.Client
}

func (m *c17Mgr) GetClient() client.Client    { return m.c }
func (m *c17Mgr) GetAPIReader() client.Reader { return m.c }

var c17Injected = apierrors.NewServiceUnavailable("verif: injected API failure")

// an accepted write of obj: when it is the job, log the phase the API server now holds
func (w *c17World) wrote(obj client.Object, err error) error {
	if err == nil && w != nil && w.inRec {
		if _, ok := obj.(*sev1alpha1.PodMigrationJob); ok {
			w.jw = append(w.jw, w.persistedPhase())
			cur := &sev1alpha1.PodMigrationJob{}
			if e := w.api.Get(context.TODO(), types.NamespacedName{Name: c17JobName}, cur); e == nil {
				w.jobHist = append(w.jobHist, cur)
			}
		}
	}
	return err
}

func (w *c17World) persistedPhase() string {
	job := &sev1alpha1.PodMigrationJob{}
	if err := w.api.Get(context.TODO(), types.NamespacedName{Name: c17JobName}, job); err != nil {
		panic(err)
	}
	return string(job.Status.Phase)
}

// next write attempt of the running Reconcile; true = make it fail
func (w *c17World) write() bool {
	if !w.inRec {
		return false
	}
	w.wcount++
	if w.fail[w.wcount] {
		w.hit = true
		return true
	}
	return false
}

// the fake API server and the fault-injecting client in front of it are built once (building the fake client's REST
// mapper costs ~25 ms); every segment starts from an API server emptied of the previous segment's three objects
var (
	c17API    client.WithWatch
	c17Client client.WithWatch
	c17Cur    *c17World
)

func c17Server() {
	if c17API != nil {
		return
	}
	c17Setup()
	c17API = fake.NewClientBuilder().WithStatusSubresource(&sev1alpha1.PodMigrationJob{}).WithScheme(c17Scheme).Build()
	wr := func() bool { return c17Cur != nil && c17Cur.write() }
	c17Client = interceptor.NewClient(c17API, interceptor.Funcs{
		Get: func(ctx context.Context, c client.WithWatch, key client.ObjectKey, obj client.Object, opts ...client.GetOption) error {
			if job, ok := obj.(*sev1alpha1.PodMigrationJob); ok && c17Cur != nil && c17Cur.staleJob != nil {
				c17Cur.staleJob.DeepCopyInto(job)
				c17Cur.staleJob = nil
				return nil
			}
			return c.Get(ctx, key, obj, opts...)
		},
		Create: func(ctx context.Context, c client.WithWatch, obj client.Object, opts ...client.CreateOption) error {
			if wr() {
				return c17Injected
			}
			return c17Cur.wrote(obj, c.Create(ctx, obj, opts...))
		},
		Update: func(ctx context.Context, c client.WithWatch, obj client.Object, opts ...client.UpdateOption) error {
			if wr() {
				return c17Injected
			}
			return c17Cur.wrote(obj, c.Update(ctx, obj, opts...))
		},
		Delete: func(ctx context.Context, c client.WithWatch, obj client.Object, opts ...client.DeleteOption) error {
			if wr() {
				return c17Injected
			}
			return c.Delete(ctx, obj, opts...)
		},
		Patch: func(ctx context.Context, c client.WithWatch, obj client.Object, patch client.Patch, opts ...client.PatchOption) error {
			if wr() {
				return c17Injected
			}
			return c17Cur.wrote(obj, c.Patch(ctx, obj, patch, opts...))
		},
		SubResourceUpdate: func(ctx context.Context, c client.Client, sub string, obj client.Object, opts ...client.SubResourceUpdateOption) error {
			if wr() {
				return c17Injected
			}
			return c17Cur.wrote(obj, c.SubResource(sub).Update(ctx, obj, opts...))
		},
		SubResourcePatch: func(ctx context.Context, c client.Client, sub string, obj client.Object, patch client.Patch, opts ...client.SubResourcePatchOption) error {
			if wr() {
				return c17Injected
			}
			return c17Cur.wrote(obj, c.SubResource(sub).Patch(ctx, obj, patch, opts...))
		},
	})
}

func c17NewWorld(rec *vu.Recorder, st *c17Stats, reset c17Step) *c17World {
	c17Server()
	w := &c17World{rec: rec, st: st, ttl: reset.TTL, preempt: reset.Preempt, owned: reset.Owned, gen: 1}
	c17Cur = w
	w.api = c17API
	cl := c17Client
	for _, o := range []client.Object{
		&sev1alpha1.PodMigrationJob{ObjectMeta: metav1.ObjectMeta{Name: c17JobName}},
		&sev1alpha1.Reservation{ObjectMeta: metav1.ObjectMeta{Name: c17JobUID}},
		&corev1.Pod{ObjectMeta: metav1.ObjectMeta{Namespace: c17PodNS, Name: c17PodName}},
	} {
		if err := w.api.Delete(context.TODO(), o); err != nil && !apierrors.IsNotFound(err) {
			panic(err)
		}
	}
	w.clk = fakeclock.NewFakeClock(c17T0)
	arb := &fakeArbitrator{
		filter:            func(pod *corev1.Pod) bool { return true },
		preEvictionFilter: func(pod *corev1.Pod) bool { return true },
	}
	args := c17Args
	if reset.DefDirect {
		a := *c17Args
		a.DefaultJobMode = string(sev1alpha1.PodMigrationJobModeEvictionDirectly)
		args = &a
	}
	w.r = &Reconciler{
		Client:                 cl,
		args:                   args,
		eventRecorder:          c17Recorder,
		reservationInterpreter: &c17Interp{Interpreter: reservation.NewInterpreter(&c17Mgr{c: cl}), w: w},
		evictorInterpreter:     &c17Evictor{w: w},
		controllerFinder:       &controllerfinder.ControllerFinder{Client: cl},
		assumedCache:           newAssumedCache(),
		clock:                  w.clk,
		arbitrator:             arb,
		reconcilerUID:          types.UID("reconciler-1"),
	}
	// the objects the job starts from
	node := reset.Node
	if node == "" {
		node = "n1"
	}
	w.createPod(node, true)
	job := &sev1alpha1.PodMigrationJob{
		ObjectMeta: metav1.ObjectMeta{Name: c17JobName, UID: c17JobUID, CreationTimestamp: metav1.Time{Time: c17T0}},
		Spec: sev1alpha1.PodMigrationJobSpec{
			PodRef: &corev1.ObjectReference{Namespace: c17PodNS, Name: c17PodName},
			Mode:   sev1alpha1.PodMigrationJobModeReservationFirst,
		},
	}
	if w.ttl > 0 {
		job.Spec.TTL = &metav1.Duration{Duration: time.Duration(w.ttl) * c17Tick}
	}
	if w.owned {
		job.Annotations = map[string]string{AnnotationJobCreatedBy: string(w.r.reconcilerUID)}
	}
	if err := w.api.Create(context.TODO(), job); err != nil {
		panic(err)
	}
	rec.Reset(vu.Ev{"ttl": w.ttl, "preempt": w.preempt, "owned": w.owned, "defDirect": reset.DefDirect, "node": node, "obs": w.obs()})
	st.segs++
	return w
}

func (w *c17World) createPod(node string, ready bool) {
	w.podUID++
	rs := corev1.ConditionFalse
	if ready {
		rs = corev1.ConditionTrue
	}
	pod := &corev1.Pod{
		ObjectMeta: metav1.ObjectMeta{Namespace: c17PodNS, Name: c17PodName, UID: types.UID("u" + strconv.Itoa(w.podUID))},
		Spec:       corev1.PodSpec{NodeName: node, SchedulerName: "koord-scheduler"},
		Status: corev1.PodStatus{Phase: corev1.PodRunning, Conditions: []corev1.PodCondition{
			{Type: corev1.PodScheduled, Status: corev1.ConditionTrue},
			{Type: corev1.PodReady, Status: rs},
		}},
	}
	if err := w.api.Create(context.TODO(), pod); err != nil {
		panic(err)
	}
}

// ---------------------------------------------------------------------------------------------- reads of the API server
func (w *c17World) getPod() *corev1.Pod {
	pod := &corev1.Pod{}
	if err := w.api.Get(context.TODO(), types.NamespacedName{Namespace: c17PodNS, Name: c17PodName}, pod); err != nil {
		if apierrors.IsNotFound(err) {
			return nil
		}
		panic(err)
	}
	return pod
}

func (w *c17World) getResv() *sev1alpha1.Reservation {
	r := &sev1alpha1.Reservation{}
	if err := w.api.Get(context.TODO(), types.NamespacedName{Name: c17JobUID}, r); err != nil {
		if apierrors.IsNotFound(err) {
			return nil
		}
		panic(err)
	}
	return r
}

func c17UID(u types.UID) int {
	if u == "" {
		return 0
	}
	n, err := strconv.Atoi(strings.TrimPrefix(string(u), "u"))
	if err != nil {
		return -1
	}
	return n
}

func c17PodObs(pod *corev1.Pod) vu.Ev {
	if pod == nil {
		return vu.Ev{"exists": false, "uid": 0, "node": "", "ready": false}
	}
	ready := false
	for _, c := range pod.Status.Conditions {
		if c.Type == corev1.PodReady && c.Status == corev1.ConditionTrue {
			ready = true
		}
	}
	return vu.Ev{"exists": true, "uid": c17UID(pod.UID), "node": pod.Spec.NodeName, "ready": ready}
}

func c17ResvObs(r *sev1alpha1.Reservation) vu.Ev {
	if r == nil {
		return vu.Ev{"exists": false, "phase": "", "node": "", "sched": "none", "expired": false, "bound": "", "np": false, "pd": false}
	}
	sched, expired := "none", false
	for _, c := range r.Status.Conditions {
		if c.Type == sev1alpha1.ReservationConditionScheduled {
			sched = c.Reason
		}
		if c.Type == sev1alpha1.ReservationConditionReady && c.Reason == sev1alpha1.ReasonReservationExpired {
			expired = true
		}
	}
	bound := ""
	if len(r.Status.CurrentOwners) > 0 {
		bound = "other"
		if r.Status.CurrentOwners[0].Namespace == c17PodNS && r.Status.CurrentOwners[0].Name == c17PodName {
			bound = "same"
		}
	}
	return vu.Ev{"exists": true, "phase": string(r.Status.Phase), "node": r.Status.NodeName, "sched": sched, "expired": expired,
		"bound": bound, "np": r.Annotations[c17NeedPreempt] == "true", "pd": r.Annotations[c17PreemptDone] == "true"}
}

func c17Cond(job *sev1alpha1.PodMigrationJob, t sev1alpha1.PodMigrationJobConditionType) string {
	for _, c := range job.Status.Conditions {
		if c.Type == t {
			return string(c.Status) + ":" + c.Reason
		}
	}
	return "none"
}

func (w *c17World) jobObs() vu.Ev {
	job := &sev1alpha1.PodMigrationJob{}
	if err := w.api.Get(context.TODO(), types.NamespacedName{Name: c17JobName}, job); err != nil {
		panic(err)
	}
	uid := 0
	if job.Spec.PodRef != nil {
		uid = c17UID(job.Spec.PodRef.UID)
	}
	return vu.Ev{
		"phase": string(job.Status.Phase), "reason": job.Status.Reason, "status": job.Status.Status, "node": job.Status.NodeName,
		"uid": uid, "ref": job.Spec.ReservationOptions != nil && job.Spec.ReservationOptions.ReservationRef != nil,
		"cCreated":  c17Cond(job, sev1alpha1.PodMigrationJobConditionReservationCreated),
		"cSched":    c17Cond(job, sev1alpha1.PodMigrationJobConditionReservationScheduled),
		"cEvict":    c17Cond(job, sev1alpha1.PodMigrationJobConditionEviction),
		"cPodBound": c17Cond(job, sev1alpha1.PodMigrationJobConditionReservationPodBoundReservation),
		"cBound":    c17Cond(job, sev1alpha1.PodMigrationJobConditionReservationBound),
		"cReady":    c17Cond(job, sev1alpha1.PodMigrationJobConditionBoundPodReady),
	}
}

func (w *c17World) obs() vu.Ev {
	return vu.Ev{"job": w.jobObs(), "r": c17ResvObs(w.getResv()), "p": c17PodObs(w.getPod()),
		"now": int(w.clk.Now().Sub(c17T0) / c17Tick)}
}

// the environment at this instant, for stamping a call
func (w *c17World) stamp() (vu.Ev, c17Stamp) {
	return c17ResvObs(w.getResv()), c17Stamp{p: c17PodObs(w.getPod()), jp: w.persistedPhase()}
}

type c17Stamp struct {
	p  vu.Ev
	jp string // the job's persisted phase
}

func (w *c17World) call(kind string, ok bool, r vu.Ev, ps c17Stamp, arg vu.Ev) {
	e := vu.Ev{"kind": kind, "ok": ok, "r": r, "p": ps.p, "jp": ps.jp}
	if arg != nil {
		e["arg"] = arg
	}
	w.calls = append(w.calls, e)
	w.st.calls[kind]++
	if kind == "Evict" {
		if !ok {
			w.st.evictFailed++
		}
		if r["phase"] == "Failed" {
			w.st.preemptEvicts++
		}
	}
}

// ---------------------------------------------------------------------------------------------- recording fakes
type c17Evictor struct{ w *c17World }

func (e *c17Evictor) Evict(ctx context.Context, job *sev1alpha1.PodMigrationJob, pod *corev1.Pod) error {
	r, p := e.w.stamp()
	failed := e.w.write() // the eviction request is an API write as well
	e.w.call("Evict", !failed, r, p, vu.Ev{"uid": c17UID(pod.UID), "node": pod.Spec.NodeName})
	if failed {
		return c17Injected
	}
	return nil
}

// the real reservation interpreter (interpreter.go) behind a recorder; optionally a preemption plug-in
type c17Interp struct {
	reservation.Interpreter
	w *c17World
}

type c17Obj struct{ reservation.Object }

func (o *c17Obj) NeedPreemption() bool { return true }

func (i *c17Interp) Preemption() reservation.Preemption {
	if i.w.preempt {
		return &c17Preemption{w: i.w}
	}
	return nil
}

func (i *c17Interp) GetReservation(ctx context.Context, ref *corev1.ObjectReference) (reservation.Object, error) {
	obj, err := i.Interpreter.GetReservation(ctx, ref)
	if err == nil && obj != nil && obj.OriginObject().GetAnnotations()[c17NeedPreempt] == "true" {
		return &c17Obj{Object: obj}, nil
	}
	return obj, err
}

func (i *c17Interp) CreateReservation(ctx context.Context, job *sev1alpha1.PodMigrationJob) (reservation.Object, error) {
	r, p := i.w.stamp()
	obj, err := i.Interpreter.CreateReservation(ctx, job)
	i.w.call("CreateReservation", err == nil, r, p, nil)
	return obj, err
}

func (i *c17Interp) DeleteReservation(ctx context.Context, ref *corev1.ObjectReference) error {
	r, p := i.w.stamp()
	err := i.Interpreter.DeleteReservation(ctx, ref)
	i.w.call("DeleteReservation", err == nil, r, p, nil)
	return err
}

type c17Preemption struct{ w *c17World }

func (pr *c17Preemption) Preempt(ctx context.Context, job *sev1alpha1.PodMigrationJob, obj reservation.Object) (bool, reconcile.Result, error) {
	r, p := pr.w.stamp()
	done := obj.OriginObject().GetAnnotations()[c17PreemptDone] == "true"
	pr.w.call("Preempt", done, r, p, nil)
	if !done {
		return false, reconcile.Result{RequeueAfter: defaultRequeueAfter}, nil
	}
	return true, reconcile.Result{}, nil
}

// ---------------------------------------------------------------------------------------------- steps
func c17IsPendingPhase(r *sev1alpha1.Reservation) bool {
	return r.Status.Phase == "" || r.Status.Phase == sev1alpha1.ReservationPending
}

func c17HasUnsched(r *sev1alpha1.Reservation) bool {
	for _, c := range r.Status.Conditions {
		if c.Type == sev1alpha1.ReservationConditionScheduled && c.Reason == sev1alpha1.ReasonReservationUnschedulable {
			return true
		}
	}
	return false
}

func (w *c17World) updateResv(r *sev1alpha1.Reservation) {
	if err := w.api.Update(context.TODO(), r); err != nil {
		panic(err)
	}
}

// exec executes one step (only op + arguments are read) and records it. Environment events are applied only
// when legal in the CURRENT state of the API server; otherwise they are recorded as applied=false.
func (w *c17World) exec(s c17Step) {
	ctx := context.TODO()
	e := vu.Ev{"op": s.Op}
	applied := false
	w.st.steps++
	switch s.Op {
	case "reconcile":
		w.inRec, w.wcount, w.hit, w.calls, w.jw = true, 0, false, []interface{}{}, []string{}
		w.fail = map[int]bool{}
		fl := []int{}
		for _, k := range s.Fail {
			w.fail[k] = true
			fl = append(fl, k)
		}
		sort.Ints(fl)
		// a lagging informer: this reconcile reads the job as it was one persisted write earlier. Only where the controller
		// itself wrote both versions in this incarnation (after a restart the informer is synced anew)
		stale := s.Stale && len(w.jobHist) >= 2
		if stale {
			w.staleJob = w.jobHist[len(w.jobHist)-2]
		}
		_, err := w.r.Reconcile(ctx, reconcile.Request{NamespacedName: types.NamespacedName{Name: c17JobName}})
		w.inRec, w.staleJob = false, nil
		e["stale"] = stale
		e["fail"], e["hit"], e["nwrites"], e["writes"], e["err"], e["calls"] = fl, w.hit, w.wcount, w.jw, err != nil, w.calls
		applied = true
		w.st.reconciles++
		if w.hit {
			w.st.faultsHit++
		}
	case "rsched":
		e["node"] = s.Node
		if r := w.getResv(); r != nil && c17IsPendingPhase(r) && s.Node != "" {
			if err := reservationutil.SetReservationAvailable(r, s.Node); err != nil {
				panic(err)
			}
			w.updateResv(r)
			applied = true
		}
	case "runsched":
		e["hard"], e["np"] = s.Hard, s.Np
		if r := w.getResv(); r != nil && c17IsPendingPhase(r) && (s.Hard || !c17HasUnsched(r)) && (!s.Np || (s.Hard && w.preempt)) {
			reservationutil.SetReservationUnschedulable(r, "0/3 nodes are available")
			if s.Hard {
				r.Status.Phase = sev1alpha1.ReservationFailed
			}
			if s.Np {
				if r.Annotations == nil {
					r.Annotations = map[string]string{}
				}
				r.Annotations[c17NeedPreempt] = "true"
			}
			w.updateResv(r)
			applied = true
		}
	case "rpreempted":
		if r := w.getResv(); r != nil && r.Status.Phase == sev1alpha1.ReservationFailed && c17HasUnsched(r) &&
			!reservationutil.IsReservationExpired(r) && r.Annotations[c17NeedPreempt] == "true" && r.Annotations[c17PreemptDone] != "true" {
			r.Annotations[c17PreemptDone] = "true"
			w.updateResv(r)
			applied = true
		}
	case "rexpire":
		if r := w.getResv(); r != nil && (c17IsPendingPhase(r) || reservationutil.IsReservationAvailable(r)) {
			reservationutil.SetReservationExpired(r)
			w.updateResv(r)
			applied = true
		}
	case "rdelete":
		if r := w.getResv(); r != nil {
			if err := w.api.Delete(ctx, r); err != nil {
				panic(err)
			}
			applied = true
		}
	case "rbind":
		e["who"] = s.Who
		if r := w.getResv(); r != nil && reservationutil.IsReservationAvailable(r) {
			owner := corev1.ObjectReference{Kind: "Pod", Namespace: c17PodNS, Name: "some-other-pod", UID: "other-uid"}
			ok := s.Who == "other" || s.Who == "gone"
			if s.Who == "same" {
				if pod := w.getPod(); pod != nil && c17UID(pod.UID) > 1 && pod.Spec.NodeName == r.Status.NodeName {
					owner = corev1.ObjectReference{Kind: "Pod", Namespace: pod.Namespace, Name: pod.Name, UID: pod.UID}
					ok = true
				}
			}
			if ok {
				r.Status.CurrentOwners = []corev1.ObjectReference{owner}
				if s.Who == "gone" { // the consumer has been deleted since: the reservation stays Succeeded, without owners
					r.Status.CurrentOwners = nil
				}
				reservationutil.SetReservationSucceeded(r)
				w.updateResv(r)
				applied = true
			}
		}
	case "poddelete":
		if pod := w.getPod(); pod != nil {
			if err := w.api.Delete(ctx, pod); err != nil {
				panic(err)
			}
			applied = true
		}
	case "podreplace":
		e["node"], e["ready"] = s.Node, s.Ready
		if s.Node != "" {
			if pod := w.getPod(); pod != nil {
				if err := w.api.Delete(ctx, pod); err != nil {
					panic(err)
				}
			}
			w.createPod(s.Node, s.Ready)
			applied = true
		}
	case "podready":
		if pod := w.getPod(); pod != nil && !c17PodObs(pod)["ready"].(bool) {
			for i := range pod.Status.Conditions {
				if pod.Status.Conditions[i].Type == corev1.PodReady {
					pod.Status.Conditions[i].Status = corev1.ConditionTrue
				}
			}
			if err := w.api.Status().Update(ctx, pod); err != nil { // pods have a status subresource in the fake API server
				panic(err)
			}
			applied = true
		}
	case "tick":
		e["n"] = s.N
		if s.N > 0 {
			w.clk.Step(time.Duration(s.N) * c17Tick)
			applied = true
			w.st.ticks++
		}
	case "restart":
		// the process restarts: every in-memory cache is lost and the controller gets a new identity
		w.gen++
		w.r.assumedCache = newAssumedCache()
		w.jobHist = nil
		w.r.reconcilerUID = types.UID("reconciler-" + strconv.Itoa(w.gen))
		applied = true
		w.st.restarts++
	default:
		panic("c17: unknown op " + s.Op)
	}
	if s.Op != "reconcile" && s.Op != "tick" && s.Op != "restart" {
		if applied {
			w.st.envApplied++
		} else {
			w.st.envSkipped++
		}
	}
	e["applied"] = applied
	e["obs"] = w.obs()
	w.rec.Emit(e)
}

func (w *c17World) finish() {
	// coverage statistics only
	j := w.jobObs()
	if j["phase"] == "Failed" {
		w.st.reasons[j["reason"].(string)]++
	}
	if j["phase"] == "Succeeded" {
		w.st.succeeded++
	}
}

func c17Replay(rec *vu.Recorder, st *c17Stats, script []c17Step) {
	if len(script) == 0 || script[0].Op != "reset" {
		panic("c17: script does not start with reset")
	}
	w := c17NewWorld(rec, st, script[0])
	ev0 := st.calls["Evict"]
	for _, s := range script[1:] {
		if s.Auto {
			continue
		}
		w.exec(s)
	}
	if st.calls["Evict"] > ev0 {
		st.evictRuns++
	}
	w.finish()
}

// ---------------------------------------------------------------------------------------------- online random driver
// picks the next step from what is possible in the CURRENT real state (read from the API server): steering, not judging
func c17RandomRun(rec *vu.Recorder, st *c17Stats, rng *rand.Rand, steps int) {
	reset := c17Step{Op: "reset", Node: "n1", Preempt: rng.Intn(3) == 0, Owned: rng.Intn(8) == 0, DefDirect: rng.Intn(6) == 0}
	switch rng.Intn(4) {
	case 0:
		reset.TTL = 2
	case 1:
		reset.TTL = 4
	}
	w := c17NewWorld(rec, st, reset)
	ev0 := st.calls["Evict"]
	node := func() string { return c17Nodes[rng.Intn(len(c17Nodes))] }
	otherNode := func() string {
		pn := "n1"
		if p := w.getPod(); p != nil {
			pn = p.Spec.NodeName
		}
		for {
			if n := node(); n != pn {
				return n
			}
		}
	}
	faultProb := rng.Intn(3) // 0: fault-free segment (Once), 1: some faults, 2: many
	// two segments in five steer the reservation through "reported unschedulable (still Pending) and only LATER scheduled /
	// expired / failed for good / deleted", mostly with a reconcile in between so that the job has seen (and recorded) the
	// unschedulable round; the node it is scheduled on later is the pod's own node in about half of the cases
	unschedFirst := rng.Intn(5) < 2
	// one of the other segments in four is a fault-free "happy path": whenever an environment event would let the migration
	// make progress (reservation scheduled elsewhere, evicted pod gone, reservation consumed) it is mostly that one - so
	// that jobs which SUCCEED, and are reconciled again afterwards (after their TTL, too), are not rare
	happy := !unschedFirst && rng.Intn(4) == 0
	if happy {
		faultProb = 0
	}
	for i := 0; i < steps; i++ {
		k := rng.Intn(100)
		if k < 45 {
			s := c17Step{Op: "reconcile", Stale: rng.Intn(5) == 0}
			switch {
			case faultProb == 1 && rng.Intn(4) == 0, faultProb == 2 && rng.Intn(2) == 0:
				s.Fail = []int{1 + rng.Intn(5)}
				if rng.Intn(6) == 0 {
					s.Fail = append(s.Fail, 1+rng.Intn(5))
				}
			}
			w.exec(s)
			continue
		}
		if k < 50 {
			w.exec(c17Step{Op: "restart"})
			continue
		}
		if k < 56 {
			if w.ttl > 0 {
				w.exec(c17Step{Op: "tick", N: 1 + rng.Intn(2)})
			}
			continue
		}
		// an environment event that is legal now (weights only steer the run towards deeper protocol states)
		r := w.getResv()
		evicting := w.jobObs()["cEvict"] == "False:Evicting"
		var cand []c17Step
		add := func(n int, s c17Step) {
			for ; n > 0; n-- {
				cand = append(cand, s)
			}
		}
		if r != nil {
			switch {
			case unschedFirst && c17IsPendingPhase(r) && !c17HasUnsched(r):
				add(8, c17Step{Op: "runsched"})
				add(1, c17Step{Op: "rsched", Node: otherNode()})
				add(1, c17Step{Op: "runsched", Hard: true})
			case unschedFirst && c17IsPendingPhase(r):
				// unschedulable so far; what comes after it
				if p := w.getPod(); p != nil {
					add(6, c17Step{Op: "rsched", Node: p.Spec.NodeName})
				}
				add(4, c17Step{Op: "rsched", Node: otherNode()})
				add(1, c17Step{Op: "rsched", Node: node()})
				add(2, c17Step{Op: "rexpire"})
				add(2, c17Step{Op: "runsched", Hard: true})
				if w.preempt {
					add(2, c17Step{Op: "runsched", Hard: true, Np: true})
				}
			case c17IsPendingPhase(r):
				add(5, c17Step{Op: "rsched", Node: otherNode()})
				add(1, c17Step{Op: "rsched", Node: node()})
				if p := w.getPod(); p != nil {
					add(1, c17Step{Op: "rsched", Node: p.Spec.NodeName}) // the same-node abort must be exercised as well
				}
				add(1, c17Step{Op: "runsched", Hard: true})
				add(1, c17Step{Op: "rexpire"})
				if !c17HasUnsched(r) {
					add(1, c17Step{Op: "runsched"})
				}
				if w.preempt {
					add(3, c17Step{Op: "runsched", Hard: true, Np: true})
				}
			case reservationutil.IsReservationAvailable(r):
				add(1, c17Step{Op: "rexpire"})
				add(1, c17Step{Op: "rbind", Who: "other"})
				add(1, c17Step{Op: "rbind", Who: "gone"})
				p := w.getPod()
				if evicting && p == nil {
					add(6, c17Step{Op: "rbind", Who: "other"})
				}
				if p != nil && c17UID(p.UID) > 1 && p.Spec.NodeName == r.Status.NodeName {
					add(4, c17Step{Op: "rbind", Who: "same"})
				}
			case r.Status.Phase == sev1alpha1.ReservationFailed && r.Annotations[c17NeedPreempt] == "true" && r.Annotations[c17PreemptDone] != "true":
				add(6, c17Step{Op: "rpreempted"})
			}
			if rng.Intn(3) == 0 {
				add(1, c17Step{Op: "rdelete"})
			}
		}
		if p := w.getPod(); p != nil {
			add(1, c17Step{Op: "poddelete"})
			if evicting {
				add(6, c17Step{Op: "poddelete"})
			}
			if !c17PodObs(p)["ready"].(bool) {
				add(3, c17Step{Op: "podready"})
			}
		}
		rn := node()
		if r != nil && r.Status.NodeName != "" && rng.Intn(2) == 0 {
			rn = r.Status.NodeName // a replacement that lands where the reservation is
		}
		add(1, c17Step{Op: "podreplace", Node: rn, Ready: rng.Intn(2) == 0})
		if evicting {
			add(2, c17Step{Op: "podreplace", Node: rn, Ready: rng.Intn(2) == 0})
		}
		if happy && rng.Intn(4) != 0 {
			p := w.getPod()
			switch {
			case r != nil && c17IsPendingPhase(r):
				cand = []c17Step{{Op: "rsched", Node: otherNode()}}
			case r != nil && reservationutil.IsReservationAvailable(r) && evicting && p != nil:
				cand = []c17Step{{Op: "poddelete"}}
			case r != nil && reservationutil.IsReservationAvailable(r) && evicting && p == nil:
				cand = []c17Step{{Op: "rbind", Who: "other"}}
			}
		} else if rng.Intn(25) == 0 {
			// now and then an event that is NOT legal now: must be recorded as not applied
			cand = []c17Step{{Op: "rbind", Who: "same"}, {Op: "rpreempted"}, {Op: "rsched", Node: node()}, {Op: "podready"}}
		}
		s := cand[rng.Intn(len(cand))]
		w.exec(s)
		if unschedFirst && s.Op == "runsched" && !s.Hard && rng.Intn(4) != 0 {
			w.exec(c17Step{Op: "reconcile"}) // the job gets to see the unschedulable round
			i++
		}
	}
	// let the controller have the last word; in half of the segments with a TTL the job - finished or not - is reconciled
	// once more after the TTL has passed
	w.exec(c17Step{Op: "reconcile"})
	if w.ttl > 0 && rng.Intn(2) == 0 {
		w.exec(c17Step{Op: "tick", N: w.ttl})
	}
	w.exec(c17Step{Op: "reconcile"})
	if st.calls["Evict"] > ev0 {
		st.evictRuns++
	}
	w.finish()
}

func TestVerifC17(t *testing.T) {
	if !vu.Enabled() {
		t.Skip("verification harness: VERIF_OUT not set")
	}
	rec := vu.NewRecorder("")
	defer rec.Close()
	st := &c17Stats{reasons: map[string]int{}, calls: map[string]int{}}
	path := vu.ScriptPath()
	if vu.ReplayPath() != "" {
		path = vu.ReplayPath()
	}
	raws := vu.ReadScripts(path)
	// TLC prints one script per reached state: a script that is a proper prefix of another one adds nothing
	prefix := map[string]bool{}
	scripts := make([][]c17Step, 0, len(raws))
	for _, raw := range raws {
		var script []c17Step
		if err := json.Unmarshal(raw, &script); err != nil {
			t.Fatal(err)
		}
		scripts = append(scripts, script)
	}
	key := func(s []c17Step) string { b, _ := json.Marshal(s); return string(b) }
	if vu.ReplayPath() == "" {
		for _, s := range scripts {
			for n := 2; n < len(s); n++ {
				prefix[key(s[:n])] = true
			}
		}
	}
	nscripts := 0
	for _, s := range scripts {
		if len(s) < 2 || prefix[key(s)] {
			continue
		}
		c17Replay(rec, st, s)
		nscripts++
	}
	if vu.ReplayPath() == "" {
		n, steps := 500, 18
		if vu.Thorough() {
			n, steps = 8000, 22
		}
		n = vu.EnvInt("VERIF_C17_RANDOM", n)
		rng := vu.Rand(17)
		for i := 0; i < n; i++ {
			c17RandomRun(rec, st, rng, steps+rng.Intn(8))
		}
	}
	rs := []string{}
	for k, v := range st.reasons {
		rs = append(rs, fmt.Sprintf("%s=%d", k, v))
	}
	sort.Strings(rs)
	cs := []string{}
	for k, v := range st.calls {
		cs = append(cs, fmt.Sprintf("%s=%d", k, v))
	}
	sort.Strings(cs)
	fmt.Printf("C17-STATS scripts=%d segments=%d steps=%d reconciles=%d faults_hit=%d env_applied=%d env_skipped=%d ticks=%d restarts=%d "+
		"runs_reaching_evict=%d evicts_after_preemption=%d evict_requests_failed=%d succeeded=%d failed_by{%s} calls{%s}\n", nscripts, st.segs, st.steps,
		st.reconciles, st.faultsHit, st.envApplied, st.envSkipped, st.ticks, st.restarts, st.evictRuns, st.preemptEvicts, st.evictFailed,
		st.succeeded, strings.Join(rs, " "), strings.Join(cs, " "))
}
