package elasticquota

// Verification harness for C15 (injected by `go test -overlay`, see /verif/DESIGN.md).
// Executor + recorder only: replays request scripts on the real quotaTopology and logs, after
// every request, the verdict and the projection of the recorded topology. No oracle here.

import (
	"context"
	"encoding/json"
	"fmt"
	"math/rand"
	"sort"
	"sync/atomic"
	"testing"
	"time"

	corev1 "k8s.io/api/core/v1"
	"k8s.io/apimachinery/pkg/api/resource"
	"sigs.k8s.io/controller-runtime/pkg/client"
	"sigs.k8s.io/controller-runtime/pkg/client/fake"

	"sigs.k8s.io/controller-runtime/pkg/client/interceptor"

	"github.com/koordinator-sh/koordinator/apis/extension"
	"github.com/koordinator-sh/koordinator/apis/thirdparty/scheduler-plugins/pkg/apis/scheduling/v1alpha1"
	vu "github.com/koordinator-sh/koordinator/pkg/verifutil"
)

type c15Op struct {
	Op       string          `json:"op"`
	Name     string          `json:"name,omitempty"`
	Parent   string          `json:"parent,omitempty"`
	IsParent bool            `json:"isParent,omitempty"`
	Tree     string          `json:"tree,omitempty"`
	Min      json.RawMessage `json:"min,omitempty"`
	Max      json.RawMessage `json:"max,omitempty"`
	Ns       []string        `json:"ns,omitempty"`
	Has      bool            `json:"has,omitempty"`
	A        *c15Op          `json:"a,omitempty"` // race: the deletion
	B        *c15Op          `json:"b,omitempty"` // race: the request that arrives while the deletion lists the pods
}

func c15RL(raw json.RawMessage) (corev1.ResourceList, map[string]int64) {
	m := map[string]int64{}
	if len(raw) > 0 && raw[0] == '{' {
		if err := json.Unmarshal(raw, &m); err != nil {
			panic(err)
		}
	}
	rl := corev1.ResourceList{}
	for k, v := range m {
		rl[corev1.ResourceName(k)] = *resource.NewQuantity(v, resource.DecimalSI)
	}
	return rl, m
}

func c15Quota(o c15Op) *v1alpha1.ElasticQuota {
	q := MakeQuota(o.Name).ParentName(o.Parent).IsParent(o.IsParent).Obj()
	if o.Tree != "" {
		q.Labels[extension.LabelQuotaTreeID] = o.Tree
	}
	q.Spec.Min, _ = c15RL(o.Min)
	q.Spec.Max, _ = c15RL(o.Max)
	if len(o.Ns) > 0 {
		b, _ := json.Marshal(o.Ns)
		q.Annotations[extension.AnnotationQuotaNamespaces] = string(b)
	}
	return q
}

func c15RLObs(rl corev1.ResourceList) map[string]int64 {
	m := map[string]int64{}
	for k, v := range rl {
		m[string(k)] = v.Value()
	}
	return m
}

// projection of the recorded topology onto the spec variables
func c15Obs(qt *quotaTopology) vu.Ev {
	s := qt.getQuotaTopologyInfo()
	info := map[string]interface{}{}
	qt.lock.RLock()
	for n, qi := range qt.quotaInfoMap {
		info[n] = vu.Ev{"parent": qi.ParentName, "isParent": qi.IsParent, "tree": qi.TreeID,
			"min": c15RLObs(s.QuotaInfoMap[n].Min), "max": c15RLObs(s.QuotaInfoMap[n].Max)}
	}
	nsmap := map[string]string{}
	for k, v := range qt.namespaceToQuotaMap {
		nsmap[k] = v
	}
	qt.lock.RUnlock()
	children := map[string][]string{}
	for p, cs := range s.QuotaHierarchyInfo {
		c := append([]string{}, cs...)
		sort.Strings(c)
		children[p] = c
	}
	return vu.Ev{"info": info, "children": children, "nsmap": nsmap}
}

func c15Run(rec *vu.Recorder, script []c15Op) {
	var onList atomic.Value // func(): called from inside the webhook's pod List (schedule control for race ops)
	cl := fake.NewClientBuilder().WithIndex(&corev1.Pod{}, "label.quotaName", func(object client.Object) []string {
		return []string{object.(*corev1.Pod).Labels[extension.LabelQuotaName]}
	}).WithInterceptorFuncs(interceptor.Funcs{
		List: func(ctx context.Context, c client.WithWatch, list client.ObjectList, opts ...client.ListOption) error {
			if f, _ := onList.Load().(func()); f != nil {
				f()
			}
			return c.List(ctx, list, opts...)
		},
	}).Build()
	v1alpha1.AddToScheme(cl.Scheme())
	qt := NewQuotaTopology(cl)
	store := map[string]*v1alpha1.ElasticQuota{} // the "API server": last admitted object per name
	// one request through the webhook; returns the verdict and, if admitted, what to do to the store
	request := func(o c15Op) (bool, func()) {
		switch o.Op {
		case "create":
			q := c15Quota(o)
			err := qt.ValidAddQuota(q)
			return err == nil, func() { store[o.Name] = q }
		case "update":
			q := c15Quota(o)
			old := store[o.Name]
			if old == nil {
				old = &v1alpha1.ElasticQuota{}
				old.Name = o.Name
			}
			err := qt.ValidUpdateQuota(old.DeepCopy(), q)
			return err == nil, func() { store[o.Name] = q }
		case "delete":
			q := store[o.Name]
			if q == nil {
				q = MakeQuota(o.Name).Obj()
			}
			err := qt.ValidDeleteQuota(q.DeepCopy())
			return err == nil, func() { delete(store, o.Name) }
		}
		panic("not a request: " + o.Op)
	}
	echo := func(o c15Op, accepted bool) vu.Ev {
		ns := o.Ns
		if ns == nil {
			ns = []string{}
		}
		ev := vu.Ev{"op": o.Op, "name": o.Name, "accepted": accepted}
		if o.Op != "delete" {
			_, mn := c15RL(o.Min)
			_, mx := c15RL(o.Max)
			ev["parent"], ev["isParent"], ev["tree"], ev["min"], ev["max"], ev["ns"] = o.Parent, o.IsParent, o.Tree, mn, mx, ns
		}
		return ev
	}
	rec.Reset(nil)
	for _, o := range script {
		if o.Op == "reset" {
			continue
		}
		if o.Op == "race" {
			// request B arrives while deletion A is listing the pods of its quota; on a webhook that holds its lock over
			// the whole deletion B simply waits (the gate gives up after 40 ms and lets A go on)
			var accB bool
			var commitB func()
			doneB := make(chan struct{})
			fired := false
			onList.Store(func() {
				if fired {
					return
				}
				fired = true
				go func() {
					accB, commitB = request(*o.B)
					close(doneB)
				}()
				select {
				case <-doneB:
				case <-time.After(40 * time.Millisecond):
				}
			})
			accA, commitA := request(*o.A)
			onList.Store((func())(nil))
			if !fired { // A was refused before it looked at the pods: B follows normally
				accB, commitB = request(*o.B)
			} else {
				<-doneB
			}
			if accA {
				commitA()
			}
			if accB {
				commitB()
			}
			rec.Emit(vu.Ev{"op": "race", "a": echo(*o.A, accA), "b": echo(*o.B, accB), "obs": c15Obs(qt)})
			continue
		}
		ns := o.Ns
		if ns == nil {
			ns = []string{}
		}
		ev := vu.Ev{"op": o.Op, "name": o.Name}
		switch o.Op {
		case "create", "update":
			q := c15Quota(o)
			_, mn := c15RL(o.Min)
			_, mx := c15RL(o.Max)
			ev["parent"], ev["isParent"], ev["tree"], ev["min"], ev["max"], ev["ns"] = o.Parent, o.IsParent, o.Tree, mn, mx, ns
			var err error
			panicked, msg := vu.Protect(func() {
				if o.Op == "create" {
					err = qt.ValidAddQuota(q)
				} else {
					old := store[o.Name]
					if old == nil {
						old = &v1alpha1.ElasticQuota{}
						old.Name = o.Name
					}
					err = qt.ValidUpdateQuota(old.DeepCopy(), q)
				}
			})
			if panicked { // the webhook itself crashed on the request: recorded, the segment ends here
				ev["accepted"], ev["panic"] = false, msg
				rec.Emit(ev)
				return
			}
			ev["accepted"] = err == nil
			if err == nil {
				store[o.Name] = q
			}
		case "delete":
			q := store[o.Name]
			if q == nil {
				q = MakeQuota(o.Name).Obj()
			}
			err := qt.ValidDeleteQuota(q.DeepCopy())
			ev["accepted"] = err == nil
			if err == nil {
				delete(store, o.Name)
			}
		case "pods":
			ev["has"] = o.Has
			pod := MakePod("default", "pod-of-"+o.Name).Label(extension.LabelQuotaName, o.Name).Obj()
			if o.Has {
				if err := cl.Create(context.TODO(), pod); err != nil {
					panic(err)
				}
			} else {
				if err := cl.Delete(context.TODO(), pod); err != nil {
					panic(err)
				}
			}
		default:
			panic("unknown op " + o.Op)
		}
		ev["obs"] = c15Obs(qt)
		rec.Emit(ev)
	}
}

// random driver: requests biased towards acceptable ones, with near-miss variations
func c15Random(rng *rand.Rand, n int) []c15Op {
	names := []string{"a", "b", "c", "d", "e", "f"}
	type st struct {
		parent   string
		isParent bool
	}
	live := map[string]st{}
	hasPods := map[string]bool{}
	rl := func(cpu, mem int64, withMem bool) json.RawMessage {
		m := map[string]int64{}
		if cpu >= 0 {
			m["cpu"] = cpu
		}
		if withMem && mem >= 0 {
			m["memory"] = mem
		}
		b, _ := json.Marshal(m)
		return b
	}
	var out []c15Op
	for i := 0; i < n; i++ {
		name := names[rng.Intn(len(names))]
		if rng.Intn(12) == 0 { // the groups koordinator ships with are quota objects like any other for the webhook
			name = []string{extension.DefaultQuotaName, extension.SystemQuotaName}[rng.Intn(2)]
		}
		_, isLive := live[name]
		k := rng.Intn(10)
		switch {
		case isLive && k == 0:
			out = append(out, c15Op{Op: "delete", Name: name})
			// shadow only steers generation; it may be wrong (then requests are simply rejected)
			hasKids := false
			for _, s := range live {
				if s.parent == name {
					hasKids = true
				}
			}
			if !hasKids && !hasPods[name] {
				delete(live, name)
			}
		case isLive && k == 2 && live[name].isParent && rng.Intn(2) == 0:
			// a child is created under (or a quota is moved under) `name` while the deletion of `name` lists its pods
			var free []string
			for _, n2 := range names {
				if _, l := live[n2]; !l {
					free = append(free, n2)
				}
			}
			if len(free) == 0 {
				continue
			}
			child := free[rng.Intn(len(free))]
			b := c15Op{Op: "create", Name: child, Parent: name, IsParent: false, Min: rl(0, 0, true), Max: rl(4, 4, true)}
			out = append(out, c15Op{Op: "race", A: &c15Op{Op: "delete", Name: name}, B: &b})
			// shadow: one of them wins; the next requests find out
			if rng.Intn(2) == 0 {
				delete(live, name)
			} else {
				live[child] = st{parent: name}
			}
		case isLive && k == 1:
			hasPods[name] = !hasPods[name]
			out = append(out, c15Op{Op: "pods", Name: name, Has: hasPods[name]})
		default:
			parent := extension.RootQuotaName
			var cands []string
			for n2, s := range live {
				if s.isParent || rng.Intn(6) == 0 {
					cands = append(cands, n2)
				}
			}
			sort.Strings(cands)
			if len(cands) > 0 && rng.Intn(3) > 0 {
				parent = cands[rng.Intn(len(cands))]
			}
			if rng.Intn(12) == 0 { // any name: itself, a quota that does not exist, a leaf
				parent = names[rng.Intn(len(names))]
			}
			withMem := rng.Intn(4) > 0
			max := int64(4 + rng.Intn(3)*4)
			min := int64(rng.Intn(4))
			if rng.Intn(8) == 0 {
				min = max + 1
			}
			o := c15Op{Name: name, Parent: parent, IsParent: rng.Intn(2) == 0, Min: rl(min, min, withMem && rng.Intn(5) > 0), Max: rl(max, max, withMem)}
			if rng.Intn(5) == 0 {
				o.Min = rl(-1, -1, false)
			}
			if !withMem && rng.Intn(5) == 0 { // min declares a dimension max lacks, with an explicit zero
				o.Min = rl(min, 0, true)
			}
			if rng.Intn(6) == 0 {
				o.Tree = "t1"
			}
			if rng.Intn(4) == 0 {
				o.Ns = []string{fmt.Sprintf("n%d", 1+rng.Intn(3))}
				if rng.Intn(3) == 0 {
					o.Ns = append(o.Ns, fmt.Sprintf("n%d", 1+rng.Intn(3)))
				}
				sort.Strings(o.Ns)
				if len(o.Ns) == 2 && o.Ns[0] == o.Ns[1] {
					o.Ns = o.Ns[:1]
				}
			}
			if isLive {
				o.Op = "update"
			} else {
				o.Op = "create"
			}
			out = append(out, o)
			live[name] = st{parent: parent, isParent: o.IsParent} // optimistic shadow
		}
	}
	return out
}

func TestVerifC15(t *testing.T) {
	if !vu.Enabled() {
		t.Skip("verification harness: VERIF_OUT not set")
	}
	rec := vu.NewRecorder("")
	defer rec.Close()
	path := vu.ScriptPath()
	if vu.ReplayPath() != "" {
		path = vu.ReplayPath()
	}
	for _, raw := range vu.ReadScripts(path) {
		var script []c15Op
		if err := json.Unmarshal(raw, &script); err != nil {
			t.Fatal(err)
		}
		c15Run(rec, script)
	}
	if vu.ReplayPath() != "" {
		return
	}
	n, length := 300, 25
	if vu.Thorough() {
		n, length = 3000, 40
	}
	rng := vu.Rand(15)
	for i := 0; i < n; i++ {
		c15Run(rec, c15Random(rng, length))
	}
	t.Logf("C15: %d segments, %d events", rec.Segments(), rec.Events())
}
