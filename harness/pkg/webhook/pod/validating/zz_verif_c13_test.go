package validating

// Verification harness for C13, ADMIT half (injected by `go test -overlay`, see /verif/DESIGN.md).
// Executor + recorder only: builds REAL pods from abstract cases (enumerated table + seeded random),
// asks the REAL clusterColocationProfileValidatingPod for its verdict and logs
//
//	reset   {kind:"admit", opn, old: POD, new: POD, raw: the case (replay script)}
//	verdict {allowed, reason}
//
// POD is the projection of the real pod object onto the abstract pod of specs/PodAdmission/PodAdmission.tla
// (field reads only, see c13Abs). No oracle here: TLC decides with AdmitOK.

import (
	"context"
	"encoding/json"
	"fmt"
	"math/rand"
	"testing"

	admissionv1 "k8s.io/api/admission/v1"
	corev1 "k8s.io/api/core/v1"
	"k8s.io/apimachinery/pkg/api/resource"
	metav1 "k8s.io/apimachinery/pkg/apis/meta/v1"
	"k8s.io/apimachinery/pkg/runtime"
	"k8s.io/client-go/kubernetes/scheme"
	"k8s.io/utils/ptr"
	"sigs.k8s.io/controller-runtime/pkg/client/fake"
	"sigs.k8s.io/controller-runtime/pkg/webhook/admission"

	"github.com/koordinator-sh/koordinator/apis/extension"
	"github.com/koordinator-sh/koordinator/pkg/util"
	vu "github.com/koordinator-sh/koordinator/pkg/verifutil"
)

// ---- abstract case (what a replay script carries) ----

type c13Cont struct {
	N   string            `json:"n"`
	Req map[string]string `json:"req,omitempty"` // short resource name -> quantity string
	Lim map[string]string `json:"lim,omitempty"`
}

type c13Raw struct {
	Qos  string            `json:"qos"`  // value of the QoS label, "-" = no label
	Pcl  string            `json:"pcl"`  // value of the priority-class label, "-" = no label
	Prio int               `json:"prio"` // spec.priority, -1 = nil
	Cs   []c13Cont         `json:"cs,omitempty"`
	Ics  []c13Cont         `json:"ics,omitempty"`
	Oh   map[string]string `json:"oh,omitempty"`
	Ann  string            `json:"ann,omitempty"` // raw extended-resource-spec annotation, "" = none
}

type c13AdmitCase struct {
	Opn string  `json:"opn"` // create | update
	Old *c13Raw `json:"old,omitempty"`
	New c13Raw  `json:"new"`
}

var c13ResName = map[string]corev1.ResourceName{
	"cpu": corev1.ResourceCPU, "memory": corev1.ResourceMemory,
	"batch-cpu": extension.BatchCPU, "batch-memory": extension.BatchMemory,
	"mid-cpu": extension.MidCPU, "mid-memory": extension.MidMemory,
}

func c13Short(n corev1.ResourceName) string {
	for s, full := range c13ResName {
		if full == n {
			return s
		}
	}
	return string(n)
}

func c13RL(m map[string]string) corev1.ResourceList {
	if m == nil {
		return nil
	}
	rl := corev1.ResourceList{}
	for k, v := range m {
		rl[c13ResName[k]] = resource.MustParse(v)
	}
	return rl
}

func c13Conts(cs []c13Cont) []corev1.Container {
	var out []corev1.Container
	for _, c := range cs {
		out = append(out, corev1.Container{Name: c.N, Resources: corev1.ResourceRequirements{Requests: c13RL(c.Req), Limits: c13RL(c.Lim)}})
	}
	return out
}

// c13Build makes the real pod of an abstract case.
func c13Build(r *c13Raw) *corev1.Pod {
	if r == nil {
		return nil
	}
	pod := &corev1.Pod{ObjectMeta: metav1.ObjectMeta{Namespace: "default", Name: "c13-pod"}}
	if r.Qos != "-" || r.Pcl != "-" {
		pod.Labels = map[string]string{}
		if r.Qos != "-" {
			pod.Labels[extension.LabelPodQoS] = r.Qos
		}
		if r.Pcl != "-" {
			pod.Labels[extension.LabelPodPriorityClass] = r.Pcl
		}
	}
	if r.Prio >= 0 {
		pod.Spec.Priority = ptr.To[int32](int32(r.Prio))
	}
	pod.Spec.Containers = c13Conts(r.Cs)
	pod.Spec.InitContainers = c13Conts(r.Ics)
	pod.Spec.Overhead = c13RL(r.Oh)
	if r.Ann != "" {
		pod.Annotations = map[string]string{extension.AnnotationExtendedResourceSpec: r.Ann}
	}
	return pod
}

// ---- projection of a real pod onto the abstract pod (field reads only) ----

// amount of a quantity as an integer: cpu in micro-cores, everything else the plain value;
// -2 if the quantity is not an integer in that unit.
func c13Amt(short string, q resource.Quantity) int64 {
	var v int64
	var back *resource.Quantity
	if short == "cpu" {
		v = q.ScaledValue(resource.Micro)
		back = resource.NewScaledQuantity(v, resource.Micro)
	} else {
		v = q.Value()
		back = resource.NewQuantity(v, resource.DecimalSI)
	}
	if back.Cmp(q) != 0 {
		return -2
	}
	if v >= 1<<31 {
		panic(fmt.Sprintf("c13: amount %s=%s does not fit TLC's integers (generator bug)", short, q.String()))
	}
	return v
}

func c13AbsRL(rl corev1.ResourceList) map[string]int64 {
	m := map[string]int64{}
	for k, q := range rl {
		s := c13Short(k)
		m[s] = c13Amt(s, q)
	}
	return m
}

func c13AbsConts(cs []corev1.Container) []vu.Ev {
	out := []vu.Ev{}
	for i := range cs {
		out = append(out, vu.Ev{"n": cs[i].Name, "req": c13AbsRL(cs[i].Resources.Requests), "lim": c13AbsRL(cs[i].Resources.Limits)})
	}
	return out
}

func c13Abs(pod *corev1.Pod) vu.Ev {
	if pod == nil {
		pod = &corev1.Pod{}
	}
	qos, pcl, prio := "-", "-", int64(-1)
	if v, ok := pod.Labels[extension.LabelPodQoS]; ok {
		qos = v
	}
	if v, ok := pod.Labels[extension.LabelPodPriorityClass]; ok {
		pcl = v
	}
	if pod.Spec.Priority != nil {
		prio = int64(*pod.Spec.Priority)
	}
	ann := map[string]vu.Ev{}
	spec, err := extension.GetExtendedResourceSpec(pod.Annotations)
	if err != nil {
		ann["!unparsable"] = vu.Ev{"req": map[string]int64{}, "lim": map[string]int64{}}
	} else {
		for n, c := range spec.Containers {
			ann[n] = vu.Ev{"req": c13AbsRL(c.Requests), "lim": c13AbsRL(c.Limits)}
		}
	}
	return vu.Ev{"qos": qos, "pcl": pcl, "prio": prio,
		"cs": c13AbsConts(pod.Spec.Containers), "ics": c13AbsConts(pod.Spec.InitContainers),
		"oh": c13AbsRL(pod.Spec.Overhead), "ann": ann}
}

// ---- executor ----

type c13Admit struct {
	h                *PodValidatingHandler
	rec              *vu.Recorder
	allowed, refused int
}

func (a *c13Admit) run(c c13AdmitCase) {
	newPod := c13Build(&c.New)
	var oldPod *corev1.Pod
	op := admissionv1.Create
	if c.Opn == "update" {
		op = admissionv1.Update
		oldPod = c13Build(c.Old)
	}
	a.rec.Reset(vu.Ev{"kind": "admit", "opn": c.Opn, "old": c13Abs(oldPod), "new": c13Abs(newPod), "raw": c})
	var objRaw, oldRaw runtime.RawExtension
	objRaw = runtime.RawExtension{Raw: []byte(util.DumpJSON(newPod))}
	if oldPod != nil {
		oldRaw = runtime.RawExtension{Raw: []byte(util.DumpJSON(oldPod))}
	}
	req := admission.Request{AdmissionRequest: newAdmissionRequest(op, objRaw, oldRaw, "")}
	var allowed bool
	var reason string
	if panicked, msg := vu.Protect(func() {
		allowed, reason, _ = a.h.clusterColocationProfileValidatingPod(context.TODO(), req, newPod, oldPod)
	}); panicked {
		a.rec.Emit(vu.Ev{"op": "panic", "msg": msg})
		return
	}
	if len(reason) > 300 {
		reason = reason[:300]
	}
	if allowed {
		a.allowed++
	} else {
		a.refused++
	}
	a.rec.Emit(vu.Ev{"op": "verdict", "allowed": allowed, "reason": reason})
}

// ---- case generation ----

var (
	c13QoS   = []string{"-", "LSE", "LSR", "LS", "BE", "SYSTEM", "bogus"}
	c13Class = []string{"-", "koord-prod", "koord-mid", "koord-batch", "koord-free", "bogus"}
	c13Prios = []int{-1, 2999, 3000, 3999, 4000, 4999, 5000, 5999, 6000, 6999, 7000, 7999, 8000, 8999, 9000, 9999, 10000}
	// update pairs: reduced menus (both pods range over them)
	c13UQoS   = []string{"-", "LSR", "LS", "BE", "bogus"}
	c13UClass = []string{"-", "koord-prod", "koord-batch", "bogus"}
	c13UPrios = []int{-1, 4999, 5000, 5999, 6000, 8999, 9000, 9999, 10000}
)

func c13C(n string, req, lim map[string]string) c13Cont { return c13Cont{N: n, Req: req, Lim: lim} }

type c13Shape struct {
	Cs, Ics []c13Cont
	Oh      map[string]string
}

// resource shapes of the enumerated table (cpu amounts are milli-granular here: see the coverage limits in the report)
func c13AdmitShapes() []c13Shape {
	m := func(kv ...string) map[string]string {
		o := map[string]string{}
		for i := 0; i+1 < len(kv); i += 2 {
			o[kv[i]] = kv[i+1]
		}
		return o
	}
	one := func(req, lim map[string]string) []c13Cont { return []c13Cont{c13C("c1", req, lim)} }
	return []c13Shape{
		{Cs: one(nil, nil)},
		{Cs: one(m("cpu", "1", "memory", "1Gi"), m("cpu", "1", "memory", "1Gi"))},
		{Cs: one(m("cpu", "500m"), m("cpu", "1"))},
		{Cs: one(m("cpu", "1500m"), nil)},
		{Cs: []c13Cont{c13C("c1", m("cpu", "500m"), nil), c13C("c2", m("cpu", "1500m"), nil)}}, // 2 whole CPUs in total
		{Cs: []c13Cont{c13C("c1", m("cpu", "1"), nil), c13C("c2", m("cpu", "250m"), nil)}},
		{Cs: one(m("cpu", "1"), nil), Ics: []c13Cont{c13C("i1", m("cpu", "2500m"), nil)}}, // init container decides: fractional
		{Cs: one(m("cpu", "1500m"), nil), Ics: []c13Cont{c13C("i1", m("cpu", "2"), nil)}}, // init container decides: whole
		{Cs: one(m("cpu", "1"), nil), Oh: m("cpu", "500m")},                                // overhead makes it fractional
		{Cs: one(m("cpu", "500m"), nil), Oh: m("cpu", "500m")},                             // overhead makes it whole
		{Cs: one(m("batch-cpu", "1000", "batch-memory", "1Gi"), m("batch-cpu", "1000", "batch-memory", "1Gi"))},
		{Cs: one(m("batch-memory", "1Ki"), nil)},
		{Cs: one(m("batch-cpu", "0", "batch-memory", "0"), m("batch-cpu", "0", "batch-memory", "0"))},
		{Cs: one(nil, nil), Ics: []c13Cont{c13C("i1", m("batch-cpu", "500"), nil)}},
		{Cs: one(nil, nil), Oh: m("batch-cpu", "1")},
		{Cs: []c13Cont{c13C("c1", m("cpu", "1"), nil), c13C("c2", m("batch-cpu", "1"), nil)}},
		{Cs: one(m("cpu", "2", "mid-cpu", "1000", "mid-memory", "1Ki"), nil)},
		{Cs: one(m("cpu", "0"), nil)},
		{Cs: one(nil, m("cpu", "1"))},
		{Cs: one(nil, m("batch-cpu", "1000"))},
		{Cs: one(m("cpu", "3", "batch-cpu", "0"), nil), Ics: []c13Cont{c13C("i1", m("cpu", "1"), nil), c13C("i2", m("cpu", "3"), nil)}},
	}
}

func c13RandRL(rng *rand.Rand, menu map[string][]string, density int) map[string]string {
	var o map[string]string
	for _, k := range []string{"cpu", "memory", "batch-cpu", "batch-memory", "mid-cpu", "mid-memory"} {
		vs := menu[k]
		if len(vs) == 0 || rng.Intn(100) >= density {
			continue
		}
		if o == nil {
			o = map[string]string{}
		}
		o[k] = vs[rng.Intn(len(vs))]
	}
	return o
}

var c13AdmitMenu = map[string][]string{
	"cpu":          {"0", "1m", "250m", "500m", "999m", "1", "1001m", "1500m", "2", "3", "0.5", "1.5", "2000m", "4", "3000m", "750m", "1250m"},
	"memory":       {"0", "1Ki", "1Gi", "512Mi", "1k"},
	"batch-cpu":    {"0", "1", "500", "1000", "1500"},
	"batch-memory": {"0", "1", "1Ki", "1Mi"}, // summed by the specification: keep every sum below 2^31
	"mid-cpu":      {"0", "1000"},
	"mid-memory":   {"1Mi"},
}

func c13RandAdmitPod(rng *rand.Rand) c13Raw {
	p := c13Raw{Qos: c13QoS[rng.Intn(len(c13QoS))], Pcl: "-", Prio: c13Prios[rng.Intn(len(c13Prios))]}
	if rng.Intn(3) == 0 {
		p.Pcl = c13Class[rng.Intn(len(c13Class))]
	}
	if rng.Intn(5) == 0 {
		p.Prio = rng.Intn(11000) // between the boundaries too
	}
	// most pods are plain cpu pods; some carry batch / mid resources
	menu := map[string][]string{"cpu": c13AdmitMenu["cpu"], "memory": c13AdmitMenu["memory"]}
	if rng.Intn(3) == 0 {
		menu = c13AdmitMenu
	}
	dens := []int{35, 60, 85}[rng.Intn(3)]
	for i, n := 0, 1+rng.Intn(3); i < n; i++ {
		p.Cs = append(p.Cs, c13C(fmt.Sprintf("c%d", i+1), c13RandRL(rng, menu, dens), c13RandRL(rng, menu, dens/2)))
	}
	for i, n := 0, rng.Intn(3); i < n && rng.Intn(2) == 0; i++ {
		p.Ics = append(p.Ics, c13C(fmt.Sprintf("i%d", i+1), c13RandRL(rng, menu, dens), nil))
	}
	if rng.Intn(4) == 0 {
		p.Oh = c13RandRL(rng, menu, 40)
	}
	return p
}

func TestVerifC13(t *testing.T) {
	if !vu.Enabled() {
		t.Skip("verification harness: VERIF_OUT not set")
	}
	rec := vu.NewRecorder("")
	defer rec.Close()
	a := &c13Admit{rec: rec, h: &PodValidatingHandler{Client: fake.NewClientBuilder().Build(), Decoder: admission.NewDecoder(scheme.Scheme)}}

	if p := vu.ReplayPath(); p != "" {
		for _, raw := range vu.ReadScripts(p) {
			var seg []struct {
				Op  string       `json:"op"`
				Raw c13AdmitCase `json:"raw"`
			}
			if err := json.Unmarshal(raw, &seg); err != nil || len(seg) == 0 || seg[0].Op != "reset" {
				t.Fatalf("bad replay script: %v", err)
			}
			a.run(seg[0].Raw)
		}
		return
	}

	rng := vu.Rand(13)
	pick := vu.Rand(131) // seed-dependent sampling of the enumerated tables in the quick tier (thorough: everything)
	// (a) CREATE: every QoS label x priority-class label x spec.priority boundary value x resource shape
	shapes := c13AdmitShapes()
	stride := 3
	if vu.Thorough() {
		stride = 1
	}
	for _, q := range c13QoS {
		for _, c := range c13Class {
			for _, pr := range c13Prios {
				for _, sh := range shapes {
					if stride > 1 && pick.Intn(stride) != 0 {
						continue
					}
					a.run(c13AdmitCase{Opn: "create", New: c13Raw{Qos: q, Pcl: c, Prio: pr, Cs: sh.Cs, Ics: sh.Ics, Oh: sh.Oh}})
				}
			}
		}
	}
	// (b) UPDATE: every pair of label settings (reduced menus), resources unchanged (1 whole CPU)
	stride = 8
	if vu.Thorough() {
		stride = 1
	}
	cs := shapes[1].Cs
	for _, q0 := range c13UQoS {
		for _, c0 := range c13UClass {
			for _, p0 := range c13UPrios {
				for _, q1 := range c13UQoS {
					for _, c1 := range c13UClass {
						for _, p1 := range c13UPrios {
							if stride > 1 && pick.Intn(stride) != 0 {
								continue
							}
							a.run(c13AdmitCase{Opn: "update", Old: &c13Raw{Qos: q0, Pcl: c0, Prio: p0, Cs: cs}, New: c13Raw{Qos: q1, Pcl: c1, Prio: p1, Cs: cs}})
						}
					}
				}
			}
		}
	}
	// (b') UPDATE across every pair of neighbouring boundary values, both directions, every QoS label (never sampled),
	// and the same class stated once by label and once by value
	for _, q := range c13QoS {
		for i := 0; i+1 < len(c13Prios); i++ {
			for _, d := range [][2]int{{i, i + 1}, {i + 1, i}} {
				a.run(c13AdmitCase{Opn: "update", Old: &c13Raw{Qos: q, Pcl: "-", Prio: c13Prios[d[0]], Cs: cs}, New: c13Raw{Qos: q, Pcl: "-", Prio: c13Prios[d[1]], Cs: cs}})
			}
		}
		for _, lv := range []struct {
			l string
			v int
		}{{"koord-prod", 9000}, {"koord-mid", 7999}, {"koord-batch", 5000}, {"koord-free", 3999}, {"bogus", 6500}, {"koord-mid", 8000}} {
			a.run(c13AdmitCase{Opn: "update", Old: &c13Raw{Qos: q, Pcl: lv.l, Prio: -1, Cs: cs}, New: c13Raw{Qos: q, Pcl: "-", Prio: lv.v, Cs: cs}})
		}
	}
	// (c) seeded random pods: 1-3 containers, init containers, overhead, create and update
	nrand := 2500
	if vu.Thorough() {
		nrand = 60000
	}
	for i := 0; i < nrand; i++ {
		p := c13RandAdmitPod(rng)
		if rng.Intn(3) != 0 {
			a.run(c13AdmitCase{Opn: "create", New: p})
			continue
		}
		old := p
		switch rng.Intn(6) { // an update usually keeps the labels; sometimes it moves one of them
		case 0:
			old.Qos = c13QoS[rng.Intn(len(c13QoS))]
		case 1:
			old.Pcl = c13Class[rng.Intn(len(c13Class))]
		case 2:
			old.Prio = c13Prios[rng.Intn(len(c13Prios))]
		case 3:
			if old.Prio >= 0 {
				old.Prio += []int{-1, 1}[rng.Intn(2)] // a neighbouring value: same band unless at a boundary
				if old.Prio < 0 {
					old.Prio = 0
				}
			}
		}
		a.run(c13AdmitCase{Opn: "update", Old: &old, New: p})
	}
	t.Logf("C13 admit: %d segments, %d allowed, %d refused", rec.Segments(), a.allowed, a.refused)
	if a.allowed == 0 || a.refused == 0 {
		t.Fatalf("vacuous run: %d allowed, %d refused", a.allowed, a.refused)
	}
}
