package mutating

// Verification harness for C13, TRANSLATE half (injected by `go test -overlay`, see /verif/DESIGN.md).
// Executor + recorder only: builds REAL pods from abstract cases (enumerated table + seeded random), runs the REAL
// handleCreate of the pod mutating webhook (= clusterColocationProfileMutatingPod, then extendedResourceSpecMutatingPod,
// then two mutators that are inert for these pods: multi-quota-tree affinity is feature-gated off, the device mutator
// only looks at GPU resources) against a fake client holding a fixed universe of ClusterColocationProfiles (the case
// says which of them select the pod), then admits the result a second time (after a JSON round trip, as a re-invoked
// webhook would see it) and logs
//
//	reset   {kind:"mutate", opn:"create", pod: POD, match: [profile names], raw: the case (replay script)}
//	mutated {out: POD, out2: POD, m, again}     (m / again: the webhook's own "mutated" flags, report only)
//
// POD is the projection of the real pod object onto the abstract pod of specs/PodAdmission/PodAdmission.tla
// (field reads only, see c13Abs). No oracle here: TLC decides with MutateOK.

import (
	"context"
	"encoding/json"
	"fmt"
	"math/rand"
	"sort"
	"testing"

	admissionv1 "k8s.io/api/admission/v1"
	corev1 "k8s.io/api/core/v1"
	schedulingv1 "k8s.io/api/scheduling/v1"
	"k8s.io/apimachinery/pkg/api/resource"
	metav1 "k8s.io/apimachinery/pkg/apis/meta/v1"
	"k8s.io/apimachinery/pkg/runtime"
	"k8s.io/apimachinery/pkg/util/intstr"
	"k8s.io/client-go/kubernetes/scheme"
	"k8s.io/utils/ptr"
	"sigs.k8s.io/controller-runtime/pkg/client/fake"
	"sigs.k8s.io/controller-runtime/pkg/webhook/admission"

	configv1alpha1 "github.com/koordinator-sh/koordinator/apis/config/v1alpha1"
	"github.com/koordinator-sh/koordinator/apis/extension"
	vu "github.com/koordinator-sh/koordinator/pkg/verifutil"
)

// ---- abstract case (what a replay script carries) ----

type c13Cont struct {
	N   string            `json:"n"`
	Req map[string]string `json:"req,omitempty"` // short resource name -> quantity string
	Lim map[string]string `json:"lim,omitempty"`
}

type c13Raw struct {
	Qos  string            `json:"qos"`  // value of the QoS label, "-" = no label
	Pcl  string            `json:"pcl"`  // value of the priority-class label, "-" = no label
	Prio int               `json:"prio"` // spec.priority, -1 = nil
	Cs   []c13Cont         `json:"cs,omitempty"`
	Ics  []c13Cont         `json:"ics,omitempty"`
	Oh   map[string]string `json:"oh,omitempty"`
	Ann  string            `json:"ann,omitempty"` // raw extended-resource-spec annotation, "" = none
}

type c13MutCase struct {
	Opn   string   `json:"opn"`   // create (the webhook does not mutate on update)
	Pod   c13Raw   `json:"pod"`   //
	Match []string `json:"match,omitempty"` // profiles whose object selector selects the pod
	Ns    string   `json:"ns"`    // c13-plain | c13-colo (the namespace selector of profile m-ns wants c13-colo)
}

var c13ResName = map[string]corev1.ResourceName{
	"cpu": corev1.ResourceCPU, "memory": corev1.ResourceMemory,
	"batch-cpu": extension.BatchCPU, "batch-memory": extension.BatchMemory,
	"mid-cpu": extension.MidCPU, "mid-memory": extension.MidMemory,
}

func c13Short(n corev1.ResourceName) string {
	for s, full := range c13ResName {
		if full == n {
			return s
		}
	}
	return string(n)
}

func c13RL(m map[string]string) corev1.ResourceList {
	if m == nil {
		return nil
	}
	rl := corev1.ResourceList{}
	for k, v := range m {
		rl[c13ResName[k]] = resource.MustParse(v)
	}
	return rl
}

func c13Conts(cs []c13Cont) []corev1.Container {
	var out []corev1.Container
	for _, c := range cs {
		out = append(out, corev1.Container{Name: c.N, Resources: corev1.ResourceRequirements{Requests: c13RL(c.Req), Limits: c13RL(c.Lim)}})
	}
	return out
}

const c13SelPrefix = "c13.verif/"

// c13Build makes the real pod of an abstract case.
func c13Build(c c13MutCase) *corev1.Pod {
	r := c.Pod
	pod := &corev1.Pod{ObjectMeta: metav1.ObjectMeta{Namespace: c.Ns, Name: "c13-pod"}}
	if r.Qos != "-" || r.Pcl != "-" || len(c.Match) > 0 {
		pod.Labels = map[string]string{}
		if r.Qos != "-" {
			pod.Labels[extension.LabelPodQoS] = r.Qos
		}
		if r.Pcl != "-" {
			pod.Labels[extension.LabelPodPriorityClass] = r.Pcl
		}
		for _, m := range c.Match {
			pod.Labels[c13SelPrefix+m] = "y"
		}
	}
	if r.Prio >= 0 {
		pod.Spec.Priority = ptr.To[int32](int32(r.Prio))
	}
	pod.Spec.Containers = c13Conts(r.Cs)
	pod.Spec.InitContainers = c13Conts(r.Ics)
	pod.Spec.Overhead = c13RL(r.Oh)
	if r.Ann != "" {
		pod.Annotations = map[string]string{extension.AnnotationExtendedResourceSpec: r.Ann}
	}
	return pod
}

// ---- projection of a real pod onto the abstract pod (field reads only) ----

// amount of a quantity as an integer: cpu in micro-cores, everything else the plain value;
// -2 if the quantity is not an integer in that unit.
func c13Amt(short string, q resource.Quantity) int64 {
	var v int64
	var back *resource.Quantity
	if short == "cpu" {
		v = q.ScaledValue(resource.Micro)
		back = resource.NewScaledQuantity(v, resource.Micro)
	} else {
		v = q.Value()
		back = resource.NewQuantity(v, resource.DecimalSI)
	}
	if back.Cmp(q) != 0 {
		return -2
	}
	if v >= 1<<31 {
		panic(fmt.Sprintf("c13: amount %s=%s does not fit TLC's integers (generator bug)", short, q.String()))
	}
	return v
}

func c13AbsRL(rl corev1.ResourceList) map[string]int64 {
	m := map[string]int64{}
	for k, q := range rl {
		s := c13Short(k)
		m[s] = c13Amt(s, q)
	}
	return m
}

func c13AbsConts(cs []corev1.Container) []vu.Ev {
	out := []vu.Ev{}
	for i := range cs {
		out = append(out, vu.Ev{"n": cs[i].Name, "req": c13AbsRL(cs[i].Resources.Requests), "lim": c13AbsRL(cs[i].Resources.Limits)})
	}
	return out
}

func c13Abs(pod *corev1.Pod) vu.Ev {
	qos, pcl, prio := "-", "-", int64(-1)
	if v, ok := pod.Labels[extension.LabelPodQoS]; ok {
		qos = v
	}
	if v, ok := pod.Labels[extension.LabelPodPriorityClass]; ok {
		pcl = v
	}
	if pod.Spec.Priority != nil {
		prio = int64(*pod.Spec.Priority)
	}
	ann := map[string]vu.Ev{}
	spec, err := extension.GetExtendedResourceSpec(pod.Annotations)
	if err != nil {
		ann["!unparsable"] = vu.Ev{"req": map[string]int64{}, "lim": map[string]int64{}}
	} else {
		for n, c := range spec.Containers {
			ann[n] = vu.Ev{"req": c13AbsRL(c.Requests), "lim": c13AbsRL(c.Limits)}
		}
	}
	return vu.Ev{"qos": qos, "pcl": pcl, "prio": prio,
		"cs": c13AbsConts(pod.Spec.Containers), "ics": c13AbsConts(pod.Spec.InitContainers),
		"oh": c13AbsRL(pod.Spec.Overhead), "ann": ann}
}

// ---- the profile universe (fixed; a case chooses which of them select its pod) ----

type c13Prof struct {
	name      string
	qos       string
	prioClass string            // PriorityClass object name
	labels    map[string]string //
	skip      bool              // config.koordinator.sh/skip-update-resources
	prob      *int              // probability in percent
	ns        bool              // additionally demands the namespace label
}

var c13PrioClasses = map[string]int32{"c13-batch": 5500, "c13-mid": 7000, "c13-prod": 9999, "c13-gap": 6500, "c13-free": 3999}

func c13Profiles() []c13Prof {
	return []c13Prof{
		{name: "a-noop"},
		{name: "b-qos-be", qos: "BE"},
		{name: "c-qos-ls", qos: "LS"},
		{name: "d-prio-batch", prioClass: "c13-batch"},
		{name: "e-prio-mid", prioClass: "c13-mid"},
		{name: "f-prio-prod", prioClass: "c13-prod"},
		{name: "g-prio-gap", prioClass: "c13-gap"},
		{name: "h-label-batch", labels: map[string]string{extension.LabelPodPriorityClass: "koord-batch"}},
		{name: "i-label-mid", labels: map[string]string{extension.LabelPodPriorityClass: "koord-mid"}},
		{name: "j-skip", skip: true},
		{name: "k-prob0", qos: "BE", prioClass: "c13-batch", prob: ptr.To(0)},
		{name: "l-prob100", qos: "BE", prob: ptr.To(100)},
		{name: "m-ns", ns: true},
		{name: "n-prio-free", prioClass: "c13-free"},
	}
}

func c13Handler(t *testing.T) *PodMutatingHandler {
	cl := fake.NewClientBuilder().Build()
	ctx := context.TODO()
	must := func(err error) {
		if err != nil {
			t.Fatalf("c13 fixture: %v", err)
		}
	}
	must(cl.Create(ctx, &corev1.Namespace{ObjectMeta: metav1.ObjectMeta{Name: "c13-plain"}}))
	must(cl.Create(ctx, &corev1.Namespace{ObjectMeta: metav1.ObjectMeta{Name: "c13-colo", Labels: map[string]string{"c13-ns": "colo"}}}))
	for n, v := range c13PrioClasses {
		must(cl.Create(ctx, &schedulingv1.PriorityClass{ObjectMeta: metav1.ObjectMeta{Name: n}, Value: v}))
	}
	for _, p := range c13Profiles() {
		o := &configv1alpha1.ClusterColocationProfile{ObjectMeta: metav1.ObjectMeta{Name: p.name}}
		o.Spec.Selector = &metav1.LabelSelector{MatchLabels: map[string]string{c13SelPrefix + p.name: "y"}}
		o.Spec.QoSClass = p.qos
		o.Spec.PriorityClassName = p.prioClass
		o.Spec.Labels = p.labels
		if p.skip {
			o.Annotations = map[string]string{extension.AnnotationSkipUpdateResource: "true"}
		}
		if p.prob != nil {
			s := intstr.FromInt(*p.prob)
			o.Spec.Probability = &s
		}
		if p.ns {
			o.Spec.NamespaceSelector = &metav1.LabelSelector{MatchLabels: map[string]string{"c13-ns": "colo"}}
		}
		must(cl.Create(ctx, o))
	}
	return &PodMutatingHandler{Client: cl, Decoder: admission.NewDecoder(scheme.Scheme)}
}

// ---- executor ----

type c13Mut struct {
	h                  *PodMutatingHandler
	rec                *vu.Recorder
	changed, unchanged int // by the webhook's own "mutated" flag (report only)
}

func (x *c13Mut) admit(pod *corev1.Pod) (bool, error) {
	req := newAdmission(admissionv1.Create, runtime.RawExtension{}, runtime.RawExtension{}, "")
	return x.h.handleCreate(context.TODO(), req, pod)
}

func (x *c13Mut) run(c c13MutCase) {
	sort.Strings(c.Match)
	c.Opn = "create"
	pod := c13Build(c)
	x.rec.Reset(vu.Ev{"kind": "mutate", "opn": c.Opn, "pod": c13Abs(pod), "match": append([]string{}, c.Match...), "raw": c})
	var ev vu.Ev
	if panicked, msg := vu.Protect(func() {
		m, err := x.admit(pod)
		if err != nil {
			ev = vu.Ev{"op": "error", "msg": err.Error()}
			return
		}
		out := c13Abs(pod)
		// admit the result again, as a re-invoked webhook would receive it
		b, err := json.Marshal(pod)
		if err != nil {
			ev = vu.Ev{"op": "error", "msg": err.Error()}
			return
		}
		pod2 := &corev1.Pod{}
		if err = json.Unmarshal(b, pod2); err != nil {
			ev = vu.Ev{"op": "error", "msg": err.Error()}
			return
		}
		again, err := x.admit(pod2)
		if err != nil {
			ev = vu.Ev{"op": "error", "msg": err.Error()}
			return
		}
		if m {
			x.changed++
		} else {
			x.unchanged++
		}
		ev = vu.Ev{"op": "mutated", "out": out, "out2": c13Abs(pod2), "m": m, "again": again}
	}); panicked {
		ev = vu.Ev{"op": "panic", "msg": msg}
	}
	x.rec.Emit(ev)
}

// ---- case generation ----

func c13M(kv ...string) map[string]string {
	o := map[string]string{}
	for i := 0; i+1 < len(kv); i += 2 {
		o[kv[i]] = kv[i+1]
	}
	return o
}

func c13C(n string, req, lim map[string]string) c13Cont { return c13Cont{N: n, Req: req, Lim: lim} }

type c13Shape struct {
	Cs, Ics []c13Cont
	Oh      map[string]string
	Ann     string
}

func c13MutShapes() []c13Shape {
	m := c13M
	one := func(req, lim map[string]string) []c13Cont { return []c13Cont{c13C("c1", req, lim)} }
	return []c13Shape{
		{Cs: one(nil, nil)},
		{Cs: one(m("cpu", "1", "memory", "1Gi"), m("cpu", "1", "memory", "1Gi"))},
		{Cs: one(m("cpu", "500m", "memory", "512Mi"), m("cpu", "1", "memory", "1Gi"))},
		{Cs: one(nil, m("cpu", "1500m", "memory", "1Gi"))},                                 // limits only
		{Cs: one(m("cpu", "0.0005"), nil)},                                                  // half a milli-core
		{Cs: one(m("cpu", "1m"), m("cpu", "1500u"))},                                        //
		{Cs: one(m("cpu", "999500u", "memory", "1"), m("cpu", "1000001u"))},                 //
		{Cs: one(m("cpu", "0", "memory", "0"), m("cpu", "0", "memory", "0"))},               // declared zeros
		{Cs: one(m("cpu", "1", "batch-cpu", "2000"), m("cpu", "1"))},                        // native and extended both declared
		{Cs: one(nil, m("batch-cpu", "1000", "batch-memory", "1Gi"))},                       // extended limits only
		{Cs: one(m("batch-cpu", "1000", "batch-memory", "1Gi"), m("batch-cpu", "1000", "batch-memory", "1Gi"))}, // already translated
		{Cs: one(m("mid-cpu", "1000", "mid-memory", "1Ki"), m("mid-cpu", "1000", "mid-memory", "1Ki"))},
		{Cs: []c13Cont{c13C("c1", m("cpu", "1"), nil), c13C("c2", nil, m("cpu", "250m", "memory", "1k"))}, Ics: []c13Cont{c13C("i1", m("cpu", "2", "memory", "1Ki"), m("cpu", "2"))}},
		{Cs: one(m("cpu", "1"), nil), Oh: m("cpu", "100m", "memory", "1Mi")},
		{Cs: one(nil, nil), Oh: m("cpu", "1500u")},
		{Cs: one(m("cpu", "1", "mid-cpu", "7"), m("mid-cpu", "500", "batch-memory", "5"))},
		{Cs: one(m("memory", "1k"), m("memory", "1.5Gi"))},
		{Cs: one(m("cpu", "2k"), m("cpu", "2k"))}, // 2000 cores
		{Cs: one(m("cpu", "1"), nil), Ann: `{"containers":{"c1":{"requests":{"kubernetes.io/batch-cpu":"9"}},"gone":{"limits":{"kubernetes.io/batch-memory":"1Ki"}}}}`}, // stale summary
		{Cs: one(m("batch-cpu", "1000"), m("batch-cpu", "1000")), Ann: `{"containers":{"c1":{"limits":{"kubernetes.io/batch-cpu":"1k"},"requests":{"kubernetes.io/batch-cpu":"1000"}}}}`},
		{Cs: []c13Cont{c13C("c1", m("cpu", "250m", "memory", "64Mi"), m("cpu", "250m", "memory", "64Mi")), c13C("c2", m("batch-cpu", "300"), m("batch-cpu", "300")), c13C("c3", nil, nil)},
			Ics: []c13Cont{c13C("i1", nil, m("batch-cpu", "100", "cpu", "100m"))}},
		{Cs: one(m("cpu", "100m"), m("memory", "1Gi"))},
	}
}

var c13MutMatches = []struct {
	ns    string
	match []string
}{
	{"c13-plain", nil},
	{"c13-plain", []string{"a-noop"}},
	{"c13-plain", []string{"j-skip"}},
	{"c13-plain", []string{"a-noop", "j-skip"}},
	{"c13-plain", []string{"b-qos-be"}},
	{"c13-plain", []string{"d-prio-batch"}},
	{"c13-plain", []string{"e-prio-mid", "h-label-batch"}},
	{"c13-plain", []string{"k-prob0"}},
	{"c13-plain", []string{"f-prio-prod"}},
	{"c13-plain", []string{"b-qos-be", "g-prio-gap"}},
	{"c13-plain", []string{"i-label-mid"}},
	{"c13-colo", []string{"m-ns"}},
	{"c13-plain", []string{"m-ns"}}, // selected by label but the namespace is not: no profile matches
	{"c13-plain", []string{"c-qos-ls", "l-prob100"}},
	{"c13-plain", []string{"n-prio-free"}},
}

var (
	c13QoS    = []string{"-", "LSE", "LSR", "LS", "BE", "SYSTEM", "bogus"}
	c13Class  = []string{"-", "koord-prod", "koord-mid", "koord-batch", "koord-free", "bogus"}
	c13Prios  = []int{-1, 2999, 3000, 3999, 4000, 4999, 5000, 5999, 6000, 6999, 7000, 7999, 8000, 8999, 9000, 9999, 10000}
	c13TQoS   = []string{"-", "BE", "LS", "LSR", "bogus"}
	c13TPrios = []int{-1, 4999, 5000, 5999, 6000, 6999, 7000, 7999, 8000, 8999, 9000}
)

var c13MutMenu = map[string][]string{
	"cpu":          {"0", "1u", "500u", "0.0005", "999u", "1m", "1001u", "1500u", "999500u", "100m", "250m", "0.5", "1", "1.5", "1000001u", "2", "16", "2k", "1e-3", "300m"},
	"memory":       {"0", "1", "1k", "1Ki", "1000Ki", "64Mi", "1Gi", "1.5Gi", "1e3", "100M", "1536Mi"},
	"batch-cpu":    {"0", "1", "500", "1000", "1k"},
	"batch-memory": {"0", "1", "1Ki", "1Gi"},
	"mid-cpu":      {"0", "1", "1000"},
	"mid-memory":   {"1", "1Mi"},
}

func c13RandRL(rng *rand.Rand, menu map[string][]string, density int) map[string]string {
	var o map[string]string
	for _, k := range []string{"cpu", "memory", "batch-cpu", "batch-memory", "mid-cpu", "mid-memory"} {
		vs := menu[k]
		if len(vs) == 0 || rng.Intn(100) >= density {
			continue
		}
		if o == nil {
			o = map[string]string{}
		}
		o[k] = vs[rng.Intn(len(vs))]
	}
	return o
}

func c13RandMutCase(rng *rand.Rand) c13MutCase {
	p := c13Raw{Qos: c13QoS[rng.Intn(len(c13QoS))], Pcl: "-", Prio: c13Prios[rng.Intn(len(c13Prios))]}
	switch rng.Intn(4) {
	case 0:
		p.Pcl = c13Class[rng.Intn(len(c13Class))]
	case 1: // mid / batch pods are the interesting ones
		p.Prio = []int{5000, 5500, 5999, 7000, 7500, 7999}[rng.Intn(6)]
	}
	if rng.Intn(8) == 0 {
		p.Prio = rng.Intn(11000)
	}
	menu := map[string][]string{"cpu": c13MutMenu["cpu"], "memory": c13MutMenu["memory"]}
	if rng.Intn(2) == 0 {
		menu = c13MutMenu
	}
	dens := []int{30, 55, 85}[rng.Intn(3)]
	for i, n := 0, 1+rng.Intn(3); i < n; i++ {
		req := c13RandRL(rng, menu, dens)
		lim := c13RandRL(rng, menu, dens)
		if rng.Intn(3) == 0 {
			lim = req // requests == limits, the common shape
		}
		p.Cs = append(p.Cs, c13C(fmt.Sprintf("c%d", i+1), req, lim))
	}
	for i, n := 0, rng.Intn(3); i < n && rng.Intn(2) == 0; i++ {
		p.Ics = append(p.Ics, c13C(fmt.Sprintf("i%d", i+1), c13RandRL(rng, menu, dens), c13RandRL(rng, menu, dens)))
	}
	if rng.Intn(4) == 0 {
		p.Oh = c13RandRL(rng, menu, 40)
	}
	if rng.Intn(10) == 0 {
		p.Ann = `{"containers":{"c1":{"requests":{"kubernetes.io/batch-cpu":"9"}},"c2":{"limits":{"kubernetes.io/batch-memory":"1Ki"}}}}`
	}
	c := c13MutCase{Opn: "create", Pod: p, Ns: "c13-plain"}
	if rng.Intn(5) == 0 {
		c.Ns = "c13-colo"
	}
	profs := c13Profiles()
	switch rng.Intn(6) {
	case 0: // nothing matches
	case 1, 2:
		c.Match = []string{"a-noop"}
	default:
		for i, n := 0, 1+rng.Intn(3); i < n; i++ {
			name := profs[rng.Intn(len(profs))].name
			dup := false
			for _, m := range c.Match {
				dup = dup || m == name
			}
			if !dup {
				c.Match = append(c.Match, name)
			}
		}
	}
	return c
}

func TestVerifC13(t *testing.T) {
	if !vu.Enabled() {
		t.Skip("verification harness: VERIF_OUT not set")
	}
	rec := vu.NewRecorder("")
	defer rec.Close()
	x := &c13Mut{rec: rec, h: c13Handler(t)}

	if p := vu.ReplayPath(); p != "" {
		for _, raw := range vu.ReadScripts(p) {
			var seg []struct {
				Op  string     `json:"op"`
				Raw c13MutCase `json:"raw"`
			}
			if err := json.Unmarshal(raw, &seg); err != nil || len(seg) == 0 || seg[0].Op != "reset" {
				t.Fatalf("bad replay script: %v", err)
			}
			x.run(seg[0].Raw)
		}
		return
	}

	rng := vu.Rand(1313)
	pick := vu.Rand(1317) // seed-dependent sampling of the enumerated table in the quick tier (thorough: everything)
	// (a) table: labels that decide the tier x sets of matching profiles x resource shapes
	shapes := c13MutShapes()
	stride := 24
	if vu.Thorough() {
		stride = 1
	}
	for _, q := range c13TQoS {
		for _, cl := range c13Class {
			for _, pr := range c13TPrios {
				for _, mt := range c13MutMatches {
					for _, sh := range shapes {
						if stride > 1 && pick.Intn(stride) != 0 {
							continue
						}
						x.run(c13MutCase{Opn: "create", Ns: mt.ns, Match: append([]string{}, mt.match...),
							Pod: c13Raw{Qos: q, Pcl: cl, Prio: pr, Cs: sh.Cs, Ics: sh.Ics, Oh: sh.Oh, Ann: sh.Ann}})
					}
				}
			}
		}
	}
	// (b) seeded random pods
	nrand := 2500
	if vu.Thorough() {
		nrand = 50000
	}
	for i := 0; i < nrand; i++ {
		x.run(c13RandMutCase(rng))
	}
	t.Logf("C13 mutate: %d segments, the webhook reported a change in %d, none in %d", rec.Segments(), x.changed, x.unchanged)
	if x.changed == 0 || x.unchanged == 0 {
		t.Fatalf("vacuous run: %d changed, %d unchanged", x.changed, x.unchanged)
	}
}
