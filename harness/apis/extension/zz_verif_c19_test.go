package extension

// Verification harness for C19 / codec law (injected by `go test -overlay`). Executor + recorder: writes
// TLC-enumerated abstract allocations with the real setters, reads them back with the real getters and logs
// both; TLC compares (specs/Restart/CodecTrace.tla). No oracle here.

import (
	"encoding/json"
	"fmt"
	"sort"
	"strconv"
	"strings"
	"testing"

	corev1 "k8s.io/api/core/v1"
	"k8s.io/apimachinery/pkg/api/resource"
	metav1 "k8s.io/apimachinery/pkg/apis/meta/v1"
	"k8s.io/apimachinery/pkg/types"

	schedulingv1alpha1 "github.com/koordinator-sh/koordinator/apis/scheduling/v1alpha1"
	vu "github.com/koordinator-sh/koordinator/pkg/verifutil"
)

type c19Numa struct {
	Node   int32 `json:"node"`
	CPU    int64 `json:"cpu"`
	Memory int64 `json:"memory"`
}
type c19RS struct {
	Cpus []int   `json:"cpus"`
	Numa []c19Numa `json:"numa"`
}
type c19Dev struct {
	Minor int32  `json:"minor"`
	Core  int64  `json:"core"`
	Mem   int64  `json:"mem"`
	ID    string `json:"id"`
}
type c19DA struct {
	GPU  []c19Dev `json:"gpu"`
	RDMA []c19Dev `json:"rdma"`
}
type c19RA struct {
	Name string `json:"name"`
	UID  string `json:"uid"`
}
type c19Op struct {
	Op   string          `json:"op"`
	Kind string          `json:"kind"`
	X    json.RawMessage `json:"x"`
}

func c19CPUString(cpus []int) string {
	s := make([]string, len(cpus))
	for i, c := range cpus {
		s[i] = strconv.Itoa(c)
	}
	return strings.Join(s, ",")
}

func c19ParseCPUs(s string) []int {
	out := []int{}
	if s == "" {
		return out
	}
	for _, f := range strings.Split(s, ",") {
		n, err := strconv.Atoi(f)
		if err != nil {
			panic(err)
		}
		out = append(out, n)
	}
	sort.Ints(out)
	return out
}

func c19ToRS(x c19RS) *ResourceStatus {
	rs := &ResourceStatus{CPUSet: c19CPUString(x.Cpus)}
	for _, n := range x.Numa {
		rs.NUMANodeResources = append(rs.NUMANodeResources, NUMANodeResource{Node: n.Node, Resources: corev1.ResourceList{
			corev1.ResourceCPU:    *resource.NewMilliQuantity(n.CPU, resource.DecimalSI),
			corev1.ResourceMemory: *resource.NewQuantity(n.Memory, resource.BinarySI),
		}})
	}
	return rs
}

func c19FromRS(rs *ResourceStatus) c19RS {
	out := c19RS{Cpus: c19ParseCPUs(rs.CPUSet), Numa: []c19Numa{}}
	for _, n := range rs.NUMANodeResources {
		cpu := n.Resources[corev1.ResourceCPU]
		mem := n.Resources[corev1.ResourceMemory]
		out.Numa = append(out.Numa, c19Numa{Node: n.Node, CPU: cpu.MilliValue(), Memory: mem.Value()})
	}
	return out
}

func c19ToDevs(l []c19Dev) []*DeviceAllocation {
	var out []*DeviceAllocation
	for _, d := range l {
		out = append(out, &DeviceAllocation{Minor: d.Minor, ID: d.ID, Resources: corev1.ResourceList{
			ResourceGPUCore:   *resource.NewQuantity(d.Core, resource.DecimalSI),
			ResourceGPUMemory: *resource.NewQuantity(d.Mem, resource.BinarySI),
		}})
	}
	return out
}

func c19FromDevs(l []*DeviceAllocation) []c19Dev {
	out := []c19Dev{}
	for _, d := range l {
		core := d.Resources[ResourceGPUCore]
		mem := d.Resources[ResourceGPUMemory]
		out = append(out, c19Dev{Minor: d.Minor, ID: d.ID, Core: core.Value(), Mem: mem.Value()})
	}
	return out
}

func c19ToDA(x c19DA) DeviceAllocations {
	da := DeviceAllocations{}
	if len(x.GPU) > 0 {
		da[schedulingv1alpha1.GPU] = c19ToDevs(x.GPU)
	}
	if len(x.RDMA) > 0 {
		da[schedulingv1alpha1.RDMA] = c19ToDevs(x.RDMA)
	}
	return da
}

func c19FromDA(da DeviceAllocations) c19DA {
	return c19DA{GPU: c19FromDevs(da[schedulingv1alpha1.GPU]), RDMA: c19FromDevs(da[schedulingv1alpha1.RDMA])}
}

func c19Roundtrip(o c19Op) vu.Ev {
	ev := vu.Ev{"op": "roundtrip", "kind": o.Kind, "err": ""}
	pod := &corev1.Pod{ObjectMeta: metav1.ObjectMeta{Name: "p", Namespace: "ns"}}
	fail := func(err error) vu.Ev { ev["err"] = fmt.Sprint(err); ev["y"], ev["y2"] = "?", "?"; return ev }
	switch o.Kind {
	case "rs":
		var x c19RS
		if err := json.Unmarshal(o.X, &x); err != nil {
			panic(err)
		}
		if x.Cpus == nil {
			x.Cpus = []int{}
		}
		if x.Numa == nil {
			x.Numa = []c19Numa{}
		}
		ev["x"] = x
		if err := SetResourceStatus(pod, c19ToRS(x)); err != nil {
			return fail(err)
		}
		got, err := GetResourceStatus(pod.Annotations)
		if err != nil {
			return fail(err)
		}
		ev["y"] = c19FromRS(got)
		if err := SetResourceStatus(pod, got); err != nil {
			return fail(err)
		}
		got2, err := GetResourceStatus(pod.Annotations)
		if err != nil {
			return fail(err)
		}
		ev["y2"] = c19FromRS(got2)
	case "da":
		var x c19DA
		if err := json.Unmarshal(o.X, &x); err != nil {
			panic(err)
		}
		if x.GPU == nil {
			x.GPU = []c19Dev{}
		}
		if x.RDMA == nil {
			x.RDMA = []c19Dev{}
		}
		ev["x"] = x
		if err := SetDeviceAllocations(pod, c19ToDA(x)); err != nil {
			return fail(err)
		}
		got, err := GetDeviceAllocations(pod.Annotations)
		if err != nil {
			return fail(err)
		}
		ev["y"] = c19FromDA(got)
		if err := SetDeviceAllocations(pod, got); err != nil {
			return fail(err)
		}
		got2, err := GetDeviceAllocations(pod.Annotations)
		if err != nil {
			return fail(err)
		}
		ev["y2"] = c19FromDA(got2)
	case "ra":
		var x c19RA
		if err := json.Unmarshal(o.X, &x); err != nil {
			panic(err)
		}
		ev["x"] = x
		r := &schedulingv1alpha1.Reservation{ObjectMeta: metav1.ObjectMeta{Name: x.Name, UID: types.UID(x.UID)}}
		SetReservationAllocated(pod, r)
		got, err := GetReservationAllocated(pod)
		if err != nil || got == nil {
			return fail(fmt.Errorf("read back: %v %v", got, err))
		}
		ev["y"] = c19RA{Name: got.Name, UID: string(got.UID)}
		r2 := &schedulingv1alpha1.Reservation{ObjectMeta: metav1.ObjectMeta{Name: got.Name, UID: got.UID}}
		SetReservationAllocated(pod, r2)
		got2, err := GetReservationAllocated(pod)
		if err != nil || got2 == nil {
			return fail(fmt.Errorf("read back: %v %v", got2, err))
		}
		ev["y2"] = c19RA{Name: got2.Name, UID: string(got2.UID)}
	default:
		panic("unknown kind " + o.Kind)
	}
	return ev
}

func TestVerifC19Codec(t *testing.T) {
	if !vu.Enabled() {
		t.Skip("verification harness: VERIF_OUT not set")
	}
	rec := vu.NewRecorder("")
	defer rec.Close()
	path := vu.ScriptPath()
	if vu.ReplayPath() != "" {
		path = vu.ReplayPath()
	}
	for _, raw := range vu.ReadScripts(path) {
		var script []c19Op
		if err := json.Unmarshal(raw, &script); err != nil {
			t.Fatal(err)
		}
		rec.Reset(nil)
		for _, o := range script[1:] {
			rec.Emit(c19Roundtrip(o))
		}
	}
	t.Logf("C19 codec: %d segments, %d events", rec.Segments(), rec.Events())
}
