#!/bin/sh
# builds libpfm.a stub into /verif/stubs/pfm/lib
set -e
d=$(cd "$(dirname "$0")" && pwd)
mkdir -p "$d/lib"
cc -c -O1 -I"$d/include" "$d/pfm_stub.c" -o "$d/lib/pfm_stub.o"
ar rcs "$d/lib/libpfm.a" "$d/lib/pfm_stub.o"
rm -f "$d/lib/pfm_stub.o"
